package main

import (
	"verif/checks/c08"
	"verif/mc"
)

func main() { mc.Main("C08", c08.Run, c08.Replay) }
