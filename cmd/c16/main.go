package main

import (
	"verif/checks/c16"
	"verif/mc"
)

func main() { mc.Main("C16", c16.Run, c16.Replay) }
