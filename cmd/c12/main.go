package main

import (
	"verif/checks/c12"
	"verif/mc"
)

func main() { mc.Main("C12", c12.Run, c12.Replay) }
