package main

import (
	"verif/checks/c03"
	"verif/mc"
)

func main() { mc.Main("C03", c03.Run, c03.Replay) }
