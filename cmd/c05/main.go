package main

import (
	"verif/checks/c05"
	"verif/mc"
)

func main() { mc.Main("C05", c05.Run, c05.Replay) }
