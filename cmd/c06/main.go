package main

import (
	"verif/checks/c06"
	"verif/mc"
)

func main() { mc.Main("C06", c06.Run, c06.Replay) }
