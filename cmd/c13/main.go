package main

import (
	"verif/checks/c13"
	"verif/mc"
)

func main() { mc.Main("C13", c13.Run, c13.Replay) }
