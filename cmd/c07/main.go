package main

import (
	"verif/checks/c07"
	"verif/mc"
)

func main() { mc.Main("C07", c07.Run, c07.Replay) }
