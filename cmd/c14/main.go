package main

import (
	"verif/checks/c14"
	"verif/mc"
)

func main() { mc.Main("C14", c14.Run, c14.Replay) }
