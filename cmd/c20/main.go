package main

import (
	"verif/checks/c20"
	"verif/mc"
)

func main() { mc.Main("C20", c20.Run, c20.Replay) }
