package main

import (
	"verif/checks/c01"
	"verif/mc"
)

func main() { mc.Main("C01", c01.Run, c01.Replay) }
