// c20race is the free-running pass of check C20; `go build -race` it (see checks/c20/race.go).
package main

import "verif/checks/c20"

func main() { c20.RaceMain() }
