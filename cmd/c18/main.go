package main

import (
	"verif/checks/c18"
	"verif/mc"
)

func main() { mc.Main("C18", c18.Run, c18.Replay) }
