package main

import (
	"verif/checks/c11"
	"verif/mc"
)

func main() { mc.Main("C11", c11.Run, c11.Replay) }
