package main

import (
	"verif/checks/c09"
	"verif/mc"
)

func main() { mc.Main("C09", c09.Run, c09.Replay) }
