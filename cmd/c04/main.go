package main

import (
	"verif/checks/c04"
	"verif/mc"
)

func main() { mc.Main("C04", c04.Run, c04.Replay) }
