package main

import (
	"verif/checks/c10"
	"verif/mc"
)

func main() { mc.Main("C10", c10.Run, c10.Replay) }
