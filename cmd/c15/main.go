package main

import (
	"verif/checks/c15"
	"verif/mc"
)

func main() { mc.Main("C15", c15.Run, c15.Replay) }
