package main

import (
	"verif/checks/c19"
	"verif/mc"
)

func main() { mc.Main("C19", c19.Run, c19.Replay) }
