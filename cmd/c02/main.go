package main

import (
	"verif/checks/c02"
	"verif/mc"
)

func main() { mc.Main("C02", c02.Run, c02.Replay) }
