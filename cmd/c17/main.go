package main

import (
	"verif/checks/c17"
	"verif/mc"
)

func main() { mc.Main("C17", c17.Run, c17.Replay) }
