package handshake

// Build-time stand-in (go build -overlay, see run.sh) for
// github.com/lucas-clemente/quic-go/internal/handshake/unsafe.go.
//
// The original file contains nothing but an init() self check that panics under
// the Go toolchain of this sandbox ("qtls.ConnectionState not compatible with
// tls.ConnectionState"), which kills every binary that links package p2p - and
// therefore package miner - before main.  The verification harness never opens
// a QUIC connection, so the check is left out.  Nothing of go-youchain and
// nothing in the module cache is modified.
