#!/bin/bash
# Offline setup: pre-build the binary of every check registered in MANIFEST.json (warms the Go build cache).
set -u
cd "$(dirname "$0")"
export GOFLAGS=-mod=mod GOPROXY=off GOSUMDB=off GOTOOLCHAIN=local
mkdir -p bin evidence replays
quic="$(go list -m -f '{{.Dir}}' github.com/lucas-clemente/quic-go 2>/dev/null)"
ovl=""
if [ -n "$quic" ] && [ -f "$quic/internal/handshake/unsafe.go" ]; then
  printf '{"Replace":{"%s":"%s"}}\n' "$quic/internal/handshake/unsafe.go" "$(pwd)/overlay/quic_handshake_unsafe_stub.go" > bin/overlay.json
  ovl="-overlay=bin/overlay.json"
fi
rc=0
for id in $(python3 -c "import json;print(' '.join(c['property_id'].lower() for c in json.load(open('MANIFEST.json'))['checks']))"); do
  go build $ovl -tags verif -o "bin/$id" "./cmd/$id" || rc=1
done
go build $ovl -race -tags verif -o bin/c20race ./cmd/c20race || rc=1
exit $rc
