#!/bin/bash
# Offline setup: pre-build the binary of every check registered in MANIFEST.json (warms the Go build cache).
set -u
cd "$(dirname "$0")"
export GOFLAGS=-mod=mod GOPROXY=off GOSUMDB=off GOTOOLCHAIN=local
mkdir -p bin evidence replays
rc=0
for id in $(python3 -c "import json;print(' '.join(c['property_id'].lower() for c in json.load(open('MANIFEST.json'))['checks']))"); do
  go build -tags verif -o "bin/$id" "./cmd/$id" || rc=1
done
go build -race -tags verif -o bin/c20race ./cmd/c20race || rc=1
exit $rc
