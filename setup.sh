#!/bin/bash
# Offline setup: pre-build every check binary (warms the Go build cache).
set -u
cd "$(dirname "$0")"
export GOFLAGS=-mod=mod GOPROXY=off GOSUMDB=off GOTOOLCHAIN=local
mkdir -p bin evidence replays
rc=0
for d in cmd/*/; do
  n="$(basename "$d")"
  go build -tags verif -o "bin/$n" "./cmd/$n" || rc=1
done
exit $rc
