// Package c09: reverting to a state snapshot restores exactly the snapshotted
// state.  Stateless DFS over ALL op sequences (mutations, Snapshot, Revert to
// any live snapshot, Finalise = transaction boundary) on the real StateDB.
package c09

import (
	"fmt"
	"math/big"
	"strings"

	"github.com/youchainhq/go-youchain/common"
	"github.com/youchainhq/go-youchain/core/state"
	"github.com/youchainhq/go-youchain/params"

	"verif/checks/stx"
	"verif/mc"
)

type snap struct {
	id    int
	obs   string
	opIdx int // number of ops applied when the snapshot was taken
}

// Sys is the StateDB driver.  alphabet selects the mutation menu.
type Sys struct {
	alphabet string
	twin     bool // twin instances (root recomputation) do no oracle work
	r        *mc.Run

	db    state.Database
	roots [3]common.Hash
	st    *state.StateDB
	snaps []snap
	hist  []string
	mut   stx.Mut
	dead  bool
	viols []mc.Violation
	ntx   int
}

func newSys(r *mc.Run, alphabet string) *Sys {
	s := &Sys{alphabet: alphabet, r: r}
	s.buildBase()
	return s
}

// buildBase commits the non-initial base state once per instance: A0 with
// balance/nonce/code/slot, delegator with balance, V0 online with a delegation
// from the delegator, V2 offline, one withdraw record.  A1 and V1 do not exist.
func (s *Sys) buildBase() {
	db, _ := stx.NewDB()
	st, err := state.New(common.Hash{}, common.Hash{}, common.Hash{}, db)
	if err != nil {
		panic(err)
	}
	st.AddBalance(stx.Acc[0], big.NewInt(100))
	st.SetNonce(stx.Acc[0], 3)
	st.SetCode(stx.Acc[0], []byte{0x60, 0x00})
	st.SetState(stx.Acc[0], stx.Slots[0], common.BigToHash(big.NewInt(7)))
	st.AddBalance(stx.Acc[2], stx.Tok(50, 0))
	stx.CreateVal(st, 0, stx.Tok(10, 7), params.ValidatorOnline)
	stx.CreateVal(st, 2, stx.Tok(4, 0), params.ValidatorOffline)
	st.UpdateDelegation(stx.Acc[2], st.GetValidatorByMainAddr(stx.ValAddr[0]), stx.Tok(2, 1))
	st.AddWithdrawRecord(stx.MkRecord(1000))
	r0, r1, r2, err := st.Commit(true)
	if err != nil {
		panic(err)
	}
	s.db, s.roots = db, [3]common.Hash{r0, r1, r2}
}

func (s *Sys) Reset() {
	st, err := state.New(s.roots[0], s.roots[1], s.roots[2], s.db)
	if err != nil {
		panic(err)
	}
	s.st, s.snaps, s.hist, s.mut, s.dead, s.viols, s.ntx = st, s.snaps[:0], s.hist[:0], stx.Mut{}, false, nil, 0
	st.Prepare(common.BigToHash(big.NewInt(1)), common.Hash{}, 0)
}

var menus = map[string][]string{
	"acct":  {"bal(A0)", "bal(A1)", "touch(A1)", "nonce(A0)", "store(A0)", "code(A1)", "suicide(A0)", "create(A1)", "log", "refund", "refund-", "preimage"},
	"val":   {"vcreate(V1)", "vdeposit(V0)", "vstatus(V0)", "vreward(V0)", "dlg+(V0)", "dlg-(V0)", "dlg+(V2)", "dlg-(V2)", "wadd", "wrem", "wremL"},
	"mixed": {"bal(A1)", "store(A0)", "suicide(A0)", "log", "vcreate(V1)", "vdeposit(V0)", "dlg+(V0)", "dlg-(V0)", "wadd"},
	// one storage slot across transactions: current value vs. value finalised by an earlier tx vs. value on disk
	"slot": {"store(A0)", "store7(A0)", "store0(A0)"},
	// only what an EVM transaction can do: the shape every tx >= 2 of a block has
	"evm": {"bal(A1)", "store(A0)", "log", "suicide(A0)"},
}

func (s *Sys) Enabled() []string {
	if s.dead {
		return nil
	}
	ops := append([]string{}, menus[s.alphabet]...)
	if len(s.snaps) < 3 {
		ops = append(ops, "snap")
	}
	for k := range s.snaps {
		ops = append(ops, fmt.Sprintf("revert(%d)", k))
	}
	ops = append(ops, "finalise")
	return ops
}

func (s *Sys) Apply(op string) string {
	idx := len(s.hist)
	s.hist = append(s.hist, op)
	s.viols = s.viols[:0]
	var ob string
	msg, where := mc.CatchStack(func() { ob = s.apply(op, idx) })
	if msg != "" {
		s.dead = true
		ob = "PANIC: " + msg
		if !s.twin {
			s.viols = append(s.viols, mc.Violation{
				Sig:    fmt.Sprintf("panic op=%s at=%s msg=%s", opKind(op), where, normMsg(msg)),
				Detail: fmt.Sprintf("%s panicked: %s (at %s)", op, msg, where)})
		}
	}
	return ob
}

func opKind(op string) string {
	if i := strings.Index(op, "("); i > 0 {
		return op[:i]
	}
	return op
}

func normMsg(m string) string {
	// strip numbers so that the same failure has one signature
	var b strings.Builder
	for _, c := range m {
		if c >= '0' && c <= '9' {
			continue
		}
		b.WriteRune(c)
	}
	out := b.String()
	if len(out) > 80 {
		out = out[:80]
	}
	return out
}

func (s *Sys) apply(op string, idx int) string {
	st := s.st
	if ob, ok := s.mut.Apply(st, op, idx); ok {
		return ob
	}
	switch op {
	case "snap":
		id := st.Snapshot()
		ob := ""
		if !s.twin {
			ob = stx.Observe(st)
		}
		s.snaps = append(s.snaps, snap{id: id, obs: ob, opIdx: idx + 1})
	case "finalise":
		// transaction boundary exactly as ApplyTransaction ends a tx
		st.Finalise(true)
		s.snaps = s.snaps[:0]
		s.ntx++
		st.Prepare(common.BigToHash(big.NewInt(int64(s.ntx+1))), common.Hash{}, s.ntx)
	default:
		var k int
		if _, err := fmt.Sscanf(op, "revert(%d)", &k); err != nil {
			panic("harness: unknown op " + op)
		}
		sn := s.snaps[k]
		var before string
		if !s.twin {
			before = stx.Observe(st)
		}
		st.RevertToSnapshot(sn.id)
		s.snaps = s.snaps[:k]
		if s.twin {
			return ""
		}
		after := stx.Observe(st)
		if before != sn.obs {
			s.r.Count("reverts_undoing_a_difference", 1)
			if len(s.hist) >= 4 && s.hist[len(s.hist)-2] != "snap" {
				s.r.Sample(strings.Join(s.hist, " ; "))
			}
			s.r.Distinct(before + "=>" + sn.obs)
		} else {
			s.r.Count("reverts_of_nothing", 1)
		}
		if after != sn.obs {
			s.viols = append(s.viols, mc.Violation{
				Sig:    "observable differs after revert: " + diffFields(sn.obs, after),
				Detail: fmt.Sprintf("at snapshot: %s\nafter revert: %s", sn.obs, after)})
			return "MISMATCH"
		}
		// roots: state replayed up to the snapshot vs state replayed through the revert
		ra := s.twinRoots(s.hist[:sn.opIdx])
		rb := s.twinRoots(s.hist)
		s.r.Count("root_comparisons", 1)
		if ra != rb {
			s.viols = append(s.viols, mc.Violation{
				Sig:    "roots differ after revert: " + rootDiff(ra, rb),
				Detail: fmt.Sprintf("roots of the state as snapshotted: %s\nroots after revert: %s\nobservation: %s", ra, rb, after)})
		}
	}
	return ""
}

func rootDiff(a, b string) string {
	pa, pb := strings.Split(a, ","), strings.Split(b, ",")
	names := []string{"state", "val", "staking"}
	var d []string
	for i := range pa {
		if i < len(pb) && pa[i] != pb[i] {
			d = append(d, names[i])
		}
	}
	if strings.HasPrefix(a, "PANIC") || strings.HasPrefix(b, "PANIC") {
		return "panic while computing roots"
	}
	return strings.Join(d, "+")
}

// diffFields names the observation fields (A0.., V0.., stat, idx, q, logs) that differ.
func diffFields(a, b string) string {
	fa, fb := fields(a), fields(b)
	var d []string
	for i := range fa {
		if i >= len(fb) || fa[i] != fb[i] {
			name := fa[i]
			if j := strings.IndexAny(name, "{=("); j > 0 {
				name = name[:j]
			}
			d = append(d, name)
		}
	}
	return strings.Join(d, ",")
}

func fields(s string) []string {
	// split on top-level spaces and account groups "A0{...}A1{...}"
	s = strings.Replace(s, "}A", "} A", -1)
	return strings.Split(s, " ")
}

// twinRoots replays ops on a fresh twin instance and returns its roots.
func (s *Sys) twinRoots(ops []string) string {
	t := &Sys{alphabet: s.alphabet, twin: true, r: s.r, db: s.db, roots: s.roots}
	t.Reset()
	for _, op := range ops {
		if ob := t.Apply(op); strings.HasPrefix(ob, "PANIC") {
			return ob
		}
	}
	var out string
	if msg := mc.Catch(func() {
		a, b, c := t.st.IntermediateRoot(true)
		out = fmt.Sprintf("%x,%x,%x", a[:4], b[:4], c[:4])
	}); msg != "" {
		return "PANIC " + msg
	}
	return out
}

func (s *Sys) Check() []mc.Violation { return s.viols }
func (s *Sys) Key() string           { return "" }

// Run is the check entry point.
func Run(r *mc.Run) {
	r.Level = "model_checking"
	r.Rule = "every op sequence up to the stated depth over each sub-alphabet (mutations + snap + revert(k) for every live snapshot + finalise) is executed on a fresh real StateDB reopened from a committed non-initial base state; a case is non-trivial when a revert undid a non-empty difference; distinct = distinct (pre-revert observation => snapshot observation) pairs"
	depth := map[string]int{"acct": 5, "val": 5, "mixed": 5, "evm": 7, "slot": 7}
	if !r.Quick() {
		depth = map[string]int{"acct": 6, "val": 7, "mixed": 6, "evm": 9, "slot": 9}
		r.SetBudget(40 * 60e9)
	} else {
		r.SetBudget(150e9)
	}
	r.SetExtra("depth_per_alphabet", depth)
	r.Assume("validator records are only mutated through the call patterns production uses (PartialCopy+UpdateValidator, UpdateDelegation, Add/RemoveWithdrawRecords); RemoveValidator has no production caller and is not in the alphabet")
	r.Assume("staking records / pending relationships are not journalled by design and are not part of this alphabet")
	for _, a := range []string{"slot", "evm", "val", "acct", "mixed"} {
		a := a
		f := func() mc.System { return newSys(r, a) }
		r.DFSAll(f, mc.SeqOpts{Name: "statedb-" + a, Depth: depth[a], ShardDepth: 2, NoDistinct: true})
		r.ConfirmSeq("statedb-"+a, f)
	}
}

// Replay re-executes a replay file without the explorer.
func Replay(r *mc.Run, v *mc.Violation) {
	a := strings.TrimPrefix(v.System, "statedb-")
	obs, viols, err := mc.ReplaySeq(newSys(r, a), v.Ops)
	fmt.Println("obs:", obs, "err:", err)
	for _, x := range viols {
		x.System, x.Ops = v.System, v.Ops
		r.Report(x)
	}
}
