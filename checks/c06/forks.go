package c06

import (
	"fmt"
	"strings"

	"github.com/youchainhq/go-youchain/common"
	"github.com/youchainhq/go-youchain/core/types"

	"verif/checks/chainx"
	"verif/mc"
)

// Fork import: "another node" is not always a node whose head is the parent of
// the offered block.  Every fork (fork point k, every sequence of <= L blocks
// over a small menu incl. equivocation evidence and staking txs) built by the
// builder path on a node forked off the main chain is offered, as one
// InsertChain segment, to importers whose head is the fork point, inside or at
// the end of the main chain, with the plain engine and with the Ucon-shaped
// engine (side-chain verification path).  A block the builder produced must
// never be rejected for not reproducing its roots/receipts/gas.

var forkMenu = []string{"s1:", "s1:xfer", "s1:!dsign(c1)", "s1:vdeposit(s1)", "s1:dadd(s1)+vupdate(s1)"}
var mainOps = []string{"c1:xfer", "c1:vupdate(s1)", "c1:", "c1:xfer"}

// ForkCase is the replayable input.
type ForkCase struct {
	ForkAt   int      `json:"forkAt"`   // fork point = main block number
	Fork     []string `json:"fork"`     // block ops of the fork
	Importer int      `json:"importer"` // importer's head = main block number
	Ucon     bool     `json:"ucon"`
	Inact    bool     `json:"inact,omitempty"` // inactivity-slashing configuration (wait 1 round, two extra senators)
}

func (c ForkCase) String() string {
	s := fmt.Sprintf("fork@%d[%s] -> importer head M%d ucon=%v", c.ForkAt, strings.Join(c.Fork, " ; "), c.Importer, c.Ucon)
	if c.Inact {
		s += " (inactivity slashing on)"
	}
	return s
}

func buildOn(r *mc.Run, n *chainx.Node, op string) (*types.Block, error) {
	h := &chainx.Hist{F: chainx.Fix(), R: r, Node: n, Txs: map[common.Hash]chainx.TxInfo{}}
	return h.BuildOnly(op)
}

func runFork(r *mc.Run, c ForkCase) string {
	report := func(sig, detail string) {
		r.Report(mc.Violation{Sig: sig, Detail: detail + "\ncase: " + c.String(), Input: c})
	}
	f := chainx.Fix()
	main := chainx.NewNode(f)
	defer main.Close()
	var forkNode, importer *chainx.Node
	take := func(i int) {
		if i == c.ForkAt {
			forkNode = main.Fork()
		}
		if i == c.Importer {
			if c.Ucon {
				importer = main.ForkUcon()
			} else {
				importer = main.Fork()
			}
		}
	}
	take(0)
	for i, op := range mainOps {
		if _, err := buildOn(r, main, op); err != nil {
			panic("harness: main chain block fails: " + err.Error())
		}
		take(i + 1)
	}
	defer forkNode.Close()
	defer importer.Close()
	var seg types.Blocks
	for _, op := range c.Fork {
		if c.Inact && !chainx.Eligible(forkNode, f, op[:strings.Index(op, ":")]) {
			r.Count("long_fork_cases_cut_at_a_proposer_that_is_not_eligible", 1)
			break
		}
		var b *types.Block
		var err error
		if m, where := mc.CatchStack(func() { b, err = buildOn(r, forkNode, op) }); m != "" {
			report(fmt.Sprintf("builder panics on a fork at %s", where), m)
			return "panic"
		}
		if err != nil {
			report("builder fails on a fork: "+err.Error(), "")
			return "err"
		}
		seg = append(seg, b)
	}
	if len(seg) == 0 {
		return "empty"
	}
	var ierr error
	if m, where := mc.CatchStack(func() { ierr = importer.Import(seg...) }); m != "" {
		report(fmt.Sprintf("import path panics on a built fork at %s", where), m)
		return "panic"
	}
	tip := seg[len(seg)-1]
	out := "stored"
	if importer.Head().Hash() == tip.Hash() {
		out = "head"
	}
	if ierr != nil {
		e := ierr.Error()
		for _, k := range []string{"invalid merkle root", "invalid validator root", "invalid staking root", "invalid receipt root", "invalid bloom", "invalid gas used", "invalid gas rewards"} {
			if strings.Contains(e, k) {
				if c.Ucon && pendingAcrossForkBlocks(c) {
					// attributed: side-chain verification executes the fork's blocks before any of them is stored, and the
					// period-end hook finds pending staking txs only through the canonical tx lookups
					report("side-chain verification rejects a valid fork whose staking tx takes effect in a later fork block (pending tx looked up through canonical lookups only)", e+" ("+k+")")
					return "mismatch-known"
				}
				report("import path rejects a built fork block: it does not reproduce the builder's result ("+k+") when the importer's head is not the block's parent", e)
				return "mismatch"
			}
		}
		out = "refused:" + e
		if len(out) > 60 {
			out = out[:60]
		}
	}
	r.Count("fork_imports_"+strings.SplitN(out, ":", 2)[0], 1)
	return out
}

// inactCfg: inactivity slashing on.  A fork block is executed by the builder on a fresh state object per block,
// by the side-chain verification of an importer on ONE state object for consecutive blocks: a validator record
// cached across blocks (last-active round) must not change the verdict.
func inactCfg() chainx.ParamCfg {
	c := forkCfg()
	c.InactivityWait, c.ExtraChamber = 1, 2
	return c
}

// runLongForks: forks of 3..4 (thorough 5) empty blocks, every proposer pattern over {c1, s1} that the
// look-back state makes eligible, under the inactivity configuration.
func runLongForks(r *mc.Run) {
	chainx.SetParams(inactCfg())
	maxLen := 4
	if !r.Quick() {
		maxLen = 5
	}
	var seqs [][]string
	var gen func(cur []string)
	gen = func(cur []string) {
		if len(cur) >= 3 {
			seqs = append(seqs, append([]string{}, cur...))
		}
		if len(cur) == maxLen {
			return
		}
		for _, op := range []string{"c1:", "s1:"} {
			gen(append(cur, op))
		}
	}
	gen(nil)
	var cases []ForkCase
	for forkAt := 0; forkAt <= 2; forkAt++ {
		for _, s := range seqs {
			for _, imp := range []int{forkAt, len(mainOps)} {
				for _, u := range []bool{false, true} {
					cases = append(cases, ForkCase{ForkAt: forkAt, Fork: s, Importer: imp, Ucon: u, Inact: true})
				}
			}
		}
	}
	r.SetExtra("long_fork_import_cases_under_inactivity_slashing", len(cases))
	r.ForEach(len(cases), func(_ int, i int) {
		out := runFork(r, cases[i])
		r.Count("long_fork_import_cases_run", 1)
		if r.Distinct(fmt.Sprintf("longfork|%d|%d|%v|%d|%s", cases[i].ForkAt, cases[i].Importer, cases[i].Ucon, len(cases[i].Fork), out)) {
			r.Sample(cases[i].String() + " => " + out)
		}
	})
}

func runForks(r *mc.Run) {
	chainx.SetParams(forkCfg())
	maxLen := 2
	if !r.Quick() {
		maxLen = 3
	}
	var seqs [][]string
	var gen func(cur []string)
	gen = func(cur []string) {
		if len(cur) > 0 {
			seqs = append(seqs, append([]string{}, cur...))
		}
		if len(cur) == maxLen {
			return
		}
		for _, op := range forkMenu {
			gen(append(cur, op))
		}
	}
	gen(nil)
	var cases []ForkCase
	for forkAt := 0; forkAt <= 2; forkAt++ {
		for _, s := range seqs {
			for imp := forkAt; imp <= len(mainOps); imp++ {
				for _, u := range []bool{false, true} {
					cases = append(cases, ForkCase{ForkAt: forkAt, Fork: s, Importer: imp, Ucon: u})
				}
			}
		}
	}
	r.SetExtra("fork_import_cases", len(cases))
	r.ForEach(len(cases), func(_ int, i int) {
		out := runFork(r, cases[i])
		atomicAdd(r)
		if r.Distinct(fmt.Sprintf("fork|%d|%d|%v|%d|%s", cases[i].ForkAt, cases[i].Importer, cases[i].Ucon, len(cases[i].Fork), out)) {
			r.Sample(cases[i].String() + " => " + out)
		}
	})
}

func atomicAdd(r *mc.Run) { r.Count("fork_import_cases_run", 1) }

func forkCfg() chainx.ParamCfg {
	c := chainx.DefaultCfg
	c.MaxRewardsPeriod = 1000
	return c
}

// pendingAcrossForkBlocks: the fork holds a staking tx in a block that is not itself the period-end block
// in which that tx takes effect, and the period end lies inside the fork.
func pendingAcrossForkBlocks(c ForkCase) bool {
	freq := int(chainx.V5().StakingTrieFrequency)
	for i, op := range c.Fork {
		_, txs, _ := chainx.ParseBlockOp(op)
		staking := false
		for _, t := range txs {
			if strings.HasPrefix(t, "v") || strings.HasPrefix(t, "d") {
				staking = true
			}
		}
		if !staking {
			continue
		}
		n := c.ForkAt + 1 + i // block number of this fork block
		if (n+1)%freq == 0 {
			continue // takes effect in its own block: found among the block's own txs
		}
		// period end block number
		end := n
		for (end+1)%freq != 0 {
			end++
		}
		if end <= c.ForkAt+len(c.Fork) {
			return true
		}
	}
	return false
}
