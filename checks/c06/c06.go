// Package c06: block execution is deterministic and builder and validator
// always agree.  Every block of every bounded block history is built by the
// builder path on node A and then imported, unchanged, through
// BlockChain.InsertChain on R independent copies of the pre-block database
// (fresh chain objects, fresh state objects, fresh caches, fresh hash-map
// seeds per map): every import must succeed, i.e. reproduce roots, receipts,
// bloom and gas (ValidateState) from the isSeal=false path.
package c06

import (
	"encoding/json"
	"fmt"
	"os"

	"verif/checks/chainx"
	"verif/mc"
)

func hooks(r *mc.Run) chainx.Hooks {
	n := 2
	if !r.Quick() {
		n = 10
	}
	// VERIF_C06_NO_WORKER=1 (testing aid): leave the real-miner-worker oracles out
	return chainx.Hooks{Imports: n, Warm: true, Worker: os.Getenv("VERIF_C06_NO_WORKER") == ""}
}

func Run(r *mc.Run) {
	r.Level = "model_checking"
	r.Rule = "every sequence of <= depth blocks over the block menu, from genesis and from 5 scripted non-initial states; each built block is imported R times on independent database copies (R=2 quick, 10 thorough); distinct = distinct head block hashes reached; a second, small menu (chainx.MenuBuilderPaths) explores the blocks that take the builder through its failure branches: a pending transaction that fails with an ApplyTransaction error after a state change (must be rolled back), nonce gaps behind it, two senders in one block, pool-refused transactions"
	noForced := chainx.DefaultCfg
	noForced.MaxRewardsPeriod = 1000
	forced := chainx.DefaultCfg
	forced.MaxRewardsPeriod = 1
	freq3 := chainx.DefaultCfg
	freq3.StakingTrieFrequency, freq3.MaxRewardsPeriod, freq3.WithdrawDelay = 3, 2, 3
	h := hooks(r)
	r.SetExtra("imports_per_block", h.Imports)
	if r.Quick() {
		r.SetBudget(330e9)
		runForks(r) // first: cheap, and independent of the exploration budget
		runLongForks(r)
		// inactivity slashing on, two extra senators that never propose: several validators are slashed in one block
		chainx.Explore(r, h, []chainx.ParamCfg{inactCfg()}, []string{"c1:", "s1:", "c1:xfer", "c1:!dsign(s1)", "c1:!dsign(s2)", "c1:!dsign(s3)"}, 3, 0)
		// the builder's failure branches (ApplyTransaction error after a state change, nonce gaps behind it, two senders in one block)
		chainx.Explore(r, h, []chainx.ParamCfg{noForced}, chainx.MenuBuilderPaths, 2, 1)
		chainx.Explore(r, h, []chainx.ParamCfg{noForced}, chainx.MenuCode, 4, 0)
		chainx.Explore(r, h, []chainx.ParamCfg{noForced}, chainx.MenuCore, 3, 2)
		chainx.Explore(r, h, []chainx.ParamCfg{forced}, chainx.MenuCore, 2, 2)
	} else {
		r.SetBudget(45 * 60e9)
		menu := append(append([]string{}, chainx.MenuCore...), chainx.MenuMore...)
		chainx.Explore(r, h, []chainx.ParamCfg{noForced, freq3}, chainx.MenuBuilderPaths, 3, 2)
		chainx.Explore(r, h, []chainx.ParamCfg{noForced}, chainx.MenuCode, 6, 1)
		chainx.Explore(r, h, []chainx.ParamCfg{noForced, freq3, forced}, menu, 4, 3)
	}
	if !r.Quick() {
		runForks(r)
		runLongForks(r)
		chainx.Explore(r, h, []chainx.ParamCfg{inactCfg()}, chainx.MenuCore, 4, 2)
	}
	if h.Worker {
		r.Rule += "; REAL BUILDER: every block of every explored history (and of every scripted prefix) is also assembled by the real miner worker (miner.worker.commitNewWork: makeCurrent, commitTransactions, EndBlock(isSeal=true), commit; through the build-tagged hook miner.VerifBuildBlock) from a real core.TxPool holding the block's transactions, on a database copy of the pre-block node with the same pending evidences: (i) its block must be accepted unchanged by InsertChain on another database copy of the pre-block node and become head, (ii) it must agree with the mirror builder's block on parent, number, coinbase, gas limit, the five version-state fields, slash data, transactions (set and root), gas used, gas rewards, subsidy, receipts root, bloom, staking/validator/state root, mix digest, extra and the consensus byte fields; when the worker orders transactions of different senders differently (equal gas price: map order inside types.TransactionsByPriceAndNonce) or the pool refuses a transaction, the mirror is run again on the worker's input order and the same comparison is made"
		r.Assume("real-builder conformance: header Time is NOT compared (the worker reads the wall clock, the mirror uses parent+1; no transaction of the menu reads TIMESTAMP); the worker is wired field by field like newWorker but without its goroutines and subscriptions, one worker and one pool per block (state kept across blocks by a long-running worker - snapshot, interrupt flag - is not exercised); the validator identity (coinbase) is supplied through engine.GetValMainAddress")
	}
	r.Assume("Go's per-iteration map order cannot be enumerated by a controlled explorer; the R repeated imports are a sampled supplement for that clause, the exhaustive part is builder/importer agreement over all histories")
}

func Replay(r *mc.Run, v *mc.Violation) {
	if m, ok := v.Input.(map[string]interface{}); ok && m["fork"] != nil {
		bs, _ := json.Marshal(v.Input)
		var c ForkCase
		json.Unmarshal(bs, &c)
		chainx.SetParams(forkCfg())
		fmt.Println(c.String(), "=>", runFork(r, c))
		return
	}
	chainx.ReplayHist(r, v, hooks(r))
}
