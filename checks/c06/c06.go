// Package c06: block execution is deterministic and builder and validator
// always agree.  Every block of every bounded block history is built by the
// builder path on node A and then imported, unchanged, through
// BlockChain.InsertChain on R independent copies of the pre-block database
// (fresh chain objects, fresh state objects, fresh caches, fresh hash-map
// seeds per map): every import must succeed, i.e. reproduce roots, receipts,
// bloom and gas (ValidateState) from the isSeal=false path.
package c06

import (
	"encoding/json"
	"fmt"

	"verif/checks/chainx"
	"verif/mc"
)

func hooks(r *mc.Run) chainx.Hooks {
	n := 2
	if !r.Quick() {
		n = 10
	}
	return chainx.Hooks{Imports: n, Warm: true}
}

func Run(r *mc.Run) {
	r.Level = "model_checking"
	r.Rule = "every sequence of <= depth blocks over the block menu, from genesis and from 5 scripted non-initial states; each built block is imported R times on independent database copies (R=2 quick, 10 thorough); distinct = distinct head block hashes reached"
	noForced := chainx.DefaultCfg
	noForced.MaxRewardsPeriod = 1000
	forced := chainx.DefaultCfg
	forced.MaxRewardsPeriod = 1
	freq3 := chainx.DefaultCfg
	freq3.StakingTrieFrequency, freq3.MaxRewardsPeriod, freq3.WithdrawDelay = 3, 2, 3
	h := hooks(r)
	r.SetExtra("imports_per_block", h.Imports)
	if r.Quick() {
		r.SetBudget(170e9)
		runForks(r) // first: cheap, and independent of the exploration budget
		chainx.Explore(r, h, []chainx.ParamCfg{noForced}, chainx.MenuCore, 3, 2)
		chainx.Explore(r, h, []chainx.ParamCfg{forced}, chainx.MenuCore, 2, 2)
	} else {
		r.SetBudget(45 * 60e9)
		menu := append(append([]string{}, chainx.MenuCore...), chainx.MenuMore...)
		chainx.Explore(r, h, []chainx.ParamCfg{noForced, freq3, forced}, menu, 4, 3)
	}
	if !r.Quick() {
		runForks(r)
	}
	r.Assume("Go's per-iteration map order cannot be enumerated by a controlled explorer; the R repeated imports are a sampled supplement for that clause, the exhaustive part is builder/importer agreement over all histories")
}

func Replay(r *mc.Run, v *mc.Violation) {
	if m, ok := v.Input.(map[string]interface{}); ok && m["fork"] != nil {
		bs, _ := json.Marshal(v.Input)
		var c ForkCase
		json.Unmarshal(bs, &c)
		chainx.SetParams(forkCfg())
		fmt.Println(c.String(), "=>", runFork(r, c))
		return
	}
	chainx.ReplayHist(r, v, hooks(r))
}
