package c13

import (
	"bytes"
	"encoding/binary"
	"fmt"
	"hash/fnv"
	"sync"
	"sync/atomic"

	"github.com/youchainhq/go-youchain/common"
	"github.com/youchainhq/go-youchain/crypto"
	"github.com/youchainhq/go-youchain/trie"
	"github.com/youchainhq/go-youchain/youdb"

	"verif/mc"
)

// proofDB is the verifier-side node store: blob keyed by hash.
type proofDB map[string][]byte

func (p proofDB) Get(key []byte) ([]byte, error) {
	if v, ok := p[string(key)]; ok {
		return v, nil
	}
	return nil, fmt.Errorf("not found")
}
func (p proofDB) Has(key []byte) (bool, error) { _, ok := p[string(key)]; return ok, nil }

func (p proofDB) without(hash []byte) proofDB {
	c := make(proofDB, len(p))
	for k, v := range p {
		if k != string(hash) {
			c[k] = v
		}
	}
	return c
}

// proofList records what Prove writes, in order.
type proofList struct{ keys, vals [][]byte }

func (p *proofList) Put(k, v []byte) error {
	p.keys = append(p.keys, append([]byte{}, k...))
	p.vals = append(p.vals, append([]byte{}, v...))
	return nil
}

func (p *proofList) digest() uint64 {
	h := fnv.New64a()
	for i := range p.keys {
		h.Write(p.keys[i])
		h.Write([]byte{0xff})
		h.Write(p.vals[i])
		h.Write([]byte{0xfe})
	}
	return h.Sum64()
}

// proofMemo: the exhaustive part of the proof oracle is a deterministic
// function of (trie kind, content, key, exact proof bytes); it is evaluated
// once per such tuple and its verdict (including violations) is re-used by
// every state that produces the same proof — a state whose proof bytes differ
// from those seen before for the same content gets its own full evaluation.
type proofResult struct {
	viols []mc.Violation
	stats map[string]int64
}

var proofMemo sync.Map
var proofMemoN int64

func proofMemoLen() int64 { return atomic.LoadInt64(&proofMemoN) }

func (s *Sys) checkProof(out *[]mc.Violation, name string, root common.Hash, content string) {
	key := s.storeKey(name)
	var pl proofList
	if err := s.view().Prove(key, 0, &pl); err != nil {
		*out = append(*out, mc.Violation{Sig: "Prove failed (" + errClass(err) + ") after " + opKind(s.lastOp),
			Detail: fmt.Sprintf("content {%s}: Prove(%s): %v", content, name, err)})
		return
	}
	var dg [8]byte
	binary.BigEndian.PutUint64(dg[:], pl.digest())
	mk := "p|" + content + "|" + name + "|" + string(dg[:])
	if s.a.Secure {
		mk = "s" + mk[1:]
	}
	var res *proofResult
	if v, ok := proofMemo.Load(mk); ok {
		res = v.(*proofResult)
		s.count("proofs_identical_to_an_exhaustively_checked_one", 1)
	} else {
		res = s.fullProofCheck(name, key, root, &pl, content)
		if _, loaded := proofMemo.LoadOrStore(mk, res); !loaded {
			atomic.AddInt64(&proofMemoN, 1)
			for k, n := range res.stats {
				s.count(k, n)
			}
		}
	}
	*out = append(*out, res.viols...)
}

func answer(v []byte) string {
	if v == nil {
		return "absent"
	}
	return fmt.Sprintf("%x", v)
}

// verifyCaught runs VerifyProof, turning a panic into an outcome.
func verifyCaught(root common.Hash, key []byte, db proofDB) (val []byte, err error, panicked string) {
	panicked = mc.Catch(func() { val, _, err = trie.VerifyProof(root, key, db) })
	return
}

func (s *Sys) fullProofCheck(name string, key []byte, root common.Hash, pl *proofList, content string) *proofResult {
	res := &proofResult{stats: map[string]int64{}}
	add := func(sig, detail string) {
		for _, v := range res.viols {
			if v.Sig == sig {
				return
			}
		}
		res.viols = append(res.viols, mc.Violation{Sig: sig, Detail: detail})
	}
	var expect []byte
	class := "absent key"
	if c, ok := s.model[name]; ok {
		expect = valBytes[c]
		class = "present key"
	}
	ctx := fmt.Sprintf("content {%s} key %s (%s)", content, name, class)

	// the proof as emitted: content-addressed, starts at the root, verifies to the model's answer
	db := proofDB{}
	for i := range pl.keys {
		if !bytes.Equal(crypto.Keccak256(pl.vals[i]), pl.keys[i]) {
			add("Prove stored a node under a key that is not its Keccak-256", ctx)
		}
		db[string(crypto.Keccak256(pl.vals[i]))] = pl.vals[i]
	}
	if len(pl.keys) == 0 {
		add("Prove emitted no node for a non-empty trie ("+class+")", ctx)
		return res
	}
	val, err, pan := verifyCaught(root, key, db)
	switch {
	case pan != "":
		add("VerifyProof panics on a genuine proof ("+class+")", ctx+": "+pan)
	case err != nil:
		add("genuine proof rejected by VerifyProof ("+class+")", ctx+": "+err.Error())
	case !bytes.Equal(val, expect) || (val == nil) != (expect == nil):
		add("genuine proof verifies to a wrong answer ("+class+")", fmt.Sprintf("%s: got %s want %s", ctx, answer(val), answer(expect)))
	default:
		res.stats["proofs_verified_"+map[bool]string{true: "present", false: "absent"}[expect != nil]]++
	}
	if len(res.viols) > 0 {
		return res
	}

	judge := func(how string, db2 proofDB) {
		v, err, pan := verifyCaught(root, key, db2)
		switch {
		case pan != "":
			add("VerifyProof panics on a tampered proof ("+how+")", ctx+": "+pan)
		case err != nil:
			res.stats["tampered_proofs_rejected"]++
		case bytes.Equal(v, expect) && (v == nil) == (expect == nil):
			res.stats["tampered_proofs_same_answer"]++
		default:
			add("tampered proof ("+how+") verifies to a different answer ("+class+")",
				fmt.Sprintf("%s: tampered proof gives %s, the trie holds %s", ctx, answer(v), answer(expect)))
		}
	}

	// every single-byte corruption of every proof node
	for i, node := range pl.vals {
		h := crypto.Keccak256(node)
		rest := db.without(h)
		for j := range node {
			for _, nb := range []byte{node[j] + 1, node[j] - 1, node[j] ^ 0x80} {
				blob := append([]byte{}, node...)
				blob[j] = nb
				// A: the receiver files the blob under its own hash
				db2 := rest.without(nil)
				db2[string(crypto.Keccak256(blob))] = blob
				judge("byte corruption", db2)
				// B (information only, small contents): adversary also chooses the key the blob is filed under
				if len(s.model) > 2 {
					continue
				}
				db3 := rest.without(nil)
				db3[string(h)] = blob
				v, err, pan := verifyCaught(root, key, db3)
				switch {
				case pan != "":
					res.stats["info_adversarial_keys_VerifyProof_panics"]++
				case err != nil:
					res.stats["info_adversarial_keys_rejected"]++
				case bytes.Equal(v, expect) && (v == nil) == (expect == nil):
					res.stats["info_adversarial_keys_same_answer"]++
				default:
					res.stats["info_adversarial_keys_different_answer"]++
				}
			}
		}
		_ = i
		// truncation: the node is simply missing
		judge("node removed", rest)
	}

	// node substitution: every node of every proof of this content and of the
	// proofs of the same key in all neighbouring contents (one key changed)
	pool := s.substitutionPool(name)
	for _, node := range pl.vals {
		h := crypto.Keccak256(node)
		rest := db.without(h)
		for _, sub := range pool {
			if bytes.Equal(sub, node) {
				continue
			}
			db2 := rest.without(nil)
			db2[string(crypto.Keccak256(sub))] = sub
			judge("node substitution", db2)
			res.stats["substitutions_tried"]++
		}
	}
	return res
}

// scratchProofs builds the trie of a content from scratch (sorted inserts into
// a fresh trie) and returns the proof blobs for the given keys.
func (s *Sys) scratchProofs(model map[string]byte, names []string) [][]byte {
	t, err := trie.New(common.Hash{}, trie.NewDatabase(youdb.NewMemDatabase()))
	if err != nil {
		panic(err)
	}
	for _, k := range storedKeys {
		if c, ok := model[k]; ok {
			t.Update(s.storeKey(k), valBytes[c])
		}
	}
	var out [][]byte
	if len(model) == 0 {
		return nil
	}
	for _, n := range names {
		var pl proofList
		t.Prove(s.storeKey(n), 0, &pl)
		out = append(out, pl.vals...)
	}
	return out
}

func (s *Sys) substitutionPool(name string) [][]byte {
	var pool [][]byte
	seen := map[string]bool{}
	addAll := func(bs [][]byte) {
		for _, b := range bs {
			if !seen[string(b)] {
				seen[string(b)] = true
				pool = append(pool, b)
			}
		}
	}
	addAll(s.scratchProofs(s.model, allKeys))
	for _, k := range storedKeys {
		for _, c := range []byte{0, 'S', 'M', 'L'} {
			if cur, ok := s.model[k]; (ok && cur == c) || (!ok && c == 0) {
				continue
			}
			m := copyContent(s.model)
			if c == 0 {
				delete(m, k)
			} else {
				m[k] = c
			}
			addAll(s.scratchProofs(m, []string{name}))
		}
	}
	return pool
}
