// Package c13: the Merkle-Patricia trie is a faithful, canonical, provable
// key-value map.
//
// Stateless DFS over ALL operation sequences (Update / Delete / Hash / Commit
// (+Reference, as the chain does) / Reopen / Database.Commit / Dereference of the
// oldest referenced root / Cap(0) / Restart on the disk database) on the real
// trie.Trie, trie.SecureTrie and trie.Database over a colliding key alphabet,
// plus a BFS over all contents.  Oracles in every reached state: a Go map model
// for lookups and iteration, an INDEPENDENT yellow-paper root calculator
// (refmpt.go) for the root, every still-referenced or persisted root must stay
// completely readable, and for every key of the alphabet Prove -> VerifyProof
// must give the model's answer while no corrupted/substituted proof may verify
// to a different answer (proofs.go).
//
// All observations are made on shallow copies of the trie (the same copy
// SecureTrie.Copy makes), so the cache/dirty state of the explored trie object
// is a function of the explored operation sequence only.
package c13

import (
	"bytes"
	"fmt"
	"os"
	"sort"
	"strconv"
	"strings"
	"sync"
	"time"

	"github.com/youchainhq/go-youchain/common"
	"github.com/youchainhq/go-youchain/crypto"
	"github.com/youchainhq/go-youchain/logging"
	"github.com/youchainhq/go-youchain/trie"
	"github.com/youchainhq/go-youchain/youdb"

	"verif/mc"
)

// ---- alphabet -------------------------------------------------------------------

// Keys collide on purpose: shared nibble prefixes, one key's nibbles a prefix of
// another's, the empty key.  "_" names the empty key.
var keyBytes = map[string][]byte{
	"_": {}, "12": {0x12}, "1234": {0x12, 0x34}, "1235": {0x12, 0x35}, "13": {0x13}, "20": {0x20},
	"1236": {0x12, 0x36}, "01": {0x01}, // never stored: proofs of absence that diverge at different depths
}
var storedKeys = []string{"_", "12", "1234", "1235", "13", "20"}
var allKeys = []string{"_", "12", "1234", "1235", "13", "20", "1236", "01"}

// Values: S = 1 byte (leaf embedded in its parent), M = 29 bytes (a leaf with a
// one-byte compact key encodes to exactly 32 bytes: the embed/hash boundary),
// L = 40 bytes (always a hashed node).
var valBytes = map[byte][]byte{
	'S': {0x61},
	'M': bytes.Repeat([]byte{0x6d}, 29),
	'L': bytes.Repeat([]byte{0x4c}, 40),
}

// delete through TryUpdate(key, empty value) for these keys, through TryDelete for the others
var delViaEmptyUpdate = map[string]bool{"_": true, "1234": true, "13": true}

type Alpha struct {
	Name       string
	Keys       []string // keys that can be deleted (and, with Vals, written)
	Vals       string   // value codes for the full product Keys x Vals (ignored when Puts is set)
	Puts       []string // explicit put ops (reduced product for the quick tier)
	Base       []string // ops applied by Reset before exploration starts (non-initial base state)
	Secure     bool
	DBOps      bool
	CacheLimit uint16
	ProofKeys  []string // keys proved in every state (nil = all keys of the global alphabet)
	LeafProofs bool     // verify the iterator's leaf proofs in every state (else only after hash/db ops)
}

var alphas = map[string]Alpha{}

func reg(a Alpha) { alphas[a.Name] = a }

func init() {
	// quick tier: reduced put products chosen so that every structural case still occurs
	// (value in a branch slot, embedded leaf, embedded branch, leaf of exactly 32 bytes, hashed leaf)
	reg(Alpha{Name: "prefix-q", Keys: []string{"_", "12", "1234", "1235"}, DBOps: true,
		Puts:      []string{"put(_,S)", "put(12,L)", "put(1234,S)", "put(1234,L)", "put(1235,S)"},
		ProofKeys: []string{"_", "12", "1234", "1235", "1236"}})
	reg(Alpha{Name: "branch-q", Keys: []string{"12", "13", "20", "1234"}, DBOps: true,
		Puts:      []string{"put(12,M)", "put(12,L)", "put(13,L)", "put(20,M)", "put(1234,M)"},
		ProofKeys: []string{"12", "13", "20", "1234", "01"}})
	reg(Alpha{Name: "secure-q", Keys: []string{"12", "1234", "13"}, Secure: true, DBOps: true, CacheLimit: 2,
		Puts:      []string{"put(12,S)", "put(12,L)", "put(1234,L)", "put(13,S)"},
		ProofKeys: []string{"12", "1234", "13", "20"}})
	// garbage collection: exploration starts from a committed, referenced two-leaf trie
	reg(Alpha{Name: "gc-q", Keys: []string{"12", "13", "20"}, DBOps: true,
		Base:      []string{"put(12,L)", "put(13,L)", "commit"},
		Puts:      []string{"put(12,S)", "put(13,L)", "put(20,L)", "put(20,S)"},
		ProofKeys: []string{"12", "13", "20", "01"}})
	// deeper histories at low cost: exploration starts from a non-initial base state
	reg(Alpha{Name: "prefix-deep", Keys: []string{"_", "12", "1234", "1235"}, DBOps: true,
		Base:      []string{"put(_,S)", "put(12,L)", "put(1234,S)", "put(1235,S)", "commit", "put(1234,L)"},
		Puts:      []string{"put(_,S)", "put(12,L)", "put(1234,S)", "put(1234,L)", "put(1235,S)"},
		ProofKeys: []string{"_", "12", "1234", "1235", "1236"}})
	reg(Alpha{Name: "secure-deep", Keys: []string{"12", "1234", "13"}, Secure: true, DBOps: true, CacheLimit: 2,
		Base:      []string{"put(12,L)", "put(1234,L)", "put(13,S)", "commit", "commit", "commit"}, // three generations: clean nodes are unloaded
		Puts:      []string{"put(12,S)", "put(12,L)", "put(1234,L)", "put(13,S)"},
		ProofKeys: []string{"12", "1234", "13", "20"}})
	// thorough tier: full products
	reg(Alpha{Name: "prefix", Keys: []string{"_", "12", "1234", "1235"}, Vals: "SL", DBOps: true,
		ProofKeys: []string{"_", "12", "1234", "1235", "1236"}})
	reg(Alpha{Name: "branch", Keys: []string{"12", "13", "20", "1234"}, Vals: "ML", DBOps: true,
		ProofKeys: []string{"12", "13", "20", "1234", "01"}})
	reg(Alpha{Name: "secure", Keys: []string{"12", "1234", "13"}, Vals: "SL", Secure: true, DBOps: true, CacheLimit: 2,
		ProofKeys: []string{"12", "1234", "13", "20"}})
	reg(Alpha{Name: "gc", Keys: []string{"12", "13", "20"}, Vals: "SL", DBOps: true,
		Base:      []string{"put(12,L)", "put(13,L)", "commit"},
		ProofKeys: []string{"12", "13", "20", "01"}})
	// BFS over contents (merged on content): all keys, all proofs, leaf proofs everywhere
	reg(Alpha{Name: "content", Keys: storedKeys, Vals: "SL", LeafProofs: true})
	reg(Alpha{Name: "content4", Keys: storedKeys, Vals: "SML", LeafProofs: true})
	reg(Alpha{Name: "content-secure", Keys: []string{"_", "12", "1234", "13"}, Vals: "SL", Secure: true, CacheLimit: 2, LeafProofs: true})
}

// ---- driver ----------------------------------------------------------------------

type rootRec struct {
	hash      common.Hash
	content   map[string]byte
	refs      int  // outstanding Database.Reference calls made by the harness
	persisted bool // Database.Commit(hash) returned nil
}

type Sys struct {
	a       Alpha
	r       *mc.Run
	quiet   bool // replay/confirm instances do not feed counters
	scratch bool // parent-state instance used to find where a violation first appears

	baseChecked bool
	inApply     bool
	pend        []string

	disk          *youdb.MemDatabase
	tdb           *trie.Database
	pt            *trie.Trie
	st            *trie.SecureTrie
	model         map[string]byte
	roots         []*rootRec
	gcq           []*rootRec
	base          *rootRec
	lastPersisted *rootRec
	lastOp        string
	dead          bool
	viols         []mc.Violation
	ops           []string
}

func newSys(r *mc.Run, a Alpha, quiet bool) *Sys { return &Sys{a: a, r: r, quiet: quiet} }

// count feeds a vacuity counter.  Counters raised inside Apply are deferred to
// Check: the explorer re-applies path prefixes many times but checks every
// explored step exactly once, so the evidence counts explored steps.
func (s *Sys) count(name string, n int64) {
	if s.quiet {
		return
	}
	if s.inApply {
		s.pend = append(s.pend, name)
		return
	}
	s.r.Count(name, n)
}

func (s *Sys) open(root common.Hash) error {
	var err error
	if s.a.Secure {
		s.st, err = trie.NewSecure(root, s.tdb, s.a.CacheLimit)
	} else {
		s.pt, err = trie.New(root, s.tdb)
	}
	return err
}

func (s *Sys) Reset() {
	s.disk = youdb.NewMemDatabase()
	s.tdb = trie.NewDatabase(s.disk)
	if err := s.open(common.Hash{}); err != nil {
		panic(err)
	}
	s.model = map[string]byte{}
	s.roots, s.gcq, s.base, s.lastPersisted = nil, nil, nil, nil
	s.lastOp, s.dead, s.viols, s.ops = "", false, nil, s.ops[:0]
	q := s.quiet
	s.quiet = true
	for i, op := range s.a.Base {
		s.Apply(op)
		vs := append([]mc.Violation{}, s.viols...)
		if i == len(s.a.Base)-1 && !s.dead && !s.baseChecked {
			// the base state itself is checked once per instance
			s.baseChecked = true
			sc := s.scratch
			s.scratch = true // no first-appearance filtering here
			vs = s.Check()
			s.scratch = sc
		}
		// a failure while building the base state is reported without an op list
		// (the replayer re-creates it in Reset)
		for _, v := range vs {
			v.System = "trie-" + s.a.Name
			v.Detail = fmt.Sprintf("while building the base state %v (failed at %s): %s", s.a.Base, op, v.Detail)
			s.r.Report(v)
		}
		if s.dead {
			break
		}
	}
	s.quiet = q
	s.ops = s.ops[:0]
	s.viols = s.viols[:0]
}

func (s *Sys) Enabled() []string {
	if s.dead {
		return nil
	}
	var ops []string
	if s.a.Puts != nil {
		ops = append(ops, s.a.Puts...)
	} else {
		for _, k := range s.a.Keys {
			for _, c := range s.a.Vals {
				ops = append(ops, fmt.Sprintf("put(%s,%c)", k, c))
			}
		}
	}
	for _, k := range s.a.Keys {
		ops = append(ops, "del("+k+")")
	}
	if !s.a.DBOps {
		return ops
	}
	ops = append(ops, "hash", "commit")
	if s.base != nil {
		ops = append(ops, "reopen")
		if !s.base.persisted {
			ops = append(ops, "dbcommit")
		}
		ops = append(ops, "cap")
	}
	if len(s.gcq) >= 2 {
		ops = append(ops, "deref")
	}
	if s.lastPersisted != nil {
		ops = append(ops, "restart")
	}
	return ops
}

// view returns a shallow copy of the explored trie for observation.
type tview interface {
	TryGet(key []byte) ([]byte, error)
	Hash() common.Hash
	NodeIterator(start []byte) trie.NodeIterator
	Prove(key []byte, fromLevel uint, proofDb youdb.Putter) error
}

func (s *Sys) view() tview {
	if s.a.Secure {
		return s.st.Copy()
	}
	c := *s.pt
	return &c
}

// storeKey is the key as it is stored in the underlying trie (hashed for the
// secure trie): used for the reference root, iteration and proofs.
func (s *Sys) storeKey(name string) []byte {
	if s.a.Secure {
		return crypto.Keccak256(keyBytes[name])
	}
	return keyBytes[name]
}

func opKind(op string) string {
	if i := strings.Index(op, "("); i > 0 {
		return op[:i]
	}
	return op
}

func (s *Sys) viol(sig, detail string) {
	s.viols = append(s.viols, mc.Violation{Sig: sig, Detail: detail})
}

func copyContent(m map[string]byte) map[string]byte {
	c := make(map[string]byte, len(m))
	for k, v := range m {
		c[k] = v
	}
	return c
}

func contentString(m map[string]byte) string {
	ks := make([]string, 0, len(m))
	for k := range m {
		ks = append(ks, k)
	}
	sort.Strings(ks)
	var b strings.Builder
	for i, k := range ks {
		if i > 0 {
			b.WriteByte(',')
		}
		b.WriteString(k)
		b.WriteByte('=')
		b.WriteByte(m[k])
	}
	return b.String()
}

func short(h common.Hash) string { return fmt.Sprintf("%x", h[:4]) }

func (s *Sys) Apply(op string) string {
	s.viols = s.viols[:0]
	s.pend = s.pend[:0]
	s.ops = append(s.ops, op)
	s.lastOp = op
	var ob string
	s.inApply = true
	msg, where := mc.CatchStack(func() { ob = s.apply(op) })
	s.inApply = false
	if msg != "" {
		s.dead = true
		ob = "PANIC: " + msg
		s.viol(fmt.Sprintf("panic in %s at %s", opKind(op), where), fmt.Sprintf("%s panicked: %s (at %s)", op, msg, where))
	}
	return ob
}

func (s *Sys) apply(op string) string {
	var k string
	var c byte
	switch {
	case strings.HasPrefix(op, "put("):
		body := strings.TrimSuffix(strings.TrimPrefix(op, "put("), ")")
		i := strings.Index(body, ",")
		k, c = body[:i], body[i+1]
		var err error
		if s.a.Secure {
			err = s.st.TryUpdate(keyBytes[k], valBytes[c])
		} else {
			err = s.pt.TryUpdate(keyBytes[k], valBytes[c])
		}
		if err != nil {
			s.viol("update failed on a trie whose base root is referenced or persisted: "+errClass(err), fmt.Sprintf("%s: %v", op, err))
			s.dead = true
			return "ERR"
		}
		s.model[k] = c
		return ""
	case strings.HasPrefix(op, "del("):
		k = strings.TrimSuffix(strings.TrimPrefix(op, "del("), ")")
		var err error
		switch {
		case s.a.Secure && delViaEmptyUpdate[k]:
			err = s.st.TryUpdate(keyBytes[k], nil)
		case s.a.Secure:
			err = s.st.TryDelete(keyBytes[k])
		case delViaEmptyUpdate[k]:
			err = s.pt.TryUpdate(keyBytes[k], []byte{})
		default:
			err = s.pt.TryDelete(keyBytes[k])
		}
		if err != nil {
			s.viol("delete failed on a trie whose base root is referenced or persisted: "+errClass(err), fmt.Sprintf("%s: %v", op, err))
			s.dead = true
			return "ERR"
		}
		if _, ok := s.model[k]; ok {
			s.count("deletes_of_present_key", 1)
		} else {
			s.count("deletes_of_absent_key", 1)
		}
		delete(s.model, k)
		return ""
	}
	switch op {
	case "hash":
		var h common.Hash
		if s.a.Secure {
			h = s.st.Hash()
		} else {
			h = s.pt.Hash()
		}
		if ref := s.refRoot(s.model); h != ref {
			s.viol("Hash() differs from the independent Merkle-Patricia root", fmt.Sprintf("content {%s}: Hash()=%x reference=%x", contentString(s.model), h, ref))
		}
		return short(h)
	case "commit":
		var root common.Hash
		var err error
		if s.a.Secure {
			root, err = s.st.Commit(nil)
		} else {
			root, err = s.pt.Commit(nil)
		}
		if err != nil {
			s.viol("Commit failed: "+errClass(err), err.Error())
			s.dead = true
			return "ERR"
		}
		if ref := s.refRoot(s.model); root != ref {
			s.viol("Commit() root differs from the independent Merkle-Patricia root", fmt.Sprintf("content {%s}: Commit()=%x reference=%x", contentString(s.model), root, ref))
		}
		// as core.BlockChain does after every state commit
		s.tdb.Reference(root, common.Hash{})
		var rec *rootRec
		for _, x := range s.roots {
			if x.hash == root {
				rec = x
			}
		}
		if rec == nil {
			rec = &rootRec{hash: root, content: copyContent(s.model)}
			s.roots = append(s.roots, rec)
		} else {
			s.count("commit_of_an_already_known_root", 1)
		}
		rec.refs++
		s.gcq = append(s.gcq, rec)
		s.base = rec
		return short(root)
	case "reopen":
		if contentString(s.model) != contentString(s.base.content) {
			s.count("reopen_dropping_uncommitted_changes", 1)
		}
		if err := s.open(s.base.hash); err != nil {
			s.viol("reopening the last committed root failed: "+errClass(err), err.Error())
			s.dead = true
			return "ERR"
		}
		s.model = copyContent(s.base.content)
		return ""
	case "dbcommit":
		n0 := len(s.tdb.Nodes())
		if err := s.tdb.Commit(s.base.hash, false); err != nil {
			s.viol("Database.Commit failed", err.Error())
			s.dead = true
			return "ERR"
		}
		s.base.persisted = true
		s.lastPersisted = s.base
		if n := n0 - len(s.tdb.Nodes()); n > 0 {
			s.count("dbcommit_uncached_nodes", 1)
		}
		return ""
	case "deref":
		rec := s.gcq[0]
		s.gcq = s.gcq[1:]
		n0 := len(s.tdb.Nodes())
		s.tdb.Dereference(rec.hash)
		rec.refs--
		if n := n0 - len(s.tdb.Nodes()); n > 0 {
			s.count("deref_collecting_nodes", 1)
		} else {
			s.count("deref_collecting_nothing", 1)
		}
		return fmt.Sprint(n0 - len(s.tdb.Nodes()))
	case "cap":
		n0 := len(s.tdb.Nodes())
		if err := s.tdb.Cap(0); err != nil {
			s.viol("Database.Cap failed", err.Error())
		}
		if n := n0 - len(s.tdb.Nodes()); n > 0 {
			s.count("cap_flushing_nodes", 1)
		}
		return fmt.Sprint(n0 - len(s.tdb.Nodes()))
	case "restart":
		// process restart: only the disk database survives
		p := s.lastPersisted
		s.tdb = trie.NewDatabase(s.disk)
		var keep []*rootRec
		for _, x := range s.roots {
			x.refs = 0
			if x.persisted {
				keep = append(keep, x)
			}
		}
		s.roots, s.gcq, s.base = keep, nil, p
		if err := s.open(p.hash); err != nil {
			s.viol("opening a root persisted with Database.Commit failed after restart: "+errClass(err), err.Error())
			s.dead = true
			return "ERR"
		}
		s.model = copyContent(p.content)
		return ""
	}
	panic("harness: unknown op " + op)
}

func errClass(err error) string {
	if _, ok := err.(*trie.MissingNodeError); ok {
		return "missing trie node"
	}
	return "error"
}

func isDBOp(op string) bool {
	switch op {
	case "commit", "reopen", "dbcommit", "deref", "cap", "restart":
		return true
	}
	return false
}

// ---- oracle ------------------------------------------------------------------------

var rootMemo sync.Map // "s|content" -> common.Hash

func (s *Sys) refRoot(model map[string]byte) common.Hash {
	key := "p|" + contentString(model)
	if s.a.Secure {
		key = "s" + key[1:]
	}
	if v, ok := rootMemo.Load(key); ok {
		return v.(common.Hash)
	}
	m := map[string][]byte{}
	for k, c := range model {
		m[string(s.storeKey(k))] = valBytes[c]
	}
	h := common.Hash(RefRoot(m))
	rootMemo.Store(key, h)
	return h
}

func (s *Sys) Check() []mc.Violation {
	out := append([]mc.Violation{}, s.viols...)
	for _, n := range s.pend {
		s.r.Count(n, 1)
	}
	s.pend = s.pend[:0]
	if s.dead {
		return out
	}
	n0 := len(out)
	msg, where := mc.CatchStack(func() { s.observe(&out) })
	if msg != "" {
		out = append(out, mc.Violation{Sig: fmt.Sprintf("panic while reading the trie at %s after %s", where, opKind(s.lastOp)),
			Detail: fmt.Sprintf("after %s: %s (at %s)", s.lastOp, msg, where)})
	}
	// A wrong state stays wrong under later ops.  Signatures name the op kind
	// after which a failure FIRST appears: a failure the parent state (same
	// ops minus the last) already shows is left to the execution that ends
	// there (DFS-all/BFS explore every prefix, so nothing is lost).
	if len(out) > n0 && !s.scratch && len(s.ops) > 0 {
		ps := s.parentStems()
		kept := append([]mc.Violation{}, out[:n0]...)
		for _, v := range out[n0:] {
			if i := strings.LastIndex(v.Sig, " after "); i >= 0 && ps[v.Sig[:i]] {
				continue
			}
			kept = append(kept, v)
		}
		out = kept
	}
	return out
}

func (s *Sys) parentStems() map[string]bool {
	p := &Sys{a: s.a, r: s.r, quiet: true, scratch: true}
	p.Reset()
	for _, op := range s.ops[:len(s.ops)-1] {
		p.Apply(op)
	}
	stems := map[string]bool{}
	for _, v := range p.Check() {
		if i := strings.LastIndex(v.Sig, " after "); i >= 0 {
			stems[v.Sig[:i]] = true
		}
	}
	return stems
}

func (s *Sys) observe(out *[]mc.Violation) {
	add := func(sig, detail string) { *out = append(*out, mc.Violation{Sig: sig, Detail: detail}) }
	content := contentString(s.model)
	after := " after " + opKind(s.lastOp)
	kind := "plain"
	if s.a.Secure {
		kind = "secure"
	}
	if !s.quiet {
		s.r.Distinct(kind + "|" + content)
	}

	// 1. lookups
	v := s.view()
	for _, k := range allKeys {
		got, err := v.TryGet(keyBytes[k])
		c, present := s.model[k]
		switch {
		case err != nil:
			add("lookup failed ("+errClass(err)+")"+after, fmt.Sprintf("content {%s}: TryGet(%s): %v", content, k, err))
		case present && got == nil:
			add("lookup lost a stored key"+after, fmt.Sprintf("content {%s}: Get(%s)=nil", content, k))
		case !present && got != nil:
			add("lookup returned a value for an absent key"+after, fmt.Sprintf("content {%s}: Get(%s)=%x", content, k, got))
		case present && !bytes.Equal(got, valBytes[c]):
			add("lookup returned a wrong value"+after, fmt.Sprintf("content {%s}: Get(%s)=%x want %x", content, k, got, valBytes[c]))
		case present:
			s.count("lookups_present", 1)
		default:
			s.count("lookups_absent", 1)
		}
	}

	// 2. canonical root = reference root (history independence + cross-implementation identity)
	ref := s.refRoot(s.model)
	if h := s.view().Hash(); h != ref {
		add("root hash differs from the independent Merkle-Patricia root"+after,
			fmt.Sprintf("content {%s}: trie root %x, reference %x; ops %v", content, h, ref, s.ops))
	} else {
		s.count("root_comparisons_equal", 1)
	}

	// 3. iteration (+ the iterator's own leaf proofs)
	s.checkIteration(add, content, after, ref)

	// 4. proofs for every key of the alphabet, present or absent (non-empty trie only)
	if len(s.model) > 0 {
		pk := s.a.ProofKeys
		if pk == nil {
			pk = allKeys
		}
		for _, k := range pk {
			s.checkProof(out, k, ref, content)
		}
	}

	// 5. every referenced or persisted root is still completely readable
	if isDBOp(s.lastOp) {
		for _, rec := range s.roots {
			if rec.refs <= 0 && !rec.persisted {
				continue
			}
			s.checkRoot(add, rec, after)
		}
	}
}

func (s *Sys) checkRoot(add func(sig, detail string), rec *rootRec, after string) {
	var get func([]byte) ([]byte, error)
	what := "referenced"
	if rec.persisted {
		what = "persisted"
	}
	if s.a.Secure {
		t, err := trie.NewSecure(rec.hash, s.tdb, 0)
		if err != nil {
			add("a "+what+" root can no longer be opened"+after, fmt.Sprintf("root %x {%s}: %v", rec.hash, contentString(rec.content), err))
			return
		}
		get = t.TryGet
	} else {
		t, err := trie.New(rec.hash, s.tdb)
		if err != nil {
			add("a "+what+" root can no longer be opened"+after, fmt.Sprintf("root %x {%s}: %v", rec.hash, contentString(rec.content), err))
			return
		}
		get = t.TryGet
	}
	for _, k := range storedKeys {
		got, err := get(keyBytes[k])
		c, present := rec.content[k]
		if err != nil || (present && !bytes.Equal(got, valBytes[c])) || (!present && got != nil) {
			add("a "+what+" root lost data"+after, fmt.Sprintf("root %x {%s}: Get(%s)=%x err=%v", rec.hash, contentString(rec.content), k, got, err))
			return
		}
	}
	s.count("live_roots_fully_read_"+what, 1)
}

func prefixFree(keys [][]byte) bool {
	for i := range keys {
		for j := range keys {
			if i != j && bytes.HasPrefix(keys[j], keys[i]) {
				return false
			}
		}
	}
	return true
}

func (s *Sys) checkIteration(add func(sig, detail string), content, after string, root common.Hash) {
	want := map[string][]byte{}
	var wantKeys [][]byte
	for k, c := range s.model {
		sk := s.storeKey(k)
		want[string(sk)] = valBytes[c]
		wantKeys = append(wantKeys, sk)
	}
	it := trie.NewIterator(s.view().NodeIterator(nil))
	leafProofs := s.a.LeafProofs || s.lastOp == "hash" || isDBOp(s.lastOp)
	var gotKeys [][]byte
	seen := map[string]bool{}
	bad := false
	for it.Next() {
		k := append([]byte{}, it.Key...)
		val := append([]byte{}, it.Value...)
		gotKeys = append(gotKeys, k)
		w, ok := want[string(k)]
		switch {
		case seen[string(k)]:
			add("iteration returned a key twice"+after, fmt.Sprintf("content {%s}: key %x", content, k))
			bad = true
		case !ok:
			add("iteration returned a key that is not stored"+after, fmt.Sprintf("content {%s}: key %x", content, k))
			bad = true
		case !bytes.Equal(w, val):
			add("iteration returned a wrong value"+after, fmt.Sprintf("content {%s}: key %x value %x", content, k, val))
			bad = true
		}
		seen[string(k)] = true
		// the iterator's own Merkle proof of the leaf it stands on
		if leafProofs {
			db := proofDB{}
			for _, blob := range it.Prove() {
				db[string(crypto.Keccak256(blob))] = blob
			}
			pv, _, err := trie.VerifyProof(root, k, db)
			if err != nil || !bytes.Equal(pv, val) {
				add("iterator leaf proof does not verify to the leaf value", fmt.Sprintf("content {%s}: key %x value %x proof gives %x err=%v", content, k, val, pv, err))
			} else {
				s.count("iterator_leaf_proofs_verified", 1)
			}
		}
		if s.a.Secure {
			// preimage of the hashed key must still be known
			var orig []byte
			for name := range s.model {
				if bytes.Equal(s.storeKey(name), k) {
					orig = keyBytes[name]
				}
			}
			if pre := s.st.GetKey(k); ok && !bytes.Equal(pre, orig) {
				add("secure trie lost or confused a key preimage"+after, fmt.Sprintf("content {%s}: GetKey(%x)=%x want %x", content, k, pre, orig))
			}
		}
	}
	if it.Err != nil {
		add("iteration failed ("+errClass(it.Err)+")"+after, fmt.Sprintf("content {%s}: %v", content, it.Err))
		return
	}
	if len(gotKeys) != len(want) && !bad {
		add("iteration missed stored keys"+after, fmt.Sprintf("content {%s}: returned %d of %d pairs", content, len(gotKeys), len(want)))
		return
	}
	if prefixFree(wantKeys) {
		for i := 1; i < len(gotKeys); i++ {
			if bytes.Compare(gotKeys[i-1], gotKeys[i]) >= 0 {
				add("iteration not in ascending key order on a prefix-free key set"+after, fmt.Sprintf("content {%s}: %x before %x", content, gotKeys[i-1], gotKeys[i]))
				return
			}
		}
		if len(gotKeys) >= 2 {
			s.count("iterations_ordered_prefix_free(>=2 keys)", 1)
		}
	} else {
		s.count("iterations_with_a_key_prefix_of_another", 1)
	}
}

func (s *Sys) Key() string {
	if s.a.DBOps {
		return "" // DFS systems never merge
	}
	return s.a.Name + "|" + contentString(s.model)
}

// ---- entry points ---------------------------------------------------------------------

type plan struct {
	alpha string
	depth int
	bfs   bool
}

func Run(r *mc.Run) {
	r.Level = "model_checking"
	r.Rule = "every op sequence up to the stated depth over each sub-alphabet (put(k,v)/del(k) on colliding keys incl. the empty key and keys that are nibble-prefixes of others, values of 1/29/40 bytes, hash, commit+Reference, reopen, Database.Commit, Dereference(oldest referenced root), Cap(0), restart on the disk db) is executed on a fresh real trie/SecureTrie + Database; plus BFS over all contents (content-* systems, merged on content). A case is distinct by (trie kind, content); every explored step is checked against the map model, the independent root calculator and the proof oracle"
	logging.Root().SetHandler(logging.DiscardHandler())
	plans := []plan{{"content", 8, true}, {"content-secure", 6, true}, {"prefix-q", 5, false}, {"branch-q", 5, false}, {"secure-q", 5, false}, {"gc-q", 5, false}, {"prefix-deep", 4, false}, {"secure-deep", 4, false}}
	if r.Quick() {
		r.SetBudget(150e9)
	} else {
		plans = []plan{{"content4", 10, true}, {"content-secure", 6, true}, {"prefix-q", 5, false}, {"branch-q", 5, false}, {"secure-q", 5, false}, {"gc-q", 5, false}, {"prefix-deep", 5, false}, {"secure-deep", 5, false}, {"prefix", 5, false}, {"branch", 5, false}, {"secure", 5, false}, {"gc", 5, false}, {"prefix-q", 6, false}, {"branch-q", 6, false}, {"secure-q", 6, false}, {"gc-q", 6, false}, {"prefix", 6, false}, {"branch", 6, false}, {"secure", 6, false}, {"gc", 6, false}}
		r.SetBudget(28 * 60e9)
	}
	if v, err := strconv.Atoi(os.Getenv("VERIF_BUDGET_S")); err == nil && v > 0 {
		r.SetBudget(time.Duration(v) * time.Second) // testing aid: shorter/longer internal deadline
	}
	r.Assume("proof tampering model: a proof travels as the list of node blobs Prove emits (StateDB.GetProof); the verifier stores each blob under its own Keccak-256 (content addressing, as go-ethereum's NodeList.Store / the upstream TestBadProof do) before calling VerifyProof. VerifyProof does not re-hash nodes itself, so a proofDb whose keys are chosen by the adversary is outside its contract (measured as info_* counters only)")
	r.Assume("Database usage follows core.BlockChain: every trie Commit is followed by Reference(root, meta-root); only the oldest outstanding reference is dropped (never the last reference of the root the live trie is based on); a root counts as durable only after Database.Commit(root)")
	r.Assume("the empty trie has no proofs (as the property states)")
	selfTestReference(r)
	depths := map[string]int{}
	var completed []string
	for _, p := range plans {
		p := p
		a := alphas[p.alpha]
		name := "trie-" + a.Name
		f := func() mc.System { return newSys(r, a, false) }
		cfg := fmt.Sprintf("secure=%v cachelimit=%d base state: [%s]", a.Secure, a.CacheLimit, strings.Join(a.Base, " ; "))
		if p.bfs {
			n := r.BFS(f, mc.SeqOpts{Name: name, Config: cfg, Depth: p.depth, NoDistinct: true})
			r.SetExtra(name+"_contents", n)
		} else {
			r.DFSAll(f, mc.SeqOpts{Name: name, Config: cfg, Depth: p.depth, ShardDepth: 2, NoDistinct: true})
		}
		r.ConfirmSeq(name, func() mc.System { return newSys(r, a, true) })
		depths[fmt.Sprintf("%s@%d", name, p.depth)] = p.depth
		if r.Expired() {
			break
		}
		completed = append(completed, fmt.Sprintf("%s@%d", name, p.depth))
	}
	r.SetExtra("systems_completed", completed)
	r.SetExtra("depth_per_system", depths)
	r.SetExtra("proof_cases_checked_exhaustively(content,key,proof)", proofMemoLen())
}

// selfTestReference pins the independent calculator to published vectors: the
// ethereum/tests "dogs" trie and the two root vectors of /repo/trie/trie_test.go.
func selfTestReference(r *mc.Run) {
	vec := []struct {
		kv   map[string][]byte
		want string
	}{
		{map[string][]byte{"doe": []byte("reindeer"), "dog": []byte("puppy"), "dogglesworth": []byte("cat")},
			"8aad789dff2f538bca5d8ea56e8abe10f4c7ba3a5dea95fea4cd6e7c3a1168d3"},
		{map[string][]byte{"abc": []byte("def"), "111": []byte("222")},
			"08f168795cf15b746e607120c01ed67cc3db05b61f0ccd243c58bde7acd9b2e2"},
		{map[string][]byte{"A": []byte("BBB")},
			"995be854bd598038e9298cf2b3dcf9665da154192f954387afa0849ed1c909f3"},
		{map[string][]byte{}, "56e81f171bcc55a6ff8345e692c0f86e5b48e01b996cadc001622fb5e363b421"},
	}
	for _, x := range vec {
		if got := fmt.Sprintf("%x", RefRoot(x.kv)); got != x.want {
			r.HarnessError(fmt.Sprintf("independent root calculator fails a published vector: got %s want %s", got, x.want))
		}
	}
}

func Replay(r *mc.Run, v *mc.Violation) {
	logging.Root().SetHandler(logging.DiscardHandler())
	a, ok := alphas[strings.TrimPrefix(v.System, "trie-")]
	if !ok {
		fmt.Println("unknown system", v.System)
		return
	}
	obs, viols, err := mc.ReplaySeq(newSys(r, a, true), v.Ops)
	fmt.Println("ops:", v.Ops)
	fmt.Println("obs:", obs, "err:", err)
	for _, x := range viols {
		fmt.Println("VIOLATED:", x.Sig, "\n   ", x.Detail)
		x.System, x.Ops = v.System, v.Ops
		r.Report(x)
	}
}
