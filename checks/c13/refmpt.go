package c13

// Independent Merkle-Patricia root calculator, written from the Ethereum
// yellow paper (appendices B "RLP", C "hex-prefix encoding", D "modified Merkle
// Patricia tree").  It shares NO code with /repo/trie and does not use
// /repo/rlp either (own 20-line RLP encoder); the only import is Keccak-256.
//
//   c(J,i) = RLP(HP(I0[i..], true), I1)                       if |J| = 1          (leaf)
//          = RLP(HP(I0[i..j-1], false), n(J,j))               if j > i common     (extension)
//          = RLP(u(0), ..., u(15), v)                          otherwise           (branch)
//   n(J,i) = ()            if J is empty
//          = c(J,i)        if |c(J,i)| < 32
//          = KEC(c(J,i))   otherwise
//   TRIE(J) = KEC(c(J,0));  TRIE({}) = KEC(RLP(()))
//
// Keys may be of different lengths (a key can be a prefix of another): the
// branch's 17th item v holds the value of the key that ends at the branch.

import (
	"sort"

	"github.com/youchainhq/go-youchain/crypto"
)

func rlpHead(n int, off byte) []byte {
	if n < 56 {
		return []byte{off + byte(n)}
	}
	var be []byte
	for x := n; x > 0; x >>= 8 {
		be = append([]byte{byte(x)}, be...)
	}
	return append([]byte{off + 55 + byte(len(be))}, be...)
}

func rlpString(b []byte) []byte {
	if len(b) == 1 && b[0] < 0x80 {
		return []byte{b[0]}
	}
	return append(rlpHead(len(b), 0x80), b...)
}

// rlpList takes already-encoded items.
func rlpList(items ...[]byte) []byte {
	var payload []byte
	for _, it := range items {
		payload = append(payload, it...)
	}
	return append(rlpHead(len(payload), 0xc0), payload...)
}

// hexPrefix: yellow paper appendix C.
func hexPrefix(nib []byte, term bool) []byte {
	f := byte(0)
	if term {
		f = 2
	}
	var out []byte
	if len(nib)%2 == 1 {
		out = append(out, 16*(f+1)+nib[0])
		nib = nib[1:]
	} else {
		out = append(out, 16*f)
	}
	for i := 0; i < len(nib); i += 2 {
		out = append(out, 16*nib[i]+nib[i+1])
	}
	return out
}

type refKV struct {
	nib []byte
	val []byte
}

func nibbles(key []byte) []byte {
	out := make([]byte, 0, 2*len(key))
	for _, b := range key {
		out = append(out, b>>4, b&15)
	}
	return out
}

// refC is c(J,i): the RLP structure of the node for the key set J (all sharing
// their first i nibbles).
func refC(J []refKV, i int) []byte {
	if len(J) == 1 {
		return rlpList(rlpString(hexPrefix(J[0].nib[i:], true)), rlpString(J[0].val))
	}
	// longest common prefix beyond i
	j := len(J[0].nib)
	for _, kv := range J[1:] {
		n := i
		for n < j && n < len(kv.nib) && kv.nib[n] == J[0].nib[n] {
			n++
		}
		j = n
	}
	if j > i {
		return rlpList(rlpString(hexPrefix(J[0].nib[i:j], false)), refN(J, j))
	}
	items := make([][]byte, 17)
	var val []byte
	for nb := 0; nb < 16; nb++ {
		var sub []refKV
		for _, kv := range J {
			if len(kv.nib) > i && int(kv.nib[i]) == nb {
				sub = append(sub, kv)
			}
		}
		items[nb] = refN(sub, i+1)
	}
	for _, kv := range J {
		if len(kv.nib) == i {
			val = kv.val
		}
	}
	items[16] = rlpString(val)
	return rlpList(items...)
}

// refN is n(J,i): the reference to the node as it appears inside its parent.
func refN(J []refKV, i int) []byte {
	if len(J) == 0 {
		return rlpString(nil)
	}
	c := refC(J, i)
	if len(c) < 32 {
		return c
	}
	return rlpString(crypto.Keccak256(c))
}

// RefRoot returns TRIE(content) for a key -> value map (keys as raw bytes in
// the string).
func RefRoot(content map[string][]byte) (root [32]byte) {
	if len(content) == 0 {
		copy(root[:], crypto.Keccak256(rlpString(nil)))
		return
	}
	var J []refKV
	for k, v := range content {
		J = append(J, refKV{nibbles([]byte(k)), v})
	}
	sort.Slice(J, func(a, b int) bool { return string(J[a].nib) < string(J[b].nib) })
	copy(root[:], crypto.Keccak256(refC(J, 0)))
	return
}
