package c02

import (
	"fmt"
	"os"
	"time"

	"github.com/youchainhq/go-youchain/consensus/ucon"

	"verif/mc"
)

const certRound = 32768 // params.ACoCHTFrequency: rounds that are multiples of it need certificate votes

type plan struct {
	cfg   Cfg
	depth int
}

var (
	pvpc   = []ucon.VoteType{ucon.Prevote, ucon.Precommit}
	pvpcnx = []ucon.VoteType{ucon.Prevote, ucon.Precommit, ucon.NextIndex}
)

func peers(ws ...uint32) []PeerCfg {
	var out []PeerCfg
	for _, x := range ws {
		out = append(out, PeerCfg{Weight: x})
	}
	return out
}

// plans returns the systems explored in a tier.  T = 3 everywhere: quorum =
// uint32(3*0.685) = 2 for prevote/precommit/next, uint32(3*0.585) = 1 for
// certificate votes; own weight 1.
//
//	w2   : two peers of weight 2 — every peer vote is a quorum on its own, so
//	       "adversarial quorums for different blocks" cost one op each
//	w1   : DESIGN's three peers of weight 1 (quorum = own vote + one peer, or two peers)
//	cert : round 32768, certificate votes exist
//	resume: additionally the in-process Pause/Resume path (Server.Resume)
func plans(quick bool) []plan {
	base := Cfg{BaseRound: 1000, Rounds: 2, MaxIndex: 3, OwnWeight: 1, T: 3, Tc: 3,
		NextHashes: []string{"-", "A"}, MaxSel: []string{"A", "B", "-"}, MaxCrashes: 1}
	mk := func(name string, f func(*Cfg)) Cfg {
		c := base
		c.Name = name
		f(&c)
		return c
	}
	w2 := mk("voter-w2", func(c *Cfg) { c.Peers = peers(2, 2); c.Kinds = pvpc; c.Rounds = 1 })
	rounds := mk("voter-rounds-w2", func(c *Cfg) { c.Peers = peers(2, 2); c.Kinds = pvpc; c.Rounds = 2; c.MaxIndex = 1 })
	cert := mk("voter-cert-w2", func(c *Cfg) {
		c.Peers = peers(2, 2)
		c.Kinds = []ucon.VoteType{ucon.Prevote, ucon.Precommit, ucon.Certificate}
		c.BaseRound, c.Rounds, c.MaxIndex = certRound, 1, 2
	})
	w1 := mk("voter-w1", func(c *Cfg) { c.Peers = peers(1, 1, 1); c.Kinds = pvpcnx; c.Rounds = 1; c.MaxIndex = 2 })
	resume := mk("voter-resume-w2", func(c *Cfg) { c.Peers = peers(2, 2); c.Kinds = pvpc; c.Resume = true; c.Rounds = 1; c.MaxIndex = 2 })
	// non-initial start state: the previous round was decided at round index 2 (prevote and precommit records of
	// (R,2) are in the database) and the node has entered round R+1.  Restore logic that compares records of
	// different rounds is only exercised from here.
	after := mk("voter-after-idx2-w2", func(c *Cfg) {
		c.Peers = peers(2, 2)
		c.Kinds = pvpc
		c.Rounds, c.MaxIndex = 2, 2
		c.Prelude = []string{"step2:A", "next", "step2:A", "v:p1:PV:A", "round"}
	})
	if quick {
		// cheapest first: what a system does not use of its share goes to the later ones
		return []plan{{resume, 5}, {w1, 5}, {after, 4}, {cert, 5}, {rounds, 6}, {w2, 6}}
	}
	// thorough variants get their own names: replay files name the system
	t := func(c Cfg, f func(*Cfg)) Cfg { f(&c); c.Name += "+"; return c }
	return []plan{
		{mk("voter-bls-w2", func(c *Cfg) { c.Peers = peers(2, 2); c.Kinds = pvpc; c.BLS = true; c.Rounds = 1; c.MaxIndex = 2 }), 5},
		{mk("voter-bls-cert-w2", func(c *Cfg) {
			c.Peers = peers(2, 2)
			c.Kinds = []ucon.VoteType{ucon.Precommit, ucon.Certificate}
			c.BLS = true
			c.BaseRound, c.Rounds, c.MaxIndex = certRound, 1, 2
		}), 5},
		{mk("voter-noprevote-w2", func(c *Cfg) {
			c.Peers = peers(2, 2)
			c.Kinds = pvpc
			c.Ineligible = map[ucon.VoteType]bool{ucon.Prevote: true}
			c.Rounds = 1
		}), 7},
		{mk("voter-missingB-w2", func(c *Cfg) { c.Peers = peers(2, 2); c.Kinds = pvpcnx; c.MissingB = true; c.Rounds = 1 }), 7},
		{t(after, func(c *Cfg) { c.MaxCrashes = 2 }), 6},
		{t(resume, func(c *Cfg) { c.MaxCrashes = 2; c.Rounds = 2 }), 7},
		{t(w1, func(c *Cfg) { c.MaxCrashes = 2; c.Rounds = 2 }), 7},
		{t(cert, func(c *Cfg) { c.MaxCrashes = 2; c.CrashMin = true; c.Rounds = 2 }), 7},
		{t(rounds, func(c *Cfg) { c.MaxCrashes = 2; c.MaxIndex = 2 }), 8},
		{t(w2, func(c *Cfg) { c.MaxCrashes = 2; c.CrashMin = true }), 8},
	}
}

func planByName(name string) *plan {
	for _, q := range []bool{true, false} {
		for _, p := range plans(q) {
			if p.cfg.Name == name {
				pp := p
				return &pp
			}
		}
	}
	return nil
}

// Run is the check entry point.
func Run(r *mc.Run) {
	r.Level = "model_checking"
	r.Rule = "BFS over the reachable states of the real ucon.Voter (NewVoter on a write-log database; one atomic step = one updateContext / processVoteMsg call; ops = step timers in timer order with every max-priority answer, any peer vote for the current context, next index, new round, crash at every durable-write prefix of the last step followed by the node's restart sequence, optionally Pause/Resume); states are merged on a canonical key of ALL Voter/VoteDB/tally fields + the vote records + the ghost multiset of own votes emitted so far; distinct = distinct such keys; a case is non-trivial by construction (every state is a different Voter state or vote history)"
	r.Assume("step timers arrive in timer order per (round,index); steps 1 and 3 are folded into 0 and 2 (Voter only stores v.step for them and compares it with < 4)")
	r.Assume("contexts only move forward (next index, new round) except through a restart or Server.Resume, which both re-enter index 1 of the current round as Server.clearData(true) does")
	r.Assume("the node's own sortition result is the same before and after a restart (it is a deterministic VRF of the look-back seed)")
	r.Assume("a vote counts as emitted when Voter.vote posts its SendMessageEvent; a crash at durable-write prefix j keeps every post made before write j+1 (the dominated 'after the Put, before the post' variant is explored in the thorough tier)")
	r.Assume("reductions: interchangeable peers (same weight) and the two proposals A/B are explored up to renaming; peers vote at most once per kind and context here (duplicates and peer equivocation are C03's alphabet); own votes of finished rounds are dropped from the ghost history because rounds never decrease")
	r.Assume("environment answers: both proposals are in the block cache and the node is eligible for every step (variants without prevote eligibility / with a missing proposal run in the thorough tier); BLS signing is off in the quick tier and on in two thorough systems")
	depths := map[string]int{}
	ps := plans(r.Quick())
	total := 160 * time.Second
	if !r.Quick() {
		total = 28 * time.Minute
	}
	for i, p := range ps {
		p := p
		if only := os.Getenv("VERIF_C02_ONLY"); only != "" && only != p.cfg.Name {
			continue
		}
		if d := os.Getenv("VERIF_C02_DEPTH"); d != "" {
			fmt.Sscan(d, &p.depth)
		}
		// every system gets an equal share of what is left of the budget
		r.SetBudget(time.Since(r.Start) + (total-time.Since(r.Start))/time.Duration(len(ps)-i))
		depths[p.cfg.Name] = p.depth
		f := func() mc.System { return NewSys(r, &p.cfg) }
		n := r.BFS(f, mc.SeqOpts{Name: p.cfg.Name, Depth: p.depth, MaxStates: 2500000})
		r.SetExtra(p.cfg.Name+"_states", n)
		r.ConfirmSeq(p.cfg.Name, func() mc.System { s := NewSys(r, &p.cfg); s.NoCount = true; return s })
	}
	r.SetExtra("depth_per_system", depths)
}

// Replay re-executes a replay file without the explorer.
func Replay(r *mc.Run, v *mc.Violation) {
	p := planByName(v.System)
	if p == nil {
		fmt.Println("unknown system", v.System)
		return
	}
	obs, viols, err := mc.ReplaySeq(NewSys(r, &p.cfg), v.Ops)
	for i, op := range v.Ops {
		o := ""
		if i < len(obs) {
			o = obs[i]
		}
		fmt.Printf("  %2d %-14s -> %s\n", i+1, op, o)
	}
	if err != nil {
		fmt.Println("replay error:", err)
	}
	for _, x := range viols {
		x.System, x.Ops = v.System, v.Ops
		fmt.Println("  violation:", x.Sig)
		if x.Sig == v.Sig {
			r.Report(x)
		}
	}
}
