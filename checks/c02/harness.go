// Package c02: an honest validator never signs two conflicting votes, even
// across restarts.  This file is the closed driver around the REAL ucon.Voter
// (shared with checks/c03): real NewVoter on an mc.CrashDB, driven through the
// two handler entry points updateContext / processVoteMsg exactly as
// ucon.Server and ucon.MessageHandler call them, with everything the Voter
// posts on its event mux captured synchronously (event.VerifAsyncPostHook).
package c02

import (
	"crypto/ecdsa"
	"crypto/sha256"
	"errors"
	"fmt"
	"math/big"
	"sort"
	"strings"
	"sync"

	"github.com/youchainhq/go-youchain/bls"
	"github.com/youchainhq/go-youchain/common"
	"github.com/youchainhq/go-youchain/common/hexutil"
	"github.com/youchainhq/go-youchain/consensus/ucon"
	"github.com/youchainhq/go-youchain/core/state"
	"github.com/youchainhq/go-youchain/core/types"
	"github.com/youchainhq/go-youchain/crypto"
	"github.com/youchainhq/go-youchain/event"
	"github.com/youchainhq/go-youchain/logging"
	"github.com/youchainhq/go-youchain/params"
	"github.com/youchainhq/go-youchain/rlp"
	"github.com/youchainhq/go-youchain/staking"

	"verif/mc"
)

// ---- the fixed world: keys, proposals ------------------------------------------

const MaxPeers = 6

type world struct {
	ownKey   *ecdsa.PrivateKey
	ownAddr  common.Address
	ownBls   bls.SecretKey
	peerKey  [MaxPeers]*ecdsa.PrivateKey
	peerAddr [MaxPeers]common.Address
	peerBls  [MaxPeers]bls.SecretKey
	blocks   map[string]*types.Block // "A", "B"
	hash     map[string]common.Hash  // "A", "B", "-" (empty)
	prio     map[string]common.Hash
	name     map[common.Hash]string
	addrName map[common.Address]string
	vals     *state.Validators // only used with BLS on
}

var (
	wOnce sync.Once
	w     *world
)

func detKey(seed string) *ecdsa.PrivateKey {
	k, err := crypto.ToECDSA(crypto.Keccak256([]byte(seed)))
	if err != nil {
		panic(err)
	}
	return k
}

func detBls(seed string) bls.SecretKey {
	mgr := bls.NewBlsManager()
	for i := 0; i < 64; i++ {
		b := crypto.Keccak256([]byte(fmt.Sprintf("%s/%d", seed, i)))
		b[0] &= 0x0f // stay below the group order
		if sk, err := mgr.DecSecretKey(b); err == nil && sk != nil {
			return sk
		}
	}
	panic("harness: no deterministic bls key")
}

// W returns the shared fixed world (fixed keys: the same input gives the same
// execution in every run).
func W() *world {
	wOnce.Do(func() {
		x := &world{blocks: map[string]*types.Block{}, hash: map[string]common.Hash{}, prio: map[string]common.Hash{},
			name: map[common.Hash]string{}, addrName: map[common.Address]string{}}
		x.ownKey = detKey("verif/c02/own")
		x.ownAddr = crypto.PubkeyToAddress(x.ownKey.PublicKey)
		x.ownBls = detBls("verif/c02/own/bls")
		x.addrName[x.ownAddr] = "me"
		for i := 0; i < MaxPeers; i++ {
			x.peerKey[i] = detKey(fmt.Sprintf("verif/c02/peer/%d", i))
			x.peerAddr[i] = crypto.PubkeyToAddress(x.peerKey[i].PublicKey)
			x.peerBls[i] = detBls(fmt.Sprintf("verif/c02/peer/%d/bls", i))
			x.addrName[x.peerAddr[i]] = fmt.Sprintf("p%d", i+1)
		}
		for i, n := range []string{"A", "B"} {
			h := &types.Header{Number: big.NewInt(1000), Subsidy: new(big.Int), GasRewards: new(big.Int), Extra: []byte("proposal " + n), Time: uint64(1 + i)}
			b := types.NewBlockWithHeader(h)
			x.blocks[n] = b
			x.hash[n] = b.Hash()
			x.prio[n] = common.BytesToHash([]byte{0xf0, byte(0xa + i)})
			x.name[b.Hash()] = n
		}
		x.hash["-"] = common.Hash{}
		x.prio["-"] = common.Hash{}
		x.name[common.Hash{}] = "-"
		// validator table for the BLS path (VoterIdx -> keys)
		var list []*state.Validator
		mk := func(k *ecdsa.PrivateKey, b bls.SecretKey, stake int64) *state.Validator {
			pk, _ := b.PubKey()
			return state.NewValidator("v", common.Address{}, common.Address{}, params.RoleChancellor,
				hexutil.Bytes(crypto.CompressPubkey(&k.PublicKey)), hexutil.Bytes(pk.Compress().Bytes()),
				big.NewInt(stake), big.NewInt(stake), 0, 0, 0, params.ValidatorOnline)
		}
		list = append(list, mk(x.ownKey, x.ownBls, 100))
		for i := 0; i < MaxPeers; i++ {
			list = append(list, mk(x.peerKey[i], x.peerBls[i], int64(90-i)))
		}
		x.vals = state.NewValidators(list)
		w = x
	})
	return w
}

// HName names a block hash: A, B, - (empty hash) or a hex prefix.
func HName(h common.Hash) string {
	if n, ok := W().name[h]; ok {
		return n
	}
	return fmt.Sprintf("x%x", h[:3])
}

func AName(a common.Address) string {
	if n, ok := W().addrName[a]; ok {
		return n
	}
	return fmt.Sprintf("a%x", a[:3])
}

var kindNames = map[ucon.VoteType]string{ucon.Prevote: "PV", ucon.Precommit: "PC", ucon.NextIndex: "NX", ucon.Certificate: "CT"}
var kindByName = map[string]ucon.VoteType{"PV": ucon.Prevote, "PC": ucon.Precommit, "NX": ucon.NextIndex, "CT": ucon.Certificate}
var kindLong = map[ucon.VoteType]string{ucon.Prevote: "prevote", ucon.Precommit: "precommit", ucon.NextIndex: "next-index", ucon.Certificate: "certificate"}

func OwnAddr() common.Address           { return W().ownAddr }
func PeerAddr(i int) common.Address     { return W().peerAddr[i] }
func Hash(name string) common.Hash      { return W().hash[name] }
func KindByName(n string) ucon.VoteType { return kindByName[n] }

// ObsWith renders an observation: extra + everything posted by the last op.
func (s *Sys) ObsWith(extra string) string { return s.obs(extra) }
func ResStr(err error, bad bool) string    { return resStr(err, bad) }
func (s *Sys) StepPos() int                { return s.stepPos }

var allKinds = []ucon.VoteType{ucon.Prevote, ucon.Precommit, ucon.NextIndex, ucon.Certificate}

func KName(k ucon.VoteType) string { return kindNames[k] }
func KLong(k ucon.VoteType) string { return kindLong[k] }

// staIndex is the position of a kind in VerifC02Mgr.Sta.
func StaIndex(k ucon.VoteType) int {
	switch k {
	case ucon.Prevote:
		return 0
	case ucon.Precommit:
		return 1
	case ucon.NextIndex:
		return 2
	}
	return 3
}

// ---- process-global hooks ---------------------------------------------------------

var (
	hookOnce sync.Once
	registry sync.Map // *event.TypeMux -> *Sys
)

func installHooks() {
	hookOnce.Do(func() {
		logging.Root().SetHandler(logging.DiscardHandler())
		// logging.Crit would os.Exit(1): make reaching it an observation.
		logging.VerifCritHook = func(msg string, ctx []interface{}) { panic("logging.Crit: " + msg) }
		// every AsyncPost of a harness-owned mux is consumed synchronously, in call order
		event.VerifAsyncPostHook = func(mux *event.TypeMux, ev interface{}) bool {
			if s, ok := registry.Load(mux); ok {
				s.(*Sys).onPost(ev)
				return true
			}
			return false
		}
	})
}

// ---- configuration -------------------------------------------------------------------

type PeerCfg struct {
	Weight  uint32
	House   bool // house-kind sender (C03)
	BadCred bool // credential (sortition proof) does not verify (C03)
}

func (p PeerCfg) class() string {
	c := fmt.Sprintf("w%d", p.Weight)
	if p.House {
		c += "h"
	}
	if p.BadCred {
		c += "x"
	}
	return c
}

type Cfg struct {
	Name       string
	BaseRound  uint64 // first round; a multiple of 32768 makes it a certificate round
	Rounds     int
	MaxIndex   uint32
	OwnWeight  uint32
	Peers      []PeerCfg
	T, Tc      uint64 // ValidatorThreshold / CertValThreshold handed out by the stake stub
	Kinds      []ucon.VoteType
	NextHashes []string // hashes a peer may name in a next-index vote
	MaxSel     []string // answers of the max-priority stub at step 2 ("-" = no proposal known)
	MaxCrashes int      // crashes + resumes per execution
	Resume     bool     // in-process Pause/Resume (Server.Resume -> StartNewRound(true))
	CrashMin   bool     // also the "after the Put, before the post" variant of every crash point
	Ineligible map[ucon.VoteType]bool
	MissingB   bool // proposal B never reaches the block cache
	BLS        bool
	PeersEquiv bool // peers may vote twice per kind and context (C03); C02 prunes these
	NoGhost    bool // disable the C02 oracle (C03 part 1 runs without it)
	// Prelude: scripted ops applied at Reset; exploration starts from the state they reach (non-initial
	// start states: e.g. a previous round that was decided at a round index > 1 and left its records behind).
	Prelude []string
}

func (c *Cfg) cert(round uint64) bool { return round > 0 && round%params.ACoCHTFrequency == 0 }

// ---- captured events ---------------------------------------------------------------------

type Posted struct {
	What   string // vote | commit | change | update | evidence | other
	Kind   ucon.VoteType
	Hash   common.Hash
	Round  uint64
	Index  uint32
	Weight uint32
	LogLen int // database write-log length at the time of the post
	Commit *ucon.CommitEvent
	Update *ucon.UpdateExistedHeaderEvent
	Raw    interface{}
}

func (p Posted) String() string {
	switch p.What {
	case "vote":
		return fmt.Sprintf("%s(%s)@%d.%d", kindNames[p.Kind], HName(p.Hash), p.Round, p.Index)
	case "commit":
		return fmt.Sprintf("COMMIT(%s)@%d.%d", HName(p.Hash), p.Round, p.Index)
	case "change":
		return fmt.Sprintf("CHANGE(%s)@%d.%d", HName(p.Hash), p.Round, p.Index)
	case "update":
		return fmt.Sprintf("UPDATE(%s)@%d.%d", HName(p.Hash), p.Round, p.Index)
	case "evidence":
		return "EVIDENCE"
	}
	return "OTHER:" + fmt.Sprintf("%T", p.Raw)
}

// Emit is one own vote that left the Voter (ghost history).
type Emit struct {
	Round uint64
	Index uint32
	Kind  ucon.VoteType
	Hash  common.Hash
	Epoch int  // number of restarts before the emission
	kept  bool // its vote record was in the database when it was posted
	seq   int  // op number
	ll    int  // log length at post (same database generation as seq)
}

func (e Emit) String() string {
	return fmt.Sprintf("%d.%d.%s.%s/e%d", e.Round, e.Index, kindNames[e.Kind], HName(e.Hash), e.Epoch)
}

type recCtx struct {
	ok    bool
	round uint64
	index uint32
}

func (r recCtx) String() string {
	if !r.ok {
		return "none"
	}
	return fmt.Sprintf("%d.%d", r.round, r.index)
}

func (r recCtx) less(o recCtx) bool {
	if !r.ok {
		return o.ok
	}
	if !o.ok {
		return false
	}
	return r.round < o.round || (r.round == o.round && r.index < o.index)
}

// restartInfo is what the harness can observe at the last restart: the vote
// records in the database, what NewVoteDB restored from them, and the context
// the node restarted in.  It is only used to name the cause of a violation.
type restartInfo struct {
	kind     string // "", crash, resume
	recs     map[ucon.VoteType][2]recCtx
	restored recCtx
	marks    map[ucon.VoteType]uint8
	start    recCtx
}

func (ri *restartInfo) String() string {
	if ri.kind == "" {
		return "-"
	}
	var b strings.Builder
	b.WriteString(ri.kind)
	if ri.kind == "crash" {
		for _, k := range allKinds {
			fmt.Fprintf(&b, " %s=%s/%s", kindNames[k], ri.recs[k][0], ri.recs[k][1])
		}
		fmt.Fprintf(&b, " restored=%s marks=%s", ri.restored, markStr(ri.marks))
	}
	fmt.Fprintf(&b, " start=%s", ri.start)
	return b.String()
}

func markStr(m map[ucon.VoteType]uint8) string {
	var b strings.Builder
	for _, k := range allKinds {
		if m[k] != 0 {
			fmt.Fprintf(&b, "%s%d", kindNames[k], m[k])
		}
	}
	return b.String()
}

// ---- the system ---------------------------------------------------------------------------

type Sys struct {
	Cfg *Cfg
	R   *mc.Run

	mux *event.TypeMux
	db  *mc.CrashDB
	V   *ucon.Voter

	// environment (what Server / the network would hold)
	Round   uint64
	Index   uint32
	stepPos int // 0: step 0 delivered; 1: step 2 delivered; 2: step 4; 3: step 5
	maxSel  string

	restarts int
	epoch    int
	seq      int
	namedA   bool // proposal A was named by some earlier op (hash symmetry reduction)

	// last step
	posts      []Posted
	l0         int
	lastWrites int

	ghost   []Emit
	restart restartInfo
	ownMsg  map[ucon.VoteType]*ucon.BlockHashWithVotes // last own vote per kind, as posted (for echo deliveries)

	viols []mc.Violation
	dead  bool

	dump *ucon.VerifC02Dump // cache, invalidated by every Apply

	NoCount bool             // confirmation replays do not feed the evidence counters
	pending map[string]int64 // counters of the last op; flushed by Check (the explorer calls Check only for NEW transitions, not for replayed prefixes)

	// extension points for a wrapping system (checks/c03)
	ExtEnabled func() []string
	ExtApply   func(op string) (obs string, handled bool)

	recDB    *mc.CrashDB // cache of records(), valid for one write-log length
	recLen   int
	recCache map[ucon.VoteType][2]recCtx
}

func NewSys(r *mc.Run, cfg *Cfg) *Sys {
	installHooks()
	W()
	s := &Sys{Cfg: cfg, R: r, mux: new(event.TypeMux)}
	registry.Store(s.mux, s)
	return s
}

// ---- environment stubs = the function values NewVoter takes ---------------------------------

type paramsStub struct{ s *Sys }

func (p paramsStub) cp() *params.CaravelParams {
	yp := params.Versions[params.YouCurrentVersion] // copy
	cp := yp.CaravelParams
	cp.EnableBls = p.s.Cfg.BLS
	cp.ValidatorThreshold = p.s.Cfg.T
	cp.CertValThreshold = p.s.Cfg.Tc
	return &cp
}
func (p paramsStub) CurrentCaravelParams() *params.CaravelParams { return p.cp() }

// CertificateParams mirrors Server.CertificateParams: only certificate rounds have them.
func (p paramsStub) CertificateParams(round *big.Int) (*params.CaravelParams, error) {
	if round.Uint64()%params.ACoCHTFrequency != 0 {
		return nil, fmt.Errorf("round %d is not a certificate round", round)
	}
	return p.cp(), nil
}
func (p paramsStub) CurrentYouParams() *params.YouParams {
	yp := params.Versions[params.YouCurrentVersion]
	yp.EnableBls = p.s.Cfg.BLS
	return &yp
}

type vldReader struct{}

func (vldReader) GetValidatorsStat() (*state.ValidatorsStat, error) {
	return state.NewValidatorsStat(), nil
}
func (vldReader) GetValidatorByMainAddr(a common.Address) *state.Validator { return nil }
func (vldReader) GetValidators() *state.Validators                         { return W().vals }

// GetLookBackVldReader makes paramsStub a ucon.LookBackMgr (Voter.Start hands the Server to the BLS manager).
func (p paramsStub) GetLookBackVldReader(cp *params.CaravelParams, num *big.Int, lbType params.LookBackType) (state.ValidatorReader, error) {
	return vldReader{}, nil
}

func (s *Sys) peerByAddr(a common.Address) int {
	for i := range s.Cfg.Peers {
		if W().peerAddr[i] == a {
			return i
		}
	}
	return -1
}

func (s *Sys) threshold(lb params.LookBackType) uint64 {
	if lb == params.LookBackCert {
		return s.Cfg.Tc
	}
	return s.Cfg.T
}

func (s *Sys) newVoter() *ucon.Voter {
	cfg := s.Cfg
	isValidator := func(round *big.Int, roundIndex uint32, step uint32, lb params.LookBackType) (bool, *ucon.StepView) {
		if cfg.Ineligible[ucon.VoteType(step)] {
			return false, nil
		}
		return true, &ucon.StepView{SortitionProof: []byte{0x01}, SubUsers: cfg.OwnWeight, ValidatorType: params.KindChamber, Threshold: s.threshold(lb)}
	}
	maxPrio := func(round *big.Int, roundIndex uint32) (common.Hash, common.Hash, bool) {
		if s.maxSel == "" || s.maxSel == "-" {
			return common.Hash{}, common.Hash{}, false
		}
		return W().prio[s.maxSel], W().hash[s.maxSel], true
	}
	inCache := func(h common.Hash, prio common.Hash) *types.Block {
		n := HName(h)
		if n == "B" && cfg.MissingB {
			return nil
		}
		return W().blocks[n] // nil for anything but A, B
	}
	stake := func(round *big.Int, addr common.Address, isProposer bool, lb params.LookBackType) (*big.Int, *big.Int, uint64, params.ValidatorKind, uint8, error) {
		th := s.threshold(lb)
		if addr == W().ownAddr {
			return big.NewInt(1), big.NewInt(10), th, params.KindChamber, params.ValidatorOnline, nil
		}
		i := s.peerByAddr(addr)
		if i < 0 {
			return nil, nil, 0, params.KindValidator, params.ValidatorOffline, errors.New("stub: unknown validator")
		}
		kind := params.KindChamber
		if cfg.Peers[i].House {
			kind = params.KindHouse
		}
		return big.NewInt(1), big.NewInt(10), th, kind, params.ValidatorOnline, nil
	}
	// credential check: the claimed weight must be the sortition result of that
	// sender (stub: its configured weight) and the proof must be the expected one
	sortition := func(pk *ecdsa.PublicKey, d *ucon.SortitionData, lb params.LookBackType) error {
		a := crypto.PubkeyToAddress(*pk)
		if a == W().ownAddr { // the node's own vote gossiped back to it
			if d.Votes != cfg.OwnWeight {
				return errors.New("stub: sortition proof does not verify")
			}
			return nil
		}
		i := s.peerByAddr(a)
		if i < 0 {
			return errors.New("stub: unknown sender")
		}
		if cfg.Peers[i].BadCred || d.Votes != cfg.Peers[i].Weight || len(d.Proof) != 1 || d.Proof[0] != 0x01 {
			return errors.New("stub: sortition proof does not verify")
		}
		return nil
	}
	count := func(round *big.Int, kind params.ValidatorKind, lb params.LookBackType) uint64 {
		return uint64(len(cfg.Peers) + 1)
	}
	var blsSk bls.SecretKey
	if cfg.BLS {
		blsSk = W().ownBls
	}
	v := ucon.NewVoter(s.db, W().ownKey, blsSk, s.mux, sortition, isValidator, maxPrio, inCache, stake, count, paramsStub{s})
	v.SetLookBackMgr(paramsStub{s}) // what Voter.Start(lbmgr) does besides starting the event loop
	return v
}

// ---- event capture ------------------------------------------------------------------------------

func (s *Sys) onPost(ev interface{}) {
	p := Posted{Raw: ev, LogLen: s.db.LogLen()}
	switch e := ev.(type) {
	case ucon.SendMessageEvent:
		var m ucon.BlockHashWithVotes
		if err := rlp.DecodeBytes(e.Payload, &m); err != nil || m.Vote == nil || m.Round == nil {
			p.What = "other"
			break
		}
		p.What, p.Kind, p.Hash, p.Round, p.Index, p.Weight = "vote", ucon.MsgCodeToVoteType(e.Code), m.BlockHash, m.Round.Uint64(), m.RoundIndex, m.Vote.Votes
		s.ownMsg[p.Kind] = &m
		s.posts = append(s.posts, p)
		s.onEmit(p)
		return
	case ucon.CommitEvent:
		c := e
		p.What, p.Hash, p.Round, p.Index, p.Commit = "commit", e.Block.Hash(), e.Round.Uint64(), e.RoundIndex, &c
	case ucon.RoundIndexChangeEvent:
		p.What, p.Hash, p.Round, p.Index = "change", e.BlockHash, e.Round.Uint64(), e.RoundIndex
	case ucon.UpdateExistedHeaderEvent:
		u := e
		p.What, p.Hash, p.Round, p.Index, p.Update = "update", e.BlockHash, e.Round.Uint64(), e.RoundIndex, &u
	case staking.Evidence:
		p.What = "evidence"
	default:
		p.What = "other"
	}
	s.posts = append(s.posts, p)
}

// Posts returns what the last op made the Voter post, in call order.
func (s *Sys) Posts() []Posted { return s.posts }

// ---- reading the vote records -----------------------------------------------------------------------

func (s *Sys) records(db *mc.CrashDB) map[ucon.VoteType][2]recCtx {
	if s.recDB == db && s.recLen == db.LogLen() && s.recCache != nil {
		return s.recCache
	}
	out := map[ucon.VoteType][2]recCtx{}
	for _, k := range allKinds {
		var pair [2]recCtx
		for slot := uint8(1); slot <= 2; slot++ {
			// what ucon.ReadVoteData does, without its log line
			data, _ := db.Get(ucon.AddrTypeKey(W().ownAddr, k, slot))
			if len(data) == 0 {
				continue
			}
			it := new(ucon.VoteItem)
			if err := rlp.DecodeBytes(data, it); err == nil && it.Round != nil {
				pair[slot-1] = recCtx{true, it.Round.Uint64(), it.RoundIndex}
			}
		}
		out[k] = pair
	}
	s.recDB, s.recLen, s.recCache = db, db.LogLen(), out
	return out
}

// ---- System interface ------------------------------------------------------------------------------------

func (s *Sys) Reset() {
	s.db = mc.NewCrashDB()
	s.Round, s.Index, s.stepPos, s.maxSel = s.Cfg.BaseRound, 1, 0, ""
	s.restarts, s.epoch, s.seq, s.namedA = 0, 0, 0, false
	s.posts, s.l0, s.lastWrites = nil, 0, 0
	s.ghost, s.restart, s.viols, s.dead, s.dump = nil, restartInfo{}, nil, false, nil
	s.ownMsg = map[ucon.VoteType]*ucon.BlockHashWithVotes{}
	// node start: NewVoter, then the context Server.StartNewRound(true) posts
	// (round = head+1, RoundIndex 1, Step 0).  Votes arriving in between are
	// classified msgFuture by the handler (its round is still nil) and change nothing.
	s.V = s.newVoter()
	s.deliverCtx(0)
	s.posts = nil
	for _, op := range s.Cfg.Prelude {
		ok := false
		for _, e := range s.Enabled() {
			if e == op {
				ok = true
			}
		}
		if !ok {
			panic(fmt.Sprintf("harness: prelude op %q not enabled (enabled: %v)", op, s.Enabled()))
		}
		s.Apply(op)
		// a violation inside the scripted prelude is a violation of the start state
		// (the explorer checks the root), not a harness failure
		if len(s.viols) > 0 {
			for i := range s.viols {
				s.viols[i].Detail = fmt.Sprintf("in the scripted prelude %v at op %q; %s", s.Cfg.Prelude, op, s.viols[i].Detail)
			}
			break
		}
	}
}

func (s *Sys) deliverCtx(step uint32) {
	s.V.VerifC02UpdateContext(ucon.ContextChangeEvent{Round: new(big.Int).SetUint64(s.Round), RoundIndex: s.Index, Step: step, Certificate: s.Cfg.cert(s.Round)})
}

// Dump returns the (cached) copy of the Voter state.
func (s *Sys) Dump() *ucon.VerifC02Dump {
	if s.dump == nil {
		s.dump = s.V.VerifC02Dump()
	}
	return s.dump
}

// CurWrapper returns the tallies of the Voter's current (round, index), or nil.
func (s *Sys) CurWrapper() *ucon.VerifC02Wrapper {
	d := s.Dump()
	for i := range d.Wrappers {
		if d.Wrappers[i].CtxRound == s.Round && d.Wrappers[i].CtxIndex == s.Index {
			return &d.Wrappers[i]
		}
	}
	return nil
}

func (s *Sys) Dead() bool { return s.dead }

// peerAllowed implements the symmetry reduction: among interchangeable peers
// (same class) a peer without any trace in the Voter may only be used when all
// lower-numbered peers of its class already have one.
func (s *Sys) peerAllowed(i int) bool {
	cl := s.Cfg.Peers[i].class()
	for j := 0; j < i; j++ {
		if s.Cfg.Peers[j].class() == cl && !s.hasTrace(j) {
			return false
		}
	}
	return true
}

func (s *Sys) hasTrace(i int) bool {
	a := W().peerAddr[i]
	d := s.Dump()
	for wi := range d.Wrappers {
		for _, m := range []*ucon.VerifC02Mgr{&d.Wrappers[wi].Chamber, &d.Wrappers[wi].House} {
			for k := range m.Sta {
				if _, ok := m.Sta[k].Addr[a]; ok {
					return true
				}
			}
		}
	}
	return false
}

// votedInCurrent tells whether the Voter holds a vote of that kind from peer i in the current context.
func (s *Sys) votedInCurrent(i int, k ucon.VoteType) (common.Hash, bool) {
	cw := s.CurWrapper()
	if cw == nil {
		return common.Hash{}, false
	}
	m := &cw.Chamber
	if s.Cfg.Peers[i].House {
		m = &cw.House
	}
	av, ok := m.Sta[StaIndex(k)].Addr[W().peerAddr[i]]
	return av.Hash, ok
}

func (s *Sys) Enabled() []string {
	if s.dead {
		return nil
	}
	c := s.Cfg
	var ops []string
	switch s.stepPos {
	case 0:
		for _, m := range c.MaxSel {
			ops = append(ops, "step2:"+m)
		}
	case 1:
		ops = append(ops, "step4")
	case 2:
		ops = append(ops, "step5")
	}
	for i := range c.Peers {
		if !s.peerAllowed(i) {
			continue
		}
		for _, k := range c.Kinds {
			if k == ucon.Certificate && !c.cert(s.Round) {
				continue // rejected by CertificateParams; C03 has it as an explicit adversarial input
			}
			if !c.PeersEquiv {
				if _, ok := s.votedInCurrent(i, k); ok {
					continue // duplicates / peer equivocation are C03's alphabet
				}
			}
			hs := []string{"A", "B"}
			if k == ucon.NextIndex {
				hs = c.NextHashes
			}
			for _, h := range hs {
				ops = append(ops, fmt.Sprintf("v:p%d:%s:%s", i+1, kindNames[k], h))
			}
		}
	}
	if s.ExtEnabled != nil {
		ops = append(ops, s.ExtEnabled()...)
	}
	ops = s.FilterSym(ops)
	if s.Index < c.MaxIndex {
		ops = append(ops, "next")
	}
	if s.Round+1 < c.BaseRound+uint64(c.Rounds) {
		ops = append(ops, "round")
	}
	if s.restarts < c.MaxCrashes {
		for j := s.lastWrites; j >= 0; j-- {
			ops = append(ops, fmt.Sprintf("crash@%d", j))
			if c.CrashMin && j >= 1 && s.postAt(s.l0+j) {
				ops = append(ops, fmt.Sprintf("crash@%d-", j))
			}
		}
		if c.Resume {
			ops = append(ops, "resume")
		}
	}
	return ops
}

// FilterSym implements the proposal symmetry reduction: A and B are
// interchangeable (unless B is configured to be missing from the block cache),
// so B may only be named once A has been named by an earlier op.
func (s *Sys) FilterSym(ops []string) []string {
	if s.namedA || s.Cfg.MissingB {
		return ops
	}
	out := ops[:0]
	for _, op := range ops {
		if !strings.HasSuffix(op, ":B") && !strings.Contains(op, ":B:") {
			out = append(out, op)
		}
	}
	return out
}

func (s *Sys) postAt(ll int) bool {
	for _, p := range s.posts {
		if p.What == "vote" && p.LogLen == ll {
			return true
		}
	}
	return false
}

func (s *Sys) Apply(op string) string {
	s.viols = s.viols[:0]
	s.pending = nil
	s.seq++
	if strings.HasSuffix(op, ":A") || strings.Contains(op, ":A:") {
		s.namedA = true
	}
	var ob string
	msg, where := mc.CatchStack(func() { ob = s.apply(op) })
	s.dump = nil
	if msg != "" {
		s.dead = true
		ob = "PANIC: " + msg
		s.viols = append(s.viols, mc.Violation{
			Sig:    fmt.Sprintf("panic in Voter handler op=%s at=%s", opKind(op), where),
			Detail: fmt.Sprintf("%s panicked: %s (at %s)", op, msg, where)})
	}
	return ob
}

func opKind(op string) string {
	if i := strings.IndexAny(op, ":@"); i > 0 {
		return op[:i]
	}
	return op
}

func (s *Sys) obs(extra string) string {
	var parts []string
	if extra != "" {
		parts = append(parts, extra)
	}
	for _, p := range s.posts {
		parts = append(parts, p.String())
	}
	return strings.Join(parts, " ")
}

func (s *Sys) begin() {
	s.posts = nil
	s.l0 = s.db.LogLen()
}

func (s *Sys) end() {
	s.lastWrites = s.db.LogLen() - s.l0
}

func (s *Sys) apply(op string) string {
	if s.ExtApply != nil {
		if ob, ok := s.ExtApply(op); ok {
			return ob
		}
	}
	switch {
	case strings.HasPrefix(op, "step2:"):
		pre := s.Dump()
		s.begin()
		s.maxSel = op[len("step2:"):]
		s.stepPos = 1
		s.deliverCtx(ucon.UConStepPrevote)
		s.end()
		if pre.DBHasRound && pre.DBRound == s.Round && pre.DBIndex == s.Index && pre.DBMark[ucon.Prevote] > 0 && s.maxSel != "-" {
			if len(s.posts) == 0 {
				s.Count("second_prevote_refused_by_the_vote_database")
			}
		}
		return s.obs("")
	case op == "step4":
		s.begin()
		s.stepPos = 2
		s.deliverCtx(ucon.UConStepPrecommit)
		s.end()
		return s.obs("")
	case op == "step5":
		s.begin()
		s.stepPos = 3
		s.deliverCtx(ucon.UConStepCertificate)
		s.end()
		return s.obs("")
	case op == "next":
		// Server.NextRound -> StartNewRound(false): same round, next index, timer counter 0
		s.begin()
		s.Index++
		s.stepPos = 0
		s.deliverCtx(ucon.UConStepStart)
		s.end()
		return s.obs("")
	case op == "round":
		// a block of this round was inserted: UpdateContextForNewBlock -> StartNewRound(true)
		s.begin()
		s.Round++
		s.Index, s.stepPos = 1, 0
		s.deliverCtx(ucon.UConStepStart)
		s.end()
		// Rounds never decrease (a restart re-enters index 1 of the CURRENT round) and an
		// own vote for a non-current context is reported by itself, so votes of finished
		// rounds can no longer conflict with anything: drop them from the ghost history.
		kept := s.ghost[:0:0]
		for _, e := range s.ghost {
			if e.Round >= s.Round {
				kept = append(kept, e)
			}
		}
		s.ghost = kept
		return s.obs("")
	case op == "resume":
		// miner: downloader.StartEvent -> Server.Pause; Done/FailedEvent -> Server.Resume ->
		// StartNewRound(true) with an unchanged head: the SAME Voter gets (round, index 1, step 0).
		s.begin()
		s.restarts++
		s.epoch++
		s.Index, s.stepPos = 1, 0
		s.restart = restartInfo{kind: "resume", start: recCtx{true, s.Round, 1}}
		s.deliverCtx(ucon.UConStepStart)
		s.end()
		return s.obs("")
	case strings.HasPrefix(op, "crash@"):
		return s.crash(op)
	case strings.HasPrefix(op, "v:"):
		f := strings.Split(op, ":")
		if len(f) != 4 {
			panic("harness: bad op " + op)
		}
		var pi int
		fmt.Sscanf(f[1], "p%d", &pi)
		err, bad := s.Deliver(VoteSpec{Peer: pi - 1, Kind: kindByName[f[2]], Hash: f[3], Round: s.Round, Index: s.Index, Status: ucon.VerifC02MsgSame})
		return s.obs(resStr(err, bad))
	}
	panic("harness: unknown op " + op)
}

func resStr(err error, bad bool) string {
	switch {
	case bad:
		return "rejected"
	case err != nil:
		return "err"
	}
	return ""
}

// ---- vote delivery -----------------------------------------------------------------------------------------

type VoteSpec struct {
	Peer   int
	Kind   ucon.VoteType
	Hash   string // A | B | -
	Round  uint64
	Index  uint32
	Status uint8
	Claim  uint32 // claimed weight; 0 = the peer's sortition weight
	Sender int    // 1-based peer whose address signs the OUTER message; 0 = the same peer
}

var sigCache sync.Map

func peerSig(cfgBLS bool, peer int, h common.Hash, round uint64, index uint32) []byte {
	key := fmt.Sprintf("%v/%d/%x/%d/%d", cfgBLS, peer, h, round, index)
	if v, ok := sigCache.Load(key); ok {
		return v.([]byte)
	}
	// the signed payload of a vote (Voter.signVote): blockHash || round || roundIndex
	payload := append(h.Bytes(), append(new(big.Int).SetUint64(round).Bytes(), u32(index)...)...)
	var sig []byte
	if cfgBLS {
		sig = W().peerBls[peer].Sign(payload).Compress().Bytes()
	} else {
		var err error
		sig, err = ucon.Sign(W().peerKey[peer], payload)
		if err != nil {
			panic(err)
		}
	}
	sigCache.Store(key, sig)
	return sig
}

func u32(v uint32) []byte { return []byte{byte(v >> 24), byte(v >> 16), byte(v >> 8), byte(v)} }

// Deliver hands one vote to Voter.processVoteMsg the way MessageHandler.HandleMsg does.
func (s *Sys) Deliver(vs VoteSpec) (error, bool) {
	s.begin()
	defer s.end()
	h := W().hash[vs.Hash]
	wgt := vs.Claim
	if wgt == 0 {
		wgt = s.Cfg.Peers[vs.Peer].Weight
	}
	idx, _ := W().vals.GetIndex(W().peerAddr[vs.Peer])
	m := &ucon.BlockHashWithVotes{
		Priority: W().prio[vs.Hash], BlockHash: h,
		Round: new(big.Int).SetUint64(vs.Round), RoundIndex: vs.Index,
		Vote:      &ucon.SingleVote{VoterIdx: uint32(idx), Votes: wgt, Signature: peerSig(s.Cfg.BLS, vs.Peer, h, vs.Round, vs.Index), Proof: []byte{0x01}},
		Timestamp: 1,
	}
	sender := W().peerAddr[vs.Peer]
	if vs.Sender > 0 {
		sender = W().peerAddr[vs.Sender-1]
	}
	return s.V.VerifC02ProcessVote(vs.Kind, m, sender, vs.Status)
}

// OwnVoteInCurrent returns the node's own vote of that kind in the current
// context as it was posted (nil if the Voter holds none).
func (s *Sys) OwnVoteInCurrent(k ucon.VoteType) *ucon.BlockHashWithVotes {
	cw := s.CurWrapper()
	if cw == nil {
		return nil
	}
	if _, ok := cw.Chamber.Sta[StaIndex(k)].Addr[W().ownAddr]; !ok {
		return nil
	}
	m := s.ownMsg[k]
	if m == nil || m.Round == nil || m.Round.Uint64() != s.Round || m.RoundIndex != s.Index {
		return nil
	}
	return m
}

// DeliverEcho hands the node's own gossiped vote back to it (status msgSame).
func (s *Sys) DeliverEcho(k ucon.VoteType) (error, bool) {
	s.begin()
	defer s.end()
	m := s.OwnVoteInCurrent(k)
	cp := *m
	v := *m.Vote
	cp.Vote = &v
	return s.V.VerifC02ProcessVote(k, &cp, W().ownAddr, ucon.VerifC02MsgSame)
}

// ---- crash / restart ------------------------------------------------------------------------------------------

// crash@j: the process dies while executing the LAST step, at the latest
// program point at which exactly the first j database writes of that step are
// durable (j = all of them: after the step).  Everything the step posted up to
// that point counts as emitted.  crash@j- is the earliest such point: after the
// j-th Put, before the post that follows it.
//
// Restart = what Server.StartMining does: NewVoter on the same database, then
// StartNewRound(true): clearData(true) sets currentRound = head.Round+1 (the
// round the node was working on: its block is not in the chain yet),
// roundIndex = 1 (ALWAYS), the timer counter restarts at UConStepStart, and
// processStepEvent posts ContextChangeEvent{round, 1, 0}.  (That first event is
// posted before Voter.Start subscribes; if it is lost the first context the
// Voter sees is step 1, which the Voter treats exactly like step 0.)
func (s *Sys) crash(op string) string {
	minimal := strings.HasSuffix(op, "-")
	var j int
	fmt.Sscanf(strings.TrimSuffix(op, "-"), "crash@%d", &j)
	if j > s.lastWrites {
		panic("harness: crash point beyond the write log")
	}
	cut := s.l0 + j
	// votes of the last step posted after the crash point never left the node
	kept := s.ghost[:0:0]
	for _, e := range s.ghost {
		if e.seq == s.seq-1 && (e.ll > cut || (minimal && e.ll >= cut)) {
			continue
		}
		kept = append(kept, e)
	}
	dropped := len(s.ghost) - len(kept)
	inside := j < s.lastWrites || minimal
	s.ghost = kept
	s.db = s.db.At(cut)
	s.restarts++
	s.epoch++
	s.posts, s.l0, s.lastWrites = nil, 0, 0
	s.V = s.newVoter()
	d := s.V.VerifC02Dump()
	s.restart = restartInfo{kind: "crash", recs: s.records(s.db), marks: d.DBMark,
		restored: recCtx{d.DBHasRound, d.DBRound, d.DBIndex}, start: recCtx{true, s.Round, 1}}
	s.Index, s.stepPos = 1, 0
	s.deliverCtx(ucon.UConStepStart)
	s.Count("restarts")
	if dropped > 0 {
		s.Count("crash_points_before_a_post")
	}
	if inside {
		s.Count("crash_points_inside_a_step")
	}
	if len(s.restart.marks) > 0 {
		s.Count("restarts_with_marks_restored")
	} else {
		s.Count("restarts_with_nothing_to_restore")
	}
	return s.obs(fmt.Sprintf("restored=%s marks=%s unposted=%d", s.restart.restored, markStr(s.restart.marks), dropped))
}

// ---- the C02 oracle: evaluated on every own vote that leaves the Voter ---------------------------------------------

// Notion of "emits/signs": a vote counts once Voter.vote handed the
// SendMessageEvent carrying the signed vote to the event mux (AsyncPost): from
// there MessageHandler.sendMsg gossips it without looking at the vote database
// again.  A signature that only ever existed in the memory of a process that
// was killed before that call cannot be shown to anybody and is not counted;
// this is also the reading under which "between persisting the vote record
// and gossiping it" is a meaningful crash point (record durable, vote not out).
func (s *Sys) onEmit(p Posted) {
	if s.Cfg.NoGhost {
		return
	}
	e := Emit{Round: p.Round, Index: p.Index, Kind: p.Kind, Hash: p.Hash, Epoch: s.epoch, seq: s.seq, ll: p.LogLen}
	// mechanism check: the record is durable before the vote is posted
	found := false
	for _, rc := range s.records(s.db)[p.Kind] {
		if rc.ok && rc.round == p.Round && rc.index == p.Index {
			found = true
		}
	}
	e.kept = found
	if found {
		s.Count("votes_posted_with_record_persisted")
	} else {
		s.viols = append(s.viols, mc.Violation{
			Sig:    fmt.Sprintf("own %s vote posted before its vote record is in the database", kindLong[p.Kind]),
			Detail: fmt.Sprintf("%s posted while the database holds %v for that kind", p, s.records(s.db)[p.Kind])})
	}
	var same, diff []Emit
	for _, g := range s.ghost {
		if g.Round == e.Round && g.Index == e.Index && g.Kind == e.Kind {
			if g.Hash == e.Hash {
				same = append(same, g)
			} else {
				diff = append(diff, g)
			}
		}
	}
	s.ghost = append(s.ghost, e)
	if e.Round != s.Round || e.Index != s.Index {
		s.viols = append(s.viols, mc.Violation{Sig: "own vote emitted for a (round,index) that is not the node's current context",
			Detail: fmt.Sprintf("%s while the context is %d.%d", p, s.Round, s.Index)})
	}
	if e.Kind == ucon.NextIndex {
		if n := len(same) + len(diff); n >= 2 {
			s.viols = append(s.viols, mc.Violation{
				Sig:    "more than two next-index votes emitted for one (round,index): " + s.cause(e, append(same, diff...)[0]),
				Detail: fmt.Sprintf("%s is next-index vote number %d of that (round,index); history: %s", p, n+1, s.ghostStr())})
		} else {
			s.Count("next_votes_within_limit")
		}
		return
	}
	switch {
	case len(diff) > 0:
		s.viols = append(s.viols, mc.Violation{
			Sig: fmt.Sprintf("two different %s hashes emitted for one (round,index): %s", kindLong[e.Kind], s.cause(e, diff[0])),
			Detail: fmt.Sprintf("%s emitted although %s(%s) was already emitted for %d.%d; restart: %s; own votes so far: %s",
				p, kindNames[e.Kind], HName(diff[0].Hash), e.Round, e.Index, s.restart.String(), s.ghostStr())})
	case len(same) > 0:
		s.viols = append(s.viols, mc.Violation{
			Sig:    "same vote emitted twice for one (round,index) (same hash; more than one vote of a once-only kind): " + s.cause(e, same[0]),
			Detail: fmt.Sprintf("%s emitted a second time; restart: %s; own votes so far: %s", p, s.restart.String(), s.ghostStr())})
	default:
		s.Count("first_votes_of_their_kind")
	}
}

// cause names, from what is observable at the last restart, why the second vote was possible.
func (s *Sys) cause(now, first Emit) string {
	if first.Epoch == now.Epoch {
		return "no restart in between"
	}
	ri := &s.restart
	if ri.kind == "resume" {
		return "after Pause/Resume reset the running node to index 1 of the same round"
	}
	at := recCtx{true, now.Round, now.Index}
	covered, exact := false, false
	var recK, maxRead recCtx // newest record of this kind / of the kinds NewVoteDB reads
	for _, k := range allKinds {
		for _, rc := range ri.recs[k] {
			if k != ucon.Certificate && maxRead.less(rc) {
				maxRead = rc
			}
			if k == now.Kind && rc.ok {
				if recK.less(rc) {
					recK = rc
				}
				if !rc.less(at) {
					covered = true
				}
				if rc == at {
					exact = true
				}
			}
		}
	}
	switch {
	case !covered && first.kept:
		// only possible when an earlier restart lowered the context: one slot per kind, last writer wins
		return "after restart, the record of the first vote had been overwritten by a later vote for an earlier (round,index) (an earlier restart lowered the context)"
	case !covered:
		return "after restart, the record of the first vote is not in the database"
	case now.Kind == ucon.Certificate && ri.marks[now.Kind] == 0 && (ri.restored.less(recK) || (exact && ri.restored == at)):
		// taking the certificate record into account would have refused the vote
		return "after restart, the certificate record is in the database but NewVoteDB never reads certificate records"
	case ri.restored.less(maxRead):
		return "after restart, NewVoteDB kept an older (round,index) than its newest record (marks reset without adopting the record's context)"
	case exact && ri.restored == at && ri.marks[now.Kind] == 0:
		return "after restart into the same (round,index), its record is in the database but its mark was not restored"
	case ri.start.less(ri.restored):
		return "after restart at index 1 while votes of a later index are on record (restart lowers the context, VoteDB.UpdateContext wipes the restored marks)"
	}
	return "after restart although the record was restored"
}

func (s *Sys) ghostStr() string {
	var gs []string
	for _, g := range s.ghost {
		gs = append(gs, g.String())
	}
	sort.Strings(gs)
	return strings.Join(gs, ",")
}

// Count adds to a vacuity counter of the evidence file; it is attributed to the
// transition the explorer is checking (replayed prefixes do not count again).
func (s *Sys) Count(name string) {
	if s.pending == nil {
		s.pending = map[string]int64{}
	}
	s.pending[name]++
}

func (s *Sys) Check() []mc.Violation {
	for k, n := range s.pending {
		if !s.NoCount {
			s.R.Count(k, n)
		}
	}
	s.pending = nil
	return s.viols
}

// AddViolation lets a wrapping system (C03) report through the same Check().
func (s *Sys) AddViolation(v mc.Violation) { s.viols = append(s.viols, v) }

// ---- canonical key ---------------------------------------------------------------------------------------------------

func marked(m ucon.VerifC02Marked) string {
	if !m.Set {
		return "nil"
	}
	b := ""
	if m.HasBlock {
		b = "+"
	}
	return fmt.Sprintf("%s%s@%d.%d", HName(m.Hash), b, m.Round, m.Index)
}

func bits(bs ...bool) string {
	var b strings.Builder
	for _, x := range bs {
		if x {
			b.WriteByte('1')
		} else {
			b.WriteByte('0')
		}
	}
	return b.String()
}

// Key is the canonical property-relevant state: environment position, every
// Voter field, every tally of every cached (round,index), the VoteDB marks,
// the vote records in the database, the last restart's observations and the
// ghost multiset of own votes emitted so far.  Peers enter only through their
// class (weight/kind) and sorted vote profiles, so states that differ by a
// renaming of interchangeable peers merge.
func (s *Sys) Key() string { return HashKey(s.KeyString()) }

// HashKey shortens a canonical key to 128 bits (the explorer keeps every key in memory).
func HashKey(k string) string {
	h := sha256.Sum256([]byte(k))
	return string(h[:16])
}

// KeyString is the readable canonical key.
func (s *Sys) KeyString() string {
	if s.dead {
		return fmt.Sprintf("dead#%d", s.seq) // never merged, never extended
	}
	d := s.Dump()
	var b strings.Builder
	fmt.Fprintf(&b, "E%d.%d.%d/%d%s|", s.Round, s.Index, s.stepPos, s.restarts, bits(s.namedA))
	fmt.Fprintf(&b, "V%v:%d.%d.%d %s nm=%s cm=%s nv=%s cur=%d", d.HasRound, d.Round, d.Index, d.Step,
		bits(d.Precommitted, d.Committed, d.SentChange, d.ShouldCert, d.Certificated),
		marked(d.NextMarked), marked(d.CurMarked), marked(d.NextVoted), d.Current)
	if d.HasUpdateEv {
		fmt.Fprintf(&b, " upd=%s", marked(d.UpdateEv))
	}
	var over []string
	for _, o := range d.VoteOver {
		over = append(over, fmt.Sprintf("%s:%s/%s", HName(o.Hash), bits(o.Chamber[:]...), bits(o.House[:]...)))
	}
	sort.Strings(over)
	fmt.Fprintf(&b, " over=%s|", strings.Join(over, ","))
	// tallies
	prof := map[common.Address]*strings.Builder{}
	for wi := range d.Wrappers {
		wr := &d.Wrappers[wi]
		fmt.Fprintf(&b, "W%d.%d{", wr.CtxRound, wr.CtxIndex)
		for mi, m := range []*ucon.VerifC02Mgr{&wr.Chamber, &wr.House} {
			for ki := range m.Sta {
				st := &m.Sta[ki]
				if len(st.Counts) == 0 && len(st.Addr) == 0 {
					continue
				}
				var cs []string
				for h, c := range st.Counts {
					cs = append(cs, fmt.Sprintf("%s=%d", HName(h), c))
				}
				sort.Strings(cs)
				fmt.Fprintf(&b, "%d%d[%s]", mi, ki, strings.Join(cs, ","))
				for a, av := range st.Addr {
					pb := prof[a]
					if pb == nil {
						pb = &strings.Builder{}
						prof[a] = pb
					}
					in := 0
					if wgt, ok := st.Info[av.Hash][a]; ok {
						in = int(wgt)
					}
					fmt.Fprintf(pb, "%d.%d.%d:%s%s/%d;", wi, mi, ki, HName(av.Hash), bits(av.Double), in)
				}
				// votesInfo entries without an addressVotes entry (cannot happen in the unchanged code)
				for h, mm := range st.Info {
					for a := range mm {
						if av, ok := st.Addr[a]; !ok || av.Hash != h {
							fmt.Fprintf(&b, "!%s:%s", AName(a), HName(h))
						}
					}
				}
			}
		}
		b.WriteString("}")
	}
	var profs []string
	for a, pb := range prof {
		cl := "me"
		if i := s.peerByAddr(a); i >= 0 {
			cl = s.Cfg.Peers[i].class()
		} else if a != W().ownAddr {
			cl = "?" + AName(a)
		}
		profs = append(profs, cl+"="+pb.String())
	}
	sort.Strings(profs)
	fmt.Fprintf(&b, "|P%s|", strings.Join(profs, " "))
	// vote database: in-memory marks and durable records
	fmt.Fprintf(&b, "D%v:%d.%d %s", d.DBHasRound, d.DBRound, d.DBIndex, markStr(d.DBMark))
	recs := s.records(s.db)
	for _, k := range allKinds {
		fmt.Fprintf(&b, " %s/%s", recs[k][0], recs[k][1])
	}
	fmt.Fprintf(&b, " bls=%d.%d.%d|", d.BlsRound, d.MyIdx, d.MyCertIx)
	fmt.Fprintf(&b, "R%s|G%s", s.restart.String(), s.ghostStr())
	// the crash menu of this state (Enabled depends on it): durable writes of the
	// last step and where its vote posts sit between them
	if s.Cfg.MaxCrashes > 0 && s.restarts < s.Cfg.MaxCrashes {
		fmt.Fprintf(&b, "|L%d", s.lastWrites)
		for _, p := range s.posts {
			if p.What == "vote" {
				fmt.Fprintf(&b, " %s@%d", p.String(), p.LogLen-s.l0)
			}
		}
	}
	return b.String()
}
