package c01

import (
	"fmt"
	"sync"

	"github.com/youchainhq/go-youchain/consensus/ucon"
	"github.com/youchainhq/go-youchain/core/types"
	"github.com/youchainhq/go-youchain/params"
	"github.com/youchainhq/go-youchain/rlp"

	"verif/mc"
)

// Certificate-round scenario (rounds ≡ 0 mod ACoCHTFrequency, driven at the
// verifier seam with synthetic look-back headers; no 32768-block chain).
//
//	block P = ACoCHTFrequency      : proposed with a forged header-declared CertValThreshold, honest
//	                                 precommits and honest certificate votes; must first be accepted by the
//	                                 real verifier on its own chain ("planted")
//	block N = 2·ACoCHTFrequency    : under verification; its certificate look-back header is the planted P
//
// The verifier takes the certificate committee size from P's consensus data;
// live voters (getLookbackStakeInfo) and the oracle take cp.CertValThreshold.

type certPair struct {
	plant *Config // round P
	mu    sync.Mutex
	memo  map[string]*planted
}

type planted struct {
	header   *types.Header
	accepted bool
	err      string
}

// NewCertConfig builds the pair of configurations for the certificate scenario.
func NewCertConfig(name string, v params.YouVersion) (*Config, error) {
	EnsureParams()
	f := params.ACoCHTFrequency
	// both rounds take their certificate stake look-back set from genesis, which carries a set of its own here
	p, err := newConfigAt(name, v, f, nil, true)
	if err != nil {
		return nil, err
	}
	n, err := newConfigAt(name, v, 2*f, nil, true)
	if err != nil {
		return nil, err
	}
	n.certPair = &certPair{plant: p, memo: map[string]*planted{}}
	return n, nil
}

// plant builds (once per declared value) block P with the given declared
// CertValThreshold and everything else honest, and asks the real verifier.
func (c *Config) plant(tcName string) (*planted, error) {
	cpair := c.certPair
	cpair.mu.Lock()
	defer cpair.mu.Unlock()
	if p, ok := cpair.memo[tcName]; ok {
		return p, nil
	}
	p := cpair.plant
	tc, _ := thrValue(tcName, p.CP.CertValThreshold)
	blk, _, err := p.ProposeWith(p.Proposer, p.HonestRI, ProposalOpts{Thresholds: func(cd *ucon.BlockConsensusData) { cd.CertValThreshold = tc }})
	if err != nil {
		return nil, err
	}
	ev := ucon.CommitEvent{Round: blk.Number(), RoundIndex: p.HonestRI, Block: blk,
		ChamberPrecommits: p.HonestVotes(blk.Hash(), p.HonestRI), HousePrecommits: ucon.NewVotesInfoForBlockHash(),
		ChamberCerts: p.HonestCerts(blk.Hash(), p.HonestRI)}
	h, err := PackCommit(p, ev)
	if err != nil {
		return nil, err
	}
	res := &planted{header: h}
	pr := runPath("VerifyHeader", func() error { return VerifyHeader(p, h) })
	res.accepted, res.err = pr.Accept, pr.Err+pr.Panic
	cpair.memo[tcName] = res
	return res, nil
}

// BuildCert builds block N for spec s (Scn == "cert"): honest proposer and
// thresholds, precommits of s.Subset, certificate votes of s.CertSub, the
// certificate aggregate variant s.Agg, on top of the planted block P declaring
// CertValThreshold s.TC.
func (c *Config) BuildCert(s Spec) (f *Forged, err error) {
	if msg := mc.Catch(func() { f, err = c.buildCert(s) }); msg != "" {
		// the real sortition code panicked while the forger computed a credential
		return &Forged{Spec: s, Cert: true, Skip: "forger: " + msg}, nil
	}
	return f, err
}

func (c *Config) buildCert(s Spec) (*Forged, error) {
	f := &Forged{Spec: s, Cert: true}
	if c.certPair == nil {
		return nil, fmt.Errorf("not a certificate configuration")
	}
	pl, err := c.plant(s.TC)
	if err != nil {
		return nil, err
	}
	if !pl.accepted {
		f.Skip = "planted look-back header rejected: " + pl.err
		return f, nil
	}
	if s.TC != "" {
		f.Classes = append(f.Classes, "planted CertValThreshold "+s.TC)
	}
	if s.Agg != "" {
		f.Classes = append(f.Classes, "certificate aggregate "+s.Agg)
	}
	pcd, err := ucon.GetConsensusDataFromHeader(pl.header)
	if err != nil {
		return nil, err
	}
	f.CertSeed, f.PlantedTC = pcd.Seed, pcd.CertValThreshold
	f.Chain = &Overlay{Chain: c.Chain, Extra: map[uint64]*types.Header{pl.header.Number.Uint64(): pl.header}}
	tc, adapt := thrValue(s.TC, c.CP.CertValThreshold)
	credTC := c.CP.CertValThreshold // honest certificate voters use the protocol's value
	if adapt {
		credTC = tc
	}

	ri := c.HonestRI
	blk, cd, err := c.ProposeWith(c.Proposer, ri, ProposalOpts{})
	if err != nil {
		return nil, err
	}
	header := blk.Header()
	hash := header.Hash()
	goodPay := VotePayload(hash, cd.Round, ri)
	badPay := VotePayload(hash, cd.Round, ri+7)
	entry := func(m *Member, idx int, cr *Cred) listed {
		return listed{Vote: ucon.SingleVote{VoterIdx: uint32(idx), Votes: cr.J, Proof: cr.Proof}, Signer: m, Sig: c.BlsSign(m, goodPay), Pay: goodPay}
	}
	var pre, certs []listed
	for i, m := range c.Voters {
		if s.Subset&(1<<uint(i)) != 0 {
			if cr := c.Sortition(m, c.LBSeed, ri, uint32(ucon.Precommit), c.CP.ValidatorThreshold, m.Stake); cr.J > 0 {
				pre = append(pre, entry(m, m.Index, cr))
			}
		}
		if s.CertSub&(1<<uint(i)) != 0 {
			// certificate votes are drawn against the set of the certificate stake look-back header
			rec := c.CertView.Rec(m.Name)
			if cr := c.SortitionIn(c.CertView.Total, m, f.CertSeed, ri, uint32(ucon.Certificate), credTC, rec.Stake); cr.J > 0 {
				certs = append(certs, entry(m, rec.Index, cr))
			}
		}
	}
	uv := &ucon.UconValidators{RoundIndex: ri, MCAggrSig: []byte{}, CCAggrSig: []byte{}}
	if uv.SCAggrSig, f.AggKind, f.AggOf, err = c.buildAgg(pre, "", goodPay, badPay); err != nil {
		return nil, err
	}
	for _, e := range pre {
		uv.ChamberCommitters = append(uv.ChamberCommitters, e.Vote)
	}
	uc := &ucon.UconValidators{RoundIndex: ri, SCAggrSig: []byte{}, MCAggrSig: []byte{}}
	if uc.CCAggrSig, f.CertAggKind, f.CertAggOf, err = c.buildAgg(certs, s.Agg, goodPay, badPay); err != nil {
		return nil, err
	}
	for _, e := range certs {
		uc.ChamberCerts = append(uc.ChamberCerts, e.Vote)
	}
	if header.Validator, err = rlp.EncodeToBytes(uv); err != nil {
		return nil, err
	}
	if header.Certificate, err = rlp.EncodeToBytes(uc); err != nil {
		return nil, err
	}
	f.Header = header
	return f, nil
}

// certSpecs: full product (certificate vote subset × planted CertValThreshold
// [credentials honest or recomputed under it] × certificate aggregate variant)
// plus (precommit subset × certificate subset).
func (x *ctx) certSpecs() []Spec {
	c := x.c
	full := c.fullMask()
	base := x.honest()
	base.Scn, base.CertSub = "cert", full
	var out []Spec
	for cs := 0; cs <= full; cs++ {
		for _, tc := range thrVals(true) {
			for _, a := range aggVals {
				s := base
				s.CertSub, s.TC, s.Agg = full-cs, tc, a
				out = append(out, s)
			}
		}
		for v := 0; v <= full; v++ {
			s := base
			s.CertSub, s.Subset = full-cs, full-v
			out = append(out, s)
		}
	}
	return out
}

// certBoundarySpecs: the quorum boundaries of the certificate scenario alone: (precommit subset × certificate
// subset) and (certificate subset × certificate aggregate variant).
func (x *ctx) certBoundarySpecs() []Spec {
	c := x.c
	full := c.fullMask()
	base := x.honest()
	base.Scn, base.CertSub = "cert", full
	var out []Spec
	for cs := 0; cs <= full; cs++ {
		for v := 0; v <= full; v++ {
			s := base
			s.CertSub, s.Subset = full-cs, full-v
			out = append(out, s)
		}
		for _, a := range aggVals[1:] {
			s := base
			s.CertSub, s.Agg = full-cs, a
			out = append(out, s)
		}
	}
	return out
}
