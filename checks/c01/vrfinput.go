package c01

import (
	"bytes"
	"encoding/json"
	"fmt"
	"math/big"
	"sort"
	"strings"
	"sync"

	"github.com/youchainhq/go-youchain/common"
	"github.com/youchainhq/go-youchain/consensus/ucon"
	"github.com/youchainhq/go-youchain/crypto"
	"github.com/youchainhq/go-youchain/params"

	"verif/mc"
)

// The VRF input.
//
// A sortition credential is a VRF proof of the member's key on the message
//
//	seed (32 bytes) ‖ step (4 bytes, big endian) ‖ round index (4 bytes, big endian)        — 40 bytes
//
// (consensus/ucon/sortition.go MakeM; the vote signature itself covers hash ‖ round ‖ index only, so the step word
// of this message is the ONLY thing that ties a packed vote to the precommit step, the index word the only thing
// that ties the credential to one round index, the seed the only thing that ties it to one round).  Prover
// (VrfSortition) and verifier (VrfVerifySortition / VrfVerifyPriority) build the message through the same function:
// if it loses a field, every honest flow still verifies, and a calculator that built its message through that
// function too would agree with the verifier on every forged header.  So the calculator (oracle.go trueSeatsIn) has
// an encoder of its own, written from the layout above and sharing nothing with the code under test, and the run
// starts with the probes of exploreVrfInput, which establish on a finite alphabet of (seed, step, index) triples
// that (1) ucon.MakeM is injective and equals the reference layout, (2) the honest prover's proof is a VRF proof
// (VRF library) on the reference message with the value the prover returns, and (3) black box, through the
// production prover and verifier only: a credential made for one triple verifies for that triple and for NO other.
const kindVrfInput = "vrfinput"

// refVrfInput: the calculator's own encoding of the VRF message.
func refVrfInput(seed common.Hash, step, index uint32) []byte {
	m := make([]byte, 0, 40)
	m = append(m, seed[:]...)
	m = append(m, byte(step>>24), byte(step>>16), byte(step>>8), byte(step))
	m = append(m, byte(index>>24), byte(index>>16), byte(index>>8), byte(index))
	return m
}

// VTriple is one VRF input of the alphabet.
type VTriple struct {
	Seed  common.Hash `json:"seed"`
	Step  uint32      `json:"step"`
	Index uint32      `json:"index"`
}

func (t VTriple) String() string {
	return fmt.Sprintf("(seed %x…%x, step %d, index %d)", t.Seed[:2], t.Seed[30:], t.Step, t.Index)
}

// VSpec is the replayable input of a VRF-input violation: probe "makem" (MakeM(A) == MakeM(B)), "layout"
// (MakeM(A) ≠ reference encoding of A), "prover" (the honest proof for A is no VRF proof on the reference encoding
// of A) or "blackbox" (the credential VrfSortition makes for A is accepted by VrfVerifySortition under B).
type VSpec struct {
	Kind  string  `json:"kind"`
	Probe string  `json:"probe"`
	A     VTriple `json:"a"`
	B     VTriple `json:"b"`
}

// vrfAlphabet: 3 seeds (one fixed hash, the same with its last bit / its first bit flipped) × 9 steps (every step
// and vote-type number the node uses: 0..5, and the precommit number with one bit set in each higher byte) × 7
// round indexes (0..3 and 1 with one bit set in each higher byte): 189 triples.  bases: the triples honest
// credentials are made for in the black-box probe — first seed × steps 1..5 × indexes 0..3.
func vrfAlphabet() (all, bases []VTriple) {
	s0 := crypto.Keccak256Hash([]byte("verif/c01 vrf input probe seed"))
	s1, s2 := s0, s0
	s1[31] ^= 0x01
	s2[0] ^= 0x80
	pc := uint32(ucon.Precommit)
	steps := []uint32{0, 1, 2, 3, 4, 5, pc | 1<<8, pc | 1<<16, pc | 1<<24}
	idxs := []uint32{0, 1, 2, 3, 1 | 1<<8, 1 | 1<<16, 1 | 1<<24}
	for _, s := range []common.Hash{s0, s1, s2} {
		for _, st := range steps {
			for _, ix := range idxs {
				t := VTriple{s, st, ix}
				all = append(all, t)
				if s == s0 && st >= 1 && st <= 5 && ix <= 3 {
					bases = append(bases, t)
				}
			}
		}
	}
	return
}

// diffFields names the fields two triples differ in.
func diffFields(a, b VTriple) []string {
	var d []string
	if a.Seed != b.Seed {
		d = append(d, "seed")
	}
	if a.Step != b.Step {
		d = append(d, "step")
	}
	if a.Index != b.Index {
		d = append(d, "round index")
	}
	return d
}

// The probe key and the committee it is drawn against: stake 5000 of 20000, committee size 2000 (expected seat
// count 500: no credential of the alphabet has zero seats — counted).
const (
	vrfProbeStake     = 5000
	vrfProbeTotal     = 20000
	vrfProbeThreshold = 2000
)

type vrfFinding struct {
	sig, detail string
	in          VSpec
}

func makeM(t VTriple) (m []byte, panicMsg string) {
	panicMsg = mc.Catch(func() { m = ucon.MakeM(t.Seed, t.Step, t.Index) })
	return
}

func sigMakeM(fields []string) string {
	if len(fields) == 1 {
		return "VRF input does not bind the " + fields[0] + ": ucon.MakeM yields the same message for two inputs that differ only in the " + fields[0]
	}
	return "VRF input confuses " + strings.Join(fields, " and ") + ": ucon.MakeM yields the same message for two inputs that differ in these fields"
}

func sigBlackBox(fields []string) string {
	if len(fields) == 1 {
		return "sortition credential is not bound to the " + fields[0] + ": the proof VrfSortition makes for one " + fields[0] + " is accepted by VrfVerifySortition for another"
	}
	return "sortition credential confuses " + strings.Join(fields, " and ") + ": the proof VrfSortition makes for one input is accepted by VrfVerifySortition for an input that differs in these fields"
}

const (
	sigVrfLayout = "VRF input layout: ucon.MakeM differs from seed(32) ‖ step(4, big endian) ‖ round index(4, big endian)"
	sigVrfProver = "honest prover's sortition proof is not a VRF proof on seed(32) ‖ step(4, big endian) ‖ round index(4, big endian) with the value the prover returns"
)

// probeMakeMPair / probeLayout / probeProver / probeBlackBox: one case each (used by the exploration and by the replay).
func probeMakeMPair(a, b VTriple) *vrfFinding {
	ma, pa := makeM(a)
	mb, pb := makeM(b)
	if pa != "" || pb != "" || !bytes.Equal(ma, mb) {
		return nil
	}
	d := diffFields(a, b)
	return &vrfFinding{sigMakeM(d), fmt.Sprintf("ucon.MakeM%v = ucon.MakeM%v = %x; the reference messages are %x and %x.  Prover and verifier share MakeM, so honest credentials keep verifying, but a sortition proof made for one %s is a valid proof for the other: a credential can be replayed across them (e.g. the prevotes of a round packed as its precommits).",
		a, b, ma, refVrfInput(a.Seed, a.Step, a.Index), refVrfInput(b.Seed, b.Step, b.Index), strings.Join(d, " / ")), VSpec{kindVrfInput, "makem", a, b}}
}

func probeLayout(a VTriple) *vrfFinding {
	m, p := makeM(a)
	ref := refVrfInput(a.Seed, a.Step, a.Index)
	if p == "" && bytes.Equal(m, ref) {
		return nil
	}
	return &vrfFinding{sigVrfLayout, fmt.Sprintf("ucon.MakeM%v = %x %s; the protocol's message is %x", a, m, p, ref), VSpec{kindVrfInput, "layout", a, a}}
}

type vrfProbeKey struct {
	m            *Member
	stake, total *big.Int
	mu           sync.Mutex
	creds        map[VTriple]*Cred
}

func newVrfProbeKey() *vrfProbeKey {
	return &vrfProbeKey{m: newMember("vrfprobe", params.RoleSenator, params.ValidatorOnline, vrfProbeStake),
		stake: big.NewInt(vrfProbeStake), total: big.NewInt(vrfProbeTotal), creds: map[VTriple]*Cred{}}
}

// cred: the honest credential for t (production prover).
func (k *vrfProbeKey) cred(t VTriple) *Cred {
	k.mu.Lock()
	defer k.mu.Unlock()
	if c, ok := k.creds[t]; ok {
		return c
	}
	var c *Cred
	mc.Catch(func() {
		v, p, j := ucon.VrfSortition(k.m.VrfSk, t.Seed, t.Index, t.Step, vrfProbeThreshold, k.stake, k.total)
		c = &Cred{v, p, j}
	})
	k.creds[t] = c
	return c
}

// accepts: the production verifier's answer for the credential offered under t.
func (k *vrfProbeKey) accepts(cr *Cred, t VTriple) (ok bool, errText string) {
	var err error
	if p := mc.Catch(func() {
		ok, err = ucon.VrfVerifySortition(k.m.VrfPk, t.Seed, t.Index, t.Step, cr.Proof, cr.J, vrfProbeThreshold, k.stake, k.total)
	}); p != "" {
		return false, "panic: " + p
	}
	if err != nil {
		errText = err.Error()
	}
	return ok && err == nil, errText
}

func (k *vrfProbeKey) probeProver(a VTriple) *vrfFinding {
	cr := k.cred(a)
	if cr == nil {
		return &vrfFinding{sigVrfProver, fmt.Sprintf("VrfSortition panics for %v", a), VSpec{kindVrfInput, "prover", a, a}}
	}
	h, err := k.m.VrfPk.ProofToHash(refVrfInput(a.Seed, a.Step, a.Index), cr.Proof)
	if err == nil && h == cr.Value {
		return nil
	}
	return &vrfFinding{sigVrfProver, fmt.Sprintf("VrfSortition for %v returns value %x and a proof which the VRF library evaluates on the reference message %x to %x (error: %v)",
		a, cr.Value, refVrfInput(a.Seed, a.Step, a.Index), h, err), VSpec{kindVrfInput, "prover", a, a}}
}

func (k *vrfProbeKey) probeBlackBox(a, b VTriple) *vrfFinding {
	cr := k.cred(a)
	if cr == nil || cr.J == 0 {
		return nil
	}
	ok, _ := k.accepts(cr, b)
	if !ok {
		return nil
	}
	d := diffFields(a, b)
	return &vrfFinding{sigBlackBox(d), fmt.Sprintf("the credential (proof, %d seats) that ucon.VrfSortition makes for %v with the probe key (stake %d of %d, committee size %d) is accepted by ucon.VrfVerifySortition for %v: a vote's sortition proof can be replayed for another %s (e.g. prevotes packed as precommits), although no such vote was ever cast.",
		cr.J, a, vrfProbeStake, vrfProbeTotal, vrfProbeThreshold, b, strings.Join(d, " / ")), VSpec{kindVrfInput, "blackbox", a, b}}
}

// exploreVrfInput runs the probes; false: the implementation's VRF input is not the protocol's (reported) — the
// header calculator and the verifier then disagree on EVERY credential and no header verdict is comparable.
func exploreVrfInput(r *mc.Run) bool {
	all, bases := vrfAlphabet()
	r.Count("vrf input: triples (seed, step, index) of the alphabet", int64(len(all)))
	first := map[string]*vrfFinding{} // signature -> first witness in alphabet order
	var order []string
	note := func(f *vrfFinding) {
		if f == nil {
			return
		}
		if _, ok := first[f.sig]; !ok {
			first[f.sig] = f
			order = append(order, f.sig)
		}
	}

	// (1) MakeM: injective on the alphabet, and equal to the reference layout
	collided := map[string]bool{} // differing-field sets with a collision
	var layout *vrfFinding
	for i, a := range all {
		if f := probeLayout(a); f != nil {
			r.Count("vrf input: VIOLATING_CASES MakeM differs from the reference layout", 1)
			if layout == nil {
				layout = f
			}
		} else {
			r.Count("vrf input: MakeM outputs equal to the reference encoding", 1)
		}
		for _, b := range all[i+1:] {
			r.Count("vrf input: pairs of distinct triples whose MakeM messages are compared", 1)
			if f := probeMakeMPair(a, b); f != nil {
				r.Count("vrf input: VIOLATING_CASES MakeM collision", 1)
				collided[strings.Join(diffFields(a, b), "+")] = true
				note(f)
			}
		}
	}

	// (2) + (3): production prover and verifier, honest credentials of the base triples
	k := newVrfProbeKey()
	var mu sync.Mutex
	var prover *vrfFinding
	var bb []*vrfFinding
	r.ForEach(len(bases), func(_, i int) {
		a := bases[i]
		cr := k.cred(a)
		pf := k.probeProver(a)
		var found []*vrfFinding
		self, others := false, 0
		if cr != nil && cr.J > 0 {
			self, _ = k.accepts(cr, a)
			for _, b := range all {
				if b == a {
					continue
				}
				others++
				if f := k.probeBlackBox(a, b); f != nil {
					found = append(found, f)
				}
			}
		}
		mu.Lock()
		defer mu.Unlock()
		r.Count("vrf input: honest credentials made by VrfSortition", 1)
		if cr != nil && cr.J > 0 {
			r.Count("vrf input: honest credentials with at least one seat", 1)
		}
		if self {
			r.Count("vrf input: honest credentials accepted by VrfVerifySortition for their own triple", 1)
		} else {
			r.HarnessError(fmt.Sprintf("vrf input probe: the honest credential for %v is not accepted for its own input", a))
		}
		if pf == nil {
			r.Count("vrf input: honest proofs that are VRF proofs on the reference encoding with the prover's value", 1)
		} else {
			r.Count("vrf input: VIOLATING_CASES honest proof not on the reference encoding", 1)
			if prover == nil || i < proverIdx(bases, prover.in.A) {
				prover = pf
			}
		}
		r.Count("vrf input: credential offered under another triple", int64(others))
		r.Count("vrf input: credential offered under another triple: rejected", int64(others-len(found)))
		r.Count("vrf input: VIOLATING_CASES credential accepted under another triple", int64(len(found)))
		bb = append(bb, found...)
	})
	rank := func(t VTriple) int { return proverIdx(all, t) }
	sort.SliceStable(bb, func(i, j int) bool {
		if ri, rj := rank(bb[i].in.A), rank(bb[j].in.A); ri != rj {
			return ri < rj
		}
		return rank(bb[i].in.B) < rank(bb[j].in.B)
	})
	for _, f := range bb {
		// the same defect once: a field set MakeM already collides on is reported there
		if !collided[strings.Join(diffFields(f.in.A, f.in.B), "+")] {
			note(f)
		}
	}
	if len(order) == 0 {
		note(layout)
	}
	if len(order) == 0 {
		note(prover)
	}
	// only the minimal field sets: "seed and step" says nothing new when "step" alone is reported
	for _, sig := range order {
		f := first[sig]
		d := diffFields(f.in.A, f.in.B)
		redundant := false
		if len(d) > 1 {
			for _, other := range order {
				od := diffFields(first[other].in.A, first[other].in.B)
				if other != sig && len(od) >= 1 && len(od) < len(d) && subset(od, d) {
					redundant = true
				}
			}
		}
		if !redundant {
			r.Report(mc.Violation{Sig: f.sig, Config: "VRF input", Input: f.in, Detail: f.detail})
		}
	}
	r.SetExtra("vrf_input_alphabet", map[string]interface{}{
		"seeds": 3, "steps": []uint32{0, 1, 2, 3, 4, 5, uint32(ucon.Precommit) | 1<<8, uint32(ucon.Precommit) | 1<<16, uint32(ucon.Precommit) | 1<<24},
		"indexes": []uint32{0, 1, 2, 3, 1 | 1<<8, 1 | 1<<16, 1 | 1<<24}, "base_triples_with_honest_credentials": len(bases),
		"probe_key": fmt.Sprintf("stake %d of %d, committee size %d", vrfProbeStake, vrfProbeTotal, vrfProbeThreshold)})
	return len(order) == 0
}

func proverIdx(ts []VTriple, t VTriple) int {
	for i, x := range ts {
		if x == t {
			return i
		}
	}
	return len(ts)
}

func subset(a, b []string) bool {
	for _, x := range a {
		in := false
		for _, y := range b {
			in = in || x == y
		}
		if !in {
			return false
		}
	}
	return true
}

func replayVrfInput(r *mc.Run, v *mc.Violation, bs []byte) {
	var s VSpec
	if err := json.Unmarshal(bs, &s); err != nil {
		fmt.Println("bad replay input:", err)
		return
	}
	var f *vrfFinding
	switch s.Probe {
	case "makem":
		f = probeMakeMPair(s.A, s.B)
	case "layout":
		f = probeLayout(s.A)
	case "prover":
		f = newVrfProbeKey().probeProver(s.A)
	case "blackbox":
		f = newVrfProbeKey().probeBlackBox(s.A, s.B)
	}
	ma, _ := makeM(s.A)
	mb, _ := makeM(s.B)
	fmt.Printf("probe %s: A = %v, B = %v\n  ucon.MakeM(A) = %x\n  ucon.MakeM(B) = %x\n  reference(A)  = %x\n  reference(B)  = %x\n", s.Probe, s.A, s.B,
		ma, mb, refVrfInput(s.A.Seed, s.A.Step, s.A.Index), refVrfInput(s.B.Seed, s.B.Step, s.B.Index))
	if f == nil {
		fmt.Println("the probe holds now")
		return
	}
	fmt.Println("signature now:", f.sig)
	if f.sig == v.Sig {
		r.Report(mc.Violation{Sig: f.sig, Config: "VRF input", Input: f.in, Detail: f.detail})
	}
}

const vrfInputRule = " || VRF INPUT (run first; a failure ends the run, since calculator and verifier then disagree on every credential): alphabet of (seed, step, round index) triples = 3 seeds (a fixed hash, the same with its last bit / its first bit flipped) × 9 steps (0..5 = every step and vote-type number of the node, and the precommit number with one bit set in each higher byte) × 7 round indexes (0..3, and 1 with one bit set in each higher byte) = 189 triples; (1) ucon.MakeM — the message every sortition VRF is evaluated and verified on — is compared for EVERY triple with the calculator's own encoding seed(32) ‖ step(4, big endian) ‖ index(4, big endian) and for EVERY pair of distinct triples for inequality (injective on the alphabet; a collision is reported as 'VRF input does not bind the <field>' for the field(s) the two triples differ in); (2) for the 20 base triples (first seed × steps 1..5 × indexes 0..3) the credential the production prover ucon.VrfSortition makes with a fixed probe key must be a VRF proof (VRF library) on the calculator's encoding with the value the prover returns; (3) black box: each of these 20 honest credentials is offered to the production verifier ucon.VrfVerifySortition under its own triple (must be accepted) and under EVERY other triple of the alphabet (must be rejected: a proof made for one step / index / seed verifies for no other); the header calculator itself evaluates every listed proof on its own encoding of the message"
