package c01

import (
	"encoding/json"
	"fmt"
	"math/big"
	"reflect"
	"sort"
	"strings"
	"sync/atomic"

	"github.com/youchainhq/go-youchain/common"
	"github.com/youchainhq/go-youchain/consensus"
	"github.com/youchainhq/go-youchain/consensus/ucon"
	"github.com/youchainhq/go-youchain/core/types"
	"github.com/youchainhq/go-youchain/crypto"
	"github.com/youchainhq/go-youchain/params"

	"verif/mc"
)

// Known height.
//
// The verdict on a header must not depend on what the verifier's chain already
// stores at the header's height: BlockChain.InsertChain, the fetcher and the
// downloader all present headers whose hash the chain may know already (peers
// re-deliver known blocks; blocks are imported on top of a header chain that a
// header insert WITHOUT seal check wrote).  The hash of a ucon header
// (types.Header.Hash with MixDigest == UConMixHash) is the hash of
// types.UconFilteredHeader: it covers every field EXCEPT Validator, Signature
// and Certificate — "same hash as a header we have" says nothing about the
// votes this header object carries.  (hashCoverage probes that claim on the
// fixture's header at run time, field by field.)
//
// The alphabet of this dimension is the product
//
//	chain content at the tested height (knownKinds)
//	× the forgeries that keep the header hash (kFamily: every field the hash does not cover)
//	× every entry point (known.entries)
//
// judged by the same independent calculator as every other case.

// chain contents at the tested height n
const (
	kAbsent         = "absent"                          // nothing at n: the chain of all other dimensions (control)
	kHonestCanon    = "honest-canonical"                // the honestly voted header with the SAME hash is canonical (and stored)
	kSameCanon      = "same-canonical"                  // the very header under verification is the canonical one (header insert without seal check)
	kCanonChild     = "honest-canonical+child"          // as honest-canonical, and the chain's head is already a child at n+1
	kStored         = "honest-stored-not-canonical"     // stored by hash (side block), nothing canonical at n
	kSibCanon       = "sibling-canonical"               // an honestly voted SIBLING (same parent, other hash) is canonical; this hash unknown
	kSibCanonStored = "sibling-canonical+honest-stored" // the sibling is canonical, the honestly voted header with this hash is a stored side block
	kindKnown       = "known"                           // KSpec.Kind
	kHeaderFamily   = "VerifyHeader / VerifyHeaders"    // the entry points that go through verifyCascadingFields
	kProbeUnchanged = "a change of the field leaves Hash() unchanged"
)

const knownRule = " || KNOWN HEIGHT: the hash of a ucon header (types.Header.Hash, MixDigest == UConMixHash) is keccak256(rlp(types.UconFilteredHeader(h))): it covers EVERY header field (ParentHash, Coinbase, Root, ValRoot, StakingRoot, TxHash, ReceiptHash, Bloom, Number, Subsidy, GasRewards, GasLimit, GasUsed, Time, CurrVersion, NextVersion, NextApprovals, NextVoteBefore, NextSwitchOn, MixDigest, Extra, SlashData, Consensus, ChtRoot, BltRoot) EXCEPT Validator, Signature and Certificate, which are blanked (probed at run time: every field of the fixture's header is changed in turn and the hash compared); a case is (chain content at the tested height n) × (a forgery that keeps the honest proposal's hash) × (entry point): chain content ∈ {nothing at n (control); the honestly voted header with the same hash canonical; the very header under verification canonical (header insert without seal check); honest header canonical with a canonical child; honest header stored as a side block, nothing canonical; an honestly voted sibling (same parent, other hash) canonical; sibling canonical + honest header stored as a side block}, served consistently through GetHeaderByNumber / GetHeader / GetHeaderByHash / GetBlock / GetBlockByNumber / CurrentHeader; forgeries = the hash-preserving dimensions of the forgery alphabet (vote subset, one vote mutation, aggregate variant, UconValidators.RoundIndex; certificate fixture: precommit subset, certificate subset, certificate aggregate) and raw replacements of the three fields outside the hash: Validator ∈ {as built, empty, RLP empty list, undecodable, truncated}, Certificate ∈ {as built, empty, undecodable, copy of the precommit record}, Signature ∈ {proposer's, empty, undecodable, another member's, a non-member's}; quick: full product (vote subset × aggregate) + vote subset × RoundIndex + {all, no} votes × {Certificate field, Signature, Validator field × Signature} + sweeps of vote mutation and Validator field [configuration b: vote subset × RoundIndex; certificate fixture: sweeps of certificate subset, certificate aggregate and precommit subset + {all, no} precommits × certificate subset + {all, no} × {all, no} × {Signature, Certificate field} + {all, no} precommits × Validator field]; thorough: every pair of the dimensions (the vote mutation paired with vote subset and aggregate only; configuration b: the quick family; configuration b-: vote subset × {aggregate, RoundIndex}); entry points: VerifyHeader(seal), VerifySeal, VerifySideChainHeader (gets no chain handle: control), VerifyHeaders with the header alone and with StakeLookBack [thorough: 1 / StakeLookBack] preceding headers in the batch that the chain already has (re-delivered segment) [+ VerifyAcHeader]; FULL product chain content × family × entry points; oracle unchanged: an acceptance the calculator rejects is a violation (reported as 'only because the height is known' when the same entry point rejects the header at an unknown height, under the forgery alphabet's signature otherwise), a rejected honest-shaped quorum header is a violation except VerifyHeader / VerifyHeaders answering 'exist canonical' while ANOTHER hash is canonical at n (documented rule: BlockChain.insertChain then continues through VerifySeal / VerifySideChainHeader, which are driven on the same case and must accept)"

var errExistCanon = consensus.ErrExistCanonical.Error()

var knownKinds = []string{kAbsent, kHonestCanon, kSameCanon, kCanonChild, kStored, kSibCanon, kSibCanonStored}

var knownText = map[string]string{
	kAbsent:         "the chain has nothing at that height",
	kHonestCanon:    "the chain's canonical header at that height is the honestly voted header with the same hash",
	kSameCanon:      "the chain's canonical header at that height is the very header under verification (as a header insert without seal check writes it)",
	kCanonChild:     "the honestly voted header with the same hash is canonical and already has a canonical child",
	kStored:         "the honestly voted header with the same hash is stored as a side block, nothing is canonical at that height",
	kSibCanon:       "an honestly voted sibling block (same parent, other hash) is canonical at that height",
	kSibCanonStored: "an honestly voted sibling block is canonical at that height and the honestly voted header with the same hash is stored as a side block",
}

func kOrder(k string) int {
	for i, n := range knownKinds {
		if n == k {
			return i
		}
	}
	return len(knownKinds)
}

func sibKind(k string) bool { return k == kSibCanon || k == kSibCanonStored }

// Known is a chain that already stores something at height N, on top of a base chain that has nothing there.
type Known struct {
	consensus.ChainReader // the base chain (heights below N)
	N                     uint64
	Canon                 *types.Header   // canonical header at N (nil: none)
	Side                  []*types.Header // stored at N, not canonical
	Child                 *types.Header   // canonical header at N+1 (nil: none)
	asked                 *int64          // lookups at height N that were answered with a header
}

func (k *Known) hit(h *types.Header) *types.Header {
	if h != nil && k.asked != nil {
		atomic.AddInt64(k.asked, 1)
	}
	return h
}

func (k *Known) GetHeaderByNumber(n uint64) *types.Header {
	switch {
	case n == k.N:
		return k.hit(k.Canon)
	case n == k.N+1:
		return k.Child
	case n > k.N:
		return nil
	}
	return k.ChainReader.GetHeaderByNumber(n)
}

func (k *Known) byHash(hash common.Hash) *types.Header {
	if k.Canon != nil && k.Canon.Hash() == hash {
		return k.Canon
	}
	for _, h := range k.Side {
		if h.Hash() == hash {
			return h
		}
	}
	if k.Child != nil && k.Child.Hash() == hash {
		return k.Child
	}
	return nil
}

func (k *Known) GetHeader(hash common.Hash, n uint64) *types.Header {
	if n >= k.N {
		if h := k.byHash(hash); h != nil && h.Number.Uint64() == n {
			if n == k.N {
				return k.hit(h)
			}
			return h
		}
		return nil
	}
	return k.ChainReader.GetHeader(hash, n)
}

func (k *Known) GetHeaderByHash(hash common.Hash) *types.Header {
	if h := k.byHash(hash); h != nil {
		if h.Number.Uint64() == k.N {
			return k.hit(h)
		}
		return h
	}
	return k.ChainReader.GetHeaderByHash(hash)
}

func (k *Known) GetBlock(hash common.Hash, n uint64) *types.Block {
	if h := k.GetHeader(hash, n); h != nil {
		return types.NewBlockWithHeader(h)
	}
	return nil
}

func (k *Known) GetBlockByNumber(n uint64) *types.Block {
	if h := k.GetHeaderByNumber(n); h != nil {
		return types.NewBlockWithHeader(h)
	}
	return nil
}

func (k *Known) CurrentHeader() *types.Header {
	switch {
	case k.Child != nil:
		return k.Child
	case k.Canon != nil:
		return k.Canon
	}
	return k.ChainReader.CurrentHeader()
}

// the protocol version of round r is recorded protocolRoundBack headers earlier: always below N for r ≤ N+protocolRoundBack-1
func (k *Known) VersionForRound(r uint64) (*params.YouParams, error) {
	return k.ChainReader.VersionForRoundWithParents(r, nil)
}
func (k *Known) VersionForRoundWithParents(r uint64, parents []*types.Header) (*params.YouParams, error) {
	return k.ChainReader.VersionForRoundWithParents(r, parents)
}

var _ consensus.ChainReader = (*Known)(nil)

// epBatchKnown: VerifyHeaders on the batch [n-k .. n-1, header] with seals [false…, true] through a chain that HAS
// the batch's parents (a re-delivered segment: InsertChain / InsertHeaderChain of blocks the node knows already) and,
// at n, whatever the case's chain content says.  The verdict is the batch's last result.
func epBatchKnown(k uint64) Entry {
	name := fmt.Sprintf("VerifyHeaders[%d parents in batch, all known to the chain]", k)
	return Entry{Name: name, Run: func(sv *ucon.Server, c *Config, chain consensus.ChainReader, h *types.Header) error {
		n := h.Number.Uint64()
		if k > n {
			return fmt.Errorf("harness: batch longer than the chain")
		}
		var batch []*types.Header
		var seals []bool
		for i := n - k; i < n; i++ {
			p := chain.GetHeaderByNumber(i)
			if p == nil {
				return fmt.Errorf("harness: no header %d for the batch", i)
			}
			batch, seals = append(batch, p), append(seals, false)
		}
		batch, seals = append(batch, h), append(seals, true)
		abort, results := sv.VerifyHeaders(chain, batch, seals)
		defer close(abort)
		var last error
		for i := range batch {
			last = <-results
			if i < len(batch)-1 && last != nil {
				return fmt.Errorf("harness: batch header %d rejected without seal check: %v", batch[i].Number.Uint64(), last)
			}
		}
		return last
	}}
}

// KSpec is the replayable input of one known-height case.
type KSpec struct {
	Kind  string `json:"kind"` // "known"
	Net   uint64 `json:"network_id"`
	Cfg   string `json:"config"`
	Ver   uint64 `json:"version"`
	Cert  bool   `json:"certificate_round,omitempty"`
	Chain string `json:"chain_content_at_the_tested_height"`
	H     Spec   `json:"votes"`                       // the hash-preserving dimensions of the forgery alphabet (vote subsets, one vote mutation, aggregate, UconValidators.RoundIndex)
	Val   string `json:"validator_field,omitempty"`   // raw replacement of header.Validator
	CertF string `json:"certificate_field,omitempty"` // raw replacement of header.Certificate
	Sig   string `json:"header_signature,omitempty"`  // replacement of header.Signature
	// Entries: the entry points the case was driven through (they are part of the signature; a replay uses these)
	Entries []string `json:"entry_points,omitempty"`
}

func (s KSpec) hdrKey() string {
	return fmt.Sprintf("known/%s|val=%s|cert=%s|sig=%s", s.H.Key(), s.Val, s.CertF, s.Sig)
}

func (s KSpec) Key() string { return s.hdrKey() + "|chain=" + s.Chain }

// honestShaped: a header honest nodes can produce (a vote subset, or an honest re-vote at the next round index).
func (s KSpec) honestShaped() bool {
	return s.Val == "" && s.CertF == "" && s.Sig == "" && s.H.honestShaped()
}

var (
	kValVals  = []string{"", "empty", "emptyList", "garbage", "truncated"}
	kCertVals = []string{"", "empty", "garbage", "precommitRecord"}
	kSigVals  = []string{"", "empty", "garbage", "otherMember", "outsider"}
)

var kValText = map[string]string{
	"empty": "empty Validator field", "emptyList": "Validator field = RLP empty list", "garbage": "undecodable Validator field", "truncated": "truncated Validator field",
}
var kCertText = map[string]string{
	"empty": "empty Certificate field", "garbage": "undecodable Certificate field", "precommitRecord": "Certificate field = copy of the precommit record",
}
var kSigText = map[string]string{
	"empty": "empty header signature", "garbage": "undecodable header signature", "otherMember": "header signed by another member than the proposer", "outsider": "header signed by a non-member",
}

// known is the per-fixture state of the dimension.
type known struct {
	x       *ctx
	hash    common.Hash   // the hash every header of the family has
	honest  *types.Header // honestly voted header with that hash
	sibling *types.Header // honestly voted sibling block (other hash)
	child   *types.Header // a child of the honest header
	entries []Entry
	other   *Member // an entitled member that is not the proposer
	asked   map[string]*int64
}

func (x *ctx) newKnown() (*known, error) {
	c := x.c
	kn := &known{x: x, asked: map[string]*int64{}}
	for _, k := range knownKinds {
		kn.asked[k] = new(int64)
	}
	hf, err := kn.buildVotes(x.honestFor(x.scn()))
	if err != nil {
		return nil, err
	}
	if hf.Skip != "" {
		return nil, fmt.Errorf("honest header unavailable: %s", hf.Skip)
	}
	kn.honest, kn.hash = hf.Header, hf.Header.Hash()
	if o := Oracle(c, hf); !o.Accept {
		return nil, fmt.Errorf("the oracle rejects the honest header: %s", o)
	}
	// the sibling: the history dimension's B2 with its own honest votes
	hs, err := x.newHist()
	if err != nil {
		return nil, err
	}
	sf, err := hs.build(HHdr{Blk: 1})
	if err != nil {
		return nil, err
	}
	if o := hs.verdict(HHdr{Blk: 1}); !o.Accept {
		return nil, fmt.Errorf("the oracle rejects the honest sibling: %s", o)
	}
	kn.sibling = sf.Header
	if kn.sibling.Hash() == kn.hash || kn.sibling.ParentHash != kn.honest.ParentHash || kn.sibling.Number.Cmp(kn.honest.Number) != 0 {
		return nil, fmt.Errorf("sibling block is not a sibling")
	}
	kn.child = types.CopyHeader(c.Parent)
	kn.child.Number = new(big.Int).SetUint64(c.Round + 1)
	kn.child.ParentHash = kn.hash
	kn.child.Time = kn.honest.Time + 1
	for _, m := range c.Voters {
		if m != c.Proposer {
			kn.other = m
			break
		}
	}
	kn.entries = kn.entryList(x.r.Quick())
	return kn, nil
}

// entryList: the entry points of the dimension, in a fixed order.  [0] is VerifyHeader(seal).
func (kn *known) entryList(quick bool) []Entry {
	c := kn.x.c
	out := []Entry{epVerifyHeader, epVerifySeal, epSideChain, epBatch(0)}
	batches := []uint64{c.CP.StakeLookBack}
	if !quick {
		batches = []uint64{1, c.CP.StakeLookBack}
	}
	for _, k := range batches {
		if k < c.Round && c.Chain.GetHeaderByNumber(c.Round-k) != nil {
			out = append(out, epBatchKnown(k))
		}
	}
	if c.IsCert {
		out = append(out, epAcHeader)
	}
	return out
}

func (kn *known) entryNames() []string {
	var out []string
	for _, e := range kn.entries {
		out = append(out, e.Name)
	}
	return out
}

func (x *ctx) scn() string {
	if x.c.certPair != nil {
		return "cert"
	}
	return ""
}

func (kn *known) buildVotes(s Spec) (*Forged, error) {
	if s.Scn == "cert" {
		return kn.x.c.BuildCert(s)
	}
	return kn.x.c.Build(s)
}

// build constructs the header of a case: the votes named by s.H on the honest proposal, then the raw replacements
// of the three fields the hash does not cover.
func (kn *known) build(s KSpec) (*Forged, error) {
	c := kn.x.c
	if s.H.Prop != "" || s.H.TV != "" || s.H.TP != "" || s.H.TC != "" {
		return nil, fmt.Errorf("not a hash-preserving forgery: %s", s.H.Key())
	}
	f, err := kn.buildVotes(s.H)
	if err != nil || f.Skip != "" {
		return f, err
	}
	h := f.Header
	switch s.Val {
	case "":
	case "empty":
		h.Validator = []byte{}
	case "emptyList":
		h.Validator = []byte{0xc0}
	case "garbage":
		h.Validator = []byte{0xff, 0x01, 0x02, 0x03}
	case "truncated":
		h.Validator = append([]byte{}, h.Validator[:len(h.Validator)/2]...)
	default:
		return nil, fmt.Errorf("unknown Validator field variant %q", s.Val)
	}
	switch s.CertF {
	case "":
	case "empty":
		h.Certificate = []byte{}
	case "garbage":
		h.Certificate = []byte{0xff, 0x01, 0x02, 0x03}
	case "precommitRecord":
		h.Certificate = append([]byte{}, h.Validator...)
	default:
		return nil, fmt.Errorf("unknown Certificate field variant %q", s.CertF)
	}
	switch s.Sig {
	case "":
	case "empty":
		h.Signature = []byte{}
	case "garbage":
		h.Signature = make([]byte, 65)
		for i := range h.Signature {
			h.Signature[i] = byte(0x21 + i)
		}
	case "otherMember", "outsider":
		m := kn.other
		if s.Sig == "outsider" {
			m = c.Outsider
		}
		if m == nil {
			f.Skip = "no other entitled member"
			return f, nil
		}
		if h.Signature, err = crypto.Sign(h.Hash().Bytes(), m.Key); err != nil {
			return nil, err
		}
	default:
		return nil, fmt.Errorf("unknown header signature variant %q", s.Sig)
	}
	if kn.honest != nil && h.Hash() != kn.hash {
		return nil, fmt.Errorf("harness: forgery %s changed the header hash", s.hdrKey())
	}
	if s.CertF != "" && f.Cert {
		// the certificate record is no longer what BuildCert listed: nothing of it can count
		f.CertAggKind, f.CertAggOf = "garbage", nil
	}
	return f, nil
}

// chainFor: the chain of kind k for header h on top of base.
func (kn *known) chainFor(k string, base consensus.ChainReader, h *types.Header) consensus.ChainReader {
	n := kn.x.c.Round
	kc := &Known{ChainReader: base, N: n, asked: kn.asked[k]}
	switch k {
	case kAbsent:
		return base
	case kHonestCanon:
		kc.Canon = kn.honest
	case kSameCanon:
		kc.Canon = types.CopyHeader(h) // what a database read returns: an equal header, another object
	case kCanonChild:
		kc.Canon, kc.Child = kn.honest, kn.child
	case kStored:
		kc.Side = []*types.Header{kn.honest}
	case kSibCanon:
		kc.Canon = kn.sibling
	case kSibCanonStored:
		kc.Canon, kc.Side = kn.sibling, []*types.Header{kn.honest}
	default:
		panic("harness: unknown chain content " + k)
	}
	return kc
}

// kFamily: the hash-preserving forgeries.  Quick: the full product (vote subset × aggregate variant), vote subset ×
// UconValidators.RoundIndex, {all, no} votes × {Certificate field, header signature, Validator field × header
// signature} and the single sweeps of vote mutation and raw Validator field [configuration b: vote subset × round
// index; certificate fixture: sweeps of certificate subset, certificate aggregate, precommit subset, {all, no}
// precommits × certificate subset, {all, no} × {all, no} × {signature, Certificate field}, {all, no} precommits ×
// Validator field].  Thorough: every pair of the dimensions (the vote mutation paired with the vote subset and the
// aggregate only; configuration b: the quick family; b-: the boundary family vote subset × {aggregate, round index}).
func (kn *known) kFamily() []KSpec {
	x, c := kn.x, kn.x.c
	base := KSpec{Kind: kindKnown, Net: params.NetworkId(), Cfg: c.Name, Ver: uint64(c.Version), Cert: c.certPair != nil, H: x.honestFor(x.scn())}
	full := c.fullMask()
	type kdim struct {
		n   int
		set func(s *KSpec, i int)
	}
	mv := mutVals(len(c.Voters), x.quickTargets)
	subset := kdim{full + 1, func(s *KSpec, i int) { s.H.Subset = full - i }}
	mut := kdim{len(mv), func(s *KSpec, i int) { s.H.Mut = mv[i] }}
	agg := kdim{len(aggVals), func(s *KSpec, i int) { s.H.Agg = aggVals[i] }}
	ri := kdim{len(riVals), func(s *KSpec, i int) { s.H.RI = riVals[i] }}
	val := kdim{len(kValVals), func(s *KSpec, i int) { s.Val = kValVals[i] }}
	certF := kdim{len(kCertVals), func(s *KSpec, i int) { s.CertF = kCertVals[i] }}
	sig := kdim{len(kSigVals), func(s *KSpec, i int) { s.Sig = kSigVals[i] }}
	certSub := kdim{full + 1, func(s *KSpec, i int) { s.H.CertSub = full - i }}
	ends := func(d kdim) kdim { // the two ends of a subset dimension: all, none
		return kdim{2, func(s *KSpec, i int) { d.set(s, i*full) }}
	}
	var out []KSpec
	seen := map[string]bool{}
	product := func(ds ...kdim) {
		idx := make([]int, len(ds))
		for {
			s := base
			for i, d := range ds {
				d.set(&s, idx[i])
			}
			if k := s.hdrKey(); !seen[k] {
				seen[k] = true
				out = append(out, s)
			}
			i := 0
			for ; i < len(ds); i++ {
				idx[i]++
				if idx[i] < ds[i].n {
					break
				}
				idx[i] = 0
			}
			if i == len(ds) {
				return
			}
		}
	}
	if base.Cert {
		// BuildCert: the aggregate dimension is the certificate aggregate; no vote mutation / round-index dimension
		if x.r.Quick() {
			product(certSub)
			product(agg)
			product(subset)
			product(ends(subset), certSub)
			product(ends(subset), ends(certSub), sig)
			product(ends(subset), ends(certSub), certF)
			product(ends(subset), val)
		} else {
			product(certSub, agg)
			product(subset, certSub)
			for _, d := range []kdim{val, certF, sig} {
				product(subset, d)
				product(certSub, d)
				product(agg, d)
			}
			product(val, certF)
			product(val, sig)
			product(certF, sig)
		}
		return out
	}
	switch {
	case x.r.Quick() && baseName(c.Name) == "b":
		// the quorum boundary (the whale alone weighs exactly the quorum): vote subset × round index only
		product(subset, ri)
	case c.Name == "b-":
		// the whale alone one seat short of the quorum: the boundary family
		product(subset, agg)
		product(subset, ri)
	case x.r.Quick() || baseName(c.Name) == "b":
		// quick; thorough: configuration b (another stake distribution; the pairs are explored on configuration c)
		product(subset, agg)
		product(subset, ri)
		product(ends(subset), certF)
		product(ends(subset), sig)
		product(mut)
		product(val)
		product(ends(subset), val, sig)
	default:
		ds := []kdim{subset, mut, agg, ri, val, certF, sig}
		for i := 0; i < len(ds); i++ {
			for j := i + 1; j < len(ds); j++ {
				if i == 1 && j >= 3 {
					continue // the vote mutation is paired with the vote subset and the aggregate only
				}
				product(ds[i], ds[j])
			}
		}
	}
	return out
}

func (x *ctx) kDeviations(s KSpec) int {
	n := x.deviations(s.H)
	for _, v := range []string{s.Val, s.CertF, s.Sig} {
		if v != "" {
			n++
		}
	}
	return n
}

// kParts names what is wrong with the votes of a header the oracle rejects.
func (x *ctx) kParts(s KSpec, cert bool) []string {
	var ps []string
	if s.Val != "" {
		ps = append(ps, kValText[s.Val])
	} else {
		ps = x.specSignature(s.H)
	}
	if s.CertF != "" {
		if cert {
			ps = append(ps, kCertText[s.CertF])
		} else {
			ps = append(ps, kCertText[s.CertF]+" (not a certificate round)")
		}
	}
	if s.Sig != "" {
		ps = append(ps, kSigText[s.Sig])
	}
	return ps
}

func describeK(s KSpec) string {
	return fmt.Sprintf("chain content at the header's height: %s (%s); header: the honest proposal (hash unchanged) with %s", s.Chain, knownText[s.Chain], describe(s))
}

func isHeaderFamily(name string) bool {
	return name == "VerifyHeader" || strings.HasPrefix(name, "VerifyHeaders[")
}

type kEval struct {
	F     *Forged
	O     Verdict
	Res   map[string][]pathRes // chain content -> verdict per entry point (kn.entries order)
	Truth string
}

// eval builds the header and runs every entry point under every chain content.
func (kn *known) eval(s KSpec) (*kEval, error) {
	c := kn.x.c
	f, err := kn.build(s)
	if err != nil {
		return nil, err
	}
	e := &kEval{F: f, Res: map[string][]pathRes{}}
	if f.Skip != "" {
		return e, nil
	}
	var base consensus.ChainReader = c.Chain
	if f.Chain != nil {
		base = f.Chain
	}
	e.O = Oracle(c, f)
	if s.Val != "" && f.Cert {
		// the calculator stops at an undecodable precommit record; the certificate votes (all that VerifyAcHeader is
		// responsible for) are those of the same header with the Validator field as built
		t := s
		t.Val = ""
		tf, err := kn.build(t)
		if err != nil || tf.Skip != "" {
			return nil, fmt.Errorf("twin of %s does not build: %v", s.hdrKey(), err)
		}
		to := Oracle(c, tf)
		e.O.CertRound, e.O.CertOK, e.O.CertWeight, e.O.CertQuorum = true, to.CertOK, to.CertWeight, to.CertQuorum
	}
	accepted := false
	for _, k := range knownKinds {
		chain := kn.chainFor(k, base, f.Header)
		for _, ep := range kn.entries {
			ep := ep
			p := runPath(ep.Name, func() error { return ep.Run(c.Server, c, chain, f.Header) })
			p.CertOnly = ep.CertOnly
			e.Res[k] = append(e.Res[k], p)
			accepted = accepted || p.Accept
		}
	}
	if accepted {
		e.Truth = cryptoCheck(c, f, false)
	}
	return e, nil
}

func (kn *known) verdictLines(e *kEval, kinds ...string) string {
	var ls []string
	for _, k := range kinds {
		for _, p := range e.Res[k] {
			v := "REJECTED: " + p.Err
			if p.Accept {
				v = "ACCEPTED"
			}
			if p.Panic != "" {
				v = "PANIC: " + p.Panic
			}
			ls = append(ls, fmt.Sprintf("  [%s] %s -> %s", k, p.Path, v))
		}
	}
	return strings.Join(ls, "\n")
}

// check judges one header under every chain content.
func (kn *known) check(hs KSpec) {
	x, r, c := kn.x, kn.x.r, kn.x.c
	e, err := kn.eval(hs)
	if err != nil {
		r.HarnessError(fmt.Sprintf("known height: build %s: %v", hs.hdrKey(), err))
		return
	}
	if e.F.Skip != "" {
		r.Count("known: variant_unavailable: "+normErr(e.F.Skip), 1)
		return
	}
	if e.Truth != "" {
		r.HarnessError("aggregate ground truth: " + e.Truth + " spec=" + hs.hdrKey())
	}
	r.Count("known: forged_headers_with_the_honest_header_hash", 1)
	if e.O.Accept {
		r.Count("known: headers_the_oracle_accepts", 1)
	} else {
		r.Count("known: headers_the_oracle_rejects", 1)
	}
	if hs.Val == "" && hs.H.honestShaped() && hs.H.RI == "" && !e.F.Cert && e.O.Weight == e.O.Quorum {
		r.Count("known: headers_with_precommit_weight_exactly_at_quorum", 1)
	}
	control := e.Res[kAbsent]
	honestShaped := hs.honestShaped()
	isHonest := honestShaped && hs.H == x.honestFor(x.scn()) // the honest header itself
	for _, k := range knownKinds {
		s := hs
		s.Chain, s.Entries = k, kn.entryNames()
		res := e.Res[k]
		atomic.AddInt64(&r.Executions, 1)
		if k != kAbsent || !isHonest {
			r.Distinct(s.Key())
		}
		var onlyHere, anywhere, rejOnlyHere, rejAnywhere []string
		for i, p := range res {
			ctl := control[i]
			want := e.O.Accept
			if p.CertOnly {
				want = e.O.CertOK
			}
			r.Count("known: verifications", 1)
			if p.Panic != "" {
				r.Count("known: verifier_panicked", 1)
				x.offerRaw("", "verifier panics on a header whose height the chain already knows: "+panicSite(p.Where)+": "+normErr(p.Panic), "", nil,
					fmt.Sprintf("%02d|%02d|%s", x.kDeviations(s), kOrder(k), s.Key()), mc.Violation{Config: c.Name, Input: s,
						Detail: fmt.Sprintf("%s panicked: %s (at %s)\n%s\n%s", p.Path, p.Panic, p.Where, describeK(s), x.context())})
				continue
			}
			if p.Accept {
				r.Count("known: accepts ["+k+"]", 1)
			} else {
				r.Count("known: rejects ["+k+"]", 1)
				r.Count("known: verifier_error: "+normErr(p.Err), 1)
			}
			if k != kAbsent {
				switch {
				case p.Accept == ctl.Accept:
					r.Count("known: verdict_equals_the_verdict_at_an_unknown_height", 1)
				case sibKind(k) && isHeaderFamily(p.Path) && p.Err == errExistCanon:
					r.Count("known: verdict_differs_by_the_exist_canonical_rule (another hash is canonical: "+kHeaderFamily+" refuse, the import goes on through VerifySeal / VerifySideChainHeader)", 1)
				default:
					r.Count("known: VERDICT_DEPENDS_ON_THE_CHAIN_CONTENT ["+k+"]", 1)
				}
			}
			switch {
			case p.Accept && want:
				r.Count("known: agree_accept", 1)
				if honestShaped && !e.F.Cert && e.O.Weight == e.O.Quorum {
					r.Count("known: weight_exactly_at_quorum_accepted ["+k+"]", 1)
				}
			case !p.Accept && !want:
				r.Count("known: agree_reject", 1)
			case p.Accept && !want:
				if k != kAbsent && !ctl.Accept {
					onlyHere = append(onlyHere, p.Path)
				} else {
					anywhere = append(anywhere, p.Path)
				}
			default: // rejected although the oracle accepts
				switch {
				case !honestShaped:
					r.Count("known: verifier_stricter_on_malformed_header", 1)
				case sibKind(k) && isHeaderFamily(p.Path) && p.Err == errExistCanon:
					r.Count("known: honest_header_refused_by_the_exist_canonical_rule", 1)
				case k != kAbsent && ctl.Accept:
					rejOnlyHere = append(rejOnlyHere, p.Path)
				default:
					rejAnywhere = append(rejAnywhere, p.Path)
				}
			}
		}
		certRank := 0
		if e.F.Cert {
			certRank = 1 // the plain fixtures describe a failure more simply than the certificate-round one
		}
		rank := fmt.Sprintf("%02d|%d|%02d|%02d|%08d|%s", x.kDeviations(s), certRank, kOrder(k), popcount(s.H.Subset)+popcount(s.H.CertSub), e.O.SignerSeats, s.Key())
		certOnlyPaths := func(paths []string) bool {
			for _, p := range paths {
				if p != epAcHeader.Name {
					return false
				}
			}
			return len(paths) > 0
		}
		if len(onlyHere) > 0 {
			r.Count("known: VIOLATING_CASES_accepted_only_because_the_height_is_known ["+k+"]", 1)
			head := "accepted only because of what the verifier's chain already stores at the header's height " + pathGroup(onlyHere) + ": "
			parts := x.kParts(s, e.F.Cert)
			sig := head + knownText[k] + "; header with the same hash and " + strings.Join(parts, " + ")
			x.offerRaw(head, sig, "", nil, rank, mc.Violation{Config: c.Name, Input: s,
				Detail: fmt.Sprintf("the real verifier accepts (%s) a header the protocol's quorum rule rejects, and rejects the same header when its chain has nothing at that height.\n%s\noracle: %s\nverdicts:\n%s\n%s",
					strings.Join(onlyHere, ","), describeK(s), e.O, kn.verdictLines(e, kAbsent, k), x.context())})
		}
		if len(anywhere) > 0 {
			r.Count("known: wrongly_accepted_whatever_the_chain_stores ["+k+"]", 1)
			if k == kAbsent {
				kn.reportAnywhere(s, e, anywhere, certOnlyPaths(anywhere), rank)
			}
		}
		if len(rejOnlyHere) > 0 {
			r.Count("known: VIOLATING_CASES_honest_header_rejected_only_because_the_height_is_known ["+k+"]", 1)
			head := "rejected honest header" + certTag(c) + " only because of what the verifier's chain already stores at the header's height " + pathGroup(rejOnlyHere) + ": "
			x.offerRaw(head, head+knownText[k], "", nil, rank, mc.Violation{Config: c.Name, Input: s,
				Detail: fmt.Sprintf("the real verifier rejects (%s) a header built only from honest building blocks that carries a protocol-sized quorum, and accepts the same header when its chain has nothing at that height.\n%s\noracle: %s\nverdicts:\n%s\n%s",
					strings.Join(rejOnlyHere, ","), describeK(s), e.O, kn.verdictLines(e, kAbsent, k), x.context())})
		}
		if len(rejAnywhere) > 0 {
			r.Count("known: honest_header_rejected_whatever_the_chain_stores ["+k+"]", 1)
			if k == kAbsent {
				r.Count("known: VIOLATING_CASES_honest_header_rejected", 1)
				// one defect, one signature: the forgery alphabet's when its entry points see the rejection as well
				if me, err := x.eval(s.H, true); err == nil && me.F.Skip == "" && me.O.Accept && !me.mainAccepts() {
					x.reportHonestRejected(s.H, me.O, me.Paths[0].Err)
				} else {
					head := "rejected honest header" + certTag(c) + " " + pathGroup(rejAnywhere) + ": "
					x.offerRaw(honestGroup(c), head+"quorum subset of valid votes (known-height family)", "", nil, "04|"+rank, mc.Violation{Config: c.Name, Input: s,
						Detail: fmt.Sprintf("the real verifier rejects (%s) a header built only from honest building blocks that carries a protocol-sized quorum.\n%s\noracle: %s\nverdicts:\n%s\n%s",
							strings.Join(rejAnywhere, ","), describeK(s), e.O, kn.verdictLines(e, kAbsent), x.context())})
				}
			}
		}
	}
	// evidence samples: the honest header (configuration c and the certificate fixture) and its vote-less twin (c)
	if (isHonest && (e.F.Cert || c.Name == "c")) || (honestShaped && hs.H.Subset == 0 && hs.H.RI == "" && !e.F.Cert && c.Name == "c") {
		// one letter per entry point (kn.entries order): A accepted, X refused as "exist canonical", R rejected otherwise
		what := "the honest header"
		if !isHonest {
			what = "the same header without any precommit"
		}
		ps := []string{fmt.Sprintf("known height, %s/%s: %s (oracle accept=%v) through %s", c.Name, map[bool]string{true: "certificate round", false: "plain round"}[e.F.Cert], what, e.O.Accept, strings.Join(kn.entryNames(), ", "))}
		for _, k := range knownKinds {
			v := ""
			for _, p := range e.Res[k] {
				switch {
				case p.Accept:
					v += "A"
				case p.Err == errExistCanon:
					v += "X"
				default:
					v += "R"
				}
			}
			ps = append(ps, k+"="+v)
		}
		r.Sample(strings.Join(ps, " ; "))
	}
}

// reportAnywhere: a wrong acceptance that does not need the chain to know the height.  When the forgery alphabet
// dimension can express the header (and sees the same failure) it is reported under that dimension's signature (one
// defect, one signature); otherwise under a signature of this dimension.
func (kn *known) reportAnywhere(s KSpec, e *kEval, paths []string, certOnly bool, rank string) {
	x, r, c := kn.x, kn.x.r, kn.x.c
	r.Count("known: VIOLATING_CASES_accepted_without_protocol_quorum", 1)
	if s.Val == "" && s.CertF == "" && s.Sig == "" {
		if me, err := x.eval(s.H, true); err == nil && me.F.Skip == "" {
			full, co := me.wrongly()
			if len(full) > 0 {
				x.reportAccept(s.H, me, full, false)
			}
			if len(co) > 0 {
				x.reportAccept(s.H, me, co, true)
			}
			if len(full)+len(co) > 0 {
				return
			}
		}
	}
	head := "accepted " + pathGroup(paths) + ": "
	if certOnly {
		head = "accepted by VerifyAcHeader (certificate votes only): "
	}
	parts := x.kParts(s, e.F.Cert)
	x.offerRaw(head, head+"header with "+strings.Join(parts, " + "), "", nil, rank, mc.Violation{Config: c.Name, Input: s,
		Detail: fmt.Sprintf("the real verifier accepts (%s) a header the protocol's quorum rule rejects.\n%s\noracle: %s\nverdicts:\n%s\n%s",
			strings.Join(paths, ","), describeK(s), e.O, kn.verdictLines(e, kAbsent), x.context())})
}

// hashCoverage changes every field of a copy of h in turn and returns the fields whose change leaves Hash() unchanged.
func hashCoverage(h *types.Header) (outside []string, covered int) {
	t := reflect.TypeOf(*h)
	base := h.Hash()
	for i := 0; i < t.NumField(); i++ {
		cp := types.CopyHeader(h)
		fv := reflect.ValueOf(cp).Elem().Field(i)
		switch {
		case fv.Kind() == reflect.Array: // common.Hash, common.Address, Bloom
			b := fv.Index(0)
			b.SetUint(b.Uint() ^ 0x55)
		case fv.Kind() == reflect.Uint64:
			fv.SetUint(fv.Uint() + 1)
		case fv.Kind() == reflect.Slice: // []byte
			fv.Set(reflect.ValueOf(append(append([]byte{}, fv.Bytes()...), 0x01)))
		case fv.Type() == reflect.TypeOf((*big.Int)(nil)):
			old, _ := fv.Interface().(*big.Int)
			if old == nil {
				old = new(big.Int)
			}
			fv.Set(reflect.ValueOf(new(big.Int).Add(old, big.NewInt(1))))
		default:
			outside = append(outside, t.Field(i).Name+" (harness: field kind not probed)")
			continue
		}
		if cp.Hash() == base {
			outside = append(outside, t.Field(i).Name)
		} else {
			covered++
		}
	}
	sort.Strings(outside)
	return
}

// exploreKnown: the full product (chain content × family × entry points).
func (x *ctx) exploreKnown() map[string]interface{} {
	r := x.r
	kn, err := x.newKnown()
	if err != nil {
		r.HarnessError("known height: " + err.Error())
		return nil
	}
	outside, covered := hashCoverage(kn.honest)
	if strings.Join(outside, ",") != "Certificate,Signature,Validator" {
		r.HarnessError(fmt.Sprintf("known height: the header hash leaves %v uncovered; the family forges Certificate, Signature and Validator only", outside))
	}
	fam := kn.kFamily()
	r.ForEach(len(fam), func(w, i int) { kn.check(fam[i]) })
	eps := kn.entryNames()
	r.Count("known: headers_of_the_family", int64(len(fam)))
	r.Count("known: cases (chain content × header)", int64(len(fam)*len(knownKinds)))
	for _, k := range knownKinds {
		if k != kAbsent {
			r.Count("known: chain_answered_a_lookup_at_the_tested_height_with_a_header ["+k+"]", atomic.LoadInt64(kn.asked[k]))
		}
	}
	return map[string]interface{}{
		"header_fields_the_hash_covers": covered, "header_fields_outside_the_hash (" + kProbeUnchanged + ")": outside,
		"chain_contents": knownKinds, "entry_points": eps, "headers_of_the_family": len(fam),
		"verifications": len(fam) * len(knownKinds) * len(eps),
	}
}

func replayKnown(r *mc.Run, v *mc.Violation, bs []byte) {
	var s KSpec
	if err := json.Unmarshal(bs, &s); err != nil {
		fmt.Println("bad replay input:", err)
		return
	}
	x := replayCtx(r, s.Net, s.Cfg, s.Ver, s.Cert)
	if x == nil {
		return
	}
	kn, err := x.newKnown()
	if err != nil {
		fmt.Println("known height:", err)
		return
	}
	if len(s.Entries) > 0 {
		byName := map[string]Entry{}
		for _, e := range kn.entryList(false) {
			byName[e.Name] = e
		}
		kn.entries = nil
		for _, n := range s.Entries {
			e, ok := byName[n]
			if !ok {
				fmt.Println("unknown entry point in the replay file:", n)
				return
			}
			kn.entries = append(kn.entries, e)
		}
	}
	fmt.Println(describeK(s))
	fmt.Println(x.context())
	e, err := kn.eval(s)
	if err != nil {
		fmt.Println("build:", err)
		return
	}
	if e.F.Skip != "" {
		fmt.Println("variant unavailable:", e.F.Skip)
		return
	}
	fmt.Println(kn.verdictLines(e, knownKinds...))
	fmt.Println("oracle:", e.O)
	kn.check(s)
	x.replayReport(r, v)
}
