// Package c01: a block header is accepted only with a protocol-sized quorum of
// valid precommits.  Exhaustive enumeration of a finite forgery alphabet (vote
// multisets × header-declared thresholds × aggregate signatures × round index
// × proposer credentials) over real-crypto fixtures; every forged header is
// given to the real verifier and to an independent quorum calculator.
//
// Two further dimensions (lookback.go, history.go): headers that are honest
// only under OTHER look-back headers than the protocol's (every look-back
// header of the fixture commits to a different validator set and seed; all
// entry points including header batches that carry their own look-back
// headers), and the verifier's history (every short sequence of verifications
// of headers that re-use each other's votes, on one Server instance: the
// verdict must be the stateless one).
//
// Borrowed credentials (forge.go borrowVals, history.go Bor/CBor + live vote messages): a vote whose sortition proof
// was made by ANOTHER member's key, next to / before / after / without that member's genuine vote, in one header
// and across the verifier's history.  The quorum function and protocol versions with other committee sizes than
// the shipped ones: quorum.go.
//
// A fourth dimension (known.go): what the verifier's CHAIN already stores at
// the header's height (nothing / the honest header with the same hash / the
// very header / a sibling; canonical or side block; with a child) × every
// forgery that keeps the header hash (the hash does not cover Validator,
// Certificate and Signature) × every entry point: the verdict must be the
// calculator's whatever the chain knows.
package c01

import (
	"encoding/json"
	"fmt"
	"os"
	"regexp"
	"sort"
	"strconv"
	"strings"
	"sync"
	"sync/atomic"
	"time"

	"github.com/youchainhq/go-youchain/consensus"
	"github.com/youchainhq/go-youchain/consensus/ucon"
	"github.com/youchainhq/go-youchain/core/types"
	"github.com/youchainhq/go-youchain/params"
	"github.com/youchainhq/go-youchain/rlp"

	"verif/mc"
)

// ---- evaluation of one spec --------------------------------------------------

type pathRes struct {
	Path     string
	CertOnly bool // the entry point checks certificate votes only (VerifyAcHeader)
	Accept   bool
	Err      string
	Panic    string
	Where    string
}

type evalRes struct {
	F     *Forged
	Paths []pathRes // [0] = VerifyHeader(seal=true)
	O     Verdict
	Truth string // non-empty: ground truth of the aggregate contradicted by real BLS verification
}

// wrongly: entry points that accept although the oracle (the part of it that
// entry point is responsible for) rejects.
func (e *evalRes) wrongly() (full, certOnly []string) {
	for _, p := range e.Paths {
		switch {
		case !p.Accept:
		case p.CertOnly && !e.O.CertOK:
			certOnly = append(certOnly, p.Path)
		case !p.CertOnly && !e.O.Accept:
			full = append(full, p.Path)
		}
	}
	return
}

func (e *evalRes) mainAccepts() bool { return e.Paths[0].Accept }

func (e *evalRes) panicked() *pathRes {
	for i := range e.Paths {
		if e.Paths[i].Panic != "" {
			return &e.Paths[i]
		}
	}
	return nil
}

type witness struct {
	v     mc.Violation
	rank  string
	head  string   // signature prefix
	parts []string // root causes (joint signature = head + parts joined)
	// quorumOnly: a scaled-version fixture and a header in which nothing but the vote subsets (and an honest re-vote at
	// the next round index) deviates: too little weight was enough, or enough was not; when the exhaustive comparison of
	// the quorum function reports its own violation this is the same defect seen through the verifier
	quorumOnly bool
}

// witnesses is shared by all fixtures of a run.
type witnesses struct {
	mu   sync.Mutex
	best map[string]*witness // signature -> simplest witness (deterministic choice)
}

type ctx struct {
	r    *mc.Run
	c    *Config
	memo sync.Map // spec key (+paths) -> *evalRes

	ws *witnesses

	quickTargets bool // quick tier: vote mutations target the first and the last voter only
	everyEntry   bool // single-deviation headers go through every entry point of the configuration (header batches included)
}

func runPath(name string, f func() error) pathRes {
	p := pathRes{Path: name}
	var err error
	p.Panic, p.Where = mc.CatchStack(func() { err = f() })
	if p.Panic == "" {
		if err == nil {
			p.Accept = true
		} else {
			p.Err = err.Error()
		}
	}
	return p
}

// eval builds the header and runs the real verifier and the oracle.
func (x *ctx) eval(s Spec, allPaths bool) (*evalRes, error) {
	key := s.Key()
	if allPaths {
		key += "|all"
	}
	if v, ok := x.memo.Load(key); ok {
		return v.(*evalRes), nil
	}
	var f *Forged
	var err error
	if s.Scn == "cert" {
		f, err = x.c.BuildCert(s)
	} else {
		f, err = x.c.Build(s)
	}
	if err != nil {
		return nil, err
	}
	e := &evalRes{F: f}
	if f.Skip == "" {
		c := x.c
		var chain consensus.ChainReader = c.Chain
		if f.Chain != nil {
			chain = f.Chain
		}
		e.Paths = append(e.Paths, runPath("VerifyHeader", func() error { return VerifyHeaderOn(c, chain, f.Header) }))
		if allPaths || s.Scn == "cert" {
			e.Paths = append(e.Paths, runPath("VerifySeal", func() error { return c.Server.VerifySeal(chain, f.Header) }))
			if s.Scn == "cert" {
				p := runPath("VerifyAcHeader", func() error { return c.Server.VerifyAcHeader(chain, f.Header, nil) })
				p.CertOnly = true
				e.Paths = append(e.Paths, p)
			} else {
				e.Paths = append(e.Paths, runPath("VerifySideChainHeader", func() error { return VerifySideChain(c, f.Header) }))
				// (not after a panic: VerifyHeaders verifies in a goroutine of its own, where a panic of the verifier cannot
				// be recovered and would end the run instead of being reported)
				if x.everyEntry && e.panicked() == nil {
					for _, ep := range c.entries(true)[3:] {
						ep := ep
						e.Paths = append(e.Paths, runPath(ep.Name, func() error { return ep.Run(c.Server, c, chain, f.Header) }))
					}
				}
			}
		}
		e.O = Oracle(c, f)
		for _, p := range e.Paths {
			if p.Accept {
				e.Truth = cryptoCheck(c, f, allPaths)
				break
			}
		}
	}
	x.memo.Store(key, e)
	return e, nil
}

// ---- signatures --------------------------------------------------------------

var mutSig = map[string]string{
	"dup2": "duplicate vote counted twice", "dup3": "duplicate vote counted twice",
	"replayIndex":  "credential for another round index counted",
	"replayStep":   "credential for another step counted",
	"replayRound":  "credential for another round counted",
	"sigOtherHash": "vote signed over another block hash counted",
	"votes+1":      "weight-inflated vote counted", "votesx2": "weight-inflated vote counted",
	"votesMax": "weight-inflated vote counted", "votes0": "zero-weight vote counted",
	"idxOutOfRange": "vote with out-of-range voter index counted",
	"house":         "house member's vote counted",
	"offline":       "offline member's vote counted",
	"zeroStake":     "zero-stake member's vote counted",
	// borrowed credentials: one defect (a credential is accepted under a key that did not make it) whatever the position
	// of the entry and the seat count it declares
	"borrowAfter.L": borrowSig, "borrowAfter.O": borrowSig, "borrowAfter.R": borrowSig,
	"borrowBefore.L": borrowSig, "borrowBefore.O": borrowSig, "borrowBefore.R": borrowSig,
	"borrowStep.R":  "vote carrying another member's sortition proof of another step counted",
	"borrowIndex.R": "vote carrying another member's sortition proof of another round index counted",
}

const borrowSig = "vote carrying another member's sortition proof counted"
var aggSig = map[string]string{
	"distinct": "aggregate over distinct signers only", "dropOne": "aggregate signature not covering every counted vote",
	"otherHash": "aggregate signature over another payload", "infinity": "infinity-point aggregate signature",
	"empty": "empty aggregate signature", "garbage": "undecodable aggregate signature", "foreign": "aggregate signature of a non-member",
}
var riSig = map[string]string{
	"other/replayed": "votes of another round index accepted under UconValidators.RoundIndex",
	"other/revoted":  "re-vote at the next round index",
}
var propSig = map[string]string{
	"j0": "proposer credential with j=0", "wrongPriority": "proposer with wrong priority", "subusers+1": "proposer with inflated seat count",
	"nonMember": "proposer that is not a member", "house": "house member as proposer", "offline": "offline member as proposer",
	"otherIndexProof": "proposer proof for another round index",
	"borrowedProof":   "proposer credential made by another member's key",
}

func thrSig(name, v string, proto uint64) string {
	if v == "" {
		return ""
	}
	val, _ := thrValue(v, proto)
	if val < proto {
		return "declared " + name + " below protocol value"
	}
	return "declared " + name + " above protocol value"
}

// specSignature names the deviating dimensions of a (minimised) spec; used
// only when no known relaxation explains the acceptance.
func (x *ctx) specSignature(s Spec) []string {
	var parts []string
	add := func(p string) {
		if p != "" {
			parts = append(parts, p)
		}
	}
	mk := s.Mut
	if i := strings.Index(mk, "@"); i > 0 {
		mk = mk[:i]
	}
	add(mutSig[mk])
	add(aggSig[s.Agg])
	add(riSig[s.RI])
	add(propSig[s.Prop])
	add(thrSig("ValidatorThreshold", s.TV, x.c.CP.ValidatorThreshold))
	add(thrSig("ProposerThreshold", s.TP, x.c.CP.ProposerThreshold))
	add(thrSig("CertValThreshold", s.TC, x.c.CP.CertValThreshold))
	if s.Scn == "cert" && s.CertSub != x.c.fullMask() {
		add("sub-quorum subset of valid certificate votes")
	}
	if len(parts) == 0 {
		parts = []string{"sub-quorum subset of valid precommits"}
	}
	return parts
}

// minimise resets deviating dimensions one at a time while the header stays an
// unexplained violation of the same kind: the signature then names only what
// is needed.
func (x *ctx) minimise(s Spec, certOnly bool) Spec {
	viol := func(t Spec) bool {
		e, err := x.eval(t, false)
		if err != nil || e.F.Skip != "" {
			return false
		}
		full, co := e.wrongly()
		if (certOnly && len(co) == 0) || (!certOnly && len(full) == 0) {
			return false
		}
		// it must also stay a failure no known relaxation explains
		_, explained := explain(x.c, e.F, certOnly)
		return !explained
	}
	try := func(mod func(*Spec)) {
		t := s
		mod(&t)
		if t != s && viol(t) {
			s = t
		}
	}
	for pass := 0; pass < 2; pass++ {
		try(func(t *Spec) { t.Prop = "" })
		try(func(t *Spec) { t.RI = "" })
		try(func(t *Spec) { t.Agg = "" })
		try(func(t *Spec) { t.Mut = "" })
		try(func(t *Spec) { t.TC = "" })
		try(func(t *Spec) { t.TP = "" })
		try(func(t *Spec) { t.TV = "" })
		try(func(t *Spec) { t.Subset = x.c.fullMask() })
		if s.Scn == "cert" {
			try(func(t *Spec) { t.CertSub = x.c.fullMask() })
		}
	}
	return s
}

var funcRe = regexp.MustCompile(`\.func[0-9.]+$`)

func panicSite(where string) string { return funcRe.ReplaceAllString(where, "") }

var numRe = regexp.MustCompile(`0x[0-9a-fA-F]+|[0-9]+`)

func normErr(s string) string {
	s = numRe.ReplaceAllString(s, "N")
	if len(s) > 90 {
		s = s[:90]
	}
	return s
}

// deviations counts the dimensions of s (other than the vote subsets) that
// differ from the honest header.
func (x *ctx) deviations(s Spec) int {
	n := 0
	for _, d := range []bool{s.Mut != "", s.TV != "", s.TP != "", s.TC != "", s.Agg != "", s.RI != "", s.Prop != ""} {
		if d {
			n++
		}
	}
	return n
}

func popcount(m int) int {
	n := 0
	for ; m != 0; m &= m - 1 {
		n++
	}
	return n
}

// offer keeps, per signature, the simplest witness (fewest deviating
// dimensions, then fewest listed votes, then fewest true seats behind them,
// then smallest key): the replay file is the same on every run.
func (x *ctx) offer(head string, parts []string, s Spec, seats uint32, detail string) {
	scaled := false
	if _, scaled = scaledSize(x.c.Version); scaled {
		// a fixture of the harness's own protocol versions: what fails there and passes on the shipped versions
		// depends on the committee size
		head = scaledTag + head
	}
	sig := head + strings.Join(parts, " + ")
	rank := fmt.Sprintf("%02d|%02d|%08d|%s", x.deviations(s), popcount(s.Subset)+popcount(s.CertSub), seats, s.Key())
	x.ws.mu.Lock()
	defer x.ws.mu.Unlock()
	if w, ok := x.ws.best[sig]; ok && w.rank <= rank {
		return
	}
	x.ws.best[sig] = &witness{rank: rank, head: head, parts: parts, v: mc.Violation{Sig: sig, Config: x.c.Name, Input: s, Detail: detail},
		quorumOnly: scaled && s.honestShaped()}
}

const scaledTag = "[protocol version with committee sizes other than the shipped 2000/4000] "


// offerRaw is offer for the dimensions whose input is not a Spec (look-back, history).  group is the
// de-duplication key ("" = the signature itself): one witness — the one with the smallest rank — is kept per group
// and ITS signature is reported, so a defect that many value vectors expose (some only through coincidences of
// seat counts) is reported once, under the description of its simplest witness.
func (x *ctx) offerRaw(group, sig, head string, parts []string, rank string, v mc.Violation) {
	v.Sig = sig
	if group == "" {
		group = sig
	}
	x.ws.mu.Lock()
	defer x.ws.mu.Unlock()
	if w, ok := x.ws.best[group]; ok && w.rank <= rank {
		return
	}
	x.ws.best[group] = &witness{rank: rank, head: head, parts: parts, v: v}
}

// flush reports one violation per signature.  A header that needs several
// independent root causes at once (pairs of dimensions are explored) gets a
// joint signature; it is reported only if some part of it is not reported on
// its own — otherwise it is the same defects again, not a new one.
func (ws *witnesses) flush(r *mc.Run) {
	var sigs []string
	for s := range ws.best {
		sigs = append(sigs, s)
	}
	sort.Strings(sigs)
	quorumFn := false
	for _, s := range sigs {
		if strings.HasPrefix(s, "quorum function") {
			quorumFn = true
		}
	}
	for _, s := range sigs {
		w := ws.best[s]
		if w.quorumOnly && quorumFn {
			r.Count("scaled-version sub-quorum acceptances folded into the quorum-function violation", 1)
			continue
		}
		if len(w.parts) > 1 {
			alone := true
			for _, p := range w.parts {
				if _, ok := ws.best[w.head+p]; !ok {
					alone = false
				}
			}
			if alone {
				r.Count("joint_signatures_folded_into_their_single_causes", 1)
				continue
			}
		}
		r.Report(w.v)
	}
}

func (x *ctx) context() string {
	c := x.c
	return fmt.Sprintf("protocol: ProposerThreshold=%d ValidatorThreshold=%d (quorum %d) CertValThreshold=%d; block %d, look-back set %s; precommit seats of the entitled members (look-back index order) at round index %d: %v",
		c.CP.ProposerThreshold, c.CP.ValidatorThreshold, c.Quorum(), c.CP.CertValThreshold, c.Round, c.describeSet(), c.HonestRI, c.SeatCounts(c.HonestRI))
}

// ---- one case ----------------------------------------------------------------

func (x *ctx) check(s Spec, allPaths bool) {
	r := x.r
	e, err := x.eval(s, allPaths)
	if err != nil {
		r.HarnessError(fmt.Sprintf("build %s: %v", s.Key(), err))
		return
	}
	if e.F.Skip != "" {
		r.Count("variant_unavailable_in_config", 1)
		r.Count("unavailable: "+normErr(e.F.Skip), 1)
		return
	}
	atomic.AddInt64(&r.Executions, 1)
	pre := ""
	if s.Scn == "cert" {
		pre = "cert: "
	}
	honest := s == x.honestFor(s.Scn)
	if !honest {
		r.Distinct(s.Key())
	}
	acc := e.mainAccepts()
	if e.Truth != "" {
		r.HarnessError("aggregate ground truth: " + e.Truth + " spec=" + s.Key())
	}
	for _, cl := range e.F.Classes {
		r.Count("class_evaluated: "+cl, 1)
		if acc {
			r.Count("class_accepted_by_verifier: "+cl, 1)
		}
	}
	if p := e.panicked(); p != nil {
		r.Count(pre+"verifier_panicked", 1)
		x.offer("verifier panics on a forged header: ", []string{panicSite(p.Where) + ": " + normErr(p.Panic)}, s, e.O.SignerSeats, fmt.Sprintf("%s panicked: %s (at %s)\nforged header: %s\n%s", p.Path, p.Panic, p.Where, describe(s), x.context()))
		return
	}
	if acc {
		r.Count(pre+"verifier_accept", 1)
	} else {
		r.Count(pre+"verifier_reject", 1)
		r.Count(pre+"verifier_error: "+normErr(e.Paths[0].Err), 1)
	}
	if e.O.Accept {
		r.Count(pre+"oracle_accept", 1)
	} else {
		r.Count(pre+"oracle_reject", 1)
		for k := range e.O.Excluded {
			r.Count("oracle_excluded_vote: "+k, 1)
		}
		if !e.O.ProposerOK {
			r.Count("oracle_proposer_invalid", 1)
		}
	}
	for _, p := range e.Paths[1:] {
		if !p.CertOnly && p.Accept != acc {
			r.Count("paths_disagree", 1)
		}
	}
	// quorum boundary accounting on the pure vote-subset sweep
	if s.Scn == "" && s.honestShaped() && s.RI == "" {
		switch {
		case e.O.Weight < e.O.Quorum:
			r.Count("subset_weight_below_quorum", 1)
			if !acc {
				r.Count("subset_below_quorum_rejected", 1)
			}
		case e.O.Weight == e.O.Quorum:
			r.Count("subset_weight_exactly_at_quorum", 1)
			if acc {
				r.Count("subset_at_quorum_accepted", 1)
			}
		default:
			r.Count("subset_weight_above_quorum", 1)
			if acc {
				r.Count("subset_above_quorum_accepted", 1)
			}
		}
	}
	// borrowed credentials: the cases in which the borrowed entry would decide the quorum if it were counted
	if b := e.F.Borrow; b != nil && x.deviations(s) == 1 {
		where := "borrowed alone (the lender's genuine vote is not listed)"
		if b.LenderListed {
			where = "listed next to the lender's genuine vote"
		}
		if e.O.Weight < e.O.Quorum && uint64(e.O.Weight)+uint64(b.Votes) >= uint64(e.O.Quorum) {
			r.Count("borrowed_credential_would_decide_the_quorum: "+where, 1)
			if !acc {
				r.Count("borrowed_credential_would_decide_the_quorum: rejected", 1)
			}
		}
	}
	if s.Scn == "cert" && s.TC == "" && s.Agg == "" && s.Subset == x.c.fullMask() {
		switch {
		case e.O.CertWeight < e.O.CertQuorum:
			r.Count("cert: subset_weight_below_quorum", 1)
		case e.O.CertWeight == e.O.CertQuorum:
			r.Count("cert: subset_weight_exactly_at_quorum", 1)
		default:
			r.Count("cert: subset_weight_above_quorum", 1)
		}
	}
	full, certOnly := e.wrongly()
	switch {
	case acc && e.O.Accept:
		r.Count(pre+"agree_accept", 1)
	case !acc && !e.O.Accept:
		r.Count(pre+"agree_reject", 1)
	}
	report := func(paths []string, co bool) { x.reportAccept(s, e, paths, co) }
	if len(full) > 0 {
		report(full, false)
	}
	if len(certOnly) > 0 {
		report(certOnly, true)
	}
	if !acc && e.O.Accept {
		if s.honestShaped() {
			r.Count(pre+"VIOLATING_CASES_honest_header_rejected", 1)
			x.reportHonestRejected(s, e.O, e.Paths[0].Err)
		} else {
			// allowed: the verifier may refuse a malformed header even if it contains a quorum
			r.Count(pre+"verifier_stricter_on_malformed_header", 1)
		}
	}
	if acc != e.O.Accept || honest {
		r.Sample(map[string]interface{}{"spec": describe(s), "verifier_accepts": acc, "verifier_error": e.Paths[0].Err, "oracle": e.O.String()})
	}
}

// reportHonestRejected offers the rejection of a header built only from honest building blocks that carries a quorum.
func (x *ctx) reportHonestRejected(s Spec, o Verdict, errText string) {
	sig := "rejected honest header: quorum subset of valid precommits"
	if s.RI != "" {
		sig = "rejected honest header: quorum of valid precommits re-voted at the next round index"
	}
	if s.Scn == "cert" {
		sig = "rejected honest header (certificate round): quorum subsets of valid precommits and certificate votes"
	}
	x.offer("", []string{sig}, s, o.SignerSeats, fmt.Sprintf("the real verifier rejects (%s) a header built only from honest building blocks that carries a protocol-sized quorum.\nheader: %s\noracle: %s\n%s",
		errText, describe(s), o, x.context()))
}

// reportAccept offers a wrong acceptance (entry points `paths` accept, the oracle rejects) under the signature of its
// root cause: the known relaxation that explains it, or the deviating dimensions of the minimised spec.
func (x *ctx) reportAccept(s Spec, e *evalRes, paths []string, co bool) {
	r := x.r
	pre := ""
	if s.Scn == "cert" {
		pre = "cert: "
	}
	r.Count(pre+"VIOLATING_CASES_accepted_without_protocol_quorum", 1)
	parts, explained := explain(x.c, e.F, co)
	m := s
	if !explained {
		m = x.minimise(s, co)
		parts = x.specSignature(m)
	}
	head := "accepted: "
	if s.Scn == "cert" {
		head = "accepted (certificate round): "
	}
	if co {
		head = "accepted by VerifyAcHeader (certificate votes only): "
	}
	r.Count("violating_cases_by_signature: "+head+strings.Join(parts, " + "), 1)
	me, _ := x.eval(m, false)
	if me == nil {
		me, m = e, s
	}
	x.offer(head, parts, m, me.O.SignerSeats, fmt.Sprintf("the real verifier accepts (%s) a header the protocol's quorum rule rejects.\nforged header: %s\noracle: %s\n%s",
		strings.Join(paths, ","), describe(m), me.O, x.context()))
}

func describe(s interface{}) string {
	b, _ := json.Marshal(s)
	return string(b)
}

func (c *Config) describeSet() string {
	var ps []string
	for _, m := range c.Members {
		k := "chamber"
		if !m.Chamber() {
			k = "house"
		}
		st := "online"
		if !m.Online() {
			st = "offline"
		}
		ps = append(ps, fmt.Sprintf("#%d %s %s %s stake=%d", m.Index, m.Name, k, st, m.Stake))
	}
	return "[" + strings.Join(ps, "; ") + "]"
}

func (x *ctx) honest() Spec {
	return Spec{Net: params.NetworkId(), Cfg: x.c.Name, Ver: uint64(x.c.Version), Subset: x.c.fullMask()}
}

func (x *ctx) honestFor(scn string) Spec {
	s := x.honest()
	if scn == "cert" {
		s.Scn, s.CertSub = "cert", x.c.fullMask()
	}
	return s
}

// ---- enumeration -------------------------------------------------------------

type dim struct {
	name string
	n    int
	set  func(s *Spec, i int)
}

func (x *ctx) dims() []dim {
	c := x.c
	full := c.fullMask()
	mv := mutVals(len(c.Voters), x.quickTargets)
	tv, tp := thrVals(true), thrVals(true)
	tc := thrVals(false)
	return []dim{
		// index 0 of every dimension is the honest value
		{"votes", full + 1, func(s *Spec, i int) { s.Subset = full - i }},
		{"mutation", len(mv), func(s *Spec, i int) { s.Mut = mv[i] }},
		{"ValidatorThreshold", len(tv), func(s *Spec, i int) { s.TV = tv[i] }},
		{"ProposerThreshold", len(tp), func(s *Spec, i int) { s.TP = tp[i] }},
		{"CertValThreshold", len(tc), func(s *Spec, i int) { s.TC = tc[i] }},
		{"aggregate", len(aggVals), func(s *Spec, i int) { s.Agg = aggVals[i] }},
		{"roundIndex", len(riVals), func(s *Spec, i int) { s.RI = riVals[i] }},
		{"proposer", len(propVals), func(s *Spec, i int) { s.Prop = propVals[i] }},
	}
}

type job struct {
	s   Spec
	all bool
}

// product appends the full product of the chosen dimensions (others honest).
func (x *ctx) product(ds []dim, seen map[string]bool, out *[]job) {
	idx := make([]int, len(ds))
	for {
		s := x.honest()
		dev := 0
		for i, d := range ds {
			d.set(&s, idx[i])
			if idx[i] != 0 {
				dev++
			}
		}
		if k := s.Key(); !seen[k] {
			seen[k] = true
			*out = append(*out, job{s, dev <= 1})
		}
		i := 0
		for ; i < len(ds); i++ {
			idx[i]++
			if idx[i] < ds[i].n {
				break
			}
			idx[i] = 0
		}
		if i == len(ds) {
			return
		}
	}
}

// validate: the unmodified honest header (real PackVotes) must be accepted on every path and by the oracle.
// The oracle and real BLS verification of the aggregate are independent evidence that the header is what it is
// meant to be; a verifier entry point that rejects it then breaks the property's honest side and is reported
// (it used to be booked as an invalid fixture, which let a verifier that reads the wrong look-back header pass
// as "nothing explored").  Only an oracle rejection is a harness error.
func (x *ctx) validate() bool {
	c, r := x.c, x.r
	h, err := c.HonestHeader()
	if err != nil {
		r.HarnessError("honest header: " + err.Error())
		return false
	}
	scn := ""
	if c.certPair != nil {
		scn = "cert"
		// the certificate seed look-back block of the scenario is itself an unmodified honest header (of round
		// ACoCHTFrequency, built and packed like HonestHeader): the verifier must accept it on its own chain
		pl, err := c.plant("")
		if err != nil {
			r.HarnessError("planted look-back block: " + err.Error())
			return false
		}
		if !pl.accepted {
			r.Count("VIOLATING_CASES_unmodified_honest_header_rejected", 1)
			x.offerRaw(honestGroup(c), "rejected honest header (certificate round) [VerifyHeader]: the unmodified honest header of block ACoCHTFrequency (the scenario's certificate seed look-back block)", "", nil, "03|"+c.Name,
				mc.Violation{Config: c.Name, Input: x.honestFor(scn), Detail: fmt.Sprintf("the real verifier rejects (%s) the unmodified honest header of round %d (honest proposer, every entitled member's precommit and certificate vote, packed by the real PackVotes).\n%s", pl.err, c.certPair.plant.Round, x.lbContext())})
			return false
		}
	}
	e, err := x.eval(x.honestFor(scn), true)
	if err != nil || e.F.Skip != "" {
		skip := ""
		if e != nil {
			skip = e.F.Skip
		}
		r.HarnessError(fmt.Sprintf("config %s round %d: honest spec does not build: %v %s", c.Name, c.Round, err, skip))
		return false
	}
	if !e.O.Accept {
		r.HarnessError(fmt.Sprintf("config %s round %d: oracle rejects the honest spec: %s — fixture invalid, nothing explored", c.Name, c.Round, e.O))
		return false
	}
	if t := cryptoCheck(c, e.F, true); t != "" {
		r.HarnessError(fmt.Sprintf("config %s round %d: honest spec: %s — fixture invalid, nothing explored", c.Name, c.Round, t))
		return false
	}
	var rej []pathRes
	for _, p := range []pathRes{
		runPath("VerifyHeader", func() error { return VerifyHeader(c, h) }),
		runPath("VerifySeal", func() error { return VerifySeal(c, h) }),
		runPath("VerifySideChainHeader", func() error { return VerifySideChain(c, h) }),
	} {
		if !p.Accept {
			p.Path += " (header packed by the real PackVotes)"
			rej = append(rej, p)
		}
	}
	for _, p := range e.Paths {
		if !p.Accept {
			rej = append(rej, p)
		}
	}
	if len(rej) > 0 {
		var names, errs []string
		for _, p := range rej {
			names = append(names, p.Path)
			errs = append(errs, p.Path+": "+p.Err+p.Panic)
		}
		r.Count("VIOLATING_CASES_unmodified_honest_header_rejected", 1)
		x.offerRaw(honestGroup(c), "rejected honest header"+certTag(c)+" "+pathGroup(names)+": the unmodified header of the honest proposer with every entitled member's precommit", "", nil, "01|"+c.Name,
			mc.Violation{Config: c.Name, Input: x.honestFor(scn), Detail: fmt.Sprintf("the real verifier rejects the unmodified honest header (%s); the independent calculator accepts it (%s) and its aggregate verifies with the BLS library.\n%s\n%s",
				strings.Join(errs, "; "), e.O, x.context(), x.lbContext())})
		return false
	}
	r.Count("honest_header_accepted_on_all_paths", 1)
	return true
}

func (x *ctx) run(jobs []job) {
	x.r.ForEach(len(jobs), func(w, i int) { x.check(jobs[i].s, jobs[i].all) })
}

func (x *ctx) explore(tier string) {
	ds := x.dims()
	seen := map[string]bool{}
	var jobs []job
	// (1) full product: vote subset × declared ValidatorThreshold × aggregate variant
	x.product([]dim{ds[0], ds[2], ds[5]}, seen, &jobs)
	// (2) every pair of dimensions (contains every single-dimension sweep)
	for i := 0; i < len(ds); i++ {
		for j := i + 1; j < len(ds); j++ {
			x.product([]dim{ds[i], ds[j]}, seen, &jobs)
		}
	}
	// (2b) borrowed credentials (values of the mutation dimension of their own): full product with the vote subset —
	// which decides whether the lender's genuine vote is listed too and whether the borrowed entry would tip the quorum —
	// [thorough: and with the aggregate, the round index of the vote record and the declared ValidatorThreshold]
	bv := append([]string{""}, borrowVals(len(x.c.Voters), x.quickTargets)...)
	bd := dim{"borrowed credential", len(bv), func(s *Spec, i int) { s.Mut = bv[i] }}
	x.product([]dim{ds[0], bd}, seen, &jobs)
	if tier == "thorough" {
		for _, k := range []int{5, 6, 2} {
			x.product([]dim{bd, ds[k]}, seen, &jobs)
		}
	}
	if tier == "thorough" && x.c.Version == params.YouCurrentVersion && params.NetworkId() == params.NetworkIdForTestCase {
		// (3) triples around the vote list (current version; the versions share their consensus parameters)
		x.product([]dim{ds[0], ds[1], ds[2]}, seen, &jobs)
		x.product([]dim{ds[0], ds[1], ds[5]}, seen, &jobs)
		x.product([]dim{ds[0], ds[3], ds[7]}, seen, &jobs)
	}
	x.run(jobs)
}

type runCfg struct {
	net   uint64
	cfg   string
	ver   params.YouVersion
	cert  bool
	scale uint64 // != 0: the harness's protocol version with ValidatorThreshold = scale, CertValThreshold = 2·scale-1 (quorum.go)
}

// scaledPlan: protocol versions with other committee sizes (quorum.go): the quorum boundary of the whale
// configurations (b: the whale alone weighs exactly the quorum, b-: it stays just below it) and the certificate
// scenario of four equal members.  Quick: the sizes below a multiple of 1000 and half-way between two (999, 1999,
// 2500), certificate scenario at 2500 / 4999.
func scaledPlan(net uint64, quick bool) []runCfg {
	var plan []runCfg
	for _, T := range scaledSizes {
		if quick && T%1000 == 1 {
			continue
		}
		plan = append(plan, runCfg{net, "b-", ScaledVersion(T), false, T}, runCfg{net, "b", ScaledVersion(T), false, T})
		if !quick || T == 2500 {
			plan = append(plan, runCfg{net, "a", ScaledVersion(T), true, T})
		}
	}
	return plan
}

// exploreBoundary: the vote-subset dimension alone and paired with the
// aggregate and round-index dimensions (configuration "b-": the whale alone is
// one seat short of the quorum).
func (x *ctx) exploreBoundary() {
	ds := x.dims()
	seen := map[string]bool{}
	var jobs []job
	x.product([]dim{ds[0], ds[5]}, seen, &jobs)
	x.product([]dim{ds[0], ds[6]}, seen, &jobs)
	x.run(jobs)
}

// Run is the check entry point.
func Run(r *mc.Run) {
	Quiet()
	r.Level = "exploration"
	r.Rule = "every forged header is a value vector over the dimensions (vote subset of the entitled members; one vote mutation: duplicate ×2/×3, replayed credential of another round index/step/round, signature over another hash, weight +1/×2/2^32-1/0 per target voter, a non-member vote: out-of-range index/house/offline/zero-stake, or a BORROWED CREDENTIAL: for every ordered pair (borrower X [quick: the first or the last member; counts of the lender and recomputed; other step / index from one lender], lender Y) of entitled members X's entry — own voter index, own BLS signature, summed into the aggregate — carries the very proof bytes of Y's genuine vote (or Y's proof of the prevote step / of the next round index) and declares Y's seat count / X's own seat count / the count Y's VRF output yields with X's stake, placed after or before all other entries; whether Y's genuine vote is listed too — borrowed next to the original, before or after it — or not — borrowed alone — is the vote-subset dimension it is paired with; header-declared ValidatorThreshold, ProposerThreshold, CertValThreshold ∈ {0,1,10,protocol,×2,2^64-1} with credentials left honest or recomputed under the declared value; aggregate signature ∈ {listed, distinct signers, one dropped, other payload, infinity, empty, undecodable, non-member's}; UconValidators.RoundIndex ∈ {same, other with replayed votes, other with re-votes}; proposer ∈ {honest, j=0, wrong priority, seats+1, non-member, house, offline, proof of another index, another entitled member's proof of this index with the seat count and priority its output yields with the proposer's stake}); explored per fixture: the full product (subset × ValidatorThreshold × aggregate) + the full product of every pair of dimensions, others honest [+ three triples in thorough]; the borrowed credentials are paired with the vote subset [thorough: also with the aggregate, the round index of the vote record and the declared ValidatorThreshold]; certificate-round scenario: full product (certificate subset × CertValThreshold declared by the planted look-back header × certificate aggregate) + (precommit subset × certificate subset); each header is built with real keys and given to the real VerifyHeader(seal) (single-deviation headers also to VerifySeal and VerifySideChainHeader; certificate headers also to VerifySeal and VerifyAcHeader) and to the independent quorum calculator; non-trivial = differs from the honest header; distinct = distinct value vectors actually built || LOOK-BACK SEPARATION: in every fixture the stake look-back header, the seed look-back header, the parent, the block itself, every other header (and, certificate rounds, the certificate stake look-back header) commit to DIFFERENT validator sets (other stakes ⇒ other seat counts and other voter indexes, a record without stake in the look-back set has stake elsewhere, one validator exists in that set only) and record different seeds; a case is a header built only from honest building blocks whose proposer credential / precommits / certificate votes are drawn against (set of header X, seed of header Y): full product proposer(X∈5 × Y∈5 × {first entitled record, that set's newcomer}) × precommits(X∈5 × Y∈5) [certificate fixture: + certificate votes (X∈6 × Y∈5) × precommit X; quick tier takes the two planes of the first product there]; each header goes through VerifyHeader, VerifySeal, VerifySideChainHeader, VerifyHeaders with the header alone and VerifyHeaders with SeedLookBack / StakeLookBack / StakeLookBack+3 preceding headers in the batch over a chain that does not have them yet (look-back headers resolved from `parents`) [+ VerifyAcHeader]; exactly one vector is the honest header (must be accepted everywhere), the others are decided by the same calculator (which knows only the protocol's look-back positions) || VERIFIER HISTORY: family of headers re-using material of another header: blocks B1 and B2 of the same proposer for the same (round, index) with different transactions × vote record at the proposal's index / re-voted at the next × credentials of this/the other index × signatures+aggregate over this/the sibling's hash × at this/the other index, + the same hash with one / no precommit [certificate fixture: precommits own/sibling's × certificate signatures over own/sibling's hash × own/other index, + one / no certificate vote]; every sequence of length 1 and 2 over (family × entry points) [quick: entry points equal or one of them VerifyHeader; pairs of two rejectable headers only as the same header twice; last header on B2, the B1 half being its mirror image] and every sequence of length 3 (thorough 4) over a core sub-family × 2 entry points runs on ONE fresh Server; the last verdict of every sequence must equal the calculator's and the verdict of an instance that verified nothing else; a wrong verdict is re-run twice and its history minimised before it is reported; the family also contains, on the sibling block, the borrowed-credential headers (every entitled member but the lender — the member with the most seats — lists the lender's proof under its own key with the seat count the lender's output yields with its own stake; the lender's genuine vote absent / listed first [thorough: / listed last]; precommits in the precommit fixture, certificate votes in the certificate fixture), and the block of the fixture's proposer under ANOTHER member's proposer credential together with that member's own honest block, so that every header of the family that lists the lender's genuine vote (that carries the lender's own proposer credential) precedes them on the same Server, and for each of them and the honest header, through every entry point, a sequence that starts with the lender's genuine vote MESSAGE handled by the live vote path (Voter.processVoteMsg -> Server.verifySortition) of the same Server wired as a mining node (hook VerifC03P2NewNode) || QUORUM FUNCTION: ucon.OverThreshold (the function verifyVotes calls for precommits and certificate votes) against the exact integer reference ⌊685·T/1000⌋ / ⌊585·T/1000⌋ for EVERY committee size T = 0..100000 (thorough: 0..5000000) plus the boundary sizes 2^k±3 (k ≤ 33), n·10^e±3 (e = 3..9) and the sizes around the largest committee whose quorum fits a uint32, every weight in {0, 1, q-2..q+2, T-1, T, T+1, 2^32-2, 2^32-1} || SCALED PROTOCOL VERSIONS: the shipped versions all use committee sizes 2000 / 4000; fixtures under versions of the harness with ValidatorThreshold T ∈ {999, 1999, 2500} (thorough: + 1001, 3001) and CertValThreshold 2T-1: whale configurations b (whale alone exactly at the quorum) and b- (just below) with the products (vote subset × aggregate) and (vote subset × round index), every single-deviation header through all 7 entry points (header batches included), and the certificate scenario of four equal members [quick: T = 2500, (precommit subset × certificate subset) + (certificate subset × certificate aggregate); thorough: every T, the whole certificate alphabet]" + vrfInputRule + rekeyRule + knownRule
	var plan []runCfg
	tc, mn := uint64(params.NetworkIdForTestCase), uint64(params.MainNetId)
	if r.Quick() {
		r.SetBudget(420 * time.Second)
		// (c) contains (a) — four equal chamber validators — plus the non-member records: (a) itself is left to thorough
		for _, n := range []string{"c", "b", "b-"} {
			plan = append(plan, runCfg{tc, n, params.YouCurrentVersion, false, 0})
		}
		// the scaled fixtures are cheap (a second each): before the heaviest fixture, which a saturated machine does not
		// finish within the budget anyway
		plan = append(plan, scaledPlan(tc, true)...)
		plan = append(plan, runCfg{tc, "a", params.YouCurrentVersion, true, 0})
	} else {
		r.SetBudget(30 * time.Minute)
		for _, v := range []params.YouVersion{params.YouV5, params.YouV1, params.YouV2, params.YouV3, params.YouV4} {
			for _, n := range ConfigNames {
				plan = append(plan, runCfg{tc, n, v, false, 0})
			}
		}
		plan = append(plan, runCfg{tc, "b-", params.YouCurrentVersion, false, 0})
		for _, n := range ConfigNames {
			plan = append(plan, runCfg{mn, n, params.YouCurrentVersion, false, 0})
		}
		plan = append(plan, scaledPlan(tc, false)...) // cheap: before the heaviest fixtures
		for _, n := range ConfigNames {
			plan = append(plan, runCfg{tc, n, params.YouCurrentVersion, true, 0})
		}
	}

	// scratch runs on a saturated machine (mutant demonstrations): VERIF_C01_BUDGET_S lifts the internal deadline; the
	// registered commands never set it
	if v, err := strconv.Atoi(os.Getenv("VERIF_C01_BUDGET_S")); err == nil && v > 0 {
		r.SetBudget(time.Duration(v) * time.Second)
	}
	r.Assume("cryptographic forgeries (rogue-key BLS aggregation without proof of possession, VRF grinding) are outside an enumerative check")
	r.Assume("a signature is 'covered by the aggregate' when the aggregate is exactly a sum of listed signers' signatures over hash‖round‖index (forger's ground truth; cross-checked with real BLS verification on every accepted header)")
	r.Assume("VRF proofs carry a fresh random nonce (real prover), so header bytes differ between runs; VRF outputs, seat counts and verdicts do not")
	r.Assume("certificate rounds are driven at the verifier seam on sparse synthetic chains (headers only at the look-back positions)")
	r.Assume("verifier history: a 'fresh instance' is ucon.NewVRFServer (empty BlsVerifier caches); histories are sequences of header verifications (no mining), plus the sequences that start with ONE vote message — the genuine vote of the member with the most seats — handled by the live vote path of the same Server; state kept in package-level variables of the node is shared by every instance of the process, so for such state only the independent calculator (not the fresh-instance comparison) discriminates")
	r.Assume("header batches: the headers preceding the header under verification are synthetic chain headers signed by a fixed key and verified without seal check; only the last result of a batch is judged")
	r.Assume("quorum rule: the quorum of a committee of T seats is ⌊0.685·T⌋ (precommits) / ⌊0.585·T⌋ (certificate votes) — the fraction truncated, as the unchanged code's uint32(float64(T)·fraction) does; where fraction·T is an integer and the IEEE double product falls one ulp short of it the code's quorum is one seat lower: tolerated in the quorum-function comparison (the decision must then equal the software-computed IEEE value of that expression), counted and listed in the evidence; it concerns no shipped committee size and none of the scaled fixtures")
	r.Assume("VRF input: the protocol's sortition message is seed(32) ‖ step(4, big endian) ‖ round index(4, big endian) (layout of the unchanged ucon.MakeM); the header calculator encodes it itself and never calls ucon.MakeM; the VRF library (crypto/vrf/secp256k1 ProofToHash) is trusted")
	r.Assume("scaled protocol versions are entries the harness adds to params.Versions (copy of the current version, ValidatorThreshold = T, CertValThreshold = 2T-1, own version number 1000000+T carried by the fixture's headers); the shipped tables are not modified")
	fixtures := map[string]interface{}{}
	ws := &witnesses{best: map[string]*witness{}}
	defer ws.flush(r)
	params.InitNetworkId(tc)
	// the VRF input first: when the implementation's message is not the protocol's, calculator and verifier disagree
	// on every credential and no header verdict is comparable
	if !exploreVrfInput(r) {
		return
	}
	exploreQuorum(r, ws)
	for _, p := range plan {
		if r.Expired() {
			break
		}
		params.InitNetworkId(p.net)
		var c *Config
		var err error
		if p.cert {
			c, err = NewCertConfig(p.cfg, p.ver)
		} else {
			c, err = NewConfig(p.cfg, p.ver)
		}
		if err != nil {
			r.HarnessError(fmt.Sprintf("config %s/v%d/net%d: %v", p.cfg, p.ver, p.net, err))
			continue
		}
		x := &ctx{r: r, c: c, ws: ws, quickTargets: r.Quick(), everyEntry: p.scale != 0}
		name := fmt.Sprintf("net%d/%s/v%d", p.net, p.cfg, p.ver)
		if p.scale != 0 {
			name = fmt.Sprintf("net%d/%s/scaled ValidatorThreshold=%d CertValThreshold=%d", p.net, p.cfg, c.CP.ValidatorThreshold, c.CP.CertValThreshold)
		}
		if p.cert {
			name += "/cert"
		}
		fixtures[name] = map[string]interface{}{
			"round": c.Round, "stake_lookback_header": c.StakeNum, "seed_lookback_header": c.SeedNum, "honest_round_index": c.HonestRI,
			"proposer": c.Proposer.Name, "set": c.describeSet(), "online_chamber_stake": c.Total.String(),
			"precommit_seats_of_entitled_members": c.SeatCounts(c.HonestRI), "quorum": c.Quorum(),
			"subset_weights_sorted": c.subsetWeights(), "subset_with_weight_exactly_quorum_mask": c.ExactQuorumMask}
		fx := fixtures[name].(map[string]interface{})
		sets := map[string]string{}
		for vn, vw := range c.Views {
			sets[vn] = vw.describe()
		}
		fx["validator_sets_by_header (stake = look-back set; seed / parent / own / other / certstake = the set that header commits to)"] = sets
		var eps []string
		for _, e := range c.entries(true) {
			eps = append(eps, e.Name)
		}
		fx["entry_points"] = eps
		t0 := time.Now()
		phase := func(n string) {
			fx["wall_s: "+n] = float64(int(time.Since(t0).Seconds()*100)) / 100
			t0 = time.Now()
		}
		valid := x.validate()
		phase("validate")
		// look-back separation: cheap, and it names the wrong look-back header when the honest header is rejected
		lbHere := p.scale == 0 && ((r.Quick() && p.cfg != "b-") || (!r.Quick() && p.ver == params.YouCurrentVersion))
		if lbHere && !r.Expired() {
			x.exploreLB()
			phase("look-back separation")
		}
		if !valid {
			continue
		}
		// history: configuration c (contains a) and the certificate fixtures of a and c
		histHere := p.net == tc && p.ver == params.YouCurrentVersion && ((!p.cert && p.cfg == "c") || (p.cert && p.cfg != "b"))
		if histHere && !r.Expired() {
			x.exploreHist()
			phase("verifier history")
			if !p.cert {
				x.exploreRekey()
				phase("key rotation")
			}
		}
		if p.cert {
			var jobs []job
			specs := x.certSpecs()
			if p.scale != 0 && r.Quick() {
				specs = x.certBoundarySpecs()
			}
			for _, s := range specs {
				jobs = append(jobs, job{s, true})
			}
			x.run(jobs)
			x.r.Count("cert: planted_header_variants", int64(len(c.certPair.memo)))
			for k, pl := range c.certPair.memo {
				if pl.accepted && k != "" {
					x.r.Count("cert: planted_header_with_forged_CertValThreshold_accepted", 1)
				}
			}
		} else if p.scale != 0 {
			// the quorum boundary through every entry point
			x.exploreBoundary()
		} else if p.cfg == "b-" {
			if r.Quick() {
				x.exploreBoundary()
			} else {
				x.explore(r.Tier)
			}
			x.nonBls()
		} else {
			x.explore(r.Tier)
		}
		phase("forgery alphabet")
		// known height: configuration c (contains a, plus the non-member records), b (the whale alone weighs exactly
		// the quorum; quick: the boundary family only) and the certificate fixture of a; thorough: also b- (boundary
		// family) and the certificate fixture of c
		knownHere := p.net == tc && p.ver == params.YouCurrentVersion
		switch {
		case p.cert:
			knownHere = knownHere && (p.cfg == "a" || (!r.Quick() && p.cfg == "c"))
		case r.Quick():
			knownHere = knownHere && (p.cfg == "c" || p.cfg == "b")
		default:
			knownHere = knownHere && p.cfg != "a"
		}
		if knownHere && !r.Expired() {
			if info := x.exploreKnown(); info != nil {
				fx["known_height"] = info
			}
			phase("known height")
		}
	}
	r.SetExtra("fixtures", fixtures)
}

// subsetWeights: precommit weight of every subset at the honest round index, sorted.
func (c *Config) subsetWeights() []uint32 {
	js := c.SeatCounts(c.HonestRI)
	var out []uint32
	for mask := 0; mask <= c.fullMask(); mask++ {
		w := uint32(0)
		for i := range js {
			if mask&(1<<uint(i)) != 0 {
				w += js[i]
			}
		}
		out = append(out, w)
	}
	sort.Slice(out, func(i, j int) bool { return out[i] < out[j] })
	return out
}

// Replay re-builds the header of a replay file and re-runs verifier and oracle.
func Replay(r *mc.Run, v *mc.Violation) {
	Quiet()
	bs, _ := json.Marshal(v.Input)
	var kind struct {
		Kind string `json:"kind"`
	}
	json.Unmarshal(bs, &kind)
	switch kind.Kind {
	case "lookback":
		replayLB(r, v, bs)
		return
	case "history":
		replayHist(r, v, bs)
		return
	case kindKnown:
		replayKnown(r, v, bs)
		return
	case kindQuorum:
		replayQuorum(r, v, bs)
		return
	case kindVrfInput:
		replayVrfInput(r, v, bs)
		return
	case kindRekey:
		replayRekey(r, v, bs)
		return
	}
	var s Spec
	if err := json.Unmarshal(bs, &s); err != nil {
		fmt.Println("bad replay input:", err)
		return
	}
	params.InitNetworkId(s.Net)
	var c *Config
	var err error
	if s.Scn == "cert" {
		c, err = NewCertConfig(s.Cfg, params.YouVersion(s.Ver))
	} else {
		c, err = NewConfig(s.Cfg, params.YouVersion(s.Ver))
	}
	if err != nil {
		fmt.Println("config:", err)
		return
	}
	x := &ctx{r: r, c: c, ws: &witnesses{best: map[string]*witness{}}}
	_, x.everyEntry = scaledSize(c.Version)
	if !x.validate() {
		fmt.Println("fixture invalid")
		return
	}
	e, err := x.eval(s, true)
	if err != nil {
		fmt.Println("build:", err)
		return
	}
	fmt.Println("spec:", describe(s))
	fmt.Println(x.context())
	if e.F.Skip != "" {
		fmt.Println("variant unavailable:", e.F.Skip)
		return
	}
	for _, p := range e.Paths {
		fmt.Printf("  %-22s accept=%v err=%q panic=%q\n", p.Path, p.Accept, p.Err, p.Panic)
	}
	fmt.Println("oracle:", e.O)
	x.check(s, true)
	for sig, w := range x.ws.best {
		fmt.Println("signature now:", sig)
		w.v.Sig = v.Sig // the replay confirms the recorded failure
		r.Report(w.v)
	}
}

// honestGroup: one report per kind of fixture for "the honest header is rejected" (validate and the look-back
// dimension both see it; the latter, which goes through every entry point, is preferred).
func honestGroup(c *Config) string { return "rejected honest header" + certTag(c) }

func certTag(c *Config) string {
	if c.IsCert {
		return " (certificate round)"
	}
	return ""
}

func replayCtx(r *mc.Run, net uint64, cfg string, ver uint64, cert bool) *ctx {
	params.InitNetworkId(net)
	var c *Config
	var err error
	if cert {
		c, err = NewCertConfig(cfg, params.YouVersion(ver))
	} else {
		c, err = NewConfig(cfg, params.YouVersion(ver))
	}
	if err != nil {
		fmt.Println("config:", err)
		return nil
	}
	return &ctx{r: r, c: c, ws: &witnesses{best: map[string]*witness{}}}
}

func (x *ctx) replayReport(r *mc.Run, v *mc.Violation) {
	for _, w := range x.ws.best {
		fmt.Println("signature now:", w.v.Sig)
		if w.v.Sig != v.Sig {
			continue
		}
		r.Report(w.v)
	}
}

func replayLB(r *mc.Run, v *mc.Violation, bs []byte) {
	var s LBSpec
	if err := json.Unmarshal(bs, &s); err != nil {
		fmt.Println("bad replay input:", err)
		return
	}
	x := replayCtx(r, s.Net, s.Cfg, s.Ver, s.Cert)
	if x == nil {
		return
	}
	fmt.Println(describeLB(s))
	fmt.Println(x.context())
	fmt.Println(x.lbContext())
	e, err := x.evalLB(s)
	if err != nil {
		fmt.Println("build:", err)
		return
	}
	if e.F.Skip != "" {
		fmt.Println("variant unavailable:", e.F.Skip)
		return
	}
	for _, p := range e.Paths {
		fmt.Printf("  %-40s accept=%v err=%q panic=%q\n", p.Path, p.Accept, p.Err, p.Panic)
	}
	fmt.Println("oracle:", e.O)
	x.checkLB(s)
	x.replayReport(r, v)
}

func replayHist(r *mc.Run, v *mc.Violation, bs []byte) {
	var s HSpec
	if err := json.Unmarshal(bs, &s); err != nil {
		fmt.Println("bad replay input:", err)
		return
	}
	x := replayCtx(r, s.Net, s.Cfg, s.Ver, s.Cert)
	if x == nil {
		return
	}
	hs, err := x.newHist()
	if err != nil {
		fmt.Println("history:", err)
		return
	}
	res, err := hs.run(s.Ops)
	if err != nil {
		fmt.Println("history:", err)
		return
	}
	fmt.Println("one Server instance, in this order:")
	fmt.Println(hs.describeOps(s.Ops, res))
	if n := len(s.Ops); n > 0 {
		fr, _ := hs.freshVerdict(s.Ops[n-1])
		fmt.Printf("last header on an instance that verified nothing else: accept=%v err=%q\n", fr.Accept, fr.Err)
	}
	fmt.Println(x.context())
	hs.checkSeq(s.Ops)
	x.replayReport(r, v)
}

// nonBls drives the ECDSA branch of verifyVotes (cp.EnableBls == false) for
// crash-freedom only.  No shipped protocol version selects it (every entry of
// params.Versions has EnableBls), so what happens there is recorded as
// information, never as a violation.
func (x *ctx) nonBls() {
	c, r := x.c, x.r
	cp := *c.CP
	cp.EnableBls = false
	blk, cd, err := c.ProposeWith(c.Proposer, c.HonestRI, ProposalOpts{})
	if err != nil {
		r.HarnessError("nonbls: " + err.Error())
		return
	}
	pay := VotePayload(blk.Hash(), cd.Round, c.HonestRI)
	vote := func(m, signer *Member) ucon.SingleVote {
		cr := c.Sortition(m, c.LBSeed, c.HonestRI, uint32(ucon.Precommit), cp.ValidatorThreshold, m.Stake)
		sig, _ := ucon.Sign(signer.Key, pay)
		return ucon.SingleVote{Votes: cr.J, Proof: cr.Proof, Signature: sig}
	}
	var all []ucon.SingleVote
	for _, m := range c.Voters {
		all = append(all, vote(m, m))
	}
	garbage := all[0]
	garbage.Signature = blsGarbage
	short := all[0]
	short.Signature = []byte{1, 2, 3}
	cases := []struct {
		name  string
		votes []ucon.SingleVote
	}{
		{"all honest ECDSA votes", all},
		{"one honest vote", all[:1]},
		{"no votes", nil},
		{"duplicate vote", append(append([]ucon.SingleVote{}, all...), all[0])},
		{"vote signed by a non-member", append(append([]ucon.SingleVote{}, all[1:]...), vote(c.Voters[0], c.Outsider))},
		{"undecodable signature", append(append([]ucon.SingleVote{}, all[1:]...), garbage)},
		{"short signature", append(append([]ucon.SingleVote{}, all[1:]...), short)},
	}
	rd, err := c.Chain.GetVldReader(c.ValRoot)
	if err != nil {
		r.HarnessError("nonbls: " + err.Error())
		return
	}
	out := map[string]string{}
	for _, k := range cases {
		h := blk.Header()
		h.Validator, _ = rlp.EncodeToBytes(&ucon.UconValidators{RoundIndex: c.HonestRI, ChamberCommitters: k.votes, SCAggrSig: []byte{}, MCAggrSig: []byte{}, CCAggrSig: []byte{}})
		h.Certificate, _ = rlp.EncodeToBytes(&ucon.UconValidators{RoundIndex: c.HonestRI})
		p := runPath("VerifySideChainHeader(EnableBls=false)", func() error {
			return c.Server.VerifySideChainHeader(&cp, c.Chain.GetHeaderByNumber(c.SeedNum), rd, nil, nil,
				types.NewBlockWithHeader(h), []*types.Block{types.NewBlockWithHeader(c.Parent)})
		})
		switch {
		case p.Panic != "":
			out[k.name] = "PANIC at " + panicSite(p.Where) + ": " + p.Panic
			r.Count("nonbls(dead configuration): panicked", 1)
		case p.Accept:
			out[k.name] = "accepted"
			r.Count("nonbls(dead configuration): accepted", 1)
		default:
			out[k.name] = "rejected: " + p.Err
			r.Count("nonbls(dead configuration): rejected", 1)
		}
	}
	r.SetExtra("nonbls_branch_dead_configuration_crash_freedom", out)
}
