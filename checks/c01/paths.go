package c01

import (
	"errors"
	"fmt"

	"github.com/youchainhq/go-youchain/common"
	"github.com/youchainhq/go-youchain/consensus"
	"github.com/youchainhq/go-youchain/consensus/ucon"
	"github.com/youchainhq/go-youchain/core/state"
	"github.com/youchainhq/go-youchain/core/types"
	"github.com/youchainhq/go-youchain/params"
)

// Entry is one way a header reaches verifyConsensusFieldMain.  Every entry
// takes the verifier instance explicitly: the stateless cases run on the
// configuration's long-lived Server, the history cases on a Server of their own.
type Entry struct {
	Name     string
	CertOnly bool // checks the certificate votes only (VerifyAcHeader)
	Run      func(sv *ucon.Server, c *Config, chain consensus.ChainReader, h *types.Header) error
}

// Entry points.  The ChainReader ones resolve the look-back headers and the
// validator set themselves; VerifySideChainHeader is handed them by its caller.
var (
	epVerifyHeader = Entry{Name: "VerifyHeader", Run: func(sv *ucon.Server, c *Config, chain consensus.ChainReader, h *types.Header) error {
		return sv.VerifyHeader(chain, h, true)
	}}
	epVerifySeal = Entry{Name: "VerifySeal", Run: func(sv *ucon.Server, c *Config, chain consensus.ChainReader, h *types.Header) error {
		return sv.VerifySeal(chain, h)
	}}
	epSideChain = Entry{Name: "VerifySideChainHeader", Run: func(sv *ucon.Server, c *Config, chain consensus.ChainReader, h *types.Header) error {
		return VerifySideChainOn(c, sv, chain, h)
	}}
	epAcHeader = Entry{Name: "VerifyAcHeader", CertOnly: true, Run: func(sv *ucon.Server, c *Config, chain consensus.ChainReader, h *types.Header) error {
		return sv.VerifyAcHeader(chain, h, nil)
	}}
)

// epBatch: VerifyHeaders on the batch [n-k .. n-1, header] with seals [false…, true] through a chain that does NOT
// have the batch's headers yet (header download: the batch precedes insertion), so that verifyHeader resolves
// parent and look-back headers from its `parents` argument wherever the batch reaches back far enough.  k = 0:
// the header alone (everything from the chain).  The verdict is the batch's last result.
func epBatch(k uint64) Entry {
	name := fmt.Sprintf("VerifyHeaders[%d parents in batch]", k)
	if k == 0 {
		name = "VerifyHeaders[header alone]"
	}
	return Entry{Name: name, Run: func(sv *ucon.Server, c *Config, chain consensus.ChainReader, h *types.Header) error {
		n := h.Number.Uint64()
		if k > n {
			return errors.New("harness: batch longer than the chain")
		}
		var batch []*types.Header
		var seals []bool
		for i := n - k; i < n; i++ {
			p := chain.GetHeaderByNumber(i)
			if p == nil {
				return fmt.Errorf("harness: no header %d for the batch", i)
			}
			batch, seals = append(batch, p), append(seals, false)
		}
		batch, seals = append(batch, h), append(seals, true)
		var view consensus.ChainReader = chain
		if k > 0 {
			view = &Hidden{ChainReader: chain, From: n - k}
		}
		abort, results := sv.VerifyHeaders(view, batch, seals)
		defer close(abort)
		var last error
		for i := range batch {
			last = <-results
			if i < len(batch)-1 && last != nil {
				return fmt.Errorf("harness: batch header %d rejected without seal check: %v", batch[i].Number.Uint64(), last)
			}
		}
		return last
	}}
}

// Hidden is a chain that does not have the headers From.. yet.
type Hidden struct {
	consensus.ChainReader
	From uint64
}

func (o *Hidden) GetHeaderByNumber(n uint64) *types.Header {
	if n >= o.From {
		return nil
	}
	return o.ChainReader.GetHeaderByNumber(n)
}
func (o *Hidden) GetHeader(hash common.Hash, n uint64) *types.Header {
	if n >= o.From {
		return nil
	}
	return o.ChainReader.GetHeader(hash, n)
}
func (o *Hidden) GetHeaderByHash(hash common.Hash) *types.Header {
	if h := o.ChainReader.GetHeaderByHash(hash); h != nil && h.Number.Uint64() < o.From {
		return h
	}
	return nil
}
func (o *Hidden) GetBlock(hash common.Hash, n uint64) *types.Block {
	if h := o.GetHeader(hash, n); h != nil {
		return types.NewBlockWithHeader(h)
	}
	return nil
}
func (o *Hidden) GetBlockByNumber(n uint64) *types.Block {
	if h := o.GetHeaderByNumber(n); h != nil {
		return types.NewBlockWithHeader(h)
	}
	return nil
}
func (o *Hidden) CurrentHeader() *types.Header {
	if o.From == 0 {
		return nil
	}
	return o.GetHeaderByNumber(o.From - 1)
}
func (o *Hidden) VersionForRound(r uint64) (*params.YouParams, error) {
	return o.VersionForRoundWithParents(r, nil)
}

// same shape as HeaderChain.VersionForRoundWithParents
func (o *Hidden) VersionForRoundWithParents(r uint64, parents []*types.Header) (*params.YouParams, error) {
	var pr uint64
	if r > protocolRoundBack {
		pr = r - protocolRoundBack
	}
	header := o.GetHeaderByNumber(pr)
	if header == nil && len(parents) > 0 {
		first := parents[0].Number.Uint64()
		if pr >= first && pr-first < uint64(len(parents)) {
			header = parents[pr-first]
		}
	}
	if header == nil {
		return nil, fmt.Errorf("can't find header for number %d", pr)
	}
	proto, ok := params.Versions[header.CurrVersion]
	if !ok {
		return nil, fmt.Errorf("protocol version \"%d\" not exist, round %d", header.CurrVersion, pr)
	}
	return &proto, nil
}

// VerifySideChainOn runs VerifySideChainHeader of sv with the look-back inputs
// BlockChain.verifyAllSideChainBlocks would pass, taken from chain.
func VerifySideChainOn(c *Config, sv *ucon.Server, chain consensus.ChainReader, header *types.Header) error {
	at := func(n uint64) (*types.Header, error) {
		h := chain.GetHeaderByNumber(n)
		if h == nil {
			return nil, fmt.Errorf("harness: no header %d", n)
		}
		return h, nil
	}
	stakeH, err := at(c.StakeNum)
	if err != nil {
		return err
	}
	seedH, err := at(c.SeedNum)
	if err != nil {
		return err
	}
	rd, err := chain.GetVldReader(stakeH.ValRoot)
	if err != nil {
		return err
	}
	var certHeader *types.Header
	var certRd state.ValidatorReader
	if c.IsCert {
		if certHeader, err = at(c.CertSeedNum); err != nil {
			return err
		}
		cs, err := at(c.CertStakeNum)
		if err != nil {
			return err
		}
		if certRd, err = chain.GetVldReader(cs.ValRoot); err != nil {
			return err
		}
	}
	return sv.VerifySideChainHeader(c.CP, seedH, rd, certHeader, certRd,
		types.NewBlockWithHeader(header), []*types.Block{types.NewBlockWithHeader(c.Parent)})
}

// entries: every entry point of the configuration, in a fixed order.  [0] is VerifyHeader(seal).
func (c *Config) entries(batches bool) []Entry {
	out := []Entry{epVerifyHeader, epVerifySeal, epSideChain, epBatch(0)}
	if batches {
		// seed look-back inside the batch / both look-backs inside the batch, the stake one at its first
		// position / both well inside
		for _, k := range []uint64{c.CP.SeedLookBack, c.CP.StakeLookBack, c.CP.StakeLookBack + 3} {
			if k < c.Round && c.Chain.GetHeaderByNumber(c.Round-k) != nil {
				out = append(out, epBatch(k))
			}
		}
	}
	if c.IsCert {
		out = append(out, epAcHeader)
	}
	return out
}
