package c01

import (
	"bytes"
	"fmt"
	"math/big"
	"sort"
	"strings"

	"github.com/youchainhq/go-youchain/bls"
	"github.com/youchainhq/go-youchain/common"
	"github.com/youchainhq/go-youchain/consensus/ucon"
	"github.com/youchainhq/go-youchain/crypto"
	"github.com/youchainhq/go-youchain/rlp"

	"verif/mc"
)

// Verdict is the independent quorum calculator's answer for one header.
type Verdict struct {
	Accept     bool // proposer ∧ precommit quorum (∧ certificate quorum in certificate rounds)
	ProposerOK bool
	Weight     uint32
	Quorum     uint32
	CertRound  bool
	CertOK     bool // certificate quorum alone (what VerifyAcHeader checks)
	CertWeight uint32
	CertQuorum uint32
	Reasons    []string       // why it must be rejected
	Excluded   map[string]int // listed votes that contribute nothing, by reason
	Counted    []string       // members whose precommits count
	// SignerSeats: true precommit seats of the distinct entitled members merely
	// LISTED (whatever their entries claim) — how much of the committee stands
	// behind the header at best; used to pick the most telling witness.
	SignerSeats uint32
}

func (v Verdict) String() string {
	var ex []string
	for k, n := range v.Excluded {
		ex = append(ex, fmt.Sprintf("%s×%d", k, n))
	}
	sort.Strings(ex)
	s := fmt.Sprintf("accept=%v proposerOK=%v weight=%d quorum=%d counted=%v", v.Accept, v.ProposerOK, v.Weight, v.Quorum, v.Counted)
	if v.CertRound {
		s += fmt.Sprintf(" certOK=%v certWeight=%d certQuorum=%d", v.CertOK, v.CertWeight, v.CertQuorum)
	}
	return s + fmt.Sprintf(" excluded=[%s] reasons=[%s]", strings.Join(ex, ", "), strings.Join(v.Reasons, "; "))
}

// relax names the ways in which a verifier could be laxer than the protocol.
// The zero value is the protocol (the oracle).  Relaxations are used ONLY to
// attribute an already established violation (real verifier accepts, strict
// oracle rejects) to a root cause, so that one defect has one signature.
type relax struct {
	DeclTV, DeclTP, DeclTC bool // thresholds as declared by headers instead of the protocol's
	House, Offline         bool // such members' votes count
	J0                     bool // proposer credential with j = 0 passes
	HouseProp, OfflineProp bool // such members may propose
}

// covered returns the members whose signature over the correct payload is
// proven by the aggregate.  An aggregate Σ sk_g·H(m_g) verifies against a
// multiset Q of listed keys on the correct message only if it is exactly the
// sum of those keys' signatures on that message (discrete-log assumption), so:
// every summed signature must be over the correct payload and the multiset of
// summed signers must be contained in the multiset of listed signers.
func covered(kind string, parts []aggPart, listedSigners []string, goodPay []byte) map[string]bool {
	out := map[string]bool{}
	if kind != "sum" {
		return out
	}
	avail := map[string]int{}
	for _, n := range listedSigners {
		avail[n]++
	}
	for _, p := range parts {
		if !bytes.Equal(p.Payload, goodPay) {
			return map[string]bool{}
		}
		avail[p.Signer]--
		if avail[p.Signer] < 0 {
			return map[string]bool{}
		}
	}
	for _, p := range parts {
		out[p.Signer] = true
	}
	return out
}

// trueSeats is the oracle's credential check, independent of the verifier's
// VrfVerifySortition / VrfVerifyPriority: the proof must be a valid VRF proof
// of the member's key on the message seed ‖ step ‖ index in the calculator's OWN encoding (refVrfInput; VRF library), and the seat count
// is the member's TRUE one — what the honest prover path (VrfSortition with the
// member's secret key, committee size = threshold) yields, whose VRF value must
// be the one the proof commits to.  ok=false: not a credential for these inputs.
func (c *Config) trueSeats(m *Member, seed common.Hash, index, step uint32, threshold uint64, proof []byte) (j uint32, ok bool) {
	return c.trueSeatsIn(c.True, c.True.Rec(m.Name), seed, index, step, threshold, proof)
}

// trueSeatsIn: the record's true seat count against validator set view.
func (c *Config) trueSeatsIn(view *SetView, rec *Rec, seed common.Hash, index, step uint32, threshold uint64, proof []byte) (j uint32, ok bool) {
	if rec == nil {
		return 0, false
	}
	m := rec.M
	ck := fmt.Sprintf("%s|%x|%d|%d|%x", m.Name, seed, index, step, proof)
	var h common.Hash
	if v, hit := c.okCache.Load(ck); hit {
		if v == nil {
			return 0, false
		}
		h = v.(common.Hash)
	} else {
		hh, err := m.VrfPk.ProofToHash(refVrfInput(seed, step, index), proof) // the calculator's own encoding of the VRF message (vrfinput.go), never ucon.MakeM
		if err != nil {
			c.okCache.Store(ck, nil)
			return 0, false
		}
		h = hh
		c.okCache.Store(ck, h)
	}
	var cr *Cred
	if msg := mc.Catch(func() { cr = c.SortitionIn(view.Total, m, seed, index, step, threshold, rec.Stake) }); msg != "" || cr == nil {
		return 0, false // no committee of that size can be drawn (sortition itself fails)
	}
	if cr.Value != h {
		return 0, false
	}
	return cr.J, true
}

// priorityOf recomputes the proposer priority: the largest keccak(value ‖ i), i = 0..j.
func priorityOf(value common.Hash, j uint32) common.Hash {
	var max common.Hash
	for i := uint64(0); i <= uint64(j); i++ {
		h := crypto.Keccak256Hash(append(append([]byte{}, value[:]...), new(big.Int).SetUint64(i).Bytes()...))
		if bytes.Compare(h[:], max[:]) > 0 {
			max = h
		}
	}
	return max
}

// tally: weight of the listed votes that count; view is the validator set the protocol draws these votes against.
func tally(c *Config, view *SetView, entries []ucon.SingleVote, kind string, parts []aggPart, goodPay []byte, seed common.Hash, index, step uint32,
	threshold uint64, rx relax, tag string, excl map[string]int) (weight uint32, counted []string) {
	var signers []string
	for _, e := range entries {
		if int(e.VoterIdx) < len(view.Recs) {
			signers = append(signers, view.Recs[e.VoterIdx].M.Name)
		} else {
			signers = append(signers, c.Outsider.Name)
		}
	}
	cov := covered(kind, parts, signers, goodPay)
	seen := map[int]bool{}
	for _, e := range entries {
		if int(e.VoterIdx) >= len(view.Recs) {
			excl[tag+"voter index out of range"]++
			continue
		}
		rec := view.Recs[e.VoterIdx]
		m := rec.M
		switch {
		case !rec.Chamber() && !rx.House:
			excl[tag+"house member"]++
			continue
		case !rec.Online() && !rx.Offline:
			excl[tag+"offline member"]++
			continue
		case rec.Stake == 0:
			excl[tag+"zero-stake member"]++
			continue
		case seen[rec.Index]:
			excl[tag+"duplicate"]++
			continue
		}
		tj, ok := c.trueSeatsIn(view, rec, seed, index, step, threshold, e.Proof)
		if !ok || tj == 0 || e.Votes != tj {
			excl[tag+"credential invalid under the protocol's committee size"]++
			continue
		}
		if !cov[m.Name] {
			excl[tag+"signature not covered by the aggregate"]++
			continue
		}
		seen[rec.Index] = true
		weight += tj
		counted = append(counted, m.Name)
	}
	return
}

// Oracle decides from the protocol's parameters alone (never from what a
// header declares) whether the header carries a protocol-sized quorum:
//
//	weight = Σ true seat counts over DISTINCT, ONLINE, CHAMBER members of the
//	look-back set listed with a valid VRF proof for (look-back seed,
//	UconValidators.RoundIndex, Precommit), a declared weight equal to the true
//	seat count under cp.ValidatorThreshold (≥ 1), and a signature over
//	hash‖round‖index covered by the aggregate;
//	accept ⇔ weight ≥ uint32(cp.ValidatorThreshold·0.685) ∧ the proposer is an
//	entitled member whose credential verifies under cp.ProposerThreshold with j ≥ 1
//	(∧, in certificate rounds, the same for certificate votes with
//	cp.CertValThreshold, the certificate look-back seed and fraction 0.585).
func Oracle(c *Config, f *Forged) Verdict { return oracleWith(c, f, relax{}) }

func oracleWith(c *Config, f *Forged, rx relax) Verdict {
	v := Verdict{Excluded: map[string]int{}, CertRound: f.Cert}
	reject := func(s string) { v.Reasons = append(v.Reasons, s) }
	h := f.Header
	var cd ucon.BlockConsensusData
	if err := rlp.DecodeBytes(h.Consensus, &cd); err != nil {
		reject("consensus data undecodable")
		return v
	}
	var uv ucon.UconValidators
	if err := rlp.DecodeBytes(h.Validator, &uv); err != nil {
		reject("vote record undecodable")
		return v
	}
	byAddr := map[common.Address]*Member{}
	for _, m := range c.Members {
		byAddr[m.Addr] = m
	}
	tv, tp, tc := c.CP.ValidatorThreshold, c.CP.ProposerThreshold, c.CP.CertValThreshold
	if rx.DeclTV {
		tv = cd.ValidatorThreshold
	}
	if rx.DeclTP {
		tp = cd.ProposerThreshold
	}
	if rx.DeclTC && f.Cert {
		tc = f.PlantedTC
	}

	// ---- proposer ------------------------------------------------------------
	unsigned := cd
	unsigned.Signature = nil
	payload, _ := rlp.EncodeToBytes(&unsigned)
	pub, err := crypto.SigToPub(crypto.Keccak256(payload), cd.Signature)
	if err != nil {
		reject("consensus data signature unrecoverable")
	} else {
		pm := byAddr[crypto.PubkeyToAddress(*pub)]
		switch {
		case pm == nil:
			reject("proposer is not a member of the look-back set")
		case !pm.Chamber() && !rx.HouseProp:
			reject("proposer is a house member")
		case !pm.Online() && !rx.OfflineProp:
			reject("proposer is offline")
		case pm.Stake == 0:
			reject("proposer has no stake")
		default:
			tj, ok := c.trueSeats(pm, c.LBSeed, cd.RoundIndex, ucon.UConStepProposal, tp, cd.SortitionProof)
			if ok {
				cr := c.Sortition(pm, c.LBSeed, cd.RoundIndex, ucon.UConStepProposal, tp, pm.Stake)
				ok = cd.SubUsers == tj && cd.Priority == priorityOf(cr.Value, tj)
			}
			switch {
			case !ok:
				reject("proposer credential does not verify under the protocol's ProposerThreshold")
			case cd.SubUsers < 1 && !rx.J0:
				reject("proposer credential has j=0")
			default:
				v.ProposerOK = true
			}
		}
	}

	// ---- precommits ----------------------------------------------------------
	goodPay := VotePayload(h.Hash(), cd.Round, uv.RoundIndex)
	v.Quorum = oracleQuorum(tv, false, rx.DeclTV)
	v.Weight, v.Counted = tally(c, c.True, uv.ChamberCommitters, f.AggKind, f.AggOf, goodPay, c.LBSeed, uv.RoundIndex, uint32(ucon.Precommit), tv, rx, "", v.Excluded)
	if v.Weight < v.Quorum {
		reject(fmt.Sprintf("valid precommit weight %d below the protocol quorum %d", v.Weight, v.Quorum))
	}
	listedOnce := map[uint32]bool{}
	for _, e := range uv.ChamberCommitters {
		if int(e.VoterIdx) < len(c.Members) && !listedOnce[e.VoterIdx] && c.Members[e.VoterIdx].Entitled() {
			listedOnce[e.VoterIdx] = true
			m := c.Members[e.VoterIdx]
			mc.Catch(func() {
				v.SignerSeats += c.Sortition(m, c.LBSeed, uv.RoundIndex, uint32(ucon.Precommit), c.CP.ValidatorThreshold, m.Stake).J
			})
		}
	}

	// ---- certificate votes ---------------------------------------------------
	if f.Cert {
		var uc ucon.UconValidators
		if err := rlp.DecodeBytes(h.Certificate, &uc); err != nil {
			reject("certificate record undecodable")
		} else {
			v.CertQuorum = oracleQuorum(tc, true, rx.DeclTC)
			v.CertWeight, _ = tally(c, c.CertView, uc.ChamberCerts, f.CertAggKind, f.CertAggOf, goodPay, f.CertSeed, uv.RoundIndex, uint32(ucon.Certificate), tc, rx, "certificate: ", v.Excluded)
			v.CertOK = v.CertWeight >= v.CertQuorum
			if !v.CertOK {
				reject(fmt.Sprintf("valid certificate weight %d below the protocol certificate quorum %d", v.CertWeight, v.CertQuorum))
			}
		}
	}
	v.Accept = len(v.Reasons) == 0
	return v
}

// oracleQuorum: the protocol's quorum is the exact reference ⌊fraction·committee size⌋ of the PROTOCOL's committee
// size (quorum.go: integer arithmetic, own constants).  Only under a relaxation that takes the committee size from
// what a header declares (attribution of an already established violation to its root cause) the quorum is what the
// verifier's float expression makes of that arbitrary 64-bit number, conversion overflow included.
func oracleQuorum(size uint64, cert, declared bool) uint32 {
	if q, ok := refQuorum32(size, cert); ok && !declared {
		return q
	}
	if cert {
		return uint32(float64(size) * ucon.CertValProportionThreshold)
	}
	return uint32(float64(size) * ucon.ValidatorProportionThreshold)
}

// explain attributes an acceptance the protocol forbids to a 1-minimal set of
// relaxations (nil, false: no combination of the known relaxations accepts it).
// certOnly: the acceptance is VerifyAcHeader's (certificate votes only).
func explain(c *Config, f *Forged, certOnly bool) ([]string, bool) {
	acc := func(rx relax) bool {
		v := oracleWith(c, f, rx)
		if certOnly {
			return v.CertOK
		}
		return v.Accept
	}
	rx := relax{true, true, true, true, true, true, true, true}
	if !acc(rx) {
		return nil, false
	}
	flags := []*bool{&rx.OfflineProp, &rx.HouseProp, &rx.J0, &rx.Offline, &rx.House, &rx.DeclTC, &rx.DeclTP, &rx.DeclTV}
	for _, fl := range flags {
		*fl = false
		if !acc(rx) {
			*fl = true
		}
	}
	var cd ucon.BlockConsensusData
	rlp.DecodeBytes(f.Header.Consensus, &cd)
	dir := func(decl, proto uint64) string {
		if decl < proto {
			return "below"
		}
		return "above"
	}
	var parts []string
	if rx.DeclTV {
		if cd.ValidatorThreshold < c.CP.ValidatorThreshold {
			parts = append(parts, "header-declared ValidatorThreshold below protocol value lowers quorum")
		} else {
			parts = append(parts, "header-declared ValidatorThreshold above protocol value rescales committee and quorum")
		}
	}
	if rx.DeclTP {
		parts = append(parts, "header-declared ProposerThreshold "+dir(cd.ProposerThreshold, c.CP.ProposerThreshold)+" protocol value decides the proposer credential")
	}
	if rx.DeclTC {
		parts = append(parts, "certificate quorum taken from the look-back header's declared CertValThreshold ("+dir(f.PlantedTC, c.CP.CertValThreshold)+" protocol value)")
	}
	if rx.House {
		parts = append(parts, "house member's vote counted")
	}
	if rx.Offline {
		parts = append(parts, "offline member's vote counted")
	}
	if rx.J0 {
		parts = append(parts, "proposer credential with j=0")
	}
	if rx.HouseProp {
		parts = append(parts, "house member as proposer")
	}
	if rx.OfflineProp {
		parts = append(parts, "offline member as proposer")
	}
	return parts, true
}

// cryptoCheck validates the forger's ground truth with real BLS verification:
// the aggregate in the header must verify against exactly the summed signers on
// the correct payload iff the truth says it is a sum of correct signatures.
// Returns "" when the truth holds.  Unless always is set, the (expensive)
// pairing is skipped when the truth claims a sum of correct signatures and the
// real verifier has just accepted the aggregate itself.
func cryptoCheck(c *Config, f *Forged, always bool) string {
	var cd ucon.BlockConsensusData
	var uv ucon.UconValidators
	if rlp.DecodeBytes(f.Header.Consensus, &cd) != nil || rlp.DecodeBytes(f.Header.Validator, &uv) != nil {
		return ""
	}
	goodPay := VotePayload(f.Header.Hash(), cd.Round, uv.RoundIndex)
	if s := cryptoCheckOne(c, uv.SCAggrSig, f.AggKind, f.AggOf, goodPay, always); s != "" {
		return "precommits: " + s
	}
	if f.Cert {
		var uc ucon.UconValidators
		if rlp.DecodeBytes(f.Header.Certificate, &uc) == nil {
			if s := cryptoCheckOne(c, uc.CCAggrSig, f.CertAggKind, f.CertAggOf, goodPay, always); s != "" {
				return "certificates: " + s
			}
		}
	}
	return ""
}

func cryptoCheckOne(c *Config, asig []byte, kind string, parts []aggPart, goodPay []byte, always bool) string {
	sig, err := blsMgr.DecSignature(asig)
	if err != nil {
		if kind == "sum" {
			return "truth says the aggregate is a sum of signatures but it does not decode"
		}
		return ""
	}
	byName := map[string]*Member{c.Outsider.Name: c.Outsider}
	for _, m := range c.Members {
		byName[m.Name] = m
	}
	for _, vw := range c.Views {
		if vw.Newcomer != nil {
			byName[vw.Newcomer.M.Name] = vw.Newcomer.M
		}
	}
	var pubs []bls.PublicKey
	allGood := kind == "sum"
	for _, p := range parts {
		pubs = append(pubs, byName[p.Signer].BlsPk)
		if !bytes.Equal(p.Payload, goodPay) {
			allGood = false
		}
	}
	if len(pubs) == 0 {
		return ""
	}
	if allGood && !always {
		// the real verifier just accepted this aggregate: nothing to cross-check
		return ""
	}
	verr := blsMgr.VerifyAggregatedOne(pubs, goodPay, sig)
	if allGood && verr != nil {
		return "truth says the aggregate is the sum of correct signatures but BLS verification fails: " + verr.Error()
	}
	if !allGood && verr == nil {
		return "truth says the aggregate contains a wrong-payload signature but BLS verification passes"
	}
	return ""
}
