// Real-crypto fixture for the ucon header verifier (C01; reused by C03 part 2).
//
// A Config is one look-back validator set (a real StateDB committed to a
// MemDatabase) with the secret keys of every member (ECDSA/VRF and BLS, from
// fixed seeds), a stub consensus.ChainReader serving real headers and real
// state.NewVldReader validator sets at the protocol's look-back positions, and
// a bare ucon.NewVRFServer (never StartMining: no timers, no goroutines) as the
// verifier.  Honest blocks are produced from the exported building blocks the
// proposer and the voters use.
//
// Exported API (stable; C03 part 2 builds on it):
//
//	EnsureParams()                                   params.Versions initialised (test-case network unless already set)
//	NewConfig(name, version) (*Config, error)        name ∈ ConfigNames ("a","b","c")
//	(*Config).Propose(m, roundIndex) (*types.Block, error)   sealed proposal of member m (no votes yet)
//	(*Config).SignVote(m, vt, hash, roundIndex) *ucon.SingleVote   what Voter.vote attaches (credential + BLS signature)
//	(*Config).HonestVotes(hash, roundIndex) ucon.VotesInfoForBlockHash  precommits of every entitled member
//	PackCommit(cfg, ev) (*types.Header, error)       Server.commit packing of a CommitEvent (real BlsVerifier.PackVotes)
//	VerifyHeader(cfg, header) error                  real (*ucon.Server).VerifyHeader(chain, header, seal=true)
//	VerifySeal / VerifySideChain                     the two other entry points that reach verifyConsensusFieldMain
//	(*Config).HonestHeader() (*types.Header, error)  proposal + all precommits, packed; checked to be accepted
//	(*Config).SeatCounts(ri) / Quorum() / Sortition(...) / BlsSign(...) / VotePayload(hash, round, ri)
//	NewConfigAt(name, version, round, stakes) / NewCertConfig(name, version)   other rounds; certificate rounds (HonestCerts)
//	VerifyHeaderOn(cfg, chain, header) with an *Overlay of cfg.Chain   per-case look-back headers
//	(*Config).Views / True / CertView                 the validator sets the chain's headers commit to (see SetView):
//	                                                 the stake look-back header, the seed look-back header, the parent,
//	                                                 the block itself and every other header carry DIFFERENT sets
//
// Config fields of interest: Members / Voters (entitled = online chamber with
// stake) with all secret keys and Index (= SingleVote.VoterIdx), Round, LBSeed,
// Total (online chamber stake), CP, Chain (usable as the ChainReader of a real
// Server/Voter), Server (the verifier), Proposer, HonestRI.  Seat counts depend
// on the fixed keys and seeds: read them with SeatCounts, never hard-code them.
// In configuration "b" the whale alone weighs exactly the quorum.
package c01

import (
	"crypto/ecdsa"
	"encoding/binary"
	"errors"
	"fmt"
	"math/big"
	"sort"
	"strings"
	"sync"

	"github.com/youchainhq/go-youchain/bls"
	"github.com/youchainhq/go-youchain/common"
	"github.com/youchainhq/go-youchain/consensus"
	"github.com/youchainhq/go-youchain/consensus/ucon"
	"github.com/youchainhq/go-youchain/core/rawdb"
	"github.com/youchainhq/go-youchain/core/state"
	"github.com/youchainhq/go-youchain/core/types"
	"github.com/youchainhq/go-youchain/crypto"
	"github.com/youchainhq/go-youchain/crypto/vrf"
	secp256k1VRF "github.com/youchainhq/go-youchain/crypto/vrf/secp256k1"
	"github.com/youchainhq/go-youchain/logging"
	"github.com/youchainhq/go-youchain/params"
	"github.com/youchainhq/go-youchain/rlp"
	"github.com/youchainhq/go-youchain/youdb"
)

// ConfigNames are the three validator-set configurations of DESIGN §3 C01.
var ConfigNames = []string{"a", "b", "c"}

var blsMgr = bls.NewBlsManager()

// EnsureParams makes sure params.Versions is populated.  The fixture works
// with whatever network parameters are initialised; when none are it uses the
// suite the repository's own ucon tests use.
func EnsureParams() {
	if params.Versions == nil {
		params.InitNetworkId(params.NetworkIdForTestCase)
	}
}

// Quiet discards the node's logging (the verifier logs every rejection to stdout).
func Quiet() { logging.Root().SetHandler(logging.DiscardHandler()) }

// Member is one validator record of the look-back set plus its secret keys.
type Member struct {
	Name   string
	Key    *ecdsa.PrivateKey
	VrfSk  vrf.PrivateKey
	VrfPk  vrf.PublicKey
	BlsSk  bls.SecretKey
	BlsPk  bls.PublicKey
	Pub    []byte // compressed secp256k1 key = Validator.MainPubKey
	BlsPub []byte // compressed BLS key = Validator.BlsPubKey
	Addr   common.Address
	Role   params.ValidatorRole
	Status uint8
	Stake  uint64 // stake units (= Validator.Stake)
	Index  int    // position in the look-back Validators list (what SingleVote.VoterIdx names); -1 = not a member
}

func (m *Member) Chamber() bool {
	k, _ := params.KindOfRole(m.Role)
	return m.Index >= 0 && k == params.KindChamber
}
func (m *Member) Online() bool { return m.Status == params.ValidatorOnline }

// Entitled: the only validators allowed to vote or propose.
func (m *Member) Entitled() bool { return m.Chamber() && m.Online() && m.Stake > 0 }

func newMember(name string, role params.ValidatorRole, status uint8, stake uint64) *Member {
	seed := crypto.Keccak256([]byte("verif/c01 member key " + name))
	key, err := crypto.ToECDSA(seed)
	if err != nil {
		panic(err)
	}
	vsk, err := secp256k1VRF.NewVRFSigner(key)
	if err != nil {
		panic(err)
	}
	vpk, err := secp256k1VRF.NewVRFVerifier(&key.PublicKey)
	if err != nil {
		panic(err)
	}
	bseed := crypto.Keccak256([]byte("verif/c01 member bls key " + name))
	bseed[0], bseed[31] = 0, 0 // below the group order whatever the byte order
	bsk, err := blsMgr.DecSecretKey(bseed)
	if err != nil {
		panic(err)
	}
	bpk, err := bsk.PubKey()
	if err != nil {
		panic(err)
	}
	return &Member{Name: name, Key: key, VrfSk: vsk, VrfPk: vpk, BlsSk: bsk, BlsPk: bpk,
		Pub: crypto.CompressPubkey(&key.PublicKey), BlsPub: bpk.Compress().Bytes(),
		Addr: crypto.PubkeyToAddress(key.PublicKey), Role: role, Status: status, Stake: stake, Index: -1}
}

// Chain is the stub consensus.ChainReader: a sparse map of real headers plus
// real validator readers opened from the fixture's state database.
type Chain struct {
	mu       sync.RWMutex
	byNum    map[uint64]*types.Header
	byHash   map[common.Hash]*types.Header
	db       state.Database
	head     uint64
	VldReads int64
}

func newChain(db state.Database) *Chain {
	return &Chain{byNum: map[uint64]*types.Header{}, byHash: map[common.Hash]*types.Header{}, db: db}
}

func (c *Chain) put(h *types.Header) {
	c.mu.Lock()
	c.byNum[h.Number.Uint64()] = h
	c.byHash[h.Hash()] = h
	if h.Number.Uint64() > c.head {
		c.head = h.Number.Uint64()
	}
	c.mu.Unlock()
}

const protocolRoundBack = 8 // core/protocol_version_processor.go

func (c *Chain) VersionForRound(r uint64) (*params.YouParams, error) {
	return c.VersionForRoundWithParents(r, nil)
}

// same shape as HeaderChain.VersionForRoundWithParents
func (c *Chain) VersionForRoundWithParents(r uint64, parents []*types.Header) (*params.YouParams, error) {
	var pr uint64
	if r > protocolRoundBack {
		pr = r - protocolRoundBack
	}
	header := c.GetHeaderByNumber(pr)
	if header == nil && len(parents) > 0 {
		first := parents[0].Number.Uint64()
		if pr >= first && pr-first < uint64(len(parents)) {
			header = parents[pr-first]
		}
	}
	if header == nil {
		return nil, fmt.Errorf("can't find header for number %d", pr)
	}
	proto, ok := params.Versions[header.CurrVersion]
	if !ok {
		return nil, fmt.Errorf("protocol version \"%d\" not exist, round %d", header.CurrVersion, pr)
	}
	return &proto, nil
}
func (c *Chain) CurrentHeader() *types.Header {
	c.mu.RLock()
	defer c.mu.RUnlock()
	return c.byNum[c.head]
}
func (c *Chain) GetHeader(hash common.Hash, number uint64) *types.Header {
	c.mu.RLock()
	defer c.mu.RUnlock()
	if h := c.byHash[hash]; h != nil && h.Number.Uint64() == number {
		return h
	}
	return nil
}
func (c *Chain) GetHeaderByNumber(number uint64) *types.Header {
	c.mu.RLock()
	defer c.mu.RUnlock()
	return c.byNum[number]
}
func (c *Chain) GetHeaderByHash(hash common.Hash) *types.Header {
	c.mu.RLock()
	defer c.mu.RUnlock()
	return c.byHash[hash]
}
func (c *Chain) GetBlock(hash common.Hash, number uint64) *types.Block {
	if h := c.GetHeader(hash, number); h != nil {
		return types.NewBlockWithHeader(h)
	}
	return nil
}
func (c *Chain) GetBlockByNumber(number uint64) *types.Block {
	if h := c.GetHeaderByNumber(number); h != nil {
		return types.NewBlockWithHeader(h)
	}
	return nil
}
func (c *Chain) GetVldReader(valRoot common.Hash) (state.ValidatorReader, error) {
	return state.NewVldReader(valRoot, c.db, false)
}
func (c *Chain) GetAcReader() rawdb.AcReader              { return nil }
func (c *Chain) UpdateExistedHeader(header *types.Header) {}

var _ consensus.ChainReader = (*Chain)(nil)

// Config is one fixture instance.
type Config struct {
	Name    string
	Version params.YouVersion
	YP      params.YouParams
	CP      *params.CaravelParams

	Members  []*Member // every record of the look-back set, by Index
	Voters   []*Member // the entitled ones (online chamber, stake > 0), by Index
	Outsider *Member   // keys that are not in the set
	House    *Member   // config c only
	Offline  *Member   // config c only
	Zero     *Member   // config c only

	DB      state.Database
	ValRoot common.Hash // look-back validator set
	Decoy   common.Hash // a different set (view "other"), on every header that has no set of its own
	Total   *big.Int    // online chamber stake of the look-back set

	// Views: the validator set each kind of header commits to ("stake" = the look-back set = True;
	// "seed", "parent", "own", "other"; certificate fixtures of C01 also "certstake").  CertView is the set of
	// the certificate stake look-back header (== True unless the fixture was built with a separate one).
	Views       map[string]*SetView
	True        *SetView
	CertView    *SetView
	ChainSigner *Member // signs the synthetic chain headers (so that they pass verifySignature in header batches)

	Round     uint64 // number of the block under verification
	SeedNum   uint64 // Round - SeedLookBack
	StakeNum  uint64 // Round - StakeLookBack
	LBSeed    common.Hash
	PrevSeed  common.Hash // seed a credential for round-1 would have used
	Parent    *types.Header
	Chain     *Chain
	Server    *ucon.Server
	BlsVerify *ucon.BlsVerifier

	Proposer *Member // honest proposer (first entitled member with j >= 1 at HonestRI)
	HonestRI uint32

	// certificate rounds (Round % ACoCHTFrequency == 0) only
	IsCert       bool
	CertSeedNum  uint64      // Round - ACoCHTFrequency
	CertStakeNum uint64      // Round - 2·ACoCHTFrequency (or genesis); serves the same validator set
	CertSeed     common.Hash // seed of the certificate look-back header

	certPair *certPair // certificate scenario: the configuration of the planted look-back block

	// ExactQuorumMask: a vote subset whose weight is exactly the quorum (0 = none in this configuration)
	ExactQuorumMask int

	okCache sync.Map // oracle: credential check results (same proofs recur in thousands of headers)
	cred    sync.Map // credKey -> *Cred
	sigs    sync.Map // name|payload -> []byte
}

// Cred is one sortition result.
type Cred struct {
	Value common.Hash
	Proof []byte
	J     uint32
}

type credKey struct {
	name      string
	seed      common.Hash
	index     uint32
	step      uint32
	threshold uint64
	stake     uint64
	total     uint64
}

func u32be(i uint32) []byte {
	var b [4]byte
	binary.BigEndian.PutUint32(b[:], i)
	return b[:]
}

// VotePayload is what every vote signs: hash ‖ round ‖ roundIndex (voter.go signVote).
func VotePayload(hash common.Hash, round *big.Int, ri uint32) []byte {
	return append(hash.Bytes(), append(round.Bytes(), u32be(ri)...)...)
}

// Sortition runs the real VrfSortition for member m against the look-back
// chamber stake (memoised: the VRF value is deterministic, the proof is any
// valid one).
func (c *Config) Sortition(m *Member, seed common.Hash, index, step uint32, threshold uint64, stake uint64) *Cred {
	return c.SortitionIn(c.Total, m, seed, index, step, threshold, stake)
}

// SortitionIn is Sortition against the online chamber stake of another validator set.
func (c *Config) SortitionIn(total *big.Int, m *Member, seed common.Hash, index, step uint32, threshold uint64, stake uint64) *Cred {
	k := credKey{m.Name, seed, index, step, threshold, stake, total.Uint64()}
	if v, ok := c.cred.Load(k); ok {
		return v.(*Cred)
	}
	val, proof, j := ucon.VrfSortition(m.VrfSk, seed, index, step, threshold, new(big.Int).SetUint64(stake), total)
	cr := &Cred{val, proof, j}
	v, _ := c.cred.LoadOrStore(k, cr)
	return v.(*Cred)
}

// BlsSign signs payload with m's BLS key (memoised; BLS signing is deterministic).
func (c *Config) BlsSign(m *Member, payload []byte) []byte {
	k := m.Name + "|" + string(payload)
	if v, ok := c.sigs.Load(k); ok {
		return v.([]byte)
	}
	s := m.BlsSk.Sign(payload).Compress().Bytes()
	c.sigs.Store(k, s)
	return s
}

type memberSpec struct {
	name   string
	role   params.ValidatorRole
	status uint8
	stake  uint64
}

func configSpec(name string) ([]memberSpec, error) {
	on, off := params.ValidatorOnline, params.ValidatorOffline
	const S = 5000 // small stakes: a forged committee size ≥ total stake makes every unit of stake a seat (j = stake), and priorities cost j hashes
	switch name {
	case "a": // 4 chamber validators, equal stake
		return []memberSpec{{"a0", params.RoleChancellor, on, S}, {"a1", params.RoleSenator, on, S},
			{"a2", params.RoleSenator, on, S}, {"a3", params.RoleSenator, on, S}}, nil
	case "b": // 1 whale + 3 small (the whale's stake is re-tuned by NewConfig, see tuneWhale)
		return []memberSpec{{"b0", params.RoleChancellor, on, 6 * S}, {"b1", params.RoleSenator, on, S},
			{"b2", params.RoleSenator, on, S}, {"b3", params.RoleSenator, on, S}}, nil
	case "c": // (a) + house + offline chamber + zero-stake record
		return []memberSpec{{"c0", params.RoleChancellor, on, S}, {"c1", params.RoleSenator, on, S},
			{"c2", params.RoleSenator, on, S}, {"c3", params.RoleSenator, on, S},
			{"cH", params.RoleHouse, on, S}, {"cO", params.RoleSenator, off, S}, {"cZ", params.RoleSenator, on, 0}}, nil
	}
	return nil, fmt.Errorf("unknown config %q", name)
}

// Rec is one validator record as ONE validator set holds it: the stake and the
// position (= SingleVote.VoterIdx) differ from set to set, keys, role and
// status do not.
type Rec struct {
	M     *Member
	Stake uint64
	Index int
}

func (r *Rec) Chamber() bool {
	k, _ := params.KindOfRole(r.M.Role)
	return k == params.KindChamber
}
func (r *Rec) Online() bool   { return r.M.Status == params.ValidatorOnline }
func (r *Rec) Entitled() bool { return r.Chamber() && r.Online() && r.Stake > 0 }

// SetView is one committed validator set, read back exactly as the verifier
// sees it when it opens that root (index order, stakes, online chamber stake).
type SetView struct {
	Name     string
	Root     common.Hash
	Recs     []*Rec   // by Index
	Total    *big.Int // online chamber stake
	Newcomer *Rec     // a validator that exists in this set only (nil in the look-back set)
	byName   map[string]*Rec
}

func (v *SetView) Rec(name string) *Rec { return v.byName[name] }

// EntitledRecs: the records allowed to vote or propose under this set, by index.
func (v *SetView) EntitledRecs() []*Rec {
	var out []*Rec
	for _, r := range v.Recs {
		if r.Entitled() {
			out = append(out, r)
		}
	}
	return out
}

func (v *SetView) describe() string {
	var ps []string
	for _, r := range v.Recs {
		ps = append(ps, fmt.Sprintf("#%d %s stake=%d", r.Index, r.M.Name, r.Stake))
	}
	return "[" + strings.Join(ps, "; ") + "]"
}

// viewStake: stake of the base member at spec position i (look-back stake s) in the named set.  Every set has
// other proportions (so other seat counts and, the list being ordered by stake, other voter indexes); a record
// with no stake in the look-back set has stake in all the others.
func viewStake(view string, i int, s uint64) uint64 {
	k := uint64(i)
	switch view {
	case "seed":
		return 2*s + 1000 + 300*k
	case "parent":
		return s + 150 + 900*(k%3)
	case "own":
		return 3*s + 100 + 50*k
	case "certstake":
		return s + 400*(k+1)
	case "other":
		return 3*s + 777
	}
	return s
}

// buildView commits base (+ a newcomer that exists in this set only) under the named stake map and reads it back.
func buildView(db state.Database, cfgName, view string, base []*Member) (*SetView, error) {
	ms := append([]*Member{}, base...)
	stake := map[string]uint64{}
	for i, m := range base {
		stake[m.Name] = viewStake(view, i, m.Stake)
	}
	var nc *Member
	if view != "stake" {
		nc = newMember(cfgName+"N-"+view, params.RoleSenator, params.ValidatorOnline, 5000)
		stake[nc.Name] = 5000
		ms = append(ms, nc)
	}
	root, err := commitSet(db, ms, func(m *Member) uint64 { return stake[m.Name] })
	if err != nil {
		return nil, err
	}
	rd, err := state.NewVldReader(root, db, false)
	if err != nil {
		return nil, err
	}
	vs := rd.GetValidators()
	v := &SetView{Name: view, Root: root, Recs: make([]*Rec, len(ms)), byName: map[string]*Rec{}}
	for _, m := range ms {
		idx, ok := vs.GetIndex(m.Addr)
		if !ok || idx < 0 || idx >= len(ms) || v.Recs[idx] != nil {
			return nil, errors.New("member not in reopened set " + view + ": " + m.Name)
		}
		r := &Rec{M: m, Stake: stake[m.Name], Index: idx}
		v.Recs[idx], v.byName[m.Name] = r, r
		if m == nc {
			v.Newcomer = r
		}
	}
	stat, err := rd.GetValidatorsStat()
	if err != nil {
		return nil, err
	}
	v.Total = stat.GetStakeByKind(params.KindChamber)
	// independent recomputation of the online chamber stake
	sum := new(big.Int)
	for _, r := range v.Recs {
		if r.Entitled() {
			sum.Add(sum, new(big.Int).SetUint64(r.Stake))
		}
	}
	if sum.Cmp(v.Total) != 0 {
		return nil, fmt.Errorf("set %s: online chamber stake: stat says %v, members sum to %v", view, v.Total, sum)
	}
	return v, nil
}

func commitSet(db state.Database, ms []*Member, stakeOf func(*Member) uint64) (common.Hash, error) {
	st, err := state.New(common.Hash{}, common.Hash{}, common.Hash{}, db)
	if err != nil {
		return common.Hash{}, err
	}
	for _, m := range ms {
		stake := new(big.Int).SetUint64(stakeOf(m))
		token := new(big.Int).Mul(stake, params.StakeUint)
		if stake.Sign() == 0 {
			// a record with zero stake survives Finalise only with a sub-unit token remainder
			token = new(big.Int).Rsh(params.StakeUint, 1)
		}
		if st.CreateValidator(m.Name, m.Addr, m.Addr, m.Role, m.Pub, m.BlsPub, token, stake, 0, 0, 0, m.Status) == nil {
			return common.Hash{}, errors.New("CreateValidator failed for " + m.Name)
		}
	}
	_, vr, _, err := st.Commit(true)
	return vr, err
}

func seedOf(name string, n uint64) common.Hash {
	return crypto.Keccak256Hash([]byte(fmt.Sprintf("verif/c01 %s seed %d", name, n)))
}

// NewConfig builds configuration name under protocol version v at the default
// round (StakeLookBack+12: seed, stake and parent look-backs are three
// different headers, none of them genesis).  In configuration "b" the whale's
// stake is tuned (deterministically) so that the whale alone weighs exactly
// the quorum uint32(ValidatorThreshold·0.685).
func NewConfig(name string, v params.YouVersion) (*Config, error) {
	EnsureParams()
	ensureVersion(v)
	yp, ok := params.Versions[v]
	if !ok {
		return nil, fmt.Errorf("no protocol version %d", v)
	}
	round := yp.StakeLookBack + 12
	var stakes map[string]uint64
	if baseName(name) == "b" {
		stakes = tuneWhale("b", &yp, round, name == "b-")
	}
	return NewConfigAt(name, v, round, stakes)
}

// baseName: "b-" is configuration "b" (same keys, same seeds) with the whale
// one stake unit poorer, which puts it just below the quorum.
func baseName(name string) string { return strings.TrimSuffix(name, "-") }

// tuneWhale bisects the whale's stake until its precommit seat count at round
// index 1 equals the quorum exactly (seat count is monotone in the stake); with
// below set it returns the largest stake that stays below the quorum.
func tuneWhale(name string, yp *params.YouParams, round uint64, below bool) map[string]uint64 {
	specs, _ := configSpec(name)
	whale := newMember(specs[0].name, specs[0].role, specs[0].status, 0)
	rest := uint64(0)
	for _, s := range specs[1:] {
		rest += s.stake
	}
	seed := seedOf(name, round-yp.SeedLookBack)
	q := uint32(RefQuorum(yp.ValidatorThreshold, false))
	seats := func(w uint64) uint32 {
		_, _, j := ucon.VrfSortition(whale.VrfSk, seed, 1, uint32(ucon.Precommit), yp.ValidatorThreshold,
			new(big.Int).SetUint64(w), new(big.Int).SetUint64(w+rest))
		return j
	}
	lo, hi := rest, 20*rest // seats(lo) ≈ T/2 < q < seats(hi) ≈ 0.95·T
	if seats(lo) >= q || seats(hi) < q {
		return nil
	}
	for hi-lo > 1 {
		mid := lo + (hi-lo)/2
		if seats(mid) >= q {
			hi = mid
		} else {
			lo = mid
		}
	}
	if seats(hi) != q {
		return nil
	}
	if below {
		return map[string]uint64{specs[0].name: lo}
	}
	return map[string]uint64{specs[0].name: hi}
}

// NewConfigAt builds the configuration for a block at the given round.
// stakes, when non-nil, overrides the stake of the named members (used to tune
// seat counts onto the quorum boundary).
func NewConfigAt(name string, v params.YouVersion, round uint64, stakes map[string]uint64) (*Config, error) {
	return newConfigAt(name, v, round, stakes, false)
}

// newConfigAt: rekeyed names members that get another BLS key (everything else, all other keys included, unchanged).
// newConfigAt: sepCert gives the certificate stake look-back header (certificate rounds) a validator set of its
// own (view "certstake") instead of the look-back set; certificate votes are then drawn against that set.
func newConfigAt(name string, v params.YouVersion, round uint64, stakes map[string]uint64, sepCert bool, rekeyed ...string) (*Config, error) {
	EnsureParams()
	ensureVersion(v)
	yp, ok := params.Versions[v]
	if !ok {
		return nil, fmt.Errorf("no protocol version %d", v)
	}
	if !yp.EnableBls {
		return nil, fmt.Errorf("version %d has no BLS: not covered by this fixture", v)
	}
	specs, err := configSpec(baseName(name))
	if err != nil {
		return nil, err
	}
	c := &Config{Name: name, Version: v, YP: yp, Round: round}
	name = baseName(name) // keys and seeds are those of the base configuration
	c.CP = &c.YP.CaravelParams
	if round <= c.CP.StakeLookBack || round <= c.CP.SeedLookBack+1 {
		return nil, fmt.Errorf("round %d too small for distinct look-back headers", round)
	}
	c.DB = state.NewDatabase(youdb.NewMemDatabase())
	var ms []*Member
	for _, s := range specs {
		st := s.stake
		if o, ok := stakes[s.name]; ok {
			st = o
		}
		m := newMember(s.name, s.role, s.status, st)
		for _, rk := range rekeyed {
			if rk == s.name {
				// the same validator (same consensus key, hence same main address; same stake) registered with ANOTHER
				// BLS key: what leaving and registering again does (rekey.go)
				m.BlsSk, m.BlsPk = otherBlsKey(s.name)
				m.BlsPub = m.BlsPk.Compress().Bytes()
			}
		}
		ms = append(ms, m)
	}
	c.Outsider = newMember(name+"X", params.RoleSenator, params.ValidatorOnline, ms[0].Stake)
	c.ChainSigner = newMember(name+"S", params.RoleSenator, params.ValidatorOnline, 0)
	// the look-back set and the sets of the other headers: same people with other stakes (hence other seat
	// counts and other voter indexes) plus one validator that exists in that set only
	c.Views = map[string]*SetView{}
	names := []string{"stake", "seed", "parent", "own", "other"}
	if sepCert {
		names = append(names, "certstake")
	}
	roots := map[common.Hash]string{}
	for _, vn := range names {
		vw, err := buildView(c.DB, name, vn, ms)
		if err != nil {
			return nil, err
		}
		if o, dup := roots[vw.Root]; dup {
			return nil, fmt.Errorf("validator sets %s and %s are equal", o, vn)
		}
		roots[vw.Root] = vn
		c.Views[vn] = vw
	}
	c.True = c.Views["stake"]
	c.CertView = c.True
	if sepCert {
		c.CertView = c.Views["certstake"]
	}
	c.ValRoot, c.Decoy, c.Total = c.True.Root, c.Views["other"].Root, c.True.Total
	// indexes exactly as the verifier will see them
	for _, r := range c.True.Recs {
		r.M.Index = r.Index
	}
	sort.Slice(ms, func(i, j int) bool { return ms[i].Index < ms[j].Index })
	c.Members = ms
	for _, m := range ms {
		switch {
		case m.Entitled():
			c.Voters = append(c.Voters, m)
		case !m.Chamber():
			c.House = m
		case !m.Online():
			c.Offline = m
		case m.Stake == 0:
			c.Zero = m
		}
	}

	// ---- chain of real headers 0 .. round-1 --------------------------------
	c.Chain = newChain(c.DB)
	c.SeedNum, c.StakeNum = round-c.CP.SeedLookBack, round-c.CP.StakeLookBack
	if round%params.ACoCHTFrequency == 0 {
		c.IsCert = true
		c.CertSeedNum = round - params.ACoCHTFrequency
		if round > 2*params.ACoCHTFrequency {
			c.CertStakeNum = round - 2*params.ACoCHTFrequency
		}
	}
	first := uint64(0)
	if round > 400 {
		first = round - 400 // sparse chain for far rounds; genesis still served
	}
	var prev *types.Header
	mk := func(n uint64) *types.Header {
		h := &types.Header{Number: new(big.Int).SetUint64(n), Time: 1600000000 + n, MixDigest: types.UConMixHash,
			CurrVersion: v, GasLimit: 8000000, GasRewards: new(big.Int), Subsidy: new(big.Int),
			TxHash: types.EmptyRootHash, ReceiptHash: types.EmptyRootHash, ValRoot: c.rootAt(n)}
		if prev != nil && prev.Number.Uint64()+1 == n {
			h.ParentHash = prev.Hash()
		}
		cd := &ucon.BlockConsensusData{Round: new(big.Int).SetUint64(n), RoundIndex: 1,
			Seed:           seedOf(name, n),
			SortitionProof: []byte{1}, Priority: common.Hash{1}, SubUsers: 1,
			ProposerThreshold: c.CP.ProposerThreshold, ValidatorThreshold: c.CP.ValidatorThreshold, CertValThreshold: c.CP.CertValThreshold}
		// signed like a sealed header (consensus data and header by the same key): verifySignature passes, so the
		// headers can precede the header under verification in a VerifyHeaders batch
		if err := cd.SetSignature(c.ChainSigner.Key); err != nil {
			panic(err)
		}
		h.Consensus, _ = rlp.EncodeToBytes(cd)
		h.Signature, _ = crypto.Sign(h.Hash().Bytes(), c.ChainSigner.Key)
		return h
	}
	if first > 0 {
		c.Chain.put(mk(0))
	}
	if c.IsCert {
		for _, n := range []uint64{c.CertStakeNum, c.CertSeedNum} {
			if n > 0 && n < first {
				c.Chain.put(mk(n))
			}
		}
		cc, _ := ucon.GetConsensusDataFromHeader(c.Chain.GetHeaderByNumber(c.CertSeedNum))
		c.CertSeed = cc.Seed
	}
	for n := first; n < round; n++ {
		h := mk(n)
		c.Chain.put(h)
		prev = h
	}
	c.Parent = prev
	sc, _ := ucon.GetConsensusDataFromHeader(c.Chain.GetHeaderByNumber(c.SeedNum))
	c.LBSeed = sc.Seed
	pc, _ := ucon.GetConsensusDataFromHeader(c.Chain.GetHeaderByNumber(c.SeedNum - 1))
	c.PrevSeed = pc.Seed

	c.Server, err = ucon.NewVRFServer(youdb.NewMemDatabase())
	if err != nil {
		return nil, err
	}
	c.BlsVerify = ucon.NewBlsVerifier(blsMgr)

	// honest proposer: first entitled member with at least one proposer seat
	for ri := uint32(1); ri <= 16 && c.Proposer == nil; ri++ {
		for _, m := range c.Voters {
			if c.Sortition(m, c.LBSeed, ri, ucon.UConStepProposal, c.CP.ProposerThreshold, m.Stake).J >= 1 {
				c.Proposer, c.HonestRI = m, ri
				break
			}
		}
	}
	if c.Proposer == nil {
		return nil, errors.New("no member is a proposer in round indexes 1..16")
	}
	js := c.SeatCounts(c.HonestRI)
	for mask := 1; mask < 1<<uint(len(js)) && c.ExactQuorumMask == 0; mask++ {
		w := uint32(0)
		for i, j := range js {
			if mask&(1<<uint(i)) != 0 {
				w += j
			}
		}
		if w == c.Quorum() {
			c.ExactQuorumMask = mask
		}
	}
	return c, nil
}

// rootAt: the validator set header n commits to.  The stake look-back header (and, in certificate rounds, the
// certificate stake look-back header) carry the sets votes are drawn against; the seed look-back header, the
// parent and every other header carry different ones.
func (c *Config) rootAt(n uint64) common.Hash {
	switch {
	case n == c.StakeNum:
		return c.True.Root
	case c.IsCert && n == c.CertStakeNum:
		return c.CertView.Root
	case n == c.SeedNum:
		return c.Views["seed"].Root
	case n+1 == c.Round:
		return c.Views["parent"].Root
	case n == c.Round:
		return c.Views["own"].Root
	}
	return c.Views["other"].Root
}

// SeedAt: the seed recorded in the chain's header n.
func (c *Config) SeedAt(chain consensus.ChainReader, n uint64) (common.Hash, error) {
	h := chain.GetHeaderByNumber(n)
	if h == nil {
		return common.Hash{}, fmt.Errorf("no header %d", n)
	}
	cd, err := ucon.GetConsensusDataFromHeader(h)
	if err != nil {
		return common.Hash{}, err
	}
	return cd.Seed, nil
}

// ProposalOpts are the knobs a proposer has (honest values when zero).
type ProposalOpts struct {
	Cred       *Cred                             // proposer credential (default: real one under the protocol threshold)
	SubUsers   *uint32                           // override of the declared seat count
	Priority   *common.Hash                      // override of the declared priority
	Thresholds func(cd *ucon.BlockConsensusData) // edit the declared thresholds
	HeaderKey  *ecdsa.PrivateKey                 // header signature key (default: proposer's)
	ChtRoot    []byte                            // header.ChtRoot (certificate rounds carry one)
	Sibling    int                               // > 0: another block of the same proposer for the same (round, index): other transactions, other hash
	Seed       *common.Hash                      // look-back seed the proposer draws against (default: the seed look-back header's)
	View       *SetView                          // validator set the proposer draws against (default: the look-back set)
}

// ProposeWith assembles and seals a block of member m exactly as
// Server.Prepare + Seal do: consensus data from the sortition step view,
// SetSignature, header signature over the filtered header hash.
func (c *Config) ProposeWith(m *Member, ri uint32, o ProposalOpts) (*types.Block, *ucon.BlockConsensusData, error) {
	round := new(big.Int).SetUint64(c.Round)
	lbSeed := c.LBSeed
	if o.Seed != nil {
		lbSeed = *o.Seed
	}
	cr := o.Cred
	if cr == nil {
		if o.View != nil {
			cr = c.SortitionIn(o.View.Total, m, lbSeed, ri, ucon.UConStepProposal, c.CP.ProposerThreshold, o.View.Rec(m.Name).Stake)
		} else {
			cr = c.Sortition(m, lbSeed, ri, ucon.UConStepProposal, c.CP.ProposerThreshold, m.Stake)
		}
	}
	seed, _ := ucon.ComputeSeed(m.VrfSk, round, ri, lbSeed)
	cd := &ucon.BlockConsensusData{Round: round, RoundIndex: ri, Seed: seed, SortitionProof: cr.Proof,
		Priority: ucon.VrfComputePriority(cr.Value, cr.J), SubUsers: cr.J,
		ProposerThreshold: c.CP.ProposerThreshold, ValidatorThreshold: c.CP.ValidatorThreshold, CertValThreshold: c.CP.CertValThreshold}
	if o.SubUsers != nil {
		cd.SubUsers = *o.SubUsers
		cd.Priority = ucon.VrfComputePriority(cr.Value, cd.SubUsers)
	}
	if o.Priority != nil {
		cd.Priority = *o.Priority
	}
	if o.Thresholds != nil {
		o.Thresholds(cd)
	}
	if err := cd.SetSignature(m.Key); err != nil {
		return nil, nil, err
	}
	h := &types.Header{ParentHash: c.Parent.Hash(), Number: round, Time: c.Parent.Time + 1, MixDigest: types.UConMixHash,
		CurrVersion: c.Version, GasLimit: 8000000, GasRewards: new(big.Int), Subsidy: new(big.Int),
		TxHash: types.EmptyRootHash, ReceiptHash: types.EmptyRootHash, ValRoot: c.rootAt(c.Round), Coinbase: m.Addr, ChtRoot: o.ChtRoot}
	if o.Sibling > 0 {
		h.TxHash = crypto.Keccak256Hash([]byte(fmt.Sprintf("verif/c01 sibling %d transactions", o.Sibling)))
		h.Root = crypto.Keccak256Hash([]byte(fmt.Sprintf("verif/c01 sibling %d state", o.Sibling)))
	}
	if c.IsCert && h.ChtRoot == nil {
		h.ChtRoot = crypto.Keccak256([]byte("verif/c01 cht root"))
		h.BltRoot = crypto.Keccak256([]byte("verif/c01 blt root"))
	}
	var err error
	if h.Consensus, err = ucon.PrepareConsensusData(h, cd); err != nil {
		return nil, nil, err
	}
	key := o.HeaderKey
	if key == nil {
		key = m.Key
	}
	if h.Signature, err = crypto.Sign(h.Hash().Bytes(), key); err != nil {
		return nil, nil, err
	}
	return types.NewBlockWithHeader(h), cd, nil
}

// Propose is the honest proposal of member m at round index ri.
func (c *Config) Propose(m *Member, ri uint32) (*types.Block, error) {
	b, _, err := c.ProposeWith(m, ri, ProposalOpts{})
	return b, err
}

// SignVote builds what Voter.vote attaches to its message for a vote of type
// vt on block hash at round index ri: the sortition credential for step =
// uint32(vt) under the protocol's committee size and the BLS signature over
// hash‖round‖index with the member's index in the look-back set.  nil when the
// member has no seat (the Voter does not vote then).
func (c *Config) SignVote(m *Member, vt ucon.VoteType, hash common.Hash, ri uint32) *ucon.SingleVote {
	th, seed, view := c.CP.ValidatorThreshold, c.LBSeed, c.True
	if vt == ucon.Certificate {
		// live voters take the protocol's CertValThreshold (sortition_verifier.go getLookbackStakeInfo), the certificate
		// look-back seed and the validator set of the certificate stake look-back header
		th, seed, view = c.CP.CertValThreshold, c.CertSeed, c.CertView
	}
	rec := view.Rec(m.Name)
	if rec == nil {
		return nil
	}
	cr := c.SortitionIn(view.Total, m, seed, ri, uint32(vt), th, rec.Stake)
	if cr.J == 0 {
		return nil
	}
	payload := VotePayload(hash, new(big.Int).SetUint64(c.Round), ri)
	return &ucon.SingleVote{VoterIdx: uint32(rec.Index), Votes: cr.J, Proof: cr.Proof, Signature: c.BlsSign(m, payload)}
}

// HonestVotes: the precommit of every entitled member that has a seat.
func (c *Config) HonestVotes(hash common.Hash, ri uint32) ucon.VotesInfoForBlockHash {
	return c.honestVotes(ucon.Precommit, hash, ri)
}

// HonestCerts: the certificate vote of every entitled member that has a seat (certificate rounds).
func (c *Config) HonestCerts(hash common.Hash, ri uint32) ucon.VotesInfoForBlockHash {
	return c.honestVotes(ucon.Certificate, hash, ri)
}

func (c *Config) honestVotes(vt ucon.VoteType, hash common.Hash, ri uint32) ucon.VotesInfoForBlockHash {
	out := ucon.NewVotesInfoForBlockHash()
	for _, m := range c.Voters {
		if v := c.SignVote(m, vt, hash, ri); v != nil {
			out[m.Addr] = v
		}
	}
	return out
}

// PackCommit does what Server.commit does with a CommitEvent: the real
// BlsVerifier.PackVotes into header.Validator, and (not a certificate round)
// the empty certificate record Voter.PackVotes returns.
func PackCommit(c *Config, ev ucon.CommitEvent) (*types.Header, error) {
	if ev.Block == nil {
		return nil, errors.New("commit event without block")
	}
	header := ev.Block.Header()
	uv, err := c.BlsVerify.PackVotes(ev, params.LookBackPos)
	if err != nil {
		return nil, err
	}
	if header.Validator, err = uv.ValidatorsToByte(); err != nil {
		return nil, err
	}
	var cert *ucon.UconValidators
	if ev.Round.Uint64()%params.ACoCHTFrequency != 0 {
		cert = &ucon.UconValidators{RoundIndex: ev.RoundIndex}
	} else if cert, err = c.BlsVerify.PackVotes(ev, params.LookBackCert); err != nil {
		return nil, err
	}
	if header.Certificate, err = cert.ValidatorsToByte(); err != nil {
		return nil, err
	}
	return ev.Block.WithSeal(header).Header(), nil
}

// HonestHeader: proposal of the honest proposer with every entitled member's precommit.
func (c *Config) HonestHeader() (*types.Header, error) {
	blk, err := c.Propose(c.Proposer, c.HonestRI)
	if err != nil {
		return nil, err
	}
	ev := ucon.CommitEvent{Round: blk.Number(), RoundIndex: c.HonestRI, Block: blk,
		ChamberPrecommits: c.HonestVotes(blk.Hash(), c.HonestRI), HousePrecommits: ucon.NewVotesInfoForBlockHash()}
	if c.IsCert {
		ev.ChamberCerts = c.HonestCerts(blk.Hash(), c.HonestRI)
	}
	return PackCommit(c, ev)
}

// VerifyHeader runs the real verifier (engine.VerifyHeader with seal=true, the
// call InsertChain makes) on the header through the stub chain.
func VerifyHeader(c *Config, header *types.Header) error {
	return c.Server.VerifyHeader(c.Chain, header, true)
}

// VerifyHeaderOn is VerifyHeader through another chain reader (an Overlay of c.Chain).
func VerifyHeaderOn(c *Config, chain consensus.ChainReader, header *types.Header) error {
	return c.Server.VerifyHeader(chain, header, true)
}

// Overlay serves extra headers on top of a Chain (per-case look-back headers).
type Overlay struct {
	*Chain
	Extra map[uint64]*types.Header
}

func (o *Overlay) GetHeaderByNumber(n uint64) *types.Header {
	if h, ok := o.Extra[n]; ok {
		return h
	}
	return o.Chain.GetHeaderByNumber(n)
}
func (o *Overlay) GetHeader(hash common.Hash, n uint64) *types.Header {
	if h, ok := o.Extra[n]; ok && h.Hash() == hash {
		return h
	}
	return o.Chain.GetHeader(hash, n)
}
func (o *Overlay) GetHeaderByHash(hash common.Hash) *types.Header {
	for _, h := range o.Extra {
		if h.Hash() == hash {
			return h
		}
	}
	return o.Chain.GetHeaderByHash(hash)
}
func (o *Overlay) VersionForRound(r uint64) (*params.YouParams, error) {
	return o.VersionForRoundWithParents(r, nil)
}
func (o *Overlay) VersionForRoundWithParents(r uint64, parents []*types.Header) (*params.YouParams, error) {
	var pr uint64
	if r > protocolRoundBack {
		pr = r - protocolRoundBack
	}
	if h, ok := o.Extra[pr]; ok {
		if proto, ok := params.Versions[h.CurrVersion]; ok {
			return &proto, nil
		}
	}
	return o.Chain.VersionForRoundWithParents(r, parents)
}

// VerifySeal runs (*ucon.Server).VerifySeal.
func VerifySeal(c *Config, header *types.Header) error { return c.Server.VerifySeal(c.Chain, header) }

// VerifySideChain runs (*ucon.Server).VerifySideChainHeader with the look-back
// inputs BlockChain.verifyAllSideChainBlocks would pass.
func VerifySideChain(c *Config, header *types.Header) error {
	rd, err := c.Chain.GetVldReader(c.Chain.GetHeaderByNumber(c.StakeNum).ValRoot)
	if err != nil {
		return err
	}
	var certHeader *types.Header
	var certRd state.ValidatorReader
	if c.IsCert {
		certHeader = c.Chain.GetHeaderByNumber(c.CertSeedNum)
		if certRd, err = c.Chain.GetVldReader(c.Chain.GetHeaderByNumber(c.CertStakeNum).ValRoot); err != nil {
			return err
		}
	}
	return c.Server.VerifySideChainHeader(c.CP, c.Chain.GetHeaderByNumber(c.SeedNum), rd, certHeader, certRd,
		types.NewBlockWithHeader(header), []*types.Block{types.NewBlockWithHeader(c.Parent)})
}

// SeatCounts returns each entitled member's precommit seat count at ri.
func (c *Config) SeatCounts(ri uint32) []uint32 {
	var out []uint32
	for _, m := range c.Voters {
		out = append(out, c.Sortition(m, c.LBSeed, ri, uint32(ucon.Precommit), c.CP.ValidatorThreshold, m.Stake).J)
	}
	return out
}

// Quorum is the protocol's precommit quorum: ⌊0.685·ValidatorThreshold⌋ (exact reference, quorum.go).
func (c *Config) Quorum() uint32 {
	return uint32(RefQuorum(c.CP.ValidatorThreshold, false))
}
