package c01

import (
	"fmt"
	"strings"
	"sync"
	"sync/atomic"

	"github.com/youchainhq/go-youchain/common"
	"github.com/youchainhq/go-youchain/consensus"
	"github.com/youchainhq/go-youchain/consensus/ucon"
	"github.com/youchainhq/go-youchain/core/types"
	"github.com/youchainhq/go-youchain/params"
	"github.com/youchainhq/go-youchain/rlp"
	"github.com/youchainhq/go-youchain/youdb"

	"verif/mc"
)

// Verifier history.
//
// The verdict on a header must not depend on what the same Server instance
// verified before.  The alphabet of this dimension is the family of headers
// that re-use material of ANOTHER header an honest committee produced: two
// blocks of the same proposer for the same (round, index) — B1 and its sibling
// B2, other transactions, other hash — each votable at the proposal's round
// index and re-votable at the next one, and for every header the product of
// (credentials for this / the other index) × (signatures and aggregate over
// this block's / the sibling's hash) × (at this / the other index), plus
// headers with the same hash and fewer votes (one precommit, none: the vote
// records are not covered by the hash).  Every sequence of (header, entry
// point) pairs up to the bound runs on ONE fresh Server; every verdict in it is
// compared with the independent calculator and with the verdict a fresh
// instance gives on the same header through the same entry point.

// HHdr names one header of the family (zero value = B1 with its own honest votes).
type HHdr struct {
	Blk    int    `json:"block"`                             // 0 = B1, 1 = its sibling B2
	UV     int    `json:"votes_at_next_round_index"`         // 0: UconValidators.RoundIndex = the proposal's index ri; 1: ri+1 (re-vote)
	Cred   int    `json:"credentials_of_other_index"`        // 1: the precommit credentials are those for the other of the two indexes
	SigBlk int    `json:"signatures_over_sibling_hash"`      // 1: precommit signatures and aggregate are over the sibling block's hash
	SigIdx int    `json:"signatures_over_other_index"`       // 1: … over the other of the two indexes
	Sub    string `json:"precommit_list,omitempty"`          // "" every entitled member's, "one" = the first member's only, "none"
	CBlk   int    `json:"cert_signatures_over_sibling_hash"` // certificate rounds: same for the certificate votes
	CIdx   int    `json:"cert_signatures_over_other_index"`
	CSub   string `json:"certificate_list,omitempty"`
}

func (h HHdr) key() string {
	return fmt.Sprintf("b%d.u%d.c%d.s%d%d.%s.C%d%d.%s", h.Blk, h.UV, h.Cred, h.SigBlk, h.SigIdx, h.Sub, h.CBlk, h.CIdx, h.CSub)
}

// ownVotes: nothing but honest votes for this very header (possibly fewer than all).
func (h HHdr) ownVotes() bool {
	return h.Cred == 0 && h.SigBlk == 0 && h.SigIdx == 0 && h.CBlk == 0 && h.CIdx == 0
}

// honest: what an honest committee produces.
func (h HHdr) honest() bool { return h.ownVotes() && h.Sub == "" && h.CSub == "" }

func votesText(kind string, cred, blk, idx int, sub string) string {
	switch {
	case cred == 0 && blk == 0 && idx == 0:
		switch sub {
		case "one":
			return "only one of its own " + kind
		case "none":
			return "no " + kind + " at all"
		}
		return "its own " + kind
	case cred == 0 && blk == 1 && idx == 0:
		return "the vote list and aggregate (" + kind + ") of the sibling block (other hash)"
	}
	var ps []string
	if cred == 1 {
		ps = append(ps, "credentials of the other round index")
	} else {
		ps = append(ps, "credentials of its own round index")
	}
	who := "its own hash"
	if blk == 1 {
		who = "the sibling block's hash"
	}
	at := "its own round index"
	if idx == 1 {
		at = "the other round index"
	}
	return kind + " with " + strings.Join(append(ps, "signatures and aggregate over "+who+" at "+at), ", ")
}

// class: what the header is, independent of which of the two blocks it is.
func (h HHdr) class(cert bool) string {
	s := votesText("precommits", h.Cred, h.SigBlk, h.SigIdx, h.Sub)
	if h.UV == 1 {
		s += ", vote record at the next round index"
	}
	if cert {
		s += " and " + votesText("certificate votes", 0, h.CBlk, h.CIdx, h.CSub)
	}
	return s
}

// parts: the ways in which the header's votes are not honest votes for this header.
func (h HHdr) parts() []string {
	var ps []string
	add := func(kind string, cred, blk, idx int, sub string) {
		if cred == 1 {
			ps = append(ps, kind+" credentials of another round index")
		}
		if blk == 1 {
			ps = append(ps, kind+" signatures and aggregate over the hash of another block (the sibling's)")
		}
		if idx == 1 {
			ps = append(ps, kind+" signatures and aggregate over another round index")
		}
		if sub != "" {
			ps = append(ps, "fewer "+kind+"s than the quorum under the same header hash")
		}
	}
	add("precommit", h.Cred, h.SigBlk, h.SigIdx, h.Sub)
	add("certificate vote", 0, h.CBlk, h.CIdx, h.CSub)
	return ps
}

func (h HHdr) deviations() int { return len(h.parts()) }

// HOp is one verification.
type HOp struct {
	H     HHdr   `json:"header"`
	Entry string `json:"entry_point"`
}

// HSpec is the replayable input of one history case.
type HSpec struct {
	Kind string `json:"kind"` // "history"
	Net  uint64 `json:"network_id"`
	Cfg  string `json:"config"`
	Ver  uint64 `json:"version"`
	Cert bool   `json:"certificate_round,omitempty"`
	Ops  []HOp  `json:"verified_in_this_order_on_one_server_instance"`
}

// hist is the per-fixture state of the dimension.
type hist struct {
	x       *ctx
	chain   consensus.ChainReader
	pl      *planted
	blocks  [2]*types.Block
	entries map[string]Entry
	mu      sync.Mutex
	built   map[string]*Forged // HHdr key -> header + ground truth
	oracle  map[string]Verdict // HHdr key -> verdict
	fresh   sync.Map           // HHdr key | entry -> pathRes on a fresh instance
}

func (x *ctx) newHist() (*hist, error) {
	c := x.c
	h := &hist{x: x, entries: map[string]Entry{}, built: map[string]*Forged{}, oracle: map[string]Verdict{}}
	var err error
	if h.chain, h.pl, err = c.lbChain(); err != nil {
		return nil, err
	}
	if h.chain == nil {
		return nil, fmt.Errorf("planted look-back header rejected: %s", h.pl.err)
	}
	for k := 0; k < 2; k++ {
		if h.blocks[k], _, err = c.ProposeWith(c.Proposer, c.HonestRI, ProposalOpts{Sibling: k}); err != nil {
			return nil, err
		}
	}
	if h.blocks[0].Hash() == h.blocks[1].Hash() {
		return nil, fmt.Errorf("sibling block has the same hash")
	}
	for _, e := range c.entries(false) {
		h.entries[e.Name] = e
	}
	return h, nil
}

// build constructs the header named by d.
func (hs *hist) build(d HHdr) (*Forged, error) {
	hs.mu.Lock()
	defer hs.mu.Unlock()
	if f, ok := hs.built[d.key()]; ok {
		return f, nil
	}
	c := hs.x.c
	f := &Forged{Cert: c.IsCert, Chain: hs.chain}
	if hs.pl != nil {
		pcd, err := ucon.GetConsensusDataFromHeader(hs.pl.header)
		if err != nil {
			return nil, err
		}
		f.CertSeed, f.PlantedTC = pcd.Seed, pcd.CertValThreshold
	}
	header := hs.blocks[d.Blk].Header()
	round := header.Number
	ri := c.HonestRI
	uvIndex := ri + uint32(d.UV)
	material := func(view *SetView, seed common.Hash, step uint32, th uint64, cred, blk, idx int, sub string) (list []listed) {
		credIndex := ri + uint32(d.UV^cred)
		pay := VotePayload(hs.blocks[d.Blk^blk].Hash(), round, ri+uint32(d.UV^idx))
		for i, m := range c.Voters {
			if sub == "none" || (sub == "one" && i > 0) {
				continue
			}
			rec := view.Rec(m.Name)
			if cr := c.SortitionIn(view.Total, m, seed, credIndex, step, th, rec.Stake); cr.J > 0 {
				list = append(list, listed{Vote: ucon.SingleVote{VoterIdx: uint32(rec.Index), Votes: cr.J, Proof: cr.Proof}, Signer: m, Sig: c.BlsSign(m, pay), Pay: pay})
			}
		}
		return
	}
	var err error
	pre := material(c.True, c.LBSeed, uint32(ucon.Precommit), c.CP.ValidatorThreshold, d.Cred, d.SigBlk, d.SigIdx, d.Sub)
	uv := &ucon.UconValidators{RoundIndex: uvIndex, MCAggrSig: []byte{}, CCAggrSig: []byte{}}
	if uv.SCAggrSig, f.AggKind, f.AggOf, err = sumAgg(pre); err != nil {
		return nil, err
	}
	for _, e := range pre {
		uv.ChamberCommitters = append(uv.ChamberCommitters, e.Vote)
	}
	uc := &ucon.UconValidators{RoundIndex: uvIndex}
	if c.IsCert {
		certs := material(c.CertView, f.CertSeed, uint32(ucon.Certificate), c.CP.CertValThreshold, 0, d.CBlk, d.CIdx, d.CSub)
		uc = &ucon.UconValidators{RoundIndex: uvIndex, SCAggrSig: []byte{}, MCAggrSig: []byte{}}
		if uc.CCAggrSig, f.CertAggKind, f.CertAggOf, err = sumAgg(certs); err != nil {
			return nil, err
		}
		for _, e := range certs {
			uc.ChamberCerts = append(uc.ChamberCerts, e.Vote)
		}
	}
	if header.Validator, err = rlp.EncodeToBytes(uv); err != nil {
		return nil, err
	}
	if header.Certificate, err = rlp.EncodeToBytes(uc); err != nil {
		return nil, err
	}
	f.Header = header
	hs.built[d.key()] = f
	hs.oracle[d.key()] = Oracle(c, f)
	return f, nil
}

// sumAgg: the aggregate of exactly the listed signatures, with its ground truth.
func sumAgg(list []listed) (asig []byte, kind string, of []aggPart, err error) {
	var raw [][]byte
	for _, e := range list {
		raw = append(raw, e.Sig)
		of = append(of, aggPart{e.Signer.Name, e.Pay})
	}
	kind = "sum"
	if len(raw) == 0 {
		kind = "empty"
	}
	asig, err = aggregate(raw)
	return
}

func (hs *hist) verdict(d HHdr) Verdict {
	hs.mu.Lock()
	defer hs.mu.Unlock()
	return hs.oracle[d.key()]
}

func newServer() *ucon.Server {
	sv, err := ucon.NewVRFServer(youdb.NewMemDatabase())
	if err != nil {
		panic(err)
	}
	return sv
}

// apply runs one verification on sv.
func (hs *hist) apply(sv *ucon.Server, op HOp) (pathRes, error) {
	f, err := hs.build(op.H)
	if err != nil {
		return pathRes{}, err
	}
	ep, ok := hs.entries[op.Entry]
	if !ok {
		return pathRes{}, fmt.Errorf("unknown entry point %q", op.Entry)
	}
	p := runPath(ep.Name, func() error { return ep.Run(sv, hs.x.c, hs.chain, f.Header) })
	p.CertOnly = ep.CertOnly
	return p, nil
}

// freshVerdict: the verdict of an instance that has verified nothing else.
func (hs *hist) freshVerdict(op HOp) (pathRes, error) {
	k := op.H.key() + "|" + op.Entry
	if v, ok := hs.fresh.Load(k); ok {
		return v.(pathRes), nil
	}
	p, err := hs.apply(newServer(), op)
	if err != nil {
		return p, err
	}
	hs.fresh.Store(k, p)
	return p, nil
}

func (hs *hist) want(op HOp, p pathRes) bool {
	o := hs.verdict(op.H)
	if p.CertOnly {
		return o.CertOK
	}
	return o.Accept
}

// headers of the family.
func (hs *hist) alphabet() []HHdr {
	var out []HHdr
	if !hs.x.c.IsCert {
		for blk := 0; blk < 2; blk++ {
			for uv := 0; uv < 2; uv++ {
				for cred := 0; cred < 2; cred++ {
					for sb := 0; sb < 2; sb++ {
						for si := 0; si < 2; si++ {
							out = append(out, HHdr{Blk: blk, UV: uv, Cred: cred, SigBlk: sb, SigIdx: si})
						}
					}
				}
				out = append(out, HHdr{Blk: blk, UV: uv, Sub: "one"}, HHdr{Blk: blk, UV: uv, Sub: "none"})
			}
		}
		return out
	}
	// certificate rounds: precommits own / the sibling's × certificate votes over (own | sibling's hash) × (own | other index), or fewer
	for blk := 0; blk < 2; blk++ {
		for sb := 0; sb < 2; sb++ {
			for cb := 0; cb < 2; cb++ {
				for ci := 0; ci < 2; ci++ {
					out = append(out, HHdr{Blk: blk, SigBlk: sb, CBlk: cb, CIdx: ci})
				}
			}
			out = append(out, HHdr{Blk: blk, SigBlk: sb, CSub: "one"}, HHdr{Blk: blk, SigBlk: sb, CSub: "none"})
		}
	}
	return out
}

// core: the sub-family used at the larger depth.
func (hs *hist) coreAlphabet() []HHdr {
	if !hs.x.c.IsCert {
		if hs.x.r.Quick() {
			return []HHdr{{}, {Blk: 1}, {Blk: 1, SigBlk: 1}, {Blk: 1, Sub: "none"}}
		}
		return []HHdr{{}, {Blk: 1}, {Blk: 1, SigBlk: 1}, {Blk: 1, UV: 1, SigIdx: 1}, {Blk: 1, Sub: "none"}}
	}
	if hs.x.r.Quick() {
		return []HHdr{{}, {Blk: 1}, {Blk: 1, SigBlk: 1, CBlk: 1}, {Blk: 1, CSub: "none"}}
	}
	return []HHdr{{}, {Blk: 1}, {Blk: 1, SigBlk: 1, CBlk: 1}, {Blk: 1, CBlk: 1}, {Blk: 1, CSub: "none"}}
}

func (hs *hist) entryNames(core bool) []string {
	var out []string
	for _, e := range hs.x.c.entries(false) {
		if core && e.Name != "VerifyHeader" && ((!hs.x.c.IsCert && e.Name != "VerifySideChainHeader") || (hs.x.c.IsCert && e.Name != "VerifyAcHeader")) {
			continue
		}
		out = append(out, e.Name)
	}
	return out
}

func (hs *hist) spec(ops []HOp) HSpec {
	c := hs.x.c
	return HSpec{Kind: "history", Net: params.NetworkId(), Cfg: c.Name, Ver: uint64(c.Version), Cert: c.certPair != nil, Ops: append([]HOp{}, ops...)}
}

// run executes the sequence on one fresh instance and returns its verdicts.
func (hs *hist) run(ops []HOp) ([]pathRes, error) {
	sv := newServer()
	var out []pathRes
	for _, op := range ops {
		p, err := hs.apply(sv, op)
		if err != nil {
			return nil, err
		}
		out = append(out, p)
		if p.Panic != "" {
			break
		}
	}
	return out, nil
}

func sameVerdicts(a, b []pathRes) bool {
	if len(a) != len(b) {
		return false
	}
	for i := range a {
		if a[i].Accept != b[i].Accept || a[i].Panic != b[i].Panic {
			return false
		}
	}
	return true
}

// rel: how an earlier header relates to the one whose verdict is wrong.
func rel(earlier, last HHdr) string {
	if earlier.Blk == last.Blk {
		return "the same block"
	}
	return "the sibling block (other hash)"
}

func (hs *hist) describeOps(ops []HOp, res []pathRes) string {
	var ls []string
	for i, op := range ops {
		v := "not run"
		if i < len(res) {
			v = "REJECTED: " + res[i].Err
			if res[i].Accept {
				v = "ACCEPTED"
			}
			if res[i].Panic != "" {
				v = "PANIC: " + res[i].Panic
			}
		}
		o := hs.verdict(op.H)
		ls = append(ls, fmt.Sprintf("  %d. %s(block B%d %s: %s) -> %s   [oracle: accept=%v weight=%d/%d%s]", i+1, op.Entry, op.H.Blk+1,
			hs.blocks[op.H.Blk].Hash().TerminalString(), op.H.class(hs.x.c.IsCert), v, o.Accept, o.Weight, o.Quorum,
			map[bool]string{true: fmt.Sprintf(" cert=%d/%d", o.CertWeight, o.CertQuorum), false: ""}[o.CertRound]))
	}
	return strings.Join(ls, "\n")
}

// checkSeq runs one sequence and judges every verdict in it.
func (hs *hist) checkSeq(ops []HOp) {
	x, r, c := hs.x, hs.x.r, hs.x.c
	res, err := hs.run(ops)
	if err != nil {
		r.HarnessError("history: " + err.Error())
		return
	}
	atomic.AddInt64(&r.Executions, 1)
	atomic.AddInt64(&r.Transitions, int64(len(res)))
	if len(ops) > 1 {
		r.Distinct("hist/" + c.Name + "/" + fmt.Sprint(ops))
	}
	cert := c.IsCert
	for i, p := range res {
		op := ops[i]
		if i < len(res)-1 {
			continue // judged by the execution that ends here
		}
		if p.Panic != "" {
			r.Count("history: verifier_panicked", 1)
			x.offerRaw("", "verifier panics with history: "+panicSite(p.Where)+": "+normErr(p.Panic), "", nil, fmt.Sprintf("%02d", len(ops)),
				mc.Violation{Config: c.Name, Input: hs.spec(ops[:i+1]), Detail: hs.describeOps(ops[:i+1], res)})
			return
		}
		want := hs.want(op, p)
		fr, err := hs.freshVerdict(op)
		if err != nil {
			r.HarnessError("history: " + err.Error())
			return
		}
		switch {
		case p.Accept && want:
			r.Count("history: agree_accept", 1)
		case !p.Accept && !want:
			r.Count("history: agree_reject", 1)
		}
		if p.Accept != fr.Accept {
			r.Count("history: VERDICT_DIFFERS_FROM_FRESH_INSTANCE", 1)
		}
		if i > 0 {
			prev := res[i-1]
			switch {
			case prev.Accept && !want:
				r.Count("history: forged_header_after_an_accepted_one", 1)
				if ops[i-1].H.Blk != op.H.Blk && op.H.SigBlk == 1 {
					r.Count("history: sibling_material_replayed_after_the_sibling_was_accepted", 1)
				}
			case !prev.Accept && want:
				r.Count("history: honest_header_after_a_rejected_one", 1)
			case prev.Accept && want:
				r.Count("history: honest_header_after_an_accepted_one", 1)
			default:
				r.Count("history: forged_header_after_a_rejected_one", 1)
			}
			if ops[i-1].H == op.H {
				r.Count("history: same_header_verified_again", 1)
			}
		}
		if p.Accept == want {
			continue
		}
		// confirm: the same sequence twice more on new instances
		for k := 0; k < 2; k++ {
			again, err := hs.run(ops[:i+1])
			if err != nil || !sameVerdicts(again, res[:i+1]) {
				r.HarnessError(fmt.Sprintf("history: verdicts of %v are not reproducible", ops[:i+1]))
				return
			}
		}
		// drop earlier verifications the wrong verdict does not need: one defect, one signature
		ops = hs.minimiseSeq(ops[:i+1], p.Accept)
		i = len(ops) - 1
		if res, err = hs.run(ops); err != nil || len(res) != len(ops) {
			r.HarnessError(fmt.Sprintf("history: minimised sequence %v does not run", ops))
			return
		}
		var earlier []string
		dev := 0
		for _, e := range ops[:i] {
			earlier = append(earlier, rel(e.H, op.H)+" with "+e.H.class(cert))
			dev += e.H.deviations()
		}
		// simplest witness: shortest history, then the most honest one
		eps := map[string]bool{}
		for _, e := range ops[:i+1] {
			eps[e.Entry] = true
		}
		rank := fmt.Sprintf("%02d|%02d|%02d|%s", len(ops), dev, len(eps), fmt.Sprint(ops))
		detail := fmt.Sprintf("one Server instance, in this order:\n%s\nthe same header through the same entry point on an instance that verified nothing else: accept=%v %s\n%s",
			hs.describeOps(ops[:i+1], res), fr.Accept, fr.Err, x.context())
		v := mc.Violation{Config: c.Name, Input: hs.spec(ops[:i+1]), Detail: detail}
		parts := op.H.parts()
		switch {
		case p.Accept && fr.Accept:
			r.Count("history: VIOLATING_CASES_accepted_without_protocol_quorum", 1)
			head := "accepted (fresh verifier instance as well): header with "
			x.offerRaw("", head+strings.Join(parts, " + "), head, parts, rank, v)
		case p.Accept:
			r.Count("history: VIOLATING_CASES_accepted_without_protocol_quorum", 1)
			r.Count("history: VIOLATING_CASES_accepted_only_with_history", 1)
			r.Count("history: accepted_only_after: "+strings.Join(earlier, "; then "), 1)
			head := "accepted only because of what the same verifier instance verified before (a fresh instance rejects): header with "
			x.offerRaw("", head+strings.Join(parts, " + "), head, parts, rank, v)
		case op.H.honest() && fr.Accept:
			r.Count("history: VIOLATING_CASES_honest_header_rejected_only_with_history", 1)
			r.Count("history: rejected_only_after: "+strings.Join(earlier, "; then "), 1)
			x.offerRaw("", "rejected honest header only because of what the same verifier instance verified before (a fresh instance accepts)"+certTag(c), "", nil, rank, v)
		case op.H.honest():
			r.Count("history: VIOLATING_CASES_honest_header_rejected", 1)
			x.offerRaw(honestGroup(c), "rejected honest header"+certTag(c)+" ["+op.Entry+"]: "+op.H.class(cert), "", nil, "02|"+rank, v)
		default:
			r.Count("history: verifier_stricter_on_non_honest_header", 1)
		}
	}
}

// minimiseSeq removes earlier operations one at a time while the last verdict stays the (wrong) one observed.
func (hs *hist) minimiseSeq(ops []HOp, wrong bool) []HOp {
	for again := true; again && len(ops) > 1; {
		again = false
		for j := 0; j < len(ops)-1; j++ {
			cand := append(append([]HOp{}, ops[:j]...), ops[j+1:]...)
			res, err := hs.run(cand)
			if err == nil && len(res) == len(cand) && res[len(res)-1].Panic == "" && res[len(res)-1].Accept == wrong {
				ops, again = cand, true
				break
			}
		}
	}
	return ops
}

// exploreHist: every sequence of length 1 and 2 over (family × entry points) — the last header taken from the
// sibling's half of the family, the halves being mirror images — and every sequence of length 3 (thorough: 4)
// over the core sub-family.  Quick tier, length 2: the two entry points are the same one or one of them is
// VerifyHeader (state kept by one entry point / state shared by all of them), and a pair of headers the oracle
// both rejects goes through one entry point twice; thorough: the full product.
func (x *ctx) exploreHist() {
	r := x.r
	hs, err := x.newHist()
	if err != nil {
		r.HarnessError("history: " + err.Error())
		return
	}
	all := hs.alphabet()
	for _, d := range all {
		if _, err := hs.build(d); err != nil {
			r.HarnessError("history: build " + d.key() + ": " + err.Error())
			return
		}
	}
	ents := hs.entryNames(false)
	var first, last []HOp
	for _, d := range all {
		for _, e := range ents {
			first = append(first, HOp{d, e})
			if d.Blk == 1 {
				last = append(last, HOp{d, e})
			}
		}
		if o := hs.verdict(d); o.Accept {
			r.Count("history: family_headers_the_oracle_accepts", 1)
		} else {
			r.Count("history: family_headers_the_oracle_rejects", 1)
		}
		r.Distinct("hist/" + x.c.Name + "/" + d.key())
	}
	r.Count("history: entry_points", int64(len(ents)))
	// length 1 (= the fresh verdicts)
	r.ForEach(len(first), func(w, i int) { hs.checkSeq([]HOp{first[i]}) })
	// length 2
	var pairs [][2]HOp
	acc := func(d HHdr) bool { o := hs.verdict(d); return o.Accept || (o.CertRound && o.CertOK) }
	for _, a := range first {
		for _, b := range last {
			if r.Quick() {
				if a.Entry != b.Entry && a.Entry != "VerifyHeader" && b.Entry != "VerifyHeader" {
					continue
				}
				if !acc(a.H) && !acc(b.H) {
					// two headers every entry point must reject: the same header twice (or its mirror image on the other block)
					m := a.H
					m.Blk = b.H.Blk
					if a.Entry != b.Entry || m != b.H {
						continue
					}
				}
			}
			pairs = append(pairs, [2]HOp{a, b})
		}
	}
	r.ForEach(len(pairs), func(w, i int) { hs.checkSeq(pairs[i][:]) })
	r.Count("history: sequences_of_length_2", int64(len(pairs)))
	// length 3 over the core sub-family
	var core []HOp
	for _, d := range hs.coreAlphabet() {
		for _, e := range hs.entryNames(true) {
			core = append(core, HOp{d, e})
		}
	}
	n := len(core)
	depth := 3
	if !r.Quick() {
		depth = 4
	}
	dims := make([]int, depth)
	for i := range dims {
		dims[i] = n
	}
	r.Enum(dims, func(w int, idx []int) {
		ops := make([]HOp, depth)
		for i := range idx {
			ops[depth-1-i] = core[idx[i]]
		}
		hs.checkSeq(ops)
	})
	total := int64(1)
	for range dims {
		total *= int64(n)
	}
	r.Count(fmt.Sprintf("history: sequences_of_length_%d_over_the_core_family", depth), total)
	r.Sample(map[string]interface{}{"history": fmt.Sprintf("family of %d headers × %d entry points; e.g. %s", len(all), len(ents), hs.describeOps([]HOp{{HHdr{}, ents[0]}, {HHdr{Blk: 1, SigBlk: 1}, ents[0]}}, nil))})
}
