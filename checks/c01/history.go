package c01

import (
	"fmt"
	"math/big"
	"strings"
	"sync"
	"sync/atomic"

	"github.com/youchainhq/go-youchain/common"
	"github.com/youchainhq/go-youchain/consensus"
	"github.com/youchainhq/go-youchain/consensus/ucon"
	"github.com/youchainhq/go-youchain/core/types"
	"github.com/youchainhq/go-youchain/event"
	"github.com/youchainhq/go-youchain/params"
	"github.com/youchainhq/go-youchain/rlp"
	"github.com/youchainhq/go-youchain/youdb"

	"verif/mc"
)

// Verifier history.
//
// The verdict on a header must not depend on what the same Server instance
// verified before.  The alphabet of this dimension is the family of headers
// that re-use material of ANOTHER header an honest committee produced: two
// blocks of the same proposer for the same (round, index) — B1 and its sibling
// B2, other transactions, other hash — each votable at the proposal's round
// index and re-votable at the next one, and for every header the product of
// (credentials for this / the other index) × (signatures and aggregate over
// this block's / the sibling's hash) × (at this / the other index), plus
// headers with the same hash and fewer votes (one precommit, none: the vote
// records are not covered by the hash).  Every sequence of (header, entry
// point) pairs up to the bound runs on ONE fresh Server; every verdict in it is
// compared with the independent calculator and with the verdict a fresh
// instance gives on the same header through the same entry point.

// HHdr names one header of the family (zero value = B1 with its own honest votes).
type HHdr struct {
	Blk    int    `json:"block"`                             // 0 = B1, 1 = its sibling B2
	UV     int    `json:"votes_at_next_round_index"`         // 0: UconValidators.RoundIndex = the proposal's index ri; 1: ri+1 (re-vote)
	Cred   int    `json:"credentials_of_other_index"`        // 1: the precommit credentials are those for the other of the two indexes
	SigBlk int    `json:"signatures_over_sibling_hash"`      // 1: precommit signatures and aggregate are over the sibling block's hash
	SigIdx int    `json:"signatures_over_other_index"`       // 1: … over the other of the two indexes
	Sub    string `json:"precommit_list,omitempty"`          // "" every entitled member's, "one" = the first member's only, "none"
	CBlk   int    `json:"cert_signatures_over_sibling_hash"` // certificate rounds: same for the certificate votes
	CIdx   int    `json:"cert_signatures_over_other_index"`
	CSub   string `json:"certificate_list,omitempty"`
	// Borrowed credentials: every entitled member other than the lender (the member with the most seats) lists an entry
	// of its own (own voter index, own signature, summed into the aggregate) carrying the LENDER's sortition proof and
	// the seat count the lender's VRF output yields with the borrower's stake.  "alone": the lender's genuine vote is
	// not listed; "after" / "before": it is, first / last in the list.
	Bor  string `json:"borrowed_precommit_credentials,omitempty"`
	CBor string `json:"borrowed_certificate_credentials,omitempty"`
}

func (h HHdr) key() string {
	k := fmt.Sprintf("b%d.u%d.c%d.s%d%d.%s.C%d%d.%s", h.Blk, h.UV, h.Cred, h.SigBlk, h.SigIdx, h.Sub, h.CBlk, h.CIdx, h.CSub)
	if h.Bor != "" || h.CBor != "" {
		k += ".B" + h.Bor + "." + h.CBor
	}
	return k
}

// ownVotes: nothing but honest votes for this very header (possibly fewer than all).
func (h HHdr) ownVotes() bool {
	return h.Cred == 0 && h.SigBlk == 0 && h.SigIdx == 0 && h.CBlk == 0 && h.CIdx == 0 && h.Bor == "" && h.CBor == ""
}

func borrowText(kind, bor string) string {
	s := kind + " of every member but one carrying that one member's (the lender's) sortition proof, "
	switch bor {
	case "alone":
		return s + "the lender's genuine vote not listed"
	case "after":
		return s + "listed after the lender's genuine vote"
	}
	return s + "listed before the lender's genuine vote"
}

// honest: what an honest committee produces.
func (h HHdr) honest() bool { return h.ownVotes() && h.Sub == "" && h.CSub == "" && h.Blk != blkBorrowedProposer }

// Blocks of the family: B1, its sibling B2, B3 = the honest proposal of another member (the lender of a proposer
// credential) for the same (round, index), B4 = a block of the fixture's proposer carrying B3's proposer credential
// (the lender's proof bytes; seat count and priority as the lender's VRF output yields with the proposer's stake).
const (
	blkLender           = 2
	blkBorrowedProposer = 3
)

func votesText(kind string, cred, blk, idx int, sub string) string {
	switch {
	case cred == 0 && blk == 0 && idx == 0:
		switch sub {
		case "one":
			return "only one of its own " + kind
		case "none":
			return "no " + kind + " at all"
		}
		return "its own " + kind
	case cred == 0 && blk == 1 && idx == 0:
		return "the vote list and aggregate (" + kind + ") of the sibling block (other hash)"
	}
	var ps []string
	if cred == 1 {
		ps = append(ps, "credentials of the other round index")
	} else {
		ps = append(ps, "credentials of its own round index")
	}
	who := "its own hash"
	if blk == 1 {
		who = "the sibling block's hash"
	}
	at := "its own round index"
	if idx == 1 {
		at = "the other round index"
	}
	return kind + " with " + strings.Join(append(ps, "signatures and aggregate over "+who+" at "+at), ", ")
}

// class: what the header is, independent of which of the two blocks it is.
func (h HHdr) class(cert bool) string {
	s := votesText("precommits", h.Cred, h.SigBlk, h.SigIdx, h.Sub)
	if h.Bor != "" {
		s = borrowText("precommits", h.Bor)
	}
	if h.UV == 1 {
		s += ", vote record at the next round index"
	}
	switch h.Blk {
	case blkLender:
		s = "the honest proposal of another member, the lender of a proposer credential; " + s
	case blkBorrowedProposer:
		s = "proposed under the LENDER's proposer credential (its proof bytes, seat count and priority recomputed with the proposer's stake); " + s
	}
	if cert {
		if h.CBor != "" {
			s += " and " + borrowText("certificate votes", h.CBor)
		} else {
			s += " and " + votesText("certificate votes", 0, h.CBlk, h.CIdx, h.CSub)
		}
	}
	return s
}

// parts: the ways in which the header's votes are not honest votes for this header.
func (h HHdr) parts() []string {
	var ps []string
	add := func(kind string, cred, blk, idx int, sub string) {
		if (kind == "precommit" && h.Bor != "") || (kind == "certificate vote" && h.CBor != "") {
			ps = append(ps, kind+" credentials borrowed from another member (its sortition proof listed under other members' keys)")
		}
		if cred == 1 {
			ps = append(ps, kind+" credentials of another round index")
		}
		if blk == 1 {
			ps = append(ps, kind+" signatures and aggregate over the hash of another block (the sibling's)")
		}
		if idx == 1 {
			ps = append(ps, kind+" signatures and aggregate over another round index")
		}
		if sub != "" {
			ps = append(ps, "fewer "+kind+"s than the quorum under the same header hash")
		}
	}
	if h.Blk == blkBorrowedProposer {
		ps = append(ps, "proposer credential made by another member's key")
	}
	add("precommit", h.Cred, h.SigBlk, h.SigIdx, h.Sub)
	add("certificate vote", 0, h.CBlk, h.CIdx, h.CSub)
	return ps
}

func (h HHdr) deviations() int { return len(h.parts()) }

// HOp is one verification.
type HOp struct {
	H     HHdr   `json:"header"`
	Entry string `json:"entry_point"`
	// Live (Entry == liveEntry): not a header verification but a vote MESSAGE handled by the live vote path of the same
	// Server (a mining node's wiring without its goroutines): the lender's genuine "precommit" / "certificate" vote
	// for block H.Blk at the proposal's round index.
	Live string `json:"live_vote_message,omitempty"`
}

const liveEntry = "live vote message (Voter.processVoteMsg -> Server.verifySortition)"

// HSpec is the replayable input of one history case.
type HSpec struct {
	Kind string `json:"kind"` // "history"
	Net  uint64 `json:"network_id"`
	Cfg  string `json:"config"`
	Ver  uint64 `json:"version"`
	Cert bool   `json:"certificate_round,omitempty"`
	Ops  []HOp  `json:"verified_in_this_order_on_one_server_instance"`
}

// hist is the per-fixture state of the dimension.
type hist struct {
	x       *ctx
	chain   consensus.ChainReader
	pl      *planted
	blocks  []*types.Block // B1, its sibling B2 [, B3 = the honest proposal of another member (the lender) for the same (round, index), B4 = a block of the fixture's proposer carrying the lender's proposer credential]
	entries map[string]Entry
	mu      sync.Mutex
	built   map[string]*Forged // HHdr key -> header + ground truth
	oracle  map[string]Verdict // HHdr key -> verdict
	fresh   sync.Map           // HHdr key | entry -> pathRes on a fresh instance
}

func (x *ctx) newHist() (*hist, error) {
	c := x.c
	h := &hist{x: x, entries: map[string]Entry{}, built: map[string]*Forged{}, oracle: map[string]Verdict{}}
	var err error
	if h.chain, h.pl, err = c.lbChain(); err != nil {
		return nil, err
	}
	if h.chain == nil {
		return nil, fmt.Errorf("planted look-back header rejected: %s", h.pl.err)
	}
	for k := 0; k < 2; k++ {
		b, _, err := c.ProposeWith(c.Proposer, c.HonestRI, ProposalOpts{Sibling: k})
		if err != nil {
			return nil, err
		}
		h.blocks = append(h.blocks, b)
	}
	// a borrowed PROPOSER credential: needs another entitled member with a proposer seat at this round index
	if y, lend := c.proposerLenderMember(c.Proposer, c.HonestRI, c.CP.ProposerThreshold), c.proposerLender(c.Proposer, c.HonestRI, c.CP.ProposerThreshold); y != nil && lend != nil {
		b3, _, err := c.ProposeWith(y, c.HonestRI, ProposalOpts{Sibling: 2})
		if err != nil {
			return nil, err
		}
		b4, _, err := c.ProposeWith(c.Proposer, c.HonestRI, ProposalOpts{Sibling: 3, Cred: lend})
		if err != nil {
			return nil, err
		}
		h.blocks = append(h.blocks, b3, b4)
	}
	if h.blocks[0].Hash() == h.blocks[1].Hash() {
		return nil, fmt.Errorf("sibling block has the same hash")
	}
	for _, e := range c.entries(false) {
		h.entries[e.Name] = e
	}
	return h, nil
}

// build constructs the header named by d.
func (hs *hist) build(d HHdr) (*Forged, error) {
	hs.mu.Lock()
	defer hs.mu.Unlock()
	if f, ok := hs.built[d.key()]; ok {
		return f, nil
	}
	c := hs.x.c
	if d.Blk < 0 || d.Blk >= len(hs.blocks) {
		return nil, fmt.Errorf("the family has no block %d", d.Blk+1)
	}
	f := &Forged{Cert: c.IsCert, Chain: hs.chain}
	if hs.pl != nil {
		pcd, err := ucon.GetConsensusDataFromHeader(hs.pl.header)
		if err != nil {
			return nil, err
		}
		f.CertSeed, f.PlantedTC = pcd.Seed, pcd.CertValThreshold
	}
	header := hs.blocks[d.Blk].Header()
	round := header.Number
	ri := c.HonestRI
	uvIndex := ri + uint32(d.UV)
	material := func(view *SetView, seed common.Hash, step uint32, th uint64, cred, blk, idx int, sub, bor string) (list []listed) {
		credIndex := ri + uint32(d.UV^cred)
		pay := VotePayload(hs.blocks[d.Blk^blk].Hash(), round, ri+uint32(d.UV^idx))
		// borrowed credentials: the lender is the member with the most seats (what a coalition would pick)
		var lender *Member
		var lent *Cred
		if bor != "" {
			lender, lent = c.lender(view, seed, credIndex, step, th)
		}
		var genuine []listed // the lender's genuine vote
		for i, m := range c.Voters {
			if sub == "none" || (sub == "one" && i > 0) {
				continue
			}
			rec := view.Rec(m.Name)
			cr := c.SortitionIn(view.Total, m, seed, credIndex, step, th, rec.Stake)
			votes, proof := cr.J, cr.Proof
			if lender != nil && m != lender {
				// the lender's VRF output evaluated with this member's stake, under the lender's proof
				votes, proof = c.SortitionIn(view.Total, lender, seed, credIndex, step, th, rec.Stake).J, lent.Proof
			}
			if votes == 0 || (lent != nil && lent.J == 0) {
				continue
			}
			e := listed{Vote: ucon.SingleVote{VoterIdx: uint32(rec.Index), Votes: votes, Proof: proof}, Signer: m, Sig: c.BlsSign(m, pay), Pay: pay}
			if m == lender {
				genuine = append(genuine, e)
			} else {
				list = append(list, e)
			}
		}
		switch bor {
		case "after":
			list = append(genuine, list...)
		case "before":
			list = append(list, genuine...)
		}
		return
	}
	var err error
	pre := material(c.True, c.LBSeed, uint32(ucon.Precommit), c.CP.ValidatorThreshold, d.Cred, d.SigBlk, d.SigIdx, d.Sub, d.Bor)
	uv := &ucon.UconValidators{RoundIndex: uvIndex, MCAggrSig: []byte{}, CCAggrSig: []byte{}}
	if uv.SCAggrSig, f.AggKind, f.AggOf, err = sumAgg(pre); err != nil {
		return nil, err
	}
	for _, e := range pre {
		uv.ChamberCommitters = append(uv.ChamberCommitters, e.Vote)
	}
	uc := &ucon.UconValidators{RoundIndex: uvIndex}
	if c.IsCert {
		certs := material(c.CertView, f.CertSeed, uint32(ucon.Certificate), c.CP.CertValThreshold, 0, d.CBlk, d.CIdx, d.CSub, d.CBor)
		uc = &ucon.UconValidators{RoundIndex: uvIndex, SCAggrSig: []byte{}, MCAggrSig: []byte{}}
		if uc.CCAggrSig, f.CertAggKind, f.CertAggOf, err = sumAgg(certs); err != nil {
			return nil, err
		}
		for _, e := range certs {
			uc.ChamberCerts = append(uc.ChamberCerts, e.Vote)
		}
	}
	if header.Validator, err = rlp.EncodeToBytes(uv); err != nil {
		return nil, err
	}
	if header.Certificate, err = rlp.EncodeToBytes(uc); err != nil {
		return nil, err
	}
	f.Header = header
	hs.built[d.key()] = f
	hs.oracle[d.key()] = Oracle(c, f)
	return f, nil
}

// lender: the entitled member with the most seats for (seed, index, step) and its genuine credential.
func (c *Config) lender(view *SetView, seed common.Hash, index, step uint32, th uint64) (lender *Member, lent *Cred) {
	for _, m := range c.Voters {
		if cr := c.SortitionIn(view.Total, m, seed, index, step, th, view.Rec(m.Name).Stake); lent == nil || cr.J > lent.J {
			lender, lent = m, cr
		}
	}
	return
}

type nopInserter struct{}

func (nopInserter) Insert(*types.Block) error { return nil }

// newNode: a Server wired as StartMining wires it (Voter, MessageHandler, Proposal, sortition manager; hook
// ucon.VerifC03P2NewNode: no timer, no subscription, no goroutine) for a node that is not a validator, standing at
// the round and round index of the block under verification.
func (hs *hist) newNode() (*ucon.VerifC03P2Node, error) {
	c := hs.x.c
	round := new(big.Int).SetUint64(c.Round)
	n, err := ucon.VerifC03P2NewNode(youdb.NewMemDatabase(), hs.chain, nopInserter{}, new(event.TypeMux), c.Outsider.Key, c.Outsider.BlsSk, round, c.HonestRI)
	if err != nil {
		return nil, err
	}
	n.DeliverContext(ucon.ContextChangeEvent{Round: round, RoundIndex: c.HonestRI, Step: ucon.UConStepProposal, Certificate: c.IsCert})
	return n, nil
}

// applyLive hands the lender's genuine vote to the node's live vote path exactly as MessageHandler.HandleMsg does
// for a message of the node's own round and round index.
func (hs *hist) applyLive(n *ucon.VerifC03P2Node, op HOp) (pathRes, error) {
	c := hs.x.c
	blk := hs.blocks[op.H.Blk]
	cd, err := ucon.GetConsensusDataFromHeader(blk.Header())
	if err != nil {
		return pathRes{}, err
	}
	ri := c.HonestRI
	view, seed, vt, th := c.True, c.LBSeed, ucon.Precommit, c.CP.ValidatorThreshold
	switch op.Live {
	case "precommit":
	case "certificate":
		if hs.pl == nil {
			return pathRes{}, fmt.Errorf("certificate vote message outside a certificate round")
		}
		pcd, err := ucon.GetConsensusDataFromHeader(hs.pl.header)
		if err != nil {
			return pathRes{}, err
		}
		view, seed, vt, th = c.CertView, pcd.Seed, ucon.Certificate, c.CP.CertValThreshold
	default:
		return pathRes{}, fmt.Errorf("unknown live vote %q", op.Live)
	}
	lender, lent := c.lender(view, seed, ri, uint32(vt), th)
	if lent.J == 0 {
		return pathRes{}, fmt.Errorf("the lender has no seat")
	}
	sv := &ucon.SingleVote{VoterIdx: uint32(view.Rec(lender.Name).Index), Votes: lent.J, Proof: lent.Proof,
		Signature: c.BlsSign(lender, VotePayload(blk.Hash(), blk.Number(), ri))}
	msg := &ucon.BlockHashWithVotes{Priority: cd.Priority, BlockHash: blk.Hash(), Round: blk.Number(), RoundIndex: ri, Vote: sv, Timestamp: 1}
	p := runPath(liveEntry, func() error {
		err, _ := n.Voter.VerifC02ProcessVote(vt, msg, lender.Addr, ucon.VerifC02MsgSame)
		return err
	})
	return p, nil
}

// sumAgg: the aggregate of exactly the listed signatures, with its ground truth.
func sumAgg(list []listed) (asig []byte, kind string, of []aggPart, err error) {
	var raw [][]byte
	for _, e := range list {
		raw = append(raw, e.Sig)
		of = append(of, aggPart{e.Signer.Name, e.Pay})
	}
	kind = "sum"
	if len(raw) == 0 {
		kind = "empty"
	}
	asig, err = aggregate(raw)
	return
}

func (hs *hist) verdict(d HHdr) Verdict {
	hs.mu.Lock()
	defer hs.mu.Unlock()
	return hs.oracle[d.key()]
}

func newServer() *ucon.Server {
	sv, err := ucon.NewVRFServer(youdb.NewMemDatabase())
	if err != nil {
		panic(err)
	}
	return sv
}

// apply runs one verification on sv.
func (hs *hist) apply(sv *ucon.Server, op HOp) (pathRes, error) {
	f, err := hs.build(op.H)
	if err != nil {
		return pathRes{}, err
	}
	ep, ok := hs.entries[op.Entry]
	if !ok {
		return pathRes{}, fmt.Errorf("unknown entry point %q", op.Entry)
	}
	p := runPath(ep.Name, func() error { return ep.Run(sv, hs.x.c, hs.chain, f.Header) })
	p.CertOnly = ep.CertOnly
	return p, nil
}

// freshVerdict: the verdict of an instance that has verified nothing else.
func (hs *hist) freshVerdict(op HOp) (pathRes, error) {
	k := op.H.key() + "|" + op.Entry
	if v, ok := hs.fresh.Load(k); ok {
		return v.(pathRes), nil
	}
	p, err := hs.apply(newServer(), op)
	if err != nil {
		return p, err
	}
	hs.fresh.Store(k, p)
	return p, nil
}

func (hs *hist) want(op HOp, p pathRes) bool {
	o := hs.verdict(op.H)
	if p.CertOnly {
		return o.CertOK
	}
	return o.Accept
}

// headers of the family.
func (hs *hist) alphabet() []HHdr {
	var out []HHdr
	if !hs.x.c.IsCert {
		for blk := 0; blk < 2; blk++ {
			for uv := 0; uv < 2; uv++ {
				for cred := 0; cred < 2; cred++ {
					for sb := 0; sb < 2; sb++ {
						for si := 0; si < 2; si++ {
							out = append(out, HHdr{Blk: blk, UV: uv, Cred: cred, SigBlk: sb, SigIdx: si})
						}
					}
				}
				out = append(out, HHdr{Blk: blk, UV: uv, Sub: "one"}, HHdr{Blk: blk, UV: uv, Sub: "none"})
			}
		}
		// borrowed precommit credentials (on the sibling block: first and last position of a sequence)
		for _, b := range hs.borVals() {
			out = append(out, HHdr{Blk: 1, Bor: b})
		}
		return append(out, hs.proposerFamily()...)
	}
	// certificate rounds: precommits own / the sibling's × certificate votes over (own | sibling's hash) × (own | other index), or fewer
	for blk := 0; blk < 2; blk++ {
		for sb := 0; sb < 2; sb++ {
			for cb := 0; cb < 2; cb++ {
				for ci := 0; ci < 2; ci++ {
					out = append(out, HHdr{Blk: blk, SigBlk: sb, CBlk: cb, CIdx: ci})
				}
			}
			out = append(out, HHdr{Blk: blk, SigBlk: sb, CSub: "one"}, HHdr{Blk: blk, SigBlk: sb, CSub: "none"})
		}
	}
	// borrowed certificate credentials (borrowed precommit credentials: the precommit fixture)
	for _, b := range hs.borVals() {
		out = append(out, HHdr{Blk: 1, CBor: b})
	}
	return append(out, hs.proposerFamily()...)
}

// proposerFamily: the lender's honest block and the block under the borrowed proposer credential, each with the
// honest votes for it.
func (hs *hist) proposerFamily() []HHdr {
	if len(hs.blocks) <= blkBorrowedProposer {
		hs.x.r.Count("history: no_other_member_with_a_proposer_seat_at_the_round_index (no borrowed proposer credential)", 1)
		return nil
	}
	return []HHdr{{Blk: blkLender}, {Blk: blkBorrowedProposer}}
}

// borVals: quick: the lender's genuine vote absent / listed first; thorough: also listed last.
func (hs *hist) borVals() []string {
	if hs.x.r.Quick() {
		return []string{"alone", "after"}
	}
	return []string{"alone", "after", "before"}
}

// core: the sub-family used at the larger depth.
func (hs *hist) coreAlphabet() []HHdr {
	if !hs.x.c.IsCert {
		if hs.x.r.Quick() {
			return []HHdr{{}, {Blk: 1}, {Blk: 1, SigBlk: 1}, {Blk: 1, Sub: "none"}}
		}
		return []HHdr{{}, {Blk: 1}, {Blk: 1, SigBlk: 1}, {Blk: 1, UV: 1, SigIdx: 1}, {Blk: 1, Sub: "none"}}
	}
	if hs.x.r.Quick() {
		return []HHdr{{}, {Blk: 1}, {Blk: 1, SigBlk: 1, CBlk: 1}, {Blk: 1, CSub: "none"}}
	}
	return []HHdr{{}, {Blk: 1}, {Blk: 1, SigBlk: 1, CBlk: 1}, {Blk: 1, CBlk: 1}, {Blk: 1, CSub: "none"}}
}

func (hs *hist) entryNames(core bool) []string {
	var out []string
	for _, e := range hs.x.c.entries(false) {
		if core && e.Name != "VerifyHeader" && ((!hs.x.c.IsCert && e.Name != "VerifySideChainHeader") || (hs.x.c.IsCert && e.Name != "VerifyAcHeader")) {
			continue
		}
		out = append(out, e.Name)
	}
	return out
}

func (hs *hist) spec(ops []HOp) HSpec {
	c := hs.x.c
	return HSpec{Kind: "history", Net: params.NetworkId(), Cfg: c.Name, Ver: uint64(c.Version), Cert: c.certPair != nil, Ops: append([]HOp{}, ops...)}
}

// run executes the sequence on one fresh instance and returns its verdicts.
func (hs *hist) run(ops []HOp) ([]pathRes, error) {
	var sv *ucon.Server
	var node *ucon.VerifC03P2Node
	for _, op := range ops {
		if op.Entry == liveEntry && node == nil {
			var err error
			if node, err = hs.newNode(); err != nil {
				return nil, err
			}
			sv = node.Server
		}
	}
	if sv == nil {
		sv = newServer()
	}
	var out []pathRes
	for _, op := range ops {
		var p pathRes
		var err error
		if op.Entry == liveEntry {
			p, err = hs.applyLive(node, op)
		} else {
			p, err = hs.apply(sv, op)
		}
		if err != nil {
			return nil, err
		}
		out = append(out, p)
		if p.Panic != "" {
			break
		}
	}
	return out, nil
}

func sameVerdicts(a, b []pathRes) bool {
	if len(a) != len(b) {
		return false
	}
	for i := range a {
		if a[i].Accept != b[i].Accept || a[i].Panic != b[i].Panic {
			return false
		}
	}
	return true
}

// rel: how an earlier header relates to the one whose verdict is wrong.
func rel(earlier, last HHdr) string {
	switch {
	case earlier.Blk == last.Blk:
		return "the same block"
	case earlier.Blk == blkLender && last.Blk == blkBorrowedProposer:
		return "the lender's own block"
	case earlier.Blk^1 == last.Blk && last.Blk < 2:
		return "the sibling block (other hash)"
	}
	return "another block of the same round and index"
}

func (hs *hist) describeOps(ops []HOp, res []pathRes) string {
	var ls []string
	for i, op := range ops {
		v := "not run"
		if i < len(res) {
			v = "REJECTED: " + res[i].Err
			if res[i].Accept {
				v = "ACCEPTED"
			}
			if res[i].Panic != "" {
				v = "PANIC: " + res[i].Panic
			}
		}
		if op.Entry == liveEntry {
			ls = append(ls, fmt.Sprintf("  %d. %s: the genuine %s vote of the member with the most seats (the lender) for block B%d %s at the node's round index -> %s",
				i+1, op.Entry, op.Live, op.H.Blk+1, hs.blocks[op.H.Blk].Hash().TerminalString(), v))
			continue
		}
		o := hs.verdict(op.H)
		ls = append(ls, fmt.Sprintf("  %d. %s(block B%d %s: %s) -> %s   [oracle: accept=%v weight=%d/%d%s]", i+1, op.Entry, op.H.Blk+1,
			hs.blocks[op.H.Blk].Hash().TerminalString(), op.H.class(hs.x.c.IsCert), v, o.Accept, o.Weight, o.Quorum,
			map[bool]string{true: fmt.Sprintf(" cert=%d/%d", o.CertWeight, o.CertQuorum), false: ""}[o.CertRound]))
	}
	return strings.Join(ls, "\n")
}

// checkSeq runs one sequence and judges every verdict in it.
func (hs *hist) checkSeq(ops []HOp) {
	x, r, c := hs.x, hs.x.r, hs.x.c
	res, err := hs.run(ops)
	if err != nil {
		r.HarnessError("history: " + err.Error())
		return
	}
	atomic.AddInt64(&r.Executions, 1)
	atomic.AddInt64(&r.Transitions, int64(len(res)))
	if len(ops) > 1 {
		r.Distinct("hist/" + c.Name + "/" + fmt.Sprint(ops))
	}
	cert := c.IsCert
	for i, p := range res {
		op := ops[i]
		if i < len(res)-1 {
			continue // judged by the execution that ends here
		}
		if p.Panic != "" {
			r.Count("history: verifier_panicked", 1)
			x.offerRaw("", "verifier panics with history: "+panicSite(p.Where)+": "+normErr(p.Panic), "", nil, fmt.Sprintf("%02d", len(ops)),
				mc.Violation{Config: c.Name, Input: hs.spec(ops[:i+1]), Detail: hs.describeOps(ops[:i+1], res)})
			return
		}
		want := hs.want(op, p)
		fr, err := hs.freshVerdict(op)
		if err != nil {
			r.HarnessError("history: " + err.Error())
			return
		}
		switch {
		case p.Accept && want:
			r.Count("history: agree_accept", 1)
		case !p.Accept && !want:
			r.Count("history: agree_reject", 1)
		}
		if p.Accept != fr.Accept {
			r.Count("history: VERDICT_DIFFERS_FROM_FRESH_INSTANCE", 1)
		}
		if i > 0 {
			prev := res[i-1]
			switch {
			case prev.Accept && !want:
				r.Count("history: forged_header_after_an_accepted_one", 1)
				if ops[i-1].H.Blk != op.H.Blk && op.H.SigBlk == 1 {
					r.Count("history: sibling_material_replayed_after_the_sibling_was_accepted", 1)
				}
			case !prev.Accept && want:
				r.Count("history: honest_header_after_a_rejected_one", 1)
			case prev.Accept && want:
				r.Count("history: honest_header_after_an_accepted_one", 1)
			default:
				r.Count("history: forged_header_after_a_rejected_one", 1)
			}
			if ops[i-1].H == op.H {
				r.Count("history: same_header_verified_again", 1)
			}
			if op.H.Blk == blkBorrowedProposer && ops[i-1].Entry != liveEntry && ops[i-1].H.Blk == blkLender && prev.Accept {
				r.Count("history: borrowed_proposer_credential_after_the_lender's_own_header_was_accepted", 1)
			}
			if ops[i-1].Entry == liveEntry {
				if !prev.Accept {
					r.HarnessError(fmt.Sprintf("history: the live vote path rejects the lender's genuine %s vote: %s%s", ops[i-1].Live, prev.Err, prev.Panic))
				} else if op.H.Bor != "" || op.H.CBor != "" {
					r.Count("history: borrowed_credentials_after_the_live_vote_path_verified_the_lender's_genuine_vote_message", 1)
				} else {
					r.Count("history: honest_header_after_the_live_vote_path_verified_a_vote_message", 1)
				}
			} else if (op.H.Bor != "" || op.H.CBor != "") && prev.Accept && ops[i-1].H.honest() && ops[i-1].H.UV == op.H.UV {
				r.Count("history: borrowed_credentials_after_a_header_with_the_lender's_genuine_vote_was_accepted", 1)
				if op.H.Bor == "alone" || op.H.CBor == "alone" {
					r.Count("history: borrowed_credentials_alone_after_a_header_with_the_lender's_genuine_vote_was_accepted", 1)
				}
			}
		}
		if p.Accept == want {
			continue
		}
		// confirm: the same sequence twice more on new instances
		for k := 0; k < 2; k++ {
			again, err := hs.run(ops[:i+1])
			if err != nil || !sameVerdicts(again, res[:i+1]) {
				r.HarnessError(fmt.Sprintf("history: verdicts of %v are not reproducible", ops[:i+1]))
				return
			}
		}
		// drop earlier verifications the wrong verdict does not need: one defect, one signature
		ops = hs.minimiseSeq(ops[:i+1], p.Accept)
		i = len(ops) - 1
		if res, err = hs.run(ops); err != nil || len(res) != len(ops) {
			r.HarnessError(fmt.Sprintf("history: minimised sequence %v does not run", ops))
			return
		}
		var earlier []string
		dev := 0
		for _, e := range ops[:i] {
			if e.Entry == liveEntry {
				earlier = append(earlier, "the lender's genuine "+e.Live+" vote message handled by the live vote path")
				continue
			}
			earlier = append(earlier, rel(e.H, op.H)+" with "+e.H.class(cert))
			dev += e.H.deviations()
		}
		// simplest witness: shortest history, then the most honest one
		eps := map[string]bool{}
		for _, e := range ops[:i+1] {
			eps[e.Entry] = true
		}
		rank := fmt.Sprintf("%02d|%02d|%02d|%s", len(ops), dev, len(eps), fmt.Sprint(ops))
		detail := fmt.Sprintf("one Server instance, in this order:\n%s\nthe same header through the same entry point on an instance that verified nothing else: accept=%v %s\n%s",
			hs.describeOps(ops[:i+1], res), fr.Accept, fr.Err, x.context())
		v := mc.Violation{Config: c.Name, Input: hs.spec(ops[:i+1]), Detail: detail}
		parts := op.H.parts()
		switch {
		case p.Accept && fr.Accept:
			r.Count("history: VIOLATING_CASES_accepted_without_protocol_quorum", 1)
			head := "accepted (fresh verifier instance as well): header with "
			x.offerRaw("", head+strings.Join(parts, " + "), head, parts, rank, v)
		case p.Accept:
			r.Count("history: VIOLATING_CASES_accepted_without_protocol_quorum", 1)
			r.Count("history: VIOLATING_CASES_accepted_only_with_history", 1)
			r.Count("history: accepted_only_after: "+strings.Join(earlier, "; then "), 1)
			head := "accepted only because of what the same verifier instance verified before (a fresh instance rejects): header with "
			x.offerRaw("", head+strings.Join(parts, " + "), head, parts, rank, v)
		case op.H.honest() && fr.Accept:
			r.Count("history: VIOLATING_CASES_honest_header_rejected_only_with_history", 1)
			r.Count("history: rejected_only_after: "+strings.Join(earlier, "; then "), 1)
			x.offerRaw("", "rejected honest header only because of what the same verifier instance verified before (a fresh instance accepts)"+certTag(c), "", nil, rank, v)
		case op.H.honest():
			r.Count("history: VIOLATING_CASES_honest_header_rejected", 1)
			x.offerRaw(honestGroup(c), "rejected honest header"+certTag(c)+" ["+op.Entry+"]: "+op.H.class(cert), "", nil, "02|"+rank, v)
		default:
			r.Count("history: verifier_stricter_on_non_honest_header", 1)
		}
	}
}

// minimiseSeq removes earlier operations one at a time while the last verdict stays the (wrong) one observed.
func (hs *hist) minimiseSeq(ops []HOp, wrong bool) []HOp {
	for again := true; again && len(ops) > 1; {
		again = false
		for j := 0; j < len(ops)-1; j++ {
			cand := append(append([]HOp{}, ops[:j]...), ops[j+1:]...)
			res, err := hs.run(cand)
			if err == nil && len(res) == len(cand) && res[len(res)-1].Panic == "" && res[len(res)-1].Accept == wrong {
				ops, again = cand, true
				break
			}
		}
	}
	return ops
}

// exploreHist: every sequence of length 1 and 2 over (family × entry points) — the last header taken from the
// sibling's half of the family, the halves being mirror images — and every sequence of length 3 (thorough: 4)
// over the core sub-family.  Quick tier, length 2: the two entry points are the same one or one of them is
// VerifyHeader (state kept by one entry point / state shared by all of them), and a pair of headers the oracle
// both rejects goes through one entry point twice; thorough: the full product.
func (x *ctx) exploreHist() {
	r := x.r
	hs, err := x.newHist()
	if err != nil {
		r.HarnessError("history: " + err.Error())
		return
	}
	all := hs.alphabet()
	for _, d := range all {
		if _, err := hs.build(d); err != nil {
			r.HarnessError("history: build " + d.key() + ": " + err.Error())
			return
		}
	}
	ents := hs.entryNames(false)
	var first, last []HOp
	for _, d := range all {
		for _, e := range ents {
			first = append(first, HOp{H: d, Entry: e})
			if d.Blk == 1 || d.Blk == blkBorrowedProposer {
				last = append(last, HOp{H: d, Entry: e})
			}
		}
		if o := hs.verdict(d); o.Accept {
			r.Count("history: family_headers_the_oracle_accepts", 1)
		} else {
			r.Count("history: family_headers_the_oracle_rejects", 1)
		}
		r.Distinct("hist/" + x.c.Name + "/" + d.key())
	}
	r.Count("history: entry_points", int64(len(ents)))
	// length 1 (= the fresh verdicts)
	r.ForEach(len(first), func(w, i int) { hs.checkSeq([]HOp{first[i]}) })
	// length 2
	var pairs [][2]HOp
	acc := func(d HHdr) bool { o := hs.verdict(d); return o.Accept || (o.CertRound && o.CertOK) }
	// (the borrowed-credential headers and the two blocks of the borrowed proposer credential are paired as in the quick
	// tier in both tiers)
	added := func(d HHdr) bool { return d.Bor != "" || d.CBor != "" || d.Blk >= blkLender }
	for _, a := range first {
		for _, b := range last {
			if r.Quick() || added(a.H) || added(b.H) {
				if a.Entry != b.Entry && a.Entry != "VerifyHeader" && b.Entry != "VerifyHeader" {
					continue
				}
				if !acc(a.H) && !acc(b.H) {
					// two headers every entry point must reject: the same header twice (or its mirror image on the other block)
					m := a.H
					m.Blk = b.H.Blk
					if a.Entry != b.Entry || m != b.H {
						continue
					}
				}
			}
			pairs = append(pairs, [2]HOp{a, b})
		}
	}
	r.ForEach(len(pairs), func(w, i int) { hs.checkSeq(pairs[i][:]) })
	r.Count("history: sequences_of_length_2", int64(len(pairs)))
	// a vote message first: the live vote path of the same Server verifies the lender's genuine vote, then a header
	// (every borrowed-credential header and, as the control, the honest one) through every entry point
	var live [][]HOp
	kinds := []string{"precommit"}
	if x.c.IsCert {
		kinds = append(kinds, "certificate")
	}
	for _, k := range kinds {
		for _, d := range all {
			if d.Blk != 1 || d.UV != 0 || !(d.honest() || d.Bor != "" || d.CBor != "") {
				continue
			}
			for _, e := range ents {
				live = append(live, []HOp{{H: HHdr{Blk: 1}, Entry: liveEntry, Live: k}, {H: d, Entry: e}})
			}
		}
	}
	r.ForEach(len(live), func(w, i int) { hs.checkSeq(live[i]) })
	r.Count("history: sequences_starting_with_a_live_vote_message", int64(len(live)))
	// length 3 over the core sub-family
	var core []HOp
	for _, d := range hs.coreAlphabet() {
		for _, e := range hs.entryNames(true) {
			core = append(core, HOp{H: d, Entry: e})
		}
	}
	n := len(core)
	depth := 3
	if !r.Quick() {
		depth = 4
	}
	dims := make([]int, depth)
	for i := range dims {
		dims[i] = n
	}
	r.Enum(dims, func(w int, idx []int) {
		ops := make([]HOp, depth)
		for i := range idx {
			ops[depth-1-i] = core[idx[i]]
		}
		hs.checkSeq(ops)
	})
	total := int64(1)
	for range dims {
		total *= int64(n)
	}
	r.Count(fmt.Sprintf("history: sequences_of_length_%d_over_the_core_family", depth), total)
	r.Sample(map[string]interface{}{"history": fmt.Sprintf("family of %d headers × %d entry points; e.g. %s", len(all), len(ents), hs.describeOps([]HOp{{H: HHdr{}, Entry: ents[0]}, {H: HHdr{Blk: 1, SigBlk: 1}, Entry: ents[0]}}, nil))})
}
