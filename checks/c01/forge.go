package c01

import (
	"bytes"
	"fmt"
	"math/big"
	"strconv"
	"strings"
	"sync"

	"github.com/youchainhq/go-youchain/bls"
	"github.com/youchainhq/go-youchain/common"
	"github.com/youchainhq/go-youchain/consensus"
	"github.com/youchainhq/go-youchain/consensus/ucon"
	"github.com/youchainhq/go-youchain/core/types"
	"github.com/youchainhq/go-youchain/crypto"
	"github.com/youchainhq/go-youchain/rlp"

	"verif/mc"
)

// Spec names one forged header: a value for every dimension of the forgery
// alphabet ("" / full subset = the honest value).  It is the replayable input.
type Spec struct {
	Net     uint64 `json:"network_id"`
	Cfg     string `json:"config"`
	Ver     uint64 `json:"version"`
	Subset  int    `json:"vote_subset_mask"` // bit i = entitled member i (by look-back index order) precommits
	Mut     string `json:"vote_mutation,omitempty"`
	TV      string `json:"declared_validator_threshold,omitempty"`
	TP      string `json:"declared_proposer_threshold,omitempty"`
	TC      string `json:"declared_cert_threshold,omitempty"`
	Agg     string `json:"aggregate,omitempty"`
	RI      string `json:"validators_round_index,omitempty"`
	Prop    string `json:"proposer,omitempty"`
	CertSub int    `json:"cert_subset_mask,omitempty"` // certificate scenario only
	Scn     string `json:"scenario,omitempty"`         // "" = precommit round, "cert" = certificate round
}

func (s Spec) Key() string {
	return fmt.Sprintf("%d/%s/%d/%s|V=%x|M=%s|TV=%s|TP=%s|TC=%s|A=%s|RI=%s|P=%s|CS=%x", s.Net, s.Cfg, s.Ver, s.Scn, s.Subset, s.Mut, s.TV, s.TP, s.TC, s.Agg, s.RI, s.Prop, s.CertSub)
}

// ---- dimension values --------------------------------------------------------

var (
	targetedMuts  = []string{"dup2", "dup3", "replayIndex", "replayStep", "replayRound", "sigOtherHash", "votes+1", "votesx2", "votesMax", "votes0"}
	nonMemberMuts = []string{"idxOutOfRange", "house", "offline", "zeroStake"}
	thrBase       = []string{"0", "1", "10", "x2", "max"}
	aggVals       = []string{"", "distinct", "dropOne", "otherHash", "infinity", "empty", "garbage", "foreign"}
	riVals        = []string{"", "other/replayed", "other/revoted"}
	propVals      = []string{"", "j0", "wrongPriority", "subusers+1", "nonMember", "house", "offline", "otherIndexProof", "borrowedProof"}
)

// Borrowed credentials: borrower X's precommit entry (X's voter index, X's BLS signature over the right payload,
// summed into the aggregate) carries the sortition PROOF OF ANOTHER MEMBER Y (the lender) — the very bytes of the
// proof in Y's genuine vote.  Value "<kind>.<count>@XfromY" (X, Y = positions among the entitled members):
//
//	kind   borrowAfter   Y's proof for this (seed, Precommit, round index); X's entry placed after every other entry
//	                     (so after Y's genuine vote, when the vote subset lists Y)
//	       borrowBefore  the same, X's entry placed first (before Y's genuine vote)
//	       borrowStep    Y's proof for the Prevote step of this index (entry last)
//	       borrowIndex   Y's proof for the next round index (entry last)
//	count  L  the lender's seat count (what Y's genuine vote declares)
//	       O  the borrower's own seat count
//	       R  the seat count Y's VRF output yields with X's stake (what a verifier that took Y's output for X's
//	          would compute; = L when the stakes are equal)
//
// Whether Y's genuine vote is in the list too (borrowed next to the original) or not (borrowed alone) is the vote
// subset dimension, which the mutation dimension is paired with.
var (
	borrowKinds  = []string{"borrowAfter", "borrowBefore"}
	borrowCounts = []string{"L", "O", "R"}
	borrowOther  = []string{"borrowStep.R", "borrowIndex.R"}
)

// borrowVals: every ordered pair (borrower, lender) of entitled members × kinds × counts [firstLastOnly (quick tier):
// the borrower is the first or the last member, counts L and R, proofs of another step / index from one lender].
func borrowVals(n int, firstLastOnly bool) []string {
	var out []string
	for x := 0; x < n; x++ {
		if firstLastOnly && x != 0 && x != n-1 {
			continue
		}
		others := 0
		for y := 0; y < n; y++ {
			if y == x {
				continue
			}
			for _, k := range borrowKinds {
				for _, cnt := range borrowCounts {
					if firstLastOnly && cnt == "O" {
						continue
					}
					out = append(out, fmt.Sprintf("%s.%s@%dfrom%d", k, cnt, x, y))
				}
			}
			if others++; firstLastOnly && others > 1 {
				continue
			}
			for _, k := range borrowOther {
				out = append(out, fmt.Sprintf("%s@%dfrom%d", k, x, y))
			}
		}
	}
	return out
}

func mutVals(n int, firstLastOnly bool) []string {
	out := []string{""}
	for _, k := range targetedMuts {
		for t := 0; t < n; t++ {
			if firstLastOnly && t != 0 && t != n-1 {
				continue
			}
			out = append(out, fmt.Sprintf("%s@%d", k, t))
		}
	}
	return append(out, nonMemberMuts...)
}

// thresholds with credentials either left as the protocol's ("") or recomputed
// under the declared value ("/adapt": what a forger who wants them counted does)
func thrVals(adapt bool) []string {
	out := []string{""}
	for _, b := range thrBase {
		out = append(out, b)
		if adapt {
			out = append(out, b+"/adapt")
		}
	}
	return out
}

func thrValue(v string, proto uint64) (val uint64, adapt bool) {
	if strings.HasSuffix(v, "/adapt") {
		adapt = true
		v = strings.TrimSuffix(v, "/adapt")
	}
	switch v {
	case "":
		return proto, false
	case "x2":
		return 2 * proto, adapt
	case "max":
		return ^uint64(0), adapt
	}
	n, err := strconv.ParseUint(v, 10, 64)
	if err != nil {
		panic("harness: bad threshold value " + v)
	}
	return n, adapt
}

// ---- forged header -----------------------------------------------------------

type borrowInfo struct {
	Borrower, Lender string
	Votes            uint32 // seats the borrowed entry declares
	LenderListed     bool
}

// aggPart is the ground truth of one signature summed into the aggregate.
type aggPart struct {
	Signer  string
	Payload []byte
}

type listed struct {
	Vote   ucon.SingleVote
	Signer *Member // who produced the BLS signature accompanying this entry
	Sig    []byte
	Pay    []byte
}

// Forged is a built header plus the forger's ground truth about its aggregate.
type Forged struct {
	Spec    Spec
	Header  *types.Header
	AggKind string    // "sum" | "infinity" | "empty" | "garbage"
	AggOf   []aggPart // AggKind == "sum": exactly the signatures that were added up
	Skip    string    // non-empty: this variant does not exist in this configuration
	Classes []string  // forgery classes present (vacuity accounting)

	// certificate scenario
	Cert        bool
	CertAggKind string
	CertAggOf   []aggPart
	CertSeed    common.Hash           // seed of the certificate look-back header
	PlantedTC   uint64                // CertValThreshold that look-back header declares
	Chain       consensus.ChainReader // chain to verify on (nil: the configuration's)

	// borrowed-credential mutations: what the borrower's entry declares and whether the lender's genuine vote is listed too
	Borrow *borrowInfo

	// look-back dimension
	LB          *LBSpec
	Claimed     uint32 // precommit weight the header claims (valid under the set and seed it was drawn against)
	CertClaimed uint32
}

var (
	blsInfinity = append([]byte{0xc0}, make([]byte, 47)...)
	blsGarbage  = func() []byte {
		b := make([]byte, 48)
		for i := range b {
			b[i] = byte(0x11 + i)
		}
		return b
	}()
)

// aggregate: the forger's sum of signatures.  Decoding (a subgroup check in a pure-Go library) and the sums are
// memoised: the same few signatures are summed in thousands of headers.
var (
	decSigCache sync.Map // raw -> bls.Signature (never mutated: Aggregate adds into a new point)
	aggCache    sync.Map // concatenated raws -> aggregate bytes
)

func aggregate(sigs [][]byte) ([]byte, error) {
	if len(sigs) == 0 {
		return []byte{}, nil // what BlsVerifier.aggregateVotes returns for no votes
	}
	key := string(bytes.Join(sigs, nil))
	if v, ok := aggCache.Load(key); ok {
		return v.([]byte), nil
	}
	var ss []bls.Signature
	for _, raw := range sigs {
		if v, ok := decSigCache.Load(string(raw)); ok {
			ss = append(ss, v.(bls.Signature))
			continue
		}
		s, err := blsMgr.DecSignature(raw)
		if err != nil {
			return nil, err
		}
		decSigCache.Store(string(raw), s)
		ss = append(ss, s)
	}
	a, err := blsMgr.Aggregate(ss)
	if err != nil {
		return nil, err
	}
	out := a.Compress().Bytes()
	aggCache.Store(key, out)
	return out, nil
}

// findRI returns the first round index in 1..64 at which pred holds for the member's proposer credential.
func (c *Config) findRI(m *Member, th uint64, shift uint32, pred func(*Cred) bool) (uint32, bool) {
	for ri := uint32(1); ri <= 64; ri++ {
		if pred(c.Sortition(m, c.LBSeed, ri+shift, ucon.UConStepProposal, th, m.Stake)) {
			return ri, true
		}
	}
	return 0, false
}

// proposerLender: the proposer credential of the first other entitled member that has a seat at (seed, index) — its
// genuine proof bytes — re-evaluated with pm's stake (nil: none).
func (c *Config) proposerLender(pm *Member, ri uint32, th uint64) *Cred {
	for _, y := range c.Voters {
		if y == pm {
			continue
		}
		lent := c.Sortition(y, c.LBSeed, ri, ucon.UConStepProposal, th, y.Stake)
		j := c.Sortition(y, c.LBSeed, ri, ucon.UConStepProposal, th, pm.Stake).J
		if lent.J >= 1 && j >= 1 {
			return &Cred{Value: lent.Value, Proof: lent.Proof, J: j}
		}
	}
	return nil
}

// proposerLenderMember: whose credential proposerLender returns.
func (c *Config) proposerLenderMember(pm *Member, ri uint32, th uint64) *Member {
	for _, y := range c.Voters {
		if y == pm {
			continue
		}
		if c.Sortition(y, c.LBSeed, ri, ucon.UConStepProposal, th, y.Stake).J >= 1 && c.Sortition(y, c.LBSeed, ri, ucon.UConStepProposal, th, pm.Stake).J >= 1 {
			return y
		}
	}
	return nil
}

// Build constructs the header named by s.
func (c *Config) Build(s Spec) (f *Forged, err error) {
	f = &Forged{Spec: s}
	if msg := mc.Catch(func() { err = c.build(s, f) }); msg != "" {
		// the real sortition code panicked while the forger computed a credential
		f.Skip = "forger: " + msg
		return f, nil
	}
	return f, err
}

func (c *Config) build(s Spec, f *Forged) error {
	cp := c.CP
	tv, tvAdapt := thrValue(s.TV, cp.ValidatorThreshold)
	tp, tpAdapt := thrValue(s.TP, cp.ProposerThreshold)
	tc, _ := thrValue(s.TC, cp.CertValThreshold)
	if s.TV != "" {
		f.Classes = append(f.Classes, "declared ValidatorThreshold "+s.TV)
	}
	if s.TP != "" {
		f.Classes = append(f.Classes, "declared ProposerThreshold "+s.TP)
	}
	if s.TC != "" {
		f.Classes = append(f.Classes, "declared CertValThreshold "+s.TC)
	}
	credTP := cp.ProposerThreshold
	if tpAdapt {
		credTP = tp
	}
	credTV := cp.ValidatorThreshold
	if tvAdapt {
		credTV = tv
	}

	// ---- proposer -----------------------------------------------------------
	pm, ri := c.Proposer, c.HonestRI
	opts := ProposalOpts{Thresholds: func(cd *ucon.BlockConsensusData) {
		cd.ValidatorThreshold, cd.ProposerThreshold, cd.CertValThreshold = tv, tp, tc
	}}
	pos := func(cr *Cred) bool { return cr.J >= 1 }
	var lend *Cred
	switch s.Prop {
	case "":
	case "j0":
		found := false
		for _, m := range c.Voters {
			if r, ok := c.findRI(m, cp.ProposerThreshold, 0, func(cr *Cred) bool { return cr.J == 0 }); ok {
				pm, ri, found = m, r, true
				break
			}
		}
		if !found {
			f.Skip = "no entitled member has zero proposer seats in round indexes 1..64"
			return nil
		}
	case "wrongPriority", "subusers+1":
	case "borrowedProof":
		// the honest proposer's block carrying ANOTHER entitled member's proposer credential for this very (seed,
		// index): that member's proof bytes, seat count and priority as its VRF output yields with the proposer's stake
		if lend = c.proposerLender(pm, ri, credTP); lend == nil {
			f.Skip = "no other entitled member has a proposer seat at this round index (with its own and with the proposer's stake)"
			return nil
		}
	case "nonMember":
		pm = c.Outsider
		r, ok := c.findRI(pm, cp.ProposerThreshold, 0, pos)
		if !ok {
			f.Skip = "outsider never draws a proposer seat"
			return nil
		}
		ri = r
	case "house", "offline":
		pm = c.House
		if s.Prop == "offline" {
			pm = c.Offline
		}
		if pm == nil {
			f.Skip = "configuration has no " + s.Prop + " member"
			return nil
		}
		r, ok := c.findRI(pm, cp.ProposerThreshold, 0, pos)
		if !ok {
			f.Skip = s.Prop + " member never draws a proposer seat"
			return nil
		}
		ri = r
	case "otherIndexProof":
		r, ok := c.findRI(pm, cp.ProposerThreshold, 1, pos)
		if !ok {
			f.Skip = "no proposer seat at a neighbouring index"
			return nil
		}
		ri = r
	default:
		return fmt.Errorf("unknown proposer variant %q", s.Prop)
	}
	if s.Prop != "" {
		f.Classes = append(f.Classes, "proposer "+s.Prop)
	}
	credRI := ri
	if s.Prop == "otherIndexProof" {
		credRI = ri + 1
	}
	opts.Cred = c.Sortition(pm, c.LBSeed, credRI, ucon.UConStepProposal, credTP, pm.Stake)
	if lend != nil {
		opts.Cred = lend
	}
	switch s.Prop {
	case "wrongPriority":
		p := crypto.Keccak256Hash(ucon.VrfComputePriority(opts.Cred.Value, opts.Cred.J).Bytes())
		opts.Priority = &p
	case "subusers+1":
		j := opts.Cred.J + 1
		opts.SubUsers = &j
	}
	blk, cd, err := c.ProposeWith(pm, ri, opts)
	if err != nil {
		return err
	}
	header := blk.Header()
	hash := header.Hash()
	round := cd.Round

	// ---- round index of the vote record -------------------------------------
	uvIndex, voteIndex := ri, ri
	switch s.RI {
	case "":
	case "other/replayed":
		uvIndex = ri + 1
	case "other/revoted":
		uvIndex, voteIndex = ri+1, ri+1
	default:
		return fmt.Errorf("unknown round-index variant %q", s.RI)
	}
	if s.RI != "" {
		f.Classes = append(f.Classes, "UconValidators.RoundIndex "+s.RI)
	}
	goodPay := VotePayload(hash, round, voteIndex)
	otherHash := crypto.Keccak256Hash(hash.Bytes())
	badPay := VotePayload(otherHash, round, voteIndex)

	// ---- vote list -----------------------------------------------------------
	mutKind, target, lender := s.Mut, -1, -1
	if i := strings.Index(s.Mut, "@"); i > 0 {
		mutKind = s.Mut[:i]
		t := s.Mut[i+1:]
		if j := strings.Index(t, "from"); j > 0 {
			if lender, err = strconv.Atoi(t[j+4:]); err != nil {
				return fmt.Errorf("bad vote mutation %q", s.Mut)
			}
			t = t[:j]
		}
		if target, err = strconv.Atoi(t); err != nil || target < 0 {
			return fmt.Errorf("bad vote mutation %q", s.Mut)
		}
		if target >= len(c.Voters) || lender >= len(c.Voters) {
			f.Skip = "no such target voter"
			return nil
		}
		if strings.HasPrefix(mutKind, "borrow") != (lender >= 0) || lender == target {
			return fmt.Errorf("bad vote mutation %q", s.Mut)
		}
	}
	if s.Mut != "" {
		f.Classes = append(f.Classes, "vote "+mutKind)
	}
	entry := func(m *Member, cr *Cred, votes uint32, pay []byte) listed {
		return listed{Vote: ucon.SingleVote{VoterIdx: uint32(m.Index), Votes: votes, Proof: cr.Proof}, Signer: m, Sig: c.BlsSign(m, pay), Pay: pay}
	}
	step := uint32(ucon.Precommit)
	var list []listed
	for i, m := range c.Voters {
		if s.Subset&(1<<uint(i)) == 0 || i == target {
			continue
		}
		if cr := c.Sortition(m, c.LBSeed, voteIndex, step, credTV, m.Stake); cr.J > 0 {
			list = append(list, entry(m, cr, cr.J, goodPay))
		}
	}
	if lender >= 0 {
		e, skip, err := c.borrowed(mutKind, c.Voters[target], c.Voters[lender], voteIndex, credTV, goodPay)
		if err != nil {
			return err
		}
		if skip != "" {
			f.Skip = skip
			return nil
		}
		f.Borrow = &borrowInfo{Borrower: c.Voters[target].Name, Lender: c.Voters[lender].Name, Votes: e.Vote.Votes}
		for _, o := range list {
			if o.Signer == c.Voters[lender] {
				f.Borrow.LenderListed = true
			}
		}
		if strings.HasPrefix(mutKind, "borrowBefore.") {
			list = append([]listed{e}, list...)
		} else {
			list = append(list, e)
		}
	} else if target >= 0 {
		m := c.Voters[target]
		cr := c.Sortition(m, c.LBSeed, voteIndex, step, credTV, m.Stake)
		switch mutKind {
		case "dup2", "dup3":
			n := 2
			if mutKind == "dup3" {
				n = 3
			}
			for i := 0; i < n; i++ {
				list = append(list, entry(m, cr, cr.J, goodPay))
			}
		case "replayIndex":
			o := c.Sortition(m, c.LBSeed, voteIndex+1, step, credTV, m.Stake)
			list = append(list, entry(m, o, o.J, goodPay))
		case "replayStep":
			o := c.Sortition(m, c.LBSeed, voteIndex, uint32(ucon.Prevote), credTV, m.Stake)
			list = append(list, entry(m, o, o.J, goodPay))
		case "replayRound":
			o := c.Sortition(m, c.PrevSeed, voteIndex, step, credTV, m.Stake)
			list = append(list, entry(m, o, o.J, goodPay))
		case "sigOtherHash":
			list = append(list, entry(m, cr, cr.J, badPay))
		case "votes+1":
			list = append(list, entry(m, cr, cr.J+1, goodPay))
		case "votesx2":
			list = append(list, entry(m, cr, cr.J*2, goodPay))
		case "votesMax":
			list = append(list, entry(m, cr, ^uint32(0), goodPay))
		case "votes0":
			list = append(list, entry(m, cr, 0, goodPay))
		default:
			return fmt.Errorf("unknown vote mutation %q", s.Mut)
		}
	} else {
		switch mutKind {
		case "":
		case "idxOutOfRange":
			m := c.Voters[0]
			cr := c.Sortition(m, c.LBSeed, voteIndex, step, credTV, m.Stake)
			e := entry(c.Outsider, cr, cr.J, goodPay)
			e.Vote.VoterIdx = uint32(len(c.Members))
			list = append(list, e)
		case "house", "offline", "zeroStake":
			m := map[string]*Member{"house": c.House, "offline": c.Offline, "zeroStake": c.Zero}[mutKind]
			if m == nil {
				f.Skip = "configuration has no " + mutKind + " member"
				return nil
			}
			// the best a forger can do: the seat count the verifier itself will compute
			cr := c.Sortition(m, c.LBSeed, voteIndex, step, credTV, m.Stake)
			votes := cr.J
			if votes == 0 {
				votes = 1
			}
			list = append(list, entry(m, cr, votes, goodPay))
		default:
			return fmt.Errorf("unknown vote mutation %q", s.Mut)
		}
	}

	// ---- aggregate -----------------------------------------------------------
	if s.Agg != "" {
		f.Classes = append(f.Classes, "aggregate "+s.Agg)
	}
	var asig []byte
	if asig, f.AggKind, f.AggOf, err = c.buildAgg(list, s.Agg, goodPay, badPay); err != nil {
		return err
	}
	uv := &ucon.UconValidators{RoundIndex: uvIndex, SCAggrSig: asig, MCAggrSig: []byte{}, CCAggrSig: []byte{}}
	for _, e := range list {
		uv.ChamberCommitters = append(uv.ChamberCommitters, e.Vote)
	}
	if header.Validator, err = rlp.EncodeToBytes(uv); err != nil {
		return err
	}
	if header.Certificate, err = rlp.EncodeToBytes(&ucon.UconValidators{RoundIndex: uvIndex}); err != nil {
		return err
	}
	f.Header = header
	return nil
}

// borrowed: borrower x's precommit entry carrying lender y's sortition proof (see borrowVals).
func (c *Config) borrowed(kind string, x, y *Member, voteIndex uint32, credTV uint64, goodPay []byte) (e listed, skip string, err error) {
	i := strings.Index(kind, ".")
	if i < 0 {
		return e, "", fmt.Errorf("unknown vote mutation %q", kind)
	}
	what, count := kind[:i], kind[i+1:]
	step, index := uint32(ucon.Precommit), voteIndex
	switch what {
	case "borrowAfter", "borrowBefore":
	case "borrowStep":
		step = uint32(ucon.Prevote)
	case "borrowIndex":
		index = voteIndex + 1
	default:
		return e, "", fmt.Errorf("unknown vote mutation %q", kind)
	}
	lent := c.Sortition(y, c.LBSeed, index, step, credTV, y.Stake) // the proof bytes of the lender's genuine vote
	if lent.J == 0 {
		return e, "the lender has no seat: it casts no vote a proof could be copied from", nil
	}
	var votes uint32
	switch count {
	case "L":
		votes = lent.J
	case "O":
		votes = c.Sortition(x, c.LBSeed, voteIndex, uint32(ucon.Precommit), credTV, x.Stake).J
	case "R":
		// the lender's VRF output evaluated with the borrower's stake (VrfSortition computes the output from the key
		// and the seat count from the stake it is given)
		votes = c.Sortition(y, c.LBSeed, index, step, credTV, x.Stake).J
	default:
		return e, "", fmt.Errorf("unknown vote mutation %q", kind)
	}
	if votes == 0 {
		return e, "the borrowed credential would declare zero seats", nil
	}
	return listed{Vote: ucon.SingleVote{VoterIdx: uint32(x.Index), Votes: votes, Proof: lent.Proof}, Signer: x, Sig: c.BlsSign(x, goodPay), Pay: goodPay}, "", nil
}

// buildAgg produces the aggregate-signature variant over the listed votes and
// the ground truth of what was summed.
func (c *Config) buildAgg(list []listed, variant string, goodPay, badPay []byte) (asig []byte, kind string, of []aggPart, err error) {
	var parts []listed
	kind = "sum"
	switch variant {
	case "":
		parts = list
	case "distinct":
		seen := map[string]bool{}
		for _, e := range list {
			if !seen[e.Signer.Name] {
				seen[e.Signer.Name] = true
				parts = append(parts, e)
			}
		}
	case "dropOne":
		if len(list) > 0 {
			parts = list[:len(list)-1]
		}
	case "otherHash":
		for _, e := range list {
			e.Pay, e.Sig = badPay, c.BlsSign(e.Signer, badPay)
			parts = append(parts, e)
		}
	case "foreign":
		parts = []listed{{Signer: c.Outsider, Sig: c.BlsSign(c.Outsider, goodPay), Pay: goodPay}}
	case "infinity", "empty", "garbage":
		kind = variant
	default:
		return nil, "", nil, fmt.Errorf("unknown aggregate variant %q", variant)
	}
	switch kind {
	case "sum":
		var raw [][]byte
		for _, e := range parts {
			raw = append(raw, e.Sig)
			of = append(of, aggPart{e.Signer.Name, e.Pay})
		}
		if len(raw) == 0 {
			kind = "empty"
		}
		asig, err = aggregate(raw)
	case "infinity":
		asig = blsInfinity
	case "empty":
		asig = []byte{}
	case "garbage":
		asig = blsGarbage
	}
	return
}

// fullMask is the honest vote subset.
func (c *Config) fullMask() int { return 1<<uint(len(c.Voters)) - 1 }

// honestShaped: nothing but the vote subset (and an honest re-vote at the next
// round index) deviates — the headers honest nodes can produce.
func (s Spec) honestShaped() bool {
	return s.Mut == "" && s.TV == "" && s.TP == "" && s.TC == "" && s.Agg == "" && s.Prop == "" && (s.RI == "" || s.RI == "other/revoted")
}

var _ = big.NewInt
var _ = common.Hash{}
