package c01

import (
	"fmt"
	"sort"
	"strings"
	"sync/atomic"

	"github.com/youchainhq/go-youchain/common"
	"github.com/youchainhq/go-youchain/consensus"
	"github.com/youchainhq/go-youchain/consensus/ucon"
	"github.com/youchainhq/go-youchain/core/types"
	"github.com/youchainhq/go-youchain/params"
	"github.com/youchainhq/go-youchain/rlp"

	"verif/mc"
)

// Look-back separation.
//
// The protocol draws the proposer and the precommits of block n against the
// validator set committed by header n-StakeLookBack and the seed recorded in
// header n-SeedLookBack (certificate votes: headers n-2·ACoCHTFrequency and
// n-ACoCHTFrequency).  In the fixture every one of those headers, the parent,
// the block itself and all remaining headers commit to a DIFFERENT validator
// set (other stakes, hence other seat counts and other voter indexes, plus one
// validator that exists in that set only) and record a different seed.  A
// header of this dimension is built entirely from honest building blocks — but
// drawn against the set of header X and the seed of header Y, per part
// (proposer / precommits / certificate votes).  Exactly one value vector is the
// honest header; every other one is "honest under the wrong look-back" and the
// independent calculator (which knows only the protocol's look-back positions)
// decides it, normally: no valid weight at all.

// LBSpec is the replayable input of one look-back case ("" = the protocol's look-back header).
type LBSpec struct {
	Kind  string `json:"kind"` // "lookback"
	Net   uint64 `json:"network_id"`
	Cfg   string `json:"config"`
	Ver   uint64 `json:"version"`
	Cert  bool   `json:"certificate_round,omitempty"`
	PSet  string `json:"proposer_drawn_against_set_of,omitempty"`
	PSeed string `json:"proposer_drawn_on_seed_of,omitempty"`
	PWho  string `json:"proposer,omitempty"` // "" = first entitled record of that set with a seat, "newcomer" = the validator that exists in that set only
	VSet  string `json:"precommits_drawn_against_set_of,omitempty"`
	VSeed string `json:"precommits_drawn_on_seed_of,omitempty"`
	CSet  string `json:"certificate_votes_drawn_against_set_of,omitempty"`
	CSeed string `json:"certificate_votes_drawn_on_seed_of,omitempty"`
}

func (s LBSpec) Key() string {
	return fmt.Sprintf("lb/%d/%s/%d/%v|P=%s,%s,%s|V=%s,%s|C=%s,%s", s.Net, s.Cfg, s.Ver, s.Cert, s.PSet, s.PSeed, s.PWho, s.VSet, s.VSeed, s.CSet, s.CSeed)
}

func (s LBSpec) honest() bool {
	return s.PSet == "" && s.PSeed == "" && s.PWho == "" && s.VSet == "" && s.VSeed == "" && s.CSet == "" && s.CSeed == ""
}

func (s LBSpec) distinctNames() int {
	m := map[string]bool{}
	for _, v := range []string{s.PSet, s.PSeed, s.PWho, s.VSet, s.VSeed, s.CSet, s.CSeed} {
		if v != "" {
			m[v] = true
		}
	}
	return len(m)
}

func (s LBSpec) deviations() int {
	n := 0
	for _, v := range []string{s.PSet, s.PSeed, s.PWho, s.VSet, s.VSeed, s.CSet, s.CSeed} {
		if v != "" {
			n++
		}
	}
	return n
}

var (
	lbSets      = []string{"", "seed", "parent", "own", "other"}
	lbSeeds     = []string{"", "stakeLB", "parent", "seedLB-1", "seedLB+1"}
	lbCertSets  = []string{"", "stake", "seed", "parent", "own", "other"}
	lbCertSeeds = []string{"", "seedLB", "stakeLB", "parent", "certStakeLB"}
)

var lbSetText = map[string]string{
	"seed": "the seed look-back header (n-SeedLookBack)", "parent": "the parent header", "own": "the header itself (the set the certificate seed look-back header carries as well)",
	"other": "an unrelated header", "stake": "the stake look-back header (n-StakeLookBack)",
}
var lbSeedText = map[string]string{
	"stakeLB": "the stake look-back header (n-StakeLookBack)", "parent": "the parent header", "seedLB-1": "header n-SeedLookBack-1", "seedLB+1": "header n-SeedLookBack+1",
	"seedLB": "the seed look-back header (n-SeedLookBack)", "certStakeLB": "the certificate stake look-back header",
}

// lbView resolves a set name; cert: for certificate votes.
func (c *Config) lbView(name string, cert bool) (*SetView, error) {
	if name == "" {
		if cert {
			return c.CertView, nil
		}
		return c.True, nil
	}
	if name == "stake" {
		return c.True, nil
	}
	if v, ok := c.Views[name]; ok {
		return v, nil
	}
	return nil, fmt.Errorf("unknown validator set %q", name)
}

// lbSeed resolves a seed name to the seed recorded in that header of chain.
func (c *Config) lbSeed(chain consensus.ChainReader, name string, cert bool) (common.Hash, error) {
	var n uint64
	switch name {
	case "":
		n = c.SeedNum
		if cert {
			n = c.CertSeedNum
		}
	case "seedLB":
		n = c.SeedNum
	case "stakeLB":
		n = c.StakeNum
	case "parent":
		n = c.Round - 1
	case "seedLB-1":
		n = c.SeedNum - 1
	case "seedLB+1":
		n = c.SeedNum + 1
	case "certStakeLB":
		n = c.CertStakeNum
	default:
		return common.Hash{}, fmt.Errorf("unknown seed source %q", name)
	}
	return c.SeedAt(chain, n)
}

// lbChain: the chain the case is verified on (certificate fixtures: with the honestly planted certificate seed look-back block).
func (c *Config) lbChain() (consensus.ChainReader, *planted, error) {
	if c.certPair == nil {
		return c.Chain, nil, nil
	}
	pl, err := c.plant("")
	if err != nil {
		return nil, nil, err
	}
	if !pl.accepted {
		return nil, pl, nil
	}
	return &Overlay{Chain: c.Chain, Extra: map[uint64]*types.Header{pl.header.Number.Uint64(): pl.header}}, pl, nil
}

// BuildLB builds the header of a look-back case.
func (c *Config) BuildLB(s LBSpec) (f *Forged, err error) {
	f = &Forged{LB: &s, Cert: c.IsCert}
	if msg := mc.Catch(func() { err = c.buildLB(s, f) }); msg != "" {
		f.Skip = "forger: " + msg
		return f, nil
	}
	return f, err
}

func (c *Config) buildLB(s LBSpec, f *Forged) error {
	chain, pl, err := c.lbChain()
	if err != nil {
		return err
	}
	if chain == nil {
		f.Skip = "planted look-back header rejected: " + pl.err
		return nil
	}
	f.Chain = chain
	if pl != nil {
		pcd, err := ucon.GetConsensusDataFromHeader(pl.header)
		if err != nil {
			return err
		}
		f.CertSeed, f.PlantedTC = pcd.Seed, pcd.CertValThreshold
	}
	// ---- proposer: honest under (set PSet, seed PSeed) ---------------------------
	pv, err := c.lbView(s.PSet, false)
	if err != nil {
		return err
	}
	pseed, err := c.lbSeed(chain, s.PSeed, false)
	if err != nil {
		return err
	}
	var cands []*Rec
	maxRI := uint32(16)
	switch s.PWho {
	case "":
		cands = pv.EntitledRecs()
	case "newcomer":
		if pv.Newcomer == nil {
			f.Skip = "the look-back set has no newcomer"
			return nil
		}
		cands, maxRI = []*Rec{pv.Newcomer}, 64
	default:
		return fmt.Errorf("unknown proposer choice %q", s.PWho)
	}
	var pm *Rec
	var ri uint32
	for i := uint32(1); i <= maxRI && pm == nil; i++ {
		for _, r := range cands {
			if c.SortitionIn(pv.Total, r.M, pseed, i, ucon.UConStepProposal, c.CP.ProposerThreshold, r.Stake).J >= 1 {
				pm, ri = r, i
				break
			}
		}
	}
	if pm == nil {
		f.Skip = "nobody draws a proposer seat under that set and seed"
		return nil
	}
	blk, cd, err := c.ProposeWith(pm.M, ri, ProposalOpts{View: pv, Seed: &pseed})
	if err != nil {
		return err
	}
	header := blk.Header()
	goodPay := VotePayload(header.Hash(), cd.Round, ri)

	// ---- votes: honest under their (set, seed) -----------------------------------
	draw := func(set, seed string, cert bool, step uint32, th uint64) ([]listed, uint32, error) {
		vw, err := c.lbView(set, cert)
		if err != nil {
			return nil, 0, err
		}
		sd, err := c.lbSeed(chain, seed, cert)
		if err != nil {
			return nil, 0, err
		}
		var list []listed
		claimed := uint32(0)
		for _, r := range vw.EntitledRecs() {
			if cr := c.SortitionIn(vw.Total, r.M, sd, ri, step, th, r.Stake); cr.J > 0 {
				list = append(list, listed{Vote: ucon.SingleVote{VoterIdx: uint32(r.Index), Votes: cr.J, Proof: cr.Proof}, Signer: r.M, Sig: c.BlsSign(r.M, goodPay), Pay: goodPay})
				claimed += cr.J
			}
		}
		return list, claimed, nil
	}
	pre, claimed, err := draw(s.VSet, s.VSeed, false, uint32(ucon.Precommit), c.CP.ValidatorThreshold)
	if err != nil {
		return err
	}
	f.Claimed = claimed
	uv := &ucon.UconValidators{RoundIndex: ri, MCAggrSig: []byte{}, CCAggrSig: []byte{}}
	if uv.SCAggrSig, f.AggKind, f.AggOf, err = c.buildAgg(pre, "", goodPay, nil); err != nil {
		return err
	}
	for _, e := range pre {
		uv.ChamberCommitters = append(uv.ChamberCommitters, e.Vote)
	}
	uc := &ucon.UconValidators{RoundIndex: ri}
	if c.IsCert {
		certs, cclaimed, err := draw(s.CSet, s.CSeed, true, uint32(ucon.Certificate), c.CP.CertValThreshold)
		if err != nil {
			return err
		}
		f.CertClaimed = cclaimed
		uc = &ucon.UconValidators{RoundIndex: ri, SCAggrSig: []byte{}, MCAggrSig: []byte{}}
		if uc.CCAggrSig, f.CertAggKind, f.CertAggOf, err = c.buildAgg(certs, "", goodPay, nil); err != nil {
			return err
		}
		for _, e := range certs {
			uc.ChamberCerts = append(uc.ChamberCerts, e.Vote)
		}
	}
	if header.Validator, err = rlp.EncodeToBytes(uv); err != nil {
		return err
	}
	if header.Certificate, err = rlp.EncodeToBytes(uc); err != nil {
		return err
	}
	f.Header = header
	return nil
}

// lbSpecs: the full product (proposer set × proposer seed × proposer choice × precommit set × precommit seed), and in
// certificate rounds (certificate set × certificate seed × precommit set) with everything else honest.
func (x *ctx) lbSpecs() []LBSpec {
	c := x.c
	base := LBSpec{Kind: "lookback", Net: params.NetworkId(), Cfg: c.Name, Ver: uint64(c.Version), Cert: c.certPair != nil}
	var out []LBSpec
	seen := map[string]bool{}
	add := func(s LBSpec) {
		if !seen[s.Key()] {
			seen[s.Key()] = true
			out = append(out, s)
		}
	}
	if !c.IsCert || !x.r.Quick() {
		for _, ps := range lbSets {
			for _, pd := range lbSeeds {
				for _, pw := range []string{"", "newcomer"} {
					for _, vs := range lbSets {
						for _, vd := range lbSeeds {
							s := base
							s.PSet, s.PSeed, s.PWho, s.VSet, s.VSeed = ps, pd, pw, vs, vd
							add(s)
						}
					}
				}
			}
		}
	}
	if c.IsCert {
		// quick tier: the proposer/precommit product is that of the other fixtures; here its two planes only
		for _, a := range lbSets {
			for _, b := range lbSeeds {
				s := base
				s.PSet, s.PSeed = a, b
				add(s)
				s = base
				s.VSet, s.VSeed = a, b
				add(s)
			}
		}
		for _, cs := range lbCertSets {
			for _, cd := range lbCertSeeds {
				for _, vs := range lbSets {
					s := base
					s.CSet, s.CSeed, s.VSet = cs, cd, vs
					add(s)
				}
			}
		}
	}
	return out
}

func (s LBSpec) parts() []string {
	var ps []string
	add := func(what, set, seed string) {
		if set != "" {
			ps = append(ps, what+" drawn against the validator set of "+lbSetText[set])
		}
		if seed != "" {
			ps = append(ps, what+" drawn on the seed of "+lbSeedText[seed])
		}
	}
	add("proposer", s.PSet, s.PSeed)
	add("precommits", s.VSet, s.VSeed)
	add("certificate votes", s.CSet, s.CSeed)
	if len(ps) == 0 && s.PWho != "" {
		ps = append(ps, "proposer is the look-back set's newcomer")
	}
	return ps
}

func describeLB(s LBSpec) string {
	return "header built from honest building blocks; " + strings.Join(append(s.parts(), "everything else drawn against the protocol's look-back headers"), "; ") + " " + describe(s)
}

// evalLB builds the case and runs every entry point and the oracle.
func (x *ctx) evalLB(s LBSpec) (*evalRes, error) {
	c := x.c
	f, err := c.BuildLB(s)
	if err != nil {
		return nil, err
	}
	e := &evalRes{F: f}
	if f.Skip != "" {
		return e, nil
	}
	for _, ep := range c.entries(true) {
		ep := ep
		p := runPath(ep.Name, func() error { return ep.Run(c.Server, c, f.Chain, f.Header) })
		p.CertOnly = ep.CertOnly
		e.Paths = append(e.Paths, p)
	}
	e.O = Oracle(c, f)
	for _, p := range e.Paths {
		if p.Accept {
			e.Truth = cryptoCheck(c, f, true)
			break
		}
	}
	return e, nil
}

func pathGroup(paths []string) string {
	sort.Strings(paths)
	return "[" + strings.Join(paths, ", ") + "]"
}

func (x *ctx) checkLB(s LBSpec) {
	r, c := x.r, x.c
	e, err := x.evalLB(s)
	if err != nil {
		r.HarnessError(fmt.Sprintf("build %s: %v", s.Key(), err))
		return
	}
	if e.F.Skip != "" {
		r.Count("lookback: variant_unavailable: "+normErr(e.F.Skip), 1)
		return
	}
	atomic.AddInt64(&r.Executions, 1)
	if !s.honest() {
		r.Distinct(s.Key())
	}
	if e.Truth != "" {
		r.HarnessError("aggregate ground truth: " + e.Truth + " spec=" + s.Key())
	}
	if p := e.panicked(); p != nil {
		r.Count("lookback: verifier_panicked", 1)
		x.offerRaw("", "verifier panics on a header drawn against other look-back headers: "+panicSite(p.Where)+": "+normErr(p.Panic), "", nil,
			fmt.Sprintf("%02d|%s", s.deviations(), s.Key()), mc.Violation{Config: c.Name, Input: s,
				Detail: fmt.Sprintf("%s panicked: %s (at %s)\n%s\n%s", p.Path, p.Panic, p.Where, describeLB(s), x.context())})
		return
	}
	if e.F.Claimed >= c.Quorum() {
		r.Count("lookback: claimed_precommit_weight_reaches_quorum_under_its_own_set_and_seed", 1)
	}
	if e.O.Accept {
		r.Count("lookback: oracle_accept", 1)
		if !s.honest() {
			r.Count("lookback: oracle_accepts_a_non_honest_vector (seat counts coincide under both sets)", 1)
		}
	} else {
		r.Count("lookback: oracle_reject", 1)
		if !e.O.ProposerOK {
			r.Count("lookback: oracle_proposer_invalid", 1)
		}
		if e.O.ProposerOK && e.O.Weight < e.O.Quorum {
			r.Count("lookback: oracle_proposer_valid_precommit_weight_below_quorum", 1)
		}
		if e.O.CertRound && !e.O.CertOK {
			r.Count("lookback: oracle_certificate_weight_below_quorum", 1)
		}
	}
	for _, p := range e.Paths {
		if p.Accept {
			r.Count("lookback: accepts: "+p.Path, 1)
		} else {
			r.Count("lookback: rejects: "+p.Path, 1)
			r.Count("lookback: verifier_error: "+normErr(p.Err), 1)
		}
	}
	full, certOnly := e.wrongly()
	report := func(paths []string, co bool) {
		r.Count("lookback: VIOLATING_CASES_accepted_under_the_wrong_look_back", 1)
		head := "accepted under the wrong look-back " + pathGroup(paths) + ": "
		parts := s.parts()
		// one report per group of accepting entry points; the witness with the fewest deviating parts, and among
		// those the one naming the fewest different headers, describes it
		x.offerRaw(head, head+strings.Join(parts, " + "), "", nil, fmt.Sprintf("%02d|%02d|%s", s.deviations(), s.distinctNames(), s.Key()), mc.Violation{Config: c.Name, Input: s,
			Detail: fmt.Sprintf("the real verifier accepts (%s) a header that carries a quorum only under look-back headers the protocol does not use.\n%s\nclaimed precommit weight %d (certificate %d)\noracle: %s\n%s\n%s",
				strings.Join(paths, ","), describeLB(s), e.F.Claimed, e.F.CertClaimed, e.O, x.context(), x.lbContext())})
	}
	if len(full) > 0 {
		report(full, false)
	}
	if len(certOnly) > 0 {
		report(certOnly, true)
	}
	// the honest header must pass everywhere
	var rej []string
	for _, p := range e.Paths {
		ok := e.O.Accept
		if p.CertOnly {
			ok = e.O.CertOK
		}
		if ok && !p.Accept {
			rej = append(rej, p.Path)
		}
	}
	if len(rej) > 0 {
		if s.honest() {
			r.Count("lookback: VIOLATING_CASES_honest_header_rejected", 1)
			sig := "rejected honest header" + certTag(c) + " " + pathGroup(rej) + ": every part drawn against the protocol's look-back headers, all look-back headers carrying different validator sets and seeds"
			x.offerRaw(honestGroup(c), sig, "", nil, "00|"+s.Key(), mc.Violation{Config: c.Name, Input: s,
				Detail: fmt.Sprintf("the real verifier rejects (%s: %s) the honest header.\n%s\noracle: %s\n%s\n%s", strings.Join(rej, ","), firstErr(e, rej[0]), describeLB(s), e.O, x.context(), x.lbContext())})
		} else {
			r.Count("lookback: verifier_stricter_than_oracle_on_a_non_honest_vector", 1)
		}
	}
	if s.honest() {
		if len(rej) == 0 && len(full) == 0 {
			r.Count("lookback: honest_header_accepted_on_all_entry_points", 1)
		}
		r.Sample(map[string]interface{}{"lookback": describeLB(s), "entry_points": len(e.Paths), "oracle": e.O.String()})
	}
}

func firstErr(e *evalRes, path string) string {
	for _, p := range e.Paths {
		if p.Path == path {
			return p.Err
		}
	}
	return ""
}

// lbContext: the sets and seeds of the look-back headers.
func (x *ctx) lbContext() string {
	c := x.c
	var names []string
	for n := range c.Views {
		names = append(names, n)
	}
	sort.Strings(names)
	var ps []string
	for _, n := range names {
		ps = append(ps, n+"="+c.Views[n].describe())
	}
	return fmt.Sprintf("validator sets by header: stake look-back header %d carries 'stake', seed look-back header %d 'seed', parent 'parent', the block 'own', others 'other'%s: %s",
		c.StakeNum, c.SeedNum, map[bool]string{true: fmt.Sprintf(", certificate stake look-back header %d 'certstake', certificate seed look-back header %d 'own'", c.CertStakeNum, c.CertSeedNum), false: ""}[c.IsCert],
		strings.Join(ps, " "))
}

func (x *ctx) exploreLB() {
	specs := x.lbSpecs()
	x.r.ForEach(len(specs), func(w, i int) { x.checkLB(specs[i]) })
	x.r.Count("lookback: cases", int64(len(specs)))
}
