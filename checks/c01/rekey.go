package c01

import (
	"encoding/json"
	"fmt"
	"math/bits"
	"strings"

	"github.com/youchainhq/go-youchain/bls"
	"github.com/youchainhq/go-youchain/consensus/ucon"
	"github.com/youchainhq/go-youchain/crypto"
	"github.com/youchainhq/go-youchain/params"
	"github.com/youchainhq/go-youchain/rlp"

	"verif/mc"
)

// Verifier history, second family: a validator registered with ANOTHER BLS key.
//
// The BLS key of a validator is a field of its record in the validator set, not a function of its address: a
// validator that leaves and registers again under the same consensus key has the same main address and may have
// another BLS key.  A vote counts only if it is signed with the key the member has in the look-back set OF THE HEADER
// UNDER VERIFICATION.  For every entitled member X the fixture gets a twin: the same configuration (same people,
// consensus keys, stakes, seeds — hence the same credentials and seat counts) in which only X's BLS key differs
// (set A = the fixture's, set B = the twin's; each on its own chain, the look-back header committing to its set).
// Family, per set S ∈ {A, B}: the honest header with every precommit ("all"); the honest header with a subset in
// which X's vote is decisive — a quorum with it, none without ("decisive"); and that subset with X's signature
// made with the BLS key X has in the OTHER set ("retired": no valid signature of X under set S — the calculator,
// which reads set S, rejects).  Every sequence of length 1 and every ordered pair over (family × entry points) runs
// on ONE fresh Server; every verdict in it must equal the calculator's.
const kindRekey = "rekey"

func otherBlsKey(name string) (bls.SecretKey, bls.PublicKey) {
	seed := crypto.Keccak256([]byte("verif/c01 member bls key " + name + " registered again"))
	seed[0], seed[31] = 0, 0
	sk, err := blsMgr.DecSecretKey(seed)
	if err != nil {
		panic(err)
	}
	pk, err := sk.PubKey()
	if err != nil {
		panic(err)
	}
	return sk, pk
}

// RKHdr names one header of the family.
type RKHdr struct {
	Set   int    `json:"validator_set"` // 0 = A (the fixture's look-back set), 1 = B (the same records, the member's BLS key another one)
	Votes string `json:"precommits"`    // "all" | "decisive" | "retired"
}

type RKOp struct {
	H     RKHdr  `json:"header"`
	Entry string `json:"entry_point"`
}

// RKSpec is the replayable input of one case.
type RKSpec struct {
	Kind   string `json:"kind"`
	Net    uint64 `json:"network_id"`
	Cfg    string `json:"config"`
	Ver    uint64 `json:"version"`
	Member string `json:"member_with_another_bls_key_in_set_B"`
	Ops    []RKOp `json:"verified_in_this_order_on_one_server_instance"`
}

func (h RKHdr) text(x string) string {
	set := string(rune('A' + h.Set))
	switch h.Votes {
	case "all":
		return "honest header under validator set " + set + " (every entitled member's precommit)"
	case "decisive":
		return "honest header under validator set " + set + " (a quorum subset of precommits in which " + x + "'s is decisive)"
	}
	return "header under validator set " + set + " whose decisive precommit of " + x + " is signed with the BLS key " + x + " has in the OTHER validator set"
}

type rekeyFix struct {
	x       *ctx
	member  string
	cfg     [2]*Config
	mask    int // the decisive subset (bits over Voters)
	entries map[string]Entry
	names   []string
	built   map[RKHdr]*Forged
	want    map[RKHdr]Verdict
}

func (x *ctx) newRekeyFix(member string) (*rekeyFix, error) {
	c := x.c
	if c.IsCert {
		return nil, fmt.Errorf("precommit fixtures only")
	}
	var stakes map[string]uint64
	if baseName(c.Name) == "b" {
		stakes = tuneWhale("b", &c.YP, c.Round, c.Name == "b-")
	}
	twin, err := newConfigAt(c.Name, c.Version, c.Round, stakes, false, member)
	if err != nil {
		return nil, err
	}
	fx := &rekeyFix{x: x, member: member, cfg: [2]*Config{c, twin}, entries: map[string]Entry{}, built: map[RKHdr]*Forged{}, want: map[RKHdr]Verdict{}}
	// the twin differs in nothing but that one key
	if len(twin.Members) != len(c.Members) || twin.LBSeed != c.LBSeed || twin.HonestRI != c.HonestRI || twin.Proposer.Name != c.Proposer.Name || twin.ValRoot == c.ValRoot {
		return nil, fmt.Errorf("twin configuration differs in more than the key (or not at all)")
	}
	xi := -1
	for i, m := range c.Members {
		t := twin.Members[i]
		same := string(m.BlsPub) == string(t.BlsPub)
		if m.Name != t.Name || m.Addr != t.Addr || m.Stake != t.Stake || m.Index != t.Index || same == (m.Name == member) {
			return nil, fmt.Errorf("twin configuration: record %s differs in more than the BLS key of %s", m.Name, member)
		}
	}
	for i, m := range c.Voters {
		if m.Name == member {
			xi = i
		}
	}
	if xi < 0 {
		return nil, fmt.Errorf("%s is not an entitled member", member)
	}
	js, q := c.SeatCounts(c.HonestRI), c.Quorum()
	for mask := 1; mask < 1<<uint(len(js)); mask++ {
		if mask&(1<<uint(xi)) == 0 {
			continue
		}
		w := uint32(0)
		for i, j := range js {
			if mask&(1<<uint(i)) != 0 {
				w += j
			}
		}
		if w >= q && w-js[xi] < q && js[xi] > 0 && (fx.mask == 0 || bits.OnesCount(uint(mask)) < bits.OnesCount(uint(fx.mask))) {
			fx.mask = mask
		}
	}
	if fx.mask == 0 {
		return nil, nil // no subset in which this member's vote is decisive
	}
	for _, e := range c.entries(false) {
		fx.entries[e.Name] = e
		fx.names = append(fx.names, e.Name)
	}
	for set := 0; set < 2; set++ {
		for _, v := range []string{"all", "decisive", "retired"} {
			if err := fx.build(RKHdr{set, v}); err != nil {
				return nil, err
			}
		}
	}
	return fx, nil
}

func (fx *rekeyFix) build(d RKHdr) error {
	c, o := fx.cfg[d.Set], fx.cfg[1-d.Set]
	b, _, err := c.ProposeWith(c.Proposer, c.HonestRI, ProposalOpts{})
	if err != nil {
		return err
	}
	header := b.Header()
	ri := c.HonestRI
	pay := VotePayload(b.Hash(), header.Number, ri)
	var list []listed
	var pubs []bls.PublicKey // the listed members' keys in THIS set
	for i, m := range c.Voters {
		if d.Votes != "all" && fx.mask&(1<<uint(i)) == 0 {
			continue
		}
		cr := c.Sortition(m, c.LBSeed, ri, uint32(ucon.Precommit), c.CP.ValidatorThreshold, m.Stake)
		if cr.J == 0 {
			continue
		}
		signer := m
		if d.Votes == "retired" && m.Name == fx.member {
			// the holder of the key this member has in the other set: not this member as far as this set goes
			other := *o.Voters[i]
			if other.Name != m.Name {
				return fmt.Errorf("twin configuration orders the members differently")
			}
			other.Name = m.Name + " (holder of the BLS key this member has in the other validator set)"
			signer = &other
		}
		list = append(list, listed{Vote: ucon.SingleVote{VoterIdx: uint32(m.Index), Votes: cr.J, Proof: cr.Proof}, Signer: signer, Sig: c.BlsSign(signer, pay), Pay: pay})
		pubs = append(pubs, m.BlsPk)
	}
	f := &Forged{Chain: c.Chain}
	uv := &ucon.UconValidators{RoundIndex: ri, MCAggrSig: []byte{}, CCAggrSig: []byte{}}
	if uv.SCAggrSig, f.AggKind, f.AggOf, err = sumAgg(list); err != nil {
		return err
	}
	for _, e := range list {
		uv.ChamberCommitters = append(uv.ChamberCommitters, e.Vote)
	}
	if header.Validator, err = rlp.EncodeToBytes(uv); err != nil {
		return err
	}
	if header.Certificate, err = rlp.EncodeToBytes(&ucon.UconValidators{RoundIndex: ri}); err != nil {
		return err
	}
	f.Header = header
	v := Oracle(c, f)
	// ground truth against real BLS verification with the keys of this set
	sig, err := blsMgr.DecSignature(uv.SCAggrSig)
	if err != nil {
		return err
	}
	verr := blsMgr.VerifyAggregatedOne(pubs, pay, sig)
	if (verr == nil) != (d.Votes != "retired") || v.Accept != (d.Votes != "retired") {
		return fmt.Errorf("header %v: calculator accept=%v, BLS verification against the set's keys: %v", d, v.Accept, verr)
	}
	fx.built[d], fx.want[d] = f, v
	return nil
}

func (fx *rekeyFix) run(ops []RKOp) ([]pathRes, error) {
	sv := newServer()
	var out []pathRes
	for _, op := range ops {
		f, ok := fx.built[op.H]
		ep, ok2 := fx.entries[op.Entry]
		if !ok || !ok2 {
			return nil, fmt.Errorf("unknown header or entry point in %v", op)
		}
		c := fx.cfg[op.H.Set]
		out = append(out, runPath(ep.Name, func() error { return ep.Run(sv, c, c.Chain, f.Header) }))
	}
	return out, nil
}

func (fx *rekeyFix) describe(ops []RKOp, res []pathRes) string {
	var ls []string
	for i, op := range ops {
		ls = append(ls, fmt.Sprintf("  %d. %s: %s -> accept=%v %s%s (calculator: %s)", i+1, op.Entry, op.H.text(fx.member), res[i].Accept, res[i].Err, res[i].Panic, fx.want[op.H]))
	}
	return strings.Join(ls, "\n")
}

const (
	sigRekeyHist   = "accepted only because of what the same verifier instance verified before (a fresh instance rejects): header with a precommit signed with the BLS key the member has in ANOTHER validator set (the key of its record in the look-back set has not signed)"
	sigRekeyFresh  = "accepted (fresh verifier instance as well): header with a precommit signed with a BLS key that is not the key of the member's record in the look-back set"
	sigRekeyHonest = "rejected honest header only because of what the same verifier instance verified before (a fresh instance accepts): the look-back set holds another BLS key for a member than a validator set verified against earlier"
)

// checkSeq judges every verdict of the sequence.
func (fx *rekeyFix) checkSeq(ops []RKOp) {
	x, r := fx.x, fx.x.r
	res, err := fx.run(ops)
	if err != nil {
		r.HarnessError("key rotation: " + err.Error())
		return
	}
	r.Count("key rotation: sequences", 1)
	for i, op := range ops {
		p, want := res[i], fx.want[op.H].Accept
		if i == len(ops)-1 {
			r.Count("key rotation: verdicts compared with the calculator", 1)
			switch {
			case p.Accept:
				r.Count("key rotation: accepts", 1)
			default:
				r.Count("key rotation: rejects", 1)
			}
			if i > 0 && res[i-1].Accept && ops[i-1].H.Set != op.H.Set {
				if op.H.Votes == "retired" {
					r.Count("key rotation: retired-key header after a header of the other set was accepted", 1)
				} else {
					r.Count("key rotation: honest header after a header of the other set was accepted", 1)
				}
			}
		}
		if p.Accept == want && p.Panic == "" {
			continue
		}
		if i < len(ops)-1 {
			return // judged as the shorter sequence
		}
		for k := 0; k < 2; k++ {
			if again, err := fx.run(ops); err != nil || !sameVerdicts(again, res) {
				r.HarnessError(fmt.Sprintf("key rotation: verdicts of %v are not reproducible", ops))
				return
			}
		}
		fr, _ := fx.run(ops[i:])
		c := fx.cfg[0]
		detail := fmt.Sprintf("validator sets A and B hold the same records (addresses, consensus keys, stakes, roles) except that %s has another BLS key in B (a validator that left and registered again); one Server instance, in this order:\n%s\nthe last header through the same entry point on an instance that verified nothing else: accept=%v %s\n%s",
			fx.member, fx.describe(ops, res), fr[0].Accept, fr[0].Err, x.context())
		v := mc.Violation{Config: c.Name, Input: RKSpec{kindRekey, params.NetworkId(), c.Name, uint64(c.Version), fx.member, ops}, Detail: detail}
		eps := map[string]bool{}
		for _, e := range ops {
			eps[e.Entry] = true
		}
		rank := fmt.Sprintf("%02d|%02d|%s|%v", len(ops), len(eps), fx.member, ops)
		switch {
		case p.Panic != "":
			r.Count("key rotation: VIOLATING_CASES panic", 1)
			x.offerRaw("", "verifier panics ["+panicSite(p.Panic)+"] on a header of the key-rotation family", "", nil, rank, v)
		case p.Accept && !fr[0].Accept:
			r.Count("key rotation: VIOLATING_CASES accepted only with history", 1)
			x.offerRaw("", sigRekeyHist, "", nil, rank, v)
		case p.Accept:
			r.Count("key rotation: VIOLATING_CASES accepted without a valid signature", 1)
			x.offerRaw("", sigRekeyFresh, "", nil, rank, v)
		case fr[0].Accept:
			r.Count("key rotation: VIOLATING_CASES honest header rejected only with history", 1)
			x.offerRaw("", sigRekeyHonest, "", nil, rank, v)
		default:
			r.Count("key rotation: VIOLATING_CASES honest header rejected", 1)
			x.offerRaw(honestGroup(c), "rejected honest header ["+op.Entry+"]: "+op.H.text("one member"), "", nil, "02|"+rank, v)
		}
	}
}

func (fx *rekeyFix) family() []RKHdr {
	var out []RKHdr
	for set := 0; set < 2; set++ {
		for _, v := range []string{"all", "decisive", "retired"} {
			out = append(out, RKHdr{set, v})
		}
	}
	return out
}

// exploreRekey: every entitled member in turn gets the other key.
func (x *ctx) exploreRekey() {
	r := x.r
	for _, m := range x.c.Voters {
		if r.Expired() {
			return
		}
		fx, err := x.newRekeyFix(m.Name)
		if err != nil {
			r.HarnessError("key rotation: " + err.Error())
			return
		}
		if fx == nil {
			r.Count("key rotation: members whose vote is decisive in no subset (skipped)", 1)
			continue
		}
		r.Count("key rotation: members given another BLS key (twin validator set)", 1)
		var seqs [][]RKOp
		fam := fx.family()
		for _, a := range fam {
			for _, ea := range fx.names {
				seqs = append(seqs, []RKOp{{a, ea}})
				for _, b := range fam {
					for _, eb := range fx.names {
						seqs = append(seqs, []RKOp{{a, ea}, {b, eb}})
					}
				}
			}
		}
		r.ForEach(len(seqs), func(_, i int) {
			if r.Expired() {
				return
			}
			fx.checkSeq(seqs[i])
			key := fmt.Sprintf("rekey|%s|%s|%v", x.c.Name, fx.member, seqs[i])
			r.Distinct(key)
		})
	}
}

func replayRekey(r *mc.Run, v *mc.Violation, bs []byte) {
	var s RKSpec
	if err := json.Unmarshal(bs, &s); err != nil {
		fmt.Println("bad replay input:", err)
		return
	}
	x := replayCtx(r, s.Net, s.Cfg, s.Ver, false)
	if x == nil {
		return
	}
	fx, err := x.newRekeyFix(s.Member)
	if err != nil || fx == nil {
		fmt.Println("key rotation fixture:", err)
		return
	}
	res, err := fx.run(s.Ops)
	if err != nil {
		fmt.Println("key rotation:", err)
		return
	}
	fmt.Printf("validator set B = set A with another BLS key for %s; one Server instance, in this order:\n%s\n", s.Member, fx.describe(s.Ops, res))
	fmt.Println(x.context())
	fx.checkSeq(s.Ops)
	x.replayReport(r, v)
}

const rekeyRule = " || KEY ROTATION (verifier history, precommit fixture of configuration c): for EVERY entitled member X a twin fixture whose validator sets hold the same records (addresses, consensus keys, stakes, roles, seeds — hence the same credentials) except X's BLS public key (a validator that left and registered again; sets A and B, each on its own chain); family = {A, B} × {honest header with every precommit; honest header with a quorum subset in which X's precommit is decisive; that subset with X's signature made with the BLS key X has in the OTHER set (ground truth checked with real BLS verification against the set's keys: fails)}; every sequence of length 1 and EVERY ordered pair over (6 headers × 4 entry points: VerifyHeader, VerifySeal, VerifySideChainHeader, VerifyHeaders[header alone]) on ONE fresh Server; every verdict must equal the calculator's for the header's own look-back set; a wrong verdict is re-run twice and compared with a fresh instance"
