package c01

import (
	"encoding/json"
	"fmt"
	"math/big"
	"math/bits"
	"sort"
	"sync"

	"github.com/youchainhq/go-youchain/consensus/ucon"
	"github.com/youchainhq/go-youchain/params"

	"verif/mc"
)

// The quorum function.
//
// The protocol's quorum of a committee of T seats is the quorum FRACTION of T, truncated:
//
//	precommits:         ⌊685·T / 1000⌋ seats   (consensus/ucon/config.go ValidatorProportionThreshold = 0.685)
//	certificate votes:  ⌊585·T / 1000⌋ seats   (CertValProportionThreshold = 0.585)
//
// (the unchanged code computes uint32(float64(T)·0.685): truncation towards zero).  The reference below is exact
// integer arithmetic on a 128-bit product and knows the two fractions as per-mille constants of its own — it shares
// neither the expression nor the constants with the code under test.  It is the quorum of the header oracle
// (oracle.go), of the fixtures (Config.Quorum, whale tuning) and of the exhaustive comparison with the verifier's
// own quorum decision (exploreQuorum).
const (
	precommitPermille = 685
	certPermille      = 585
)

// RefQuorum: ⌊permille·T / 1000⌋, exact for every uint64 T.
func RefQuorum(T uint64, cert bool) uint64 {
	pm := uint64(precommitPermille)
	if cert {
		pm = certPermille
	}
	hi, lo := bits.Mul64(T, pm) // hi < pm < 1000: the quotient fits
	q, _ := bits.Div64(hi, lo, 1000)
	return q
}

// refQuorum32: the reference quorum as the uint32 seat count the verifier compares with; committee sizes whose
// quorum does not fit are outside the domain (ok=false).
func refQuorum32(T uint64, cert bool) (uint32, bool) {
	q := RefQuorum(T, cert)
	return uint32(q), q <= uint64(^uint32(0))
}

// ieeeQuorum: what the documented expression uint32(float64(T)·f) yields under IEEE-754 double arithmetic
// (round-to-nearest-even conversion of T, of the decimal constant and of the product), computed in software.  Used
// ONLY to classify a deviation from the exact reference: where 585·T (685·T) is a multiple of 1000 the exact product
// is an integer and the double product may fall one ulp short of it, which costs one seat.
func ieeeQuorum(T uint64, cert bool) *big.Int {
	dec := "0.685"
	if cert {
		dec = "0.585"
	}
	f, _, err := big.ParseFloat(dec, 10, 53, big.ToNearestEven)
	if err != nil {
		panic(err)
	}
	t := new(big.Float).SetPrec(53).SetMode(big.ToNearestEven).SetUint64(T)
	p := new(big.Float).SetPrec(53).SetMode(big.ToNearestEven).Mul(t, f)
	q, _ := p.Int(nil) // truncation
	return q
}

// QSpec is the replayable input of one quorum-function case.
type QSpec struct {
	Kind   string `json:"kind"` // "quorum"
	T      uint64 `json:"committee_size"`
	Weight uint32 `json:"vote_weight"`
	Cert   bool   `json:"certificate_votes,omitempty"`
}

const kindQuorum = "quorum"

func quorumName(cert bool) (string, string) {
	if cert {
		return "certificate", "0.585"
	}
	return "precommit", "0.685"
}

// quorumWeights: the weights probed for a committee of T seats with quorum q: around the quorum, the ends of the
// range and the committee size itself.
func quorumWeights(T uint64, q uint32) []uint32 {
	max := ^uint32(0)
	cand := []uint64{0, 1, uint64(q) - 2, uint64(q) - 1, uint64(q), uint64(q) + 1, uint64(q) + 2, T - 1, T, T + 1, uint64(max) - 1, uint64(max)}
	out := make([]uint32, 0, len(cand))
next:
	for _, w := range cand {
		if w > uint64(max) { // includes the wrap-arounds of q-2, q-1, T-1 at zero
			continue
		}
		for _, o := range out {
			if o == uint32(w) {
				continue next
			}
		}
		out = append(out, uint32(w))
	}
	return out
}

type quorumStats struct {
	mu                              sync.Mutex
	sizes, decisions, acc, rej, out int64
	atQuorum, below                 int64
	slack                           []uint64 // committee sizes where the verifier follows the IEEE product, one seat below the exact fraction
	slackN                          int64
	notMultiple                     int64 // sizes that are not multiples of 1000
}

// quorumCase compares the verifier's quorum decision for (T, w) with the reference.  Returns a violation signature
// ("" = agrees or tolerated IEEE slack).
func quorumCase(T uint64, w uint32, cert bool, st *quorumStats) (sig, detail string) {
	q, ok := refQuorum32(T, cert)
	if !ok {
		return "", ""
	}
	want := w >= q
	var got bool
	if msg := mc.Catch(func() { got = ucon.OverThreshold(w, T, !cert) }); msg != "" {
		name, _ := quorumName(cert)
		return "quorum function (OverThreshold) panics: " + normErr(msg), fmt.Sprintf("OverThreshold(weight=%d, committee size=%d, %s) panicked: %s", w, T, name, msg)
	}
	if st != nil {
		st.decisions++
		if got {
			st.acc++
		} else {
			st.rej++
		}
		if w == q {
			st.atQuorum++
		}
		if uint64(w)+1 == uint64(q) {
			st.below++
		}
	}
	if got == want {
		return "", ""
	}
	name, frac := quorumName(cert)
	// IEEE slack: the exact product is an integer, the double product truncates to one seat less, and the verifier
	// decides exactly as that documented expression does
	pm := uint64(precommitPermille)
	if cert {
		pm = certPermille
	}
	hi, lo := bits.Mul64(T, pm)
	_, rem := bits.Div64(hi, lo, 1000)
	if iq := ieeeQuorum(T, cert); rem == 0 && iq.IsUint64() && iq.Uint64()+1 == uint64(q) && got == (uint64(w) >= iq.Uint64()) {
		if st != nil {
			st.slackN++
			if len(st.slack) < 12 && (len(st.slack) == 0 || st.slack[len(st.slack)-1] != T) {
				st.slack = append(st.slack, T)
			}
		}
		return "", ""
	}
	dir := "weight below"
	verdict := "accepted"
	if !got {
		dir, verdict = "weight at or above", "rejected"
	}
	sig = fmt.Sprintf("quorum function (OverThreshold): %s %s ⌊%s·committee size⌋ %s", name, dir, frac, verdict)
	detail = fmt.Sprintf("OverThreshold(weight=%d, committee size=%d, %s votes) = %v; the %s quorum of a committee of %d seats is ⌊%s·%d⌋ = %d seats (%s per mille, exact integer arithmetic), so a weight of %d must be %s.\nThis is the function verifyVotes (header verification: precommits and certificate votes) and the live voter call to decide a quorum; the shipped protocol versions use committee sizes 2000 (precommits) and 4000 (certificate votes).",
		w, T, name, got, name, T, frac, T, q, map[bool]string{false: "685", true: "585"}[cert], w, map[bool]string{true: "accepted", false: "rejected"}[want])
	return sig, detail
}

// quorumDomain: the committee sizes of the tier.  quick: every size 0..100000; thorough: every size 0..5000000; both:
// the boundary classes 2^k+d (k = 0..33, d = -3..3), n·10^e+d (e = 3..9, n = 1..9), and the sizes around the largest
// committee whose quorum fits a uint32, for each of the two fractions.
func quorumDomain(quick bool) (dense uint64, sparse []uint64) {
	dense = 5000000
	if quick {
		dense = 100000
	}
	seen := map[uint64]bool{}
	add := func(v uint64) {
		if v > dense && !seen[v] {
			seen[v] = true
			sparse = append(sparse, v)
		}
	}
	around := func(v uint64) {
		for d := uint64(0); d <= 3; d++ {
			add(v + d)
			if v >= d {
				add(v - d)
			}
		}
	}
	for k := uint(0); k <= 33; k++ {
		around(uint64(1) << k)
	}
	for e, p := 3, uint64(1000); e <= 9; e, p = e+1, p*10 {
		for n := uint64(1); n <= 9; n++ {
			around(n * p)
		}
	}
	for _, cert := range []bool{false, true} {
		// largest T with ⌊pm·T/1000⌋ ≤ 2^32-1
		pm := uint64(precommitPermille)
		if cert {
			pm = certPermille
		}
		around(((uint64(^uint32(0))+1)*1000 - 1) / pm)
	}
	sort.Slice(sparse, func(i, j int) bool { return sparse[i] < sparse[j] })
	return
}

// exploreQuorum: the verifier's quorum decision against the exact reference for every committee size of the domain,
// both fractions, every probed weight.
func exploreQuorum(r *mc.Run, ws *witnesses) {
	dense, sparse := quorumDomain(r.Quick())
	const chunk = 4096
	nChunks := int((dense + chunk) / chunk) // sizes 0..dense
	total := &quorumStats{}
	offer := func(T uint64, w uint32, cert bool, sig, detail string) {
		rank := fmt.Sprintf("%020d|%010d", T, w)
		ws.mu.Lock()
		defer ws.mu.Unlock()
		if o, ok := ws.best[sig]; ok && o.rank <= rank {
			return
		}
		ws.best[sig] = &witness{rank: rank, v: mc.Violation{Sig: sig, Config: "quorum function", Input: QSpec{Kind: kindQuorum, T: T, Weight: w, Cert: cert}, Detail: detail}}
	}
	one := func(T uint64, st *quorumStats) {
		st.sizes++
		if T%1000 != 0 {
			st.notMultiple++
		}
		for _, cert := range []bool{false, true} {
			q, ok := refQuorum32(T, cert)
			if !ok {
				st.out++
				continue
			}
			for _, w := range quorumWeights(T, q) {
				if sig, detail := quorumCase(T, w, cert, st); sig != "" {
					r.Count("quorum function: VIOLATING_CASES", 1)
					offer(T, w, cert, sig, detail)
				}
			}
		}
	}
	merge := func(st *quorumStats) {
		total.mu.Lock()
		defer total.mu.Unlock()
		total.sizes += st.sizes
		total.decisions += st.decisions
		total.acc += st.acc
		total.rej += st.rej
		total.out += st.out
		total.atQuorum += st.atQuorum
		total.below += st.below
		total.slackN += st.slackN
		total.notMultiple += st.notMultiple
		total.slack = append(total.slack, st.slack...)
	}
	r.ForEach(nChunks+1, func(wk, i int) {
		st := &quorumStats{}
		if i == nChunks {
			for _, T := range sparse {
				one(T, st)
			}
		} else {
			lo := uint64(i) * chunk
			hi := lo + chunk - 1
			if hi > dense {
				hi = dense
			}
			for T := lo; T <= hi; T++ {
				one(T, st)
			}
		}
		merge(st)
	})
	sort.Slice(total.slack, func(i, j int) bool { return total.slack[i] < total.slack[j] })
	if len(total.slack) > 12 {
		total.slack = total.slack[:12]
	}
	r.Count("quorum function: committee sizes", total.sizes)
	r.Count("quorum function: committee sizes that are not multiples of 1000", total.notMultiple)
	r.Count("quorum function: decisions compared with the exact reference", total.decisions)
	r.Count("quorum function: verifier accepts", total.acc)
	r.Count("quorum function: verifier rejects", total.rej)
	r.Count("quorum function: weight exactly at the quorum", total.atQuorum)
	r.Count("quorum function: weight one seat below the quorum", total.below)
	r.Count("quorum function: (size, fraction) pairs outside the domain (quorum does not fit a uint32)", total.out)
	r.Count("quorum function: decisions one seat below the exact fraction that follow the IEEE double product (fraction·size is an integer)", total.slackN)
	r.SetExtra("quorum_function", map[string]interface{}{
		"reference":                 "precommits ⌊685·T/1000⌋, certificate votes ⌊585·T/1000⌋ (exact, 128-bit product); accept ⇔ weight ≥ quorum",
		"dense_committee_sizes":     fmt.Sprintf("0..%d", dense),
		"boundary_committee_sizes":  len(sparse),
		"largest_committee_size":    sparse[len(sparse)-1],
		"weights_per_size":          "0, 1, q-2..q+2, T-1, T, T+1, 2^32-2, 2^32-1 (those that are uint32 values)",
		"function_under_test":       "ucon.OverThreshold(count, threshold, isPos) — called by verifyVotes (consensus.go) for precommits (isPos) and certificate votes (!isPos), and by the live voter",
		"ieee_rounding_slack_sizes": total.slack,
		"ieee_rounding_slack_note":  "committee sizes (first few) where fraction·size is an integer and the double product float64(size)·fraction truncates to one seat less; the verifier's decision there equals the software-computed IEEE value of the documented expression and is tolerated; no shipped committee size (2000, 4000) is among them",
	})
}

func replayQuorum(r *mc.Run, v *mc.Violation, bs []byte) {
	var s QSpec
	if err := json.Unmarshal(bs, &s); err != nil {
		fmt.Println("bad replay input:", err)
		return
	}
	q, ok := refQuorum32(s.T, s.Cert)
	name, _ := quorumName(s.Cert)
	fmt.Printf("committee size %d, %s votes: reference quorum %d (fits uint32: %v), IEEE value of the documented expression %v\n", s.T, name, q, ok, ieeeQuorum(s.T, s.Cert))
	var got bool
	msg := mc.Catch(func() { got = ucon.OverThreshold(s.Weight, s.T, !s.Cert) })
	fmt.Printf("OverThreshold(%d, %d, %v) = %v %s; reference: %v\n", s.Weight, s.T, !s.Cert, got, msg, s.Weight >= q)
	sig, detail := quorumCase(s.T, s.Weight, s.Cert, nil)
	fmt.Println("signature now:", sig)
	if sig != "" && sig == v.Sig {
		r.Report(mc.Violation{Sig: sig, Config: "quorum function", Input: s, Detail: detail})
	}
}

// ---- protocol versions with other committee sizes ------------------------------

// Every shipped protocol version uses ValidatorThreshold 2000 and CertValThreshold 4000, and for those two numbers
// many different quorum rules coincide.  ScaledVersion(T) is a protocol version of the harness: the current
// version's parameters with ValidatorThreshold = T and CertValThreshold = 2T-1, registered in params.Versions
// under a version number of its own (the verifier and the stub chain look protocol parameters up there by
// header.CurrVersion).  Nothing else differs: fixtures, forgeries, entry points and oracle are the usual ones.
const scaledVersionBase = 1000000

func ScaledVersion(T uint64) params.YouVersion { return params.YouVersion(scaledVersionBase + T) }

func scaledSize(v params.YouVersion) (uint64, bool) {
	if uint64(v) > scaledVersionBase && uint64(v) < 2*scaledVersionBase {
		return uint64(v) - scaledVersionBase, true
	}
	return 0, false
}

var scaledMu sync.Mutex

// ensureVersion registers a scaled version that params.Versions does not have (yet, or any more: InitNetworkId
// replaces the table).  Called from the fixture constructors only, i.e. while no verification is running.
func ensureVersion(v params.YouVersion) {
	T, ok := scaledSize(v)
	if !ok {
		return
	}
	scaledMu.Lock()
	defer scaledMu.Unlock()
	if _, ok := params.Versions[v]; ok {
		return
	}
	yp := params.Versions[params.YouCurrentVersion]
	yp.Version = v
	yp.ValidatorThreshold = T
	yp.CertValThreshold = 2*T - 1
	params.Versions[v] = yp
}

// scaledSizes: committee sizes of the scaled fixtures (none a multiple of 1000; 2T-1 neither).
var scaledSizes = []uint64{999, 1001, 1999, 2500, 3001}
