// Package c11: the canonical chain stays consistent and hash-linked under any
// import order or crash.  BFS over all insert histories of a fixed block tree
// (main chain, longer fork, shorter fork, invalid blocks) on the real
// BlockChain over a write-log database; at every transition the process is
// additionally "killed" after every atomic database write of that import,
// restarted on the frozen database, checked, and recovered.
package c11

import (
	"fmt"
	"math/big"
	"sort"
	"strings"
	"sync"

	"github.com/youchainhq/go-youchain/common"
	"github.com/youchainhq/go-youchain/core"
	"github.com/youchainhq/go-youchain/core/rawdb"
	"github.com/youchainhq/go-youchain/core/types"
	"github.com/youchainhq/go-youchain/event"
	"github.com/youchainhq/go-youchain/local"
	"github.com/youchainhq/go-youchain/params"
	"github.com/youchainhq/go-youchain/staking"

	"verif/checks/chainx"
	"verif/mc"
)

// ---- the block tree (built once with the chainx builder) ----------------------

type tree struct {
	plain   bool // built (and imported) without the staking module: blocks without txs have no receipts
	blocks  map[string]*types.Block
	invalid map[string]string // name -> why
	names   map[common.Hash]string
	txs     []*types.Transaction
	next    map[string]string // next block on the same branch
	menu    []string          // segments: "M1-M3"
}

var (
	treeOnce  sync.Once
	theTree   *tree
	plainTree *tree
)

func buildTree(r *mc.Run) *tree {
	treeOnce.Do(func() {
		plainTree = buildPlainTree(r)
		cfg := chainx.DefaultCfg
		cfg.MaxRewardsPeriod = 1000
		chainx.SetParams(cfg)
		f := chainx.Fix()
		t := &tree{blocks: map[string]*types.Block{}, invalid: map[string]string{}, names: map[common.Hash]string{}, next: map[string]string{}}
		add := func(name string, b *types.Block) {
			t.blocks[name] = b
			t.names[b.Hash()] = name
			t.txs = append(t.txs, b.Transactions()...)
		}
		build := func(n *chainx.Node, name, op string) {
			h := &chainx.Hist{F: f, R: r, Node: n, Txs: map[common.Hash]chainx.TxInfo{}}
			cb, txOps, _ := chainx.ParseBlockOp(op)
			st := n.State()
			num := new(big.Int).Add(n.Head().Number(), common.Big1())
			var txs []*types.Transaction
			for _, o := range txOps {
				tx, err := f.MkTx(st, num, o)
				if err != nil {
					panic(err)
				}
				from, _ := types.Sender(types.MakeSigner(num), tx)
				st.SetNonce(from, st.GetNonce(from)+1)
				txs = append(txs, tx)
			}
			_ = h
			b, err := n.Build(f.Val(cb).Main, txs)
			if err != nil {
				panic(err)
			}
			add(name, b.Block)
		}
		a := chainx.NewNode(f)
		build(a, "M1", "c1:xfer")
		fk := a.Fork()
		build(a, "M2", "c1:xfer+store")
		gk := a.Fork()
		build(a, "M3", "c1:")
		build(a, "M4", "c1:xfer")
		build(a, "M5", "c1:") // only used as the "one further valid block" of recovery
		build(fk, "F2", "s1:xfer")
		build(fk, "F3", "s1:store")
		build(fk, "F4", "s1:")
		build(fk, "F5", "s1:xfer")
		build(fk, "F6", "s1:") // recovery only
		build(gk, "G3", "s1:revert")
		build(gk, "G4", "s1:") // recovery only
		a.Close()
		fk.Close()
		gk.Close()
		// invalid variants of M3 / F3
		m3 := t.blocks["M3"]
		h := m3.Header()
		h.Root[0] ^= 1
		add("R3", m3.WithSeal(h)) // wrong state root
		t.invalid["R3"] = "wrong state root"
		h = m3.Header()
		h.Extra = []byte{chainx.BadSealMark}
		add("S3", m3.WithSeal(h)) // invalid seal
		t.invalid["S3"] = "invalid seal"
		f3 := t.blocks["F3"]
		h = f3.Header()
		h.TxHash[0] ^= 1
		add("T3", f3.WithSeal(h)) // tx root does not match body
		t.invalid["T3"] = "wrong tx root"
		h = t.blocks["M4"].Header()
		h.ParentHash[0] ^= 1
		add("U4", t.blocks["M4"].WithSeal(h)) // unknown parent
		t.invalid["U4"] = "unknown parent"
		h = m3.Header()
		h.Bloom[5] ^= 0x10
		add("L3", m3.WithSeal(h)) // wrong logs bloom
		t.invalid["L3"] = "wrong bloom"
		h = m3.Header()
		h.ReceiptHash[0] ^= 1
		add("H3", m3.WithSeal(h)) // wrong receipt root
		t.invalid["H3"] = "wrong receipt root"
		h = t.blocks["M4"].Header()
		h.GasUsed++
		add("Q4", t.blocks["M4"].WithSeal(h)) // wrong gas used
		t.invalid["Q4"] = "wrong gas used"
		t.next = map[string]string{"M1": "M2", "M2": "M3", "M3": "M4", "M4": "M5", "F2": "F3", "F3": "F4", "F4": "F5", "F5": "F6", "G3": "G4"}
		t.menu = []string{"M1", "M2", "M3", "M4", "M1-M2", "M2-M3", "M3-M4", "M1-M4", "F2", "F3", "F2-F3", "F4-F5", "F2-F5", "G3", "R3", "S3", "T3", "U4", "L3", "H3", "Q4", "M2-R3", "F2-T3"}
		theTree = t
	})
	return theTree
}

// buildPlainTree: the same genesis, NO staking module (the configuration of the repository's own core tests):
// a block without transactions executes to zero receipts.  M1 xfer, M2 EMPTY, M3 xfer, M4 (recovery only);
// fork F2 (empty); invalid variants of the EMPTY block M2: junk bloom, wrong receipt root, wrong gas used,
// wrong state root.
func buildPlainTree(r *mc.Run) *tree {
	cfg := chainx.DefaultCfg
	cfg.MaxRewardsPeriod = 1000
	chainx.SetParams(cfg)
	f := chainx.Fix()
	t := &tree{plain: true, blocks: map[string]*types.Block{}, invalid: map[string]string{}, names: map[common.Hash]string{}, next: map[string]string{}}
	add := func(name string, b *types.Block) {
		t.blocks[name] = b
		t.names[b.Hash()] = name
		t.txs = append(t.txs, b.Transactions()...)
	}
	build := func(n *chainx.Node, name, op string) {
		h := &chainx.Hist{F: f, R: r, Node: n}
		b, err := h.BuildOnly(op)
		if err != nil {
			panic(err)
		}
		add(name, b)
	}
	a := chainx.NewPlainNode(f)
	build(a, "M1", "c1:xfer")
	fk := a.Fork()
	build(a, "M2", "c1:")
	build(a, "M3", "c1:xfer")
	build(a, "M4", "c1:")
	build(fk, "F2", "s1:")
	build(fk, "F3", "s1:xfer")
	a.Close()
	fk.Close()
	m2 := t.blocks["M2"]
	if len(m2.Transactions()) != 0 || m2.ReceiptHash() != types.EmptyRootHash {
		panic("harness: plain tree's M2 is expected to have no receipts")
	}
	h := m2.Header()
	h.Bloom[7] ^= 0x21
	add("L2", m2.WithSeal(h))
	t.invalid["L2"] = "wrong bloom on a block without receipts"
	h = m2.Header()
	h.ReceiptHash[0] ^= 1
	add("H2", m2.WithSeal(h))
	t.invalid["H2"] = "wrong receipt root on a block without receipts"
	h = m2.Header()
	h.GasUsed = 21000
	add("Q2", m2.WithSeal(h))
	t.invalid["Q2"] = "wrong gas used on a block without receipts"
	h = m2.Header()
	h.Root[0] ^= 1
	add("R2", m2.WithSeal(h))
	t.invalid["R2"] = "wrong state root"
	t.next = map[string]string{"M1": "M2", "M2": "M3", "M3": "M4", "F2": "F3"}
	t.menu = []string{"M1", "M2", "M3", "M1-M3", "F2", "L2", "H2", "Q2", "R2", "M1-L2"}
	return t
}

func (t *tree) segment(op string) (names []string) {
	parts := strings.Split(op, "-")
	if len(parts) == 1 {
		return parts
	}
	branch, from, to := parts[0][:1], int(parts[0][1]-'0'), int(parts[1][1]-'0')
	for i := from; i < to; i++ {
		names = append(names, fmt.Sprintf("%s%d", branch, i))
	}
	return append(names, parts[1]) // last element may be an invalid variant (e.g. M2-R3)
}

func (t *tree) blocksOf(op string) types.Blocks {
	var bs types.Blocks
	for _, n := range t.segment(op) {
		bs = append(bs, t.blocks[n])
	}
	return bs
}

// ---- node over a crash database ---------------------------------------------

type node struct {
	db  *mc.CrashDB
	bc  *core.BlockChain
	mux *event.TypeMux
	// poisoned: InsertChain panicked while holding the chain lock / wait group;
	// Stop() would block for ever, so such an instance is abandoned, not closed.
	poisoned bool
}

func open(db *mc.CrashDB) (*node, error) { return openOpt(db, false) }

func openOpt(db *mc.CrashDB, plain bool) (*node, error) {
	eng := chainx.NewStubUcon()
	mux := new(event.TypeMux)
	bc, err := core.NewBlockChain(db, eng, mux, params.ArchiveNode, local.FakeDetailDB())
	if err != nil {
		return nil, err
	}
	bc.VerifWaitIndexersActive() // else Stop() leaves the indexers' event loops (and the chain) behind
	st := staking.NewStaking(nil)
	if !plain {
		st.Register(bc.Processor())
	}
	if err := st.Start(bc, eng); err != nil {
		return nil, err
	}
	return &node{db: db, bc: bc, mux: mux}, nil
}

func (n *node) close() {
	if n.poisoned {
		return
	}
	n.bc.Stop()
	n.mux.Stop()
}

var (
	genesisOnce sync.Once
	genesisDB   *mc.CrashDB
)

func freshDB() *mc.CrashDB {
	genesisOnce.Do(func() {
		db := mc.NewCrashDB()
		if _, err := core.SetupGenesisBlock(db, params.NetworkIdForTestCase, chainx.Fix().Genesis()); err != nil {
			panic(err)
		}
		genesisDB = db
	})
	return genesisDB.Snapshot()
}

// ---- the system -------------------------------------------------------------

type Sys struct {
	r     *mc.Run
	t     *tree
	crash bool // enumerate crash points at every transition
	n     *node
	hist  []string
	viols []mc.Violation
	dead  bool
}

func (s *Sys) Reset() {
	if s.n != nil {
		s.n.close()
	}
	n, err := openOpt(freshDB(), s.t.plain)
	if err != nil {
		panic(err)
	}
	s.n, s.hist, s.viols, s.dead = n, s.hist[:0], nil, false
}

func (s *Sys) Enabled() []string {
	if s.dead {
		return nil
	}
	return s.t.menu
}

func (s *Sys) Check() []mc.Violation { return s.viols }

func (s *Sys) fail(sig, detail string) {
	s.viols = append(s.viols, mc.Violation{Sig: sig, Detail: detail})
}

// Key: head + canonical index + set of stored blocks/states (what decides every future import).
func (s *Sys) Key() string {
	if s.dead {
		return "dead:" + strings.Join(s.hist, ";")
	}
	return describe(s.t, s.n)
}

func describe(t *tree, n *node) string {
	var b strings.Builder
	head := n.bc.CurrentBlock()
	fmt.Fprintf(&b, "head=%s canon=", t.name(head.Hash()))
	for i := uint64(1); i <= 6; i++ {
		if h := rawdb.ReadCanonicalHash(n.db, i); h != (common.Hash{}) {
			fmt.Fprintf(&b, "%d:%s,", i, t.name(h))
		}
	}
	var have []string
	for name, blk := range t.blocks {
		if n.bc.HasBlock(blk.Hash(), blk.NumberU64()) {
			st := ""
			if n.bc.HasState(blk.Root()) {
				st = "+s"
			}
			have = append(have, name+st)
		}
	}
	sort.Strings(have)
	fmt.Fprintf(&b, " have=%s", strings.Join(have, ","))
	return b.String()
}

func (t *tree) name(h common.Hash) string {
	if n, ok := t.names[h]; ok {
		return n
	}
	if h == (common.Hash{}) {
		return "-"
	}
	return "G0"
}

func errClass(err error) string {
	if err == nil {
		return "ok"
	}
	e := err.Error()
	for _, k := range []string{"unknown ancestor", "invalid sealer", "transaction root hash mismatch", "invalid merkle root", "exist canonical", "pruned ancestor", "non contiguous", "missing parent", "VerifyYouVersionState"} {
		if strings.Contains(e, k) {
			return k
		}
	}
	if len(e) > 60 {
		e = e[:60]
	}
	return e
}

func (s *Sys) Apply(op string) string {
	s.viols = nil
	s.hist = append(s.hist, op)
	seg := s.t.blocksOf(op)
	l0 := s.n.db.LogLen()
	var err error
	if m, where := mc.CatchStack(func() { err = s.n.bc.InsertChain(seg) }); m != "" {
		s.dead = true
		s.n.poisoned = true
		s.fail(fmt.Sprintf("InsertChain panics at %s", where), m)
		return "PANIC " + m
	}
	l1 := s.n.db.LogLen()
	ob := fmt.Sprintf("%s head=%s", errClass(err), s.t.name(s.n.bc.CurrentBlock().Hash()))
	for _, b := range invariants(s.t, s.n) {
		s.fail(b+" (after insert, no crash)", fmt.Sprintf("after %s: %s\nstate: %s", strings.Join(s.hist, " ; "), b, describe(s.t, s.n)))
	}
	s.r.Count("inserts_checked", 1)
	if s.crash && l1 > l0 && len(s.viols) == 0 {
		s.crashPoints(op, l0, l1)
	}
	return ob
}

// invariants of a consistent chain (evaluated on a live or freshly reopened node).
func invariants(t *tree, n *node) (bad []string) {
	head := n.bc.CurrentBlock()
	if head == nil {
		return []string{"no head block"}
	}
	// number->hash from head down to genesis is the parent-linked chain of the head
	cur := head
	for cur.NumberU64() > 0 {
		if ch := rawdb.ReadCanonicalHash(n.db, cur.NumberU64()); ch != cur.Hash() {
			bad = append(bad, fmt.Sprintf("canonical index broken: number %d maps to %s but the head's ancestor is %s", cur.NumberU64(), t.name(ch), t.name(cur.Hash())))
			break
		}
		if byNum := n.bc.GetBlockByNumber(cur.NumberU64()); byNum == nil || byNum.Hash() != cur.Hash() {
			bad = append(bad, fmt.Sprintf("GetBlockByNumber(%d) is not the head's ancestor", cur.NumberU64()))
			break
		}
		if why, inv := t.invalid[t.name(cur.Hash())]; inv {
			bad = append(bad, "invalid block is canonical: "+why)
		}
		p := n.bc.GetBlock(cur.ParentHash(), cur.NumberU64()-1)
		if p == nil {
			bad = append(bad, fmt.Sprintf("canonical block %d has no stored parent", cur.NumberU64()))
			break
		}
		cur = p
	}
	if n.bc.CurrentHeader().Hash() != head.Hash() {
		bad = append(bad, "current header differs from current block")
	}
	// the head's state opens (all three roots)
	if _, err := n.bc.State(); err != nil {
		bad = append(bad, "head state unavailable")
	}
	// tx lookups point into canonical blocks that contain the tx
	for _, tx := range t.txs {
		bh, num, idx := rawdb.ReadTxLookupEntry(n.db, tx.Hash())
		if bh == (common.Hash{}) {
			continue
		}
		blk := n.bc.GetBlock(bh, num)
		switch {
		case blk == nil:
			bad = append(bad, "tx lookup points to a block that is not stored")
		case int(idx) >= len(blk.Transactions()) || blk.Transactions()[idx].Hash() != tx.Hash():
			bad = append(bad, "tx lookup points to a block position that does not hold the tx")
		case rawdb.ReadCanonicalHash(n.db, num) != bh || num > head.NumberU64():
			bad = append(bad, "tx lookup points into a non-canonical block")
		}
	}
	return dedupe(bad)
}

func dedupe(in []string) (out []string) {
	seen := map[string]bool{}
	for _, s := range in {
		if !seen[s] {
			seen[s] = true
			out = append(out, s)
		}
	}
	return
}

// crashPoints: the import op wrote records [l0,l1).  For every i in [l0,l1) the
// database frozen after i records is what a killed process leaves behind.
func (s *Sys) crashPoints(op string, l0, l1 int) {
	seg := s.t.blocksOf(op)
	last := s.t.segment(op)[len(seg)-1]
	var further types.Blocks
	if nx := s.t.next[last]; nx != "" {
		further = types.Blocks{s.t.blocks[nx]}
	}
	// reference: the node that never crashed, after the same recovery imports
	ref, err := openOpt(s.n.db.Snapshot(), s.t.plain)
	if err != nil {
		s.fail("reopen of a cleanly written database fails", err.Error())
		return
	}
	ref.bc.InsertChain(seg)
	if further != nil {
		ref.bc.InsertChain(further)
	}
	want := describe(s.t, ref)
	ref.close()
	for i := l0; i < l1; i++ {
		s.r.Count("crash_points", 1)
		frozen := s.n.db.At(i)
		var n *node
		var oerr error
		if m, where := mc.CatchStack(func() { n, oerr = openOpt(frozen, s.t.plain) }); m != "" {
			s.fail(fmt.Sprintf("restart panics at %s", where), fmt.Sprintf("crash after write %d of [%d,%d) of %s: %s", i, l0, l1, op, m))
			continue
		}
		if oerr != nil {
			s.fail("restart fails: "+errClass(oerr), fmt.Sprintf("crash after write %d of [%d,%d) of %s: %v\nwrites: %s", i, l0, l1, op, oerr, s.writes(l0, i)))
			continue
		}
		for _, b := range invariants(s.t, n) {
			s.fail(b+" (after restart)", fmt.Sprintf("history %s; crash after write %d of [%d,%d)\nwrites done in this import: %s\nstate: %s", strings.Join(s.hist, " ; "), i, l0, l1, s.writes(l0, i), describe(s.t, n)))
		}
		// not wedged: re-import the interrupted blocks and one further valid block
		var rerr error
		if m, where := mc.CatchStack(func() {
			rerr = n.bc.InsertChain(seg)
			if further != nil {
				n.bc.InsertChain(further)
			}
		}); m != "" {
			s.fail(fmt.Sprintf("recovery import panics at %s", where), m)
			continue // abandoned: a panic inside InsertChain leaves its lock held
		}
		_ = rerr
		if got := describe(s.t, n); got != want {
			s.fail("node recovered from a crash differs from the node that never crashed: "+diffDesc(want, got),
				fmt.Sprintf("history %s; crash after write %d of [%d,%d)\nwrites done: %s\nwant %s\ngot  %s", strings.Join(s.hist, " ; "), i, l0, l1, s.writes(l0, i), want, got))
		}
		for _, b := range invariants(s.t, n) {
			s.fail(b+" (after recovery)", fmt.Sprintf("history %s; crash after write %d", strings.Join(s.hist, " ; "), i))
		}
		n.close()
	}
}

func diffDesc(a, b string) string {
	fa, fb := strings.Split(a, " "), strings.Split(b, " ")
	var d []string
	for i := range fa {
		if i < len(fb) && fa[i] != fb[i] {
			d = append(d, fa[i][:strings.Index(fa[i], "=")])
		}
	}
	return strings.Join(d, ",")
}

// writes renders the keys of the records [from,to) (for explanations).
func (s *Sys) writes(from, to int) string {
	log := s.n.db.Log()
	var out []string
	for i := from; i < to && i < len(log); i++ {
		var ks []string
		for _, w := range log[i].Writes {
			k := keyKind(w.Key)
			if w.Del {
				k = "del:" + k
			}
			ks = append(ks, k)
		}
		if len(ks) > 6 {
			ks = append(ks[:6], fmt.Sprintf("…(%d)", len(log[i].Writes)))
		}
		out = append(out, "{"+strings.Join(ks, ",")+"}")
	}
	return strings.Join(out, " ")
}

func keyKind(k []byte) string {
	s := string(k)
	switch {
	case s == "LastBlock":
		return "HeadBlock"
	case s == "LastHeader":
		return "HeadHeader"
	case len(k) == 32:
		return "trienode"
	case len(k) > 0 && k[0] == 'h' && len(k) == 10:
		return "canon#"
	case len(k) > 0 && k[0] == 'h':
		return "header"
	case len(k) > 0 && k[0] == 'H':
		return "hash->num"
	case len(k) > 0 && k[0] == 'b':
		return "body"
	case len(k) > 0 && k[0] == 'r':
		return "receipts"
	case len(k) > 0 && k[0] == 'l':
		return "txlookup"
	}
	if len(s) > 10 {
		s = s[:10]
	}
	return fmt.Sprintf("%q", s)
}

func Run(r *mc.Run) {
	r.Level = "fault_enumeration"
	r.Rule = "BFS over all insert histories (menu of 20 segments of a block tree: main M1..M4, longer fork F2..F5, shorter fork G3, wrong-state-root / bad-seal / wrong-tx-root / unknown-parent blocks, segments ending in an invalid block) de-duplicated on (head, canonical index, stored blocks/states); at every transition every prefix of that import's write log is a crash point: restart, invariants, recovery, comparison with the never-crashed node; distinct = distinct chain states reached"
	t := buildTree(r)
	depth, maxStates := 4, 2000
	if !r.Quick() {
		depth, maxStates = 8, 0
		r.SetBudget(40 * 60e9)
	} else {
		r.SetBudget(170e9)
	}
	f := func() mc.System { return &Sys{r: r, t: t, crash: true} }
	r.BFS(f, mc.SeqOpts{Name: "import-tree", Depth: depth, MaxStates: maxStates})
	r.ConfirmSeq("import-tree", f)
	fp := func() mc.System { return &Sys{r: r, t: plainTree, crash: true} }
	pd := 3
	if !r.Quick() {
		pd = 5
	}
	r.BFS(fp, mc.SeqOpts{Name: "import-tree-plain", Depth: pd, MaxStates: maxStates})
	r.ConfirmSeq("import-tree-plain", fp)
	r.Evaluations = *r.Counter("crash_points") + r.Transitions
	r.Assume("crash model: single Put/Delete and batch writes are atomic and the log is prefix-closed (LevelDB semantics)")
	r.Assume("the cryptographic seal is replaced by a flag (C01 covers the real verifier); the stub engine reproduces ucon's structural header outcomes so that the Ucon-only side-chain paths run")
	r.Assume("number->hash entries ABOVE the head are allowed to be stale (they are unreachable from the head)")
}

func Replay(r *mc.Run, v *mc.Violation) {
	t := buildTree(r)
	if v.System == "import-tree-plain" {
		t = plainTree
	}
	obs, viols, err := mc.ReplaySeq(&Sys{r: r, t: t, crash: true}, v.Ops)
	fmt.Println("obs:", obs, "err:", err)
	for _, x := range viols {
		x.System, x.Ops = v.System, v.Ops
		r.Report(x)
	}
}
