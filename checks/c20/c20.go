// Package c20: the transaction pool's views (pending / queue / all / priced /
// pendingNonces) stay consistent under any operation order.
//
// Pass 1 (deciding): BFS with state de-duplication over the real core.TxPool
// whose background goroutines are stopped; the harness plays scheduler (see
// the CONFORMANCE comment on Sys).  Pass 2 (side condition): the same op
// bodies free-running under the race detector (race.go).
package c20

import (
	"fmt"
	"strings"
	"time"

	"verif/mc"
)

var (
	defLimits   = limits{accountSlots: 2, globalSlots: 3, accountQueue: 2, globalQueue: 3} // DESIGN §3 C20
	tightLimits = limits{accountSlots: 1, globalSlots: 2, accountQueue: 1, globalQueue: 2}
)

// The sub-alphabets.  Every one contains adds, head changes and run/only; they
// differ in which dimension is wide.  The narrow ones go deepest and run first.
var configs = []*config{
	{
		// reorg with re-injection into a FULL pool: starts on the fork head F1,
		// pool capacity 4; the reorg F1 -> H1 re-injects B0b (price 2)
		name:    "reorg-full",
		prelude: []string{"head(F1)", "run(1)"},
		remote:  []string{"A0a", "A2b", "B1b", "B3b", "B2a"},
		heads:   []string{"H1", "F1"},
		lim:     tightLimits, maxReqs: 2, depthQ: 8, depthT: 11, shareQ: 30, shareT: 200,
	},
	{
		// price-heap bookkeeping: gapped cheap/expensive transactions that get
		// truncated or evicted (stale heap entries), added again and re-priced
		name:   "priced-stale",
		remote: []string{"A1a", "A2a", "B1b", "B2a", "A0a"},
		heads:  []string{"H1"},
		prices: []int64{2},
		ticks:  true,
		lim:    defLimits, maxReqs: 2, depthQ: 8, depthT: 11, shareQ: 30, shareT: 200,
	},
	{
		// queue-heavy: gapped transactions of both accounts, tightest queue limits
		name:   "queues-tight",
		remote: []string{"A0a", "A1b", "A2a", "A3b", "B1a", "B2a", "B3a"},
		heads:  []string{"H1", "G"},
		prices: []int64{2},
		ticks:  true,
		lim:    tightLimits, maxReqs: 2, depthQ: 6, depthT: 9, shareQ: 30, shareT: 200,
	},
	{
		// two accounts competing for the global limits, price bumps, all heads
		name:   "two-accounts",
		remote: []string{"A0a", "A1a", "A1b", "A2a", "B0a", "B1a", "B1b", "B2a"},
		heads:  []string{"H1", "H2", "F1"},
		prices: []int64{2},
		ticks:  true,
		lim:    defLimits, maxReqs: 2, depthQ: 6, depthT: 8, shareQ: 45, shareT: 400,
	},
	{
		// one account, all nonces and variants: replacement (valid / refused),
		// unaffordable and over-gas-limit transactions, gaps, reorg with re-injection
		name:   "one-account",
		remote: []string{"A0a", "A0b", "A1a", "A1b", "A1c", "A1x", "A2a", "A2b", "A3a"},
		heads:  []string{"G", "H1", "H2", "F1"},
		prices: []int64{2, 1},
		ticks:  true,
		lim:    defLimits, maxReqs: 3, depthQ: 5, depthT: 7, shareQ: 40, shareT: 280,
	},
	{
		// local (exempt) account against a remote one; tie order reversed
		name:   "local-remote",
		remote: []string{"B0a", "B1a", "B2a", "B3a", "A1a"},
		local:  []string{"A0a", "A1a", "A2a", "A3a"},
		heads:  []string{"H1", "F1"},
		prices: []int64{2},
		ticks:  true,
		lim:    defLimits, maxReqs: 2, tieBA: true, depthQ: 6, depthT: 8, shareQ: 45, shareT: 400,
	},
}

func configByName(n string) *config {
	for _, c := range configs {
		if c.name == n {
			return c
		}
	}
	return nil
}

// Run is the check entry point.
func Run(r *mc.Run) {
	initUniverse()
	r.Level = "model_checking"
	r.Rule = "BFS over the reachable states of the real TxPool (background goroutines stopped, harness = scheduler) for each sub-alphabet: add(tx,remote|local) through addTxsLocked, head(state) = ChainHeadEvent creating a reset request, run(k)/only(i) = the real runReorg on the first k / the i-th outstanding request(s) merged as scheduleReorgLoop merges them, price(p) = SetGasPrice, tick(k) = the eviction loop body; states are merged on the canonical key (pending, queue, all, priced count, Nonce(), head state, locals, gas price, heartbeat order, outstanding requests); a state is non-trivial/distinct when its key is new. Hard invariants (all = pending (+) queue, priced count, pending gap-free from the head-state nonce / affordable / within gas limit, queued strictly above pending, read APIs == internal view, Nonce() == last pending+1) are checked in every state; soft ones (no executable tx left in the queue, limits) in every state without an outstanding request. Pass 2: the same op bodies from concurrent goroutines on a free-running pool under the race detector (samples schedules; side condition only)"
	r.Assume("the block tree is fixed (G-H1-H2, G-F1) and every block is known to the chain: the setHead / missing-old-head early returns of reset() are not driven")
	r.Assume("heartbeat ties between accounts without a heartbeat (resolved by map order in production) are resolved by a fixed order per sub-alphabet; both orders occur across sub-alphabets")
	r.Assume("journal disabled; NewTxsEvent feed content is not part of the oracle")

	raceDone := startRacePass(r)

	conformance(r)

	// Every sub-alphabet gets its own share of the budget (the deadline is
	// moved forward before each BFS), so a slow one cannot starve the others;
	// one that does not finish clears `exhaustive` and reports the depth reached.
	depths := map[string]int{}
	walls := map[string]float64{}
	for _, c := range configs {
		c := c
		d, share := c.depthQ, c.shareQ
		if !r.Quick() {
			d, share = c.depthT, c.shareT
		}
		depths[c.name] = d
		t0 := time.Now()
		r.SetBudget(time.Since(r.Start) + time.Duration(share)*time.Second)
		f := func() mc.System { return newSys(r, c) }
		r.BFS(f, mc.SeqOpts{Name: "txpool-" + c.name, Depth: d})
		r.Deadline = time.Time{}
		r.ConfirmSeq("txpool-"+c.name, func() mc.System { s := newSys(r, c); s.quiet = true; return s })
		walls[c.name] = time.Since(t0).Seconds()
	}
	r.SetExtra("depth_per_alphabet", depths)
	r.SetExtra("wall_s_per_alphabet", walls)

	finishRacePass(r, raceDone)
}

// Replay re-executes a replay file without the explorer.
func Replay(r *mc.Run, v *mc.Violation) {
	initUniverse()
	if strings.HasPrefix(v.System, "race") {
		replayRace(r, v)
		return
	}
	c := configByName(strings.TrimPrefix(v.System, "txpool-"))
	if c == nil {
		fmt.Println("unknown system", v.System)
		return
	}
	s := newSys(r, c)
	obs, viols, err := mc.ReplaySeq(s, v.Ops)
	for i, op := range v.Ops {
		o := ""
		if i < len(obs) {
			o = obs[i]
		}
		fmt.Printf("  %-14s -> %s\n", op, o)
	}
	fmt.Println("final state:", s.Key())
	if err != nil {
		fmt.Println("replay error:", err)
	}
	for _, x := range viols {
		x.System, x.Ops = v.System, v.Ops
		fmt.Println("violation:", x.Sig, "|", x.Detail)
		r.Report(x)
	}
}
