package c20

import (
	"crypto/ecdsa"
	"fmt"
	"math/big"
	"sort"
	"sync"
	"time"

	"github.com/youchainhq/go-youchain/common"
	"github.com/youchainhq/go-youchain/core"
	"github.com/youchainhq/go-youchain/core/state"
	"github.com/youchainhq/go-youchain/core/types"
	"github.com/youchainhq/go-youchain/crypto"
	"github.com/youchainhq/go-youchain/event"
	"github.com/youchainhq/go-youchain/logging"
	"github.com/youchainhq/go-youchain/params"
	"github.com/youchainhq/go-youchain/youdb"
)

// ---- fixed universe: two accounts, transactions A0a..B3x, four head states ----

const (
	rich    = 1000000
	poor    = 45000 // affords variants a, b, c but not x
	gasNorm = 1000000
	gasLow  = 21500 // variant b (gas 22000) exceeds it
	nNonces = 4
)

var (
	keyHex = []string{
		"b71c71a67e1177ad4e901695e1b4b9ee17ae16c6668d313eac2f96dbcda3f291",
		"8a1f9a8f95be41cd7ccb6168179afb4504aefe388d1e14474d32c45c72ce7b7a",
	}
	accName = []string{"A", "B"}
	keys    []*ecdsa.PrivateKey
	addrs   []common.Address
	addrIdx = map[common.Address]int{}

	// variant -> (price, gas, value)
	variants = map[byte][3]int64{
		'a': {1, 21000, 0},     // cost 21000
		'b': {2, 22000, 0},     // cost 44000, a sufficient price bump over a/c/x
		'c': {1, 21000, 1},     // cost 21001, same price as a: never a valid replacement
		'x': {1, 21000, 30000}, // cost 51000: affordable only for a rich account
	}
	txByID   = map[string]*types.Transaction{}
	idByHash = map[common.Hash]string{}

	initOnce sync.Once
)

func initUniverse() {
	initOnce.Do(func() {
		params.InitNetworkId(params.NetworkIdForTestCase)
		logging.Root().SetHandler(logging.DiscardHandler())
		signer := types.MakeSigner(big.NewInt(0))
		for i, h := range keyHex {
			k, err := crypto.HexToECDSA(h)
			if err != nil {
				panic(err)
			}
			keys = append(keys, k)
			a := crypto.PubkeyToAddress(k.PublicKey)
			addrs = append(addrs, a)
			addrIdx[a] = i
		}
		to := common.BytesToAddress([]byte{0xee})
		for i := range keys {
			for n := 0; n < nNonces; n++ {
				for v, p := range variants {
					tx, err := types.SignTx(types.NewTransaction(uint64(n), to, big.NewInt(p[2]), uint64(p[1]), big.NewInt(p[0]), nil), signer, keys[i])
					if err != nil {
						panic(err)
					}
					if _, err := types.Sender(signer, tx); err != nil { // warm the sender cache once
						panic(err)
					}
					id := fmt.Sprintf("%s%d%c", accName[i], n, v)
					txByID[id] = tx
					idByHash[tx.Hash()] = id
				}
			}
		}
	})
}

func txID(tx *types.Transaction) string {
	if tx == nil {
		return "<nil>"
	}
	if id, ok := idByHash[tx.Hash()]; ok {
		return id
	}
	return fmt.Sprintf("?%x", tx.Hash().Bytes()[:4])
}

// headSpec is one switchable chain head.  The account states are written
// directly (nonce = number of included transactions of the account on the
// branch; balances rise and fall as transfers from elsewhere would make them).
type headSpec struct {
	name     string
	parent   int // index into heads, -1 for genesis
	txs      []string
	nonce    [2]uint64
	bal      [2]int64
	gasLimit uint64
}

// Block tree:   G -- H1 -- H2
//
//	\-- F1
//
// H1/H2 raise A's (and B's) nonce by including pool transactions, H2 lowers
// the gas limit and B's balance; F1 is a fork that lowers A's nonce back to 0
// and A's balance, so switching H1/H2 -> F1 (or any head -> G) is a reorg
// whose discarded transactions are re-injected by reset().
var heads = []headSpec{
	{"G", -1, nil, [2]uint64{0, 0}, [2]int64{rich, rich}, gasNorm},
	{"H1", 0, []string{"A0a"}, [2]uint64{1, 0}, [2]int64{rich, rich}, gasNorm},
	{"H2", 1, []string{"A1a", "B0a"}, [2]uint64{2, 1}, [2]int64{rich, poor}, gasLow},
	{"F1", 0, []string{"B0b"}, [2]uint64{0, 1}, [2]int64{poor, rich}, gasNorm},
}

func headIndex(name string) int {
	for i, h := range heads {
		if h.name == name {
			return i
		}
	}
	panic("harness: unknown head " + name)
}

// world holds the committed head states and the block tree of ONE harness
// instance (nothing mutable is shared between explorer workers).
type world struct {
	db     state.Database
	blocks []*types.Block
	byHash map[common.Hash]*types.Block
}

func newWorld() *world {
	initUniverse()
	w := &world{db: state.NewDatabase(youdb.NewMemDatabase()), byHash: map[common.Hash]*types.Block{}}
	for i, h := range heads {
		st, err := state.New(common.Hash{}, common.Hash{}, common.Hash{}, w.db)
		if err != nil {
			panic(err)
		}
		for a := range addrs {
			st.SetBalance(addrs[a], big.NewInt(h.bal[a]))
			st.SetNonce(addrs[a], h.nonce[a])
		}
		// make the roots of different heads differ even if the accounts agree
		st.SetNonce(common.BytesToAddress([]byte{0xf0}), uint64(i+1))
		r0, r1, r2, err := st.Commit(false)
		if err != nil {
			panic(err)
		}
		hd := &types.Header{Root: r0, ValRoot: r1, StakingRoot: r2, GasLimit: h.gasLimit, Number: big.NewInt(0), Time: uint64(1000 + i)}
		if h.parent >= 0 {
			p := w.blocks[h.parent]
			hd.ParentHash = p.Hash()
			hd.Number = new(big.Int).Add(p.Number(), big.NewInt(1))
		}
		var txs []*types.Transaction
		for _, id := range h.txs {
			txs = append(txs, txByID[id])
		}
		b := types.NewBlock(hd, txs, nil)
		w.blocks = append(w.blocks, b)
		w.byHash[b.Hash()] = b
	}
	return w
}

// stubChain implements core's (unexported) blockChain interface.
type stubChain struct {
	w    *world
	mu   sync.Mutex
	cur  int
	feed event.Feed
	proc core.Processor
}

func newStubChain(w *world) *stubChain {
	return &stubChain{w: w, proc: core.NewStateProcessor(nil, nil)}
}

func (c *stubChain) CurrentBlock() *types.Block {
	c.mu.Lock()
	defer c.mu.Unlock()
	return c.w.blocks[c.cur]
}

func (c *stubChain) setHead(i int) *types.Block {
	c.mu.Lock()
	defer c.mu.Unlock()
	c.cur = i
	return c.w.blocks[i]
}

func (c *stubChain) GetBlock(hash common.Hash, number uint64) *types.Block {
	b := c.w.byHash[hash]
	if b == nil || b.NumberU64() != number {
		return nil
	}
	return b
}

func (c *stubChain) StateAt(root, valRoot, stakingRoot common.Hash) (*state.StateDB, error) {
	return state.New(root, valRoot, stakingRoot, c.w.db)
}

func (c *stubChain) Processor() core.Processor { return c.proc }

func (c *stubChain) SubscribeChainHeadEvent(ch chan<- core.ChainHeadEvent) event.Subscription {
	return c.feed.Subscribe(ch)
}

// ---- pool configuration ----

type limits struct{ accountSlots, globalSlots, accountQueue, globalQueue uint64 }

func poolConfig(l limits) core.TxPoolConfig {
	return core.TxPoolConfig{
		Journal:      "", // no journal: file I/O is not part of C20
		Rejournal:    time.Hour,
		PriceLimit:   1,
		PriceBump:    10,
		AccountSlots: l.accountSlots,
		GlobalSlots:  l.globalSlots,
		AccountQueue: l.accountQueue,
		GlobalQueue:  l.globalQueue,
		Lifetime:     time.Hour,
	}
}

func sortedAddrIdx(as []common.Address) []int {
	var out []int
	for _, a := range as {
		out = append(out, addrIdx[a])
	}
	sort.Ints(out)
	return out
}
