package c20

import (
	"fmt"
	"math/big"
	"sort"
	"strings"
	"time"

	"github.com/youchainhq/go-youchain/common"
	"github.com/youchainhq/go-youchain/core"
	"github.com/youchainhq/go-youchain/core/types"

	"verif/mc"
)

// config is one sub-alphabet (the full alphabet of DESIGN §3 C20 is the union;
// each sub-alphabet is explored exhaustively on its own so that the quick tier
// reaches the depth where limits, replacements and reorgs collide).
type config struct {
	name    string
	remote  []string // transaction ids offered as AddRemotes
	local   []string // transaction ids offered as AddLocals
	heads   []string // head states offered as ChainHeadEvent
	prices  []int64  // SetGasPrice values offered
	ticks   bool     // eviction ticks offered
	lim     limits
	prelude []string // ops applied by Reset before the exploration starts
	maxReqs int      // outstanding request entries kept apart (later ones merge into the last entry)
	tieBA   bool     // heartbeat tie between never-promoted accounts resolved B-older-than-A
	depthQ  int
	depthT  int
	shareQ  int // seconds of budget, quick tier
	shareT  int // seconds of budget, thorough tier
}

// request is one entry of the outstanding-request list: what one (or several
// merged) requestReset / requestPromoteExecutables calls handed to
// scheduleReorgLoop and what has not been given to a runReorg yet.
type request struct {
	reset    bool
	old, new int  // head indexes (reset only)
	dirty    uint // bitmask over accounts; hasDirty tells nil from empty
	hasDirty bool
}

func (q request) String() string {
	var parts []string
	if q.reset {
		parts = append(parts, fmt.Sprintf("R%s>%s", heads[q.old].name, heads[q.new].name))
	}
	if q.hasDirty {
		s := "P"
		for i := range accName {
			if q.dirty&(1<<uint(i)) != 0 {
				s += accName[i]
			}
		}
		parts = append(parts, s)
	}
	return strings.Join(parts, "+")
}

// merge mirrors scheduleReorgLoop: a second reset keeps the first oldHead and
// takes the newer newHead; dirty account sets are united.
func (q *request) merge(o request) {
	if o.reset {
		if !q.reset {
			q.reset, q.old, q.new = true, o.old, o.new
		} else {
			q.new = o.new
		}
	}
	if o.hasDirty {
		q.hasDirty = true
		q.dirty |= o.dirty
	}
}

type apiView struct {
	pending, cPending, cQueued map[common.Address]types.Transactions
	statP, statQ               int
	nonce                      [2]uint64
}

// Sys drives one real TxPool whose background goroutines are stopped.
//
// CONFORMANCE (why every execution of Sys is an execution of the real pool):
// the real pool mutates its indexes only inside these critical sections, all
// under pool.mu: addTxsLocked (from addTxs), runReorg (launched by
// scheduleReorgLoop), the eviction case of loop(), SetGasPrice, and the
// read APIs.  scheduleReorgLoop itself touches no pool index: it receives
// requests over unbuffered channels, merges them into (reset, dirtyAccounts)
// while a run is active - `reset.newHead = req.newHead` keeps the first
// oldHead, `dirtyAccounts.merge(req)` unites the sets - and starts at most
// one runReorg at a time with whatever has been merged.  A requester releases
// pool.mu BEFORE it sends its request (addTxs) or never holds it (loop()'s
// requestReset), so between the critical section that created a request and
// the runReorg that serves it any number of other critical sections may run,
// and a runReorg may be given any batch of the requests received so far.
// Sys reproduces exactly that: `add`/`head` append to the outstanding list
// (`reqs`, arrival order), `run(k)` merges the first k entries with the loop's
// merge rule and calls the real runReorg with the result, `only(i)` serves a
// later entry first (requests from different goroutines are unordered; two
// resets come from the single loop() goroutine and are never reordered).
// Everything else (SetGasPrice, Pending, Content, Stats, Nonce) is the public
// API.  What Sys does NOT reproduce: the NewTxsEvent feed (not part of C20),
// the journal (disabled), and wall-clock time (heartbeats: see seedBeats).
// The scripted conformance run (conform.go) drives the same scenarios through
// a free-running pool and compares the complete dumps.
type Sys struct {
	cfg *config
	r   *mc.Run

	w     *world
	chain *stubChain
	pool  *core.TxPool

	loopHead  int // the `head` variable of loop(): last head announced
	reqs      []request
	dead      bool
	nops      int
	viols     []mc.Violation
	api       apiView
	dump      *core.VerifC20Dump
	lastOp    string
	lastReset bool // the last runReorg carried a reset
	quiet     bool // no counters (twin / conformance instances)
	notes     []string
	blame     map[string]string // soft condition -> step class after which nothing outstanding covered it
	known     map[string]bool   // soft conditions already seen at quiescence (see track)
	fresh     []soft            // soft conditions that became reportable at this step
}

func newSys(r *mc.Run, cfg *config) *Sys {
	return &Sys{cfg: cfg, r: r, w: newWorld()}
}

// note records a counter for the CURRENT step; Check flushes it, so replayed
// prefix steps (the explorer re-executes paths) are not counted again.
func (s *Sys) note(name string) { s.notes = append(s.notes, name) }

func (s *Sys) count(name string) {
	if !s.quiet && s.r != nil {
		s.r.Count(name, 1)
	}
}

var ancient = time.Unix(1000, 0)

// seedBeats gives every account without a heartbeat a distinct ancient one
// (see VerifC20SeedBeat): A older than B, or the other way round with tieBA.
func (s *Sys) seedBeats() {
	for i, a := range addrs {
		off := i
		if s.cfg.tieBA {
			off = len(addrs) - 1 - i
		}
		s.pool.VerifC20SeedBeat(a, ancient.Add(time.Duration(off)*time.Second), false)
	}
}

// fixBeatTies: accounts promoted inside the same step got heartbeats a few
// nanoseconds apart in Go map iteration order; give them the fixed tie order.
func (s *Sys) fixBeatTies(t0 time.Time) {
	d := s.pool.VerifC20Dump(addrs)
	var idx []int
	for i, a := range addrs {
		if t, ok := d.Beats[a]; ok && !t.Before(t0) {
			idx = append(idx, i)
		}
	}
	if len(idx) < 2 {
		return
	}
	for rank, i := range idx {
		off := rank
		if s.cfg.tieBA {
			off = len(idx) - 1 - rank
		}
		s.pool.VerifC20SeedBeat(addrs[i], t0.Add(time.Duration(off+1)*time.Nanosecond), true)
	}
}

func isAncient(t time.Time) bool { return t.Before(ancient.Add(time.Hour)) }

func (s *Sys) Reset() {
	s.chain = newStubChain(s.w)
	s.pool = core.VerifC20NewStoppedPool(poolConfig(s.cfg.lim), s.chain)
	s.loopHead, s.reqs, s.dead, s.nops, s.viols, s.dump, s.lastOp = 0, nil, false, 0, nil, nil, ""
	s.known, s.blame, s.fresh = map[string]bool{}, map[string]string{}, nil
	s.seedBeats()
	s.observe()
	// scripted prelude: start the exploration from a non-initial pool state
	for _, op := range s.cfg.prelude {
		s.apply(op)
		s.seedBeats()
		s.observe()
	}
	s.nops, s.lastOp, s.notes = 0, "", s.notes[:0]
	s.track()
}

// observe calls the public read APIs (this also warms the Flatten caches, so
// the next mutation always meets a populated cache) and forgets the old dump.
func (s *Sys) observe() {
	s.api.pending, _ = s.pool.Pending()
	s.api.cPending, s.api.cQueued = s.pool.Content()
	s.api.statP, s.api.statQ = s.pool.Stats()
	for i, a := range addrs {
		s.api.nonce[i] = s.pool.Nonce(a)
	}
	s.dump = nil
}

func (s *Sys) getDump() *core.VerifC20Dump {
	if s.dump == nil {
		s.dump = s.pool.VerifC20Dump(addrs)
	}
	return s.dump
}

// realBeats returns the accounts that own queued transactions, are not local
// and have a real (non-seeded) heartbeat, oldest first.
func (s *Sys) realBeats() []time.Time {
	d := s.getDump()
	var ts []time.Time
	for a := range d.Queue {
		if t, ok := d.Beats[a]; ok && !isAncient(t) {
			ts = append(ts, t)
		}
	}
	sort.Slice(ts, func(i, j int) bool { return ts[i].Before(ts[j]) })
	return ts
}

func (s *Sys) Enabled() []string {
	if s.dead {
		return nil
	}
	var ops []string
	for k := 1; k <= len(s.reqs); k++ {
		ops = append(ops, fmt.Sprintf("run(%d)", k))
	}
	for i := 2; i <= len(s.reqs); i++ {
		ok := true
		if s.reqs[i-1].reset {
			for _, q := range s.reqs[:i-1] {
				if q.reset {
					ok = false
				}
			}
		}
		if ok {
			ops = append(ops, fmt.Sprintf("only(%d)", i))
		}
	}
	for _, id := range s.cfg.remote {
		ops = append(ops, "add("+id+",R)")
	}
	for _, id := range s.cfg.local {
		ops = append(ops, "add("+id+",L)")
	}
	for _, h := range s.cfg.heads {
		if headIndex(h) != s.loopHead {
			ops = append(ops, "head("+h+")")
		}
	}
	for _, p := range s.cfg.prices {
		ops = append(ops, fmt.Sprintf("price(%d)", p))
	}
	if s.cfg.ticks {
		if len(s.getDump().Queue) > 0 {
			n := len(s.realBeats())
			for k := 0; k <= n; k++ {
				ops = append(ops, fmt.Sprintf("tick(%d)", k))
			}
		}
	}
	return ops
}

func (s *Sys) push(q request) {
	if len(s.reqs) >= s.cfg.maxReqs {
		s.reqs[len(s.reqs)-1].merge(q)
		return
	}
	s.reqs = append(s.reqs, q)
}

func (s *Sys) Apply(op string) string {
	s.nops++
	s.lastOp = op
	s.viols = nil
	s.notes = s.notes[:0]
	var ob string
	t0 := time.Now()
	msg, where := mc.CatchStack(func() {
		ob = s.apply(op)
		if k := opKind(op); k == "run" || k == "only" { // only runReorg promotes
			s.fixBeatTies(t0)
		}
	})
	if msg != "" {
		s.dead = true
		s.viols = append(s.viols, mc.Violation{
			Sig:    fmt.Sprintf("panic in %s at %s: %s", opKind(op), where, normMsg(msg)),
			Detail: fmt.Sprintf("%s panicked: %s (at %s)", op, msg, where)})
		return "PANIC: " + msg
	}
	s.seedBeats()
	msg, where = mc.CatchStack(s.observe)
	if msg != "" {
		s.dead = true
		s.viols = append(s.viols, mc.Violation{
			Sig:    fmt.Sprintf("panic in read API after %s at %s: %s", opKind(op), where, normMsg(msg)),
			Detail: fmt.Sprintf("read APIs after %s panicked: %s (at %s)", op, msg, where)})
		return ob + " PANIC(read): " + msg
	}
	s.track()
	return ob
}

func opKind(op string) string {
	if i := strings.Index(op, "("); i > 0 {
		return op[:i]
	}
	return op
}

func normMsg(m string) string {
	var b strings.Builder
	for _, c := range m {
		if c >= '0' && c <= '9' {
			continue
		}
		b.WriteRune(c)
	}
	out := b.String()
	if len(out) > 80 {
		out = out[:80]
	}
	return out
}

func (s *Sys) runBatch(q request) string {
	var dirty []common.Address
	if q.hasDirty {
		dirty = []common.Address{}
		for i, a := range addrs {
			if q.dirty&(1<<uint(i)) != 0 {
				dirty = append(dirty, a)
			}
		}
	}
	var oh, nh *types.Header
	s.lastReset = q.reset
	if q.reset {
		oh, nh = s.w.blocks[q.old].Header(), s.w.blocks[q.new].Header()
		s.note("runReorg_with_reset")
		if heads[q.new].parent != q.old {
			s.note("runReorg_reset_is_reorg_or_skip")
		}
	} else {
		s.note("runReorg_promote_only")
	}
	bp, bq := s.api.statP, s.api.statQ
	s.pool.VerifC20RunReorg(q.reset, oh, nh, dirty)
	s.dump = nil
	ap, aq := s.pool.Stats()
	if ap > bp {
		s.note("runReorg_grew_pending")
	}
	if ap < bp {
		s.note("runReorg_shrank_pending")
	}
	if ap+aq < bp+bq {
		s.note("runReorg_dropped_txs")
	}
	if q.reset && ap+aq > bp+bq {
		s.note("reset_reinjected_txs")
	}
	return fmt.Sprintf("p%d q%d", ap, aq)
}

func (s *Sys) apply(op string) string {
	kind := opKind(op)
	arg := strings.TrimSuffix(strings.TrimPrefix(op, kind+"("), ")")
	switch kind {
	case "add":
		parts := strings.Split(arg, ",")
		tx := txByID[parts[0]]
		if tx == nil {
			panic("harness: unknown tx " + parts[0])
		}
		local := parts[1] == "L"
		err, dirty := s.pool.VerifC20Add(tx, local)
		// addTxs ALWAYS sends a promote request, even for an empty dirty set.
		var m uint
		for _, i := range sortedAddrIdx(dirty) {
			m |= 1 << uint(i)
		}
		s.push(request{hasDirty: true, dirty: m})
		if err != nil {
			s.note("add_rejected:" + errClass(err))
			return "err: " + errClass(err)
		}
		if m == 0 {
			s.note("add_accepted_replacement")
			return "ok(replaced)"
		}
		s.note("add_accepted")
		return "ok"
	case "head":
		i := headIndex(arg)
		s.chain.setHead(i)
		// loop(): pool.requestReset(head.Header(), ev.Block.Header()); head = ev.Block
		s.push(request{reset: true, old: s.loopHead, new: i})
		s.loopHead = i
		return ""
	case "run":
		var k int
		fmt.Sscan(arg, &k)
		q := s.reqs[0]
		for _, o := range s.reqs[1:k] {
			q.merge(o)
		}
		if k > 1 {
			s.note("runReorg_merged_batch")
		}
		s.reqs = append([]request{}, s.reqs[k:]...)
		return s.runBatch(q)
	case "only":
		var i int
		fmt.Sscan(arg, &i)
		q := s.reqs[i-1]
		s.reqs = append(append([]request{}, s.reqs[:i-1]...), s.reqs[i:]...)
		s.note("runReorg_out_of_order")
		return s.runBatch(q)
	case "price":
		var p int64
		fmt.Sscan(arg, &p)
		before := s.api.statP + s.api.statQ
		s.pool.SetGasPrice(big.NewInt(p))
		ap, aq := s.pool.Stats()
		if ap+aq < before {
			s.note("setgasprice_dropped_txs")
		}
		return fmt.Sprintf("p%d q%d", ap, aq)
	case "tick":
		var k int
		fmt.Sscan(arg, &k)
		now := ancient.Add(24 * time.Hour) // only never-promoted accounts are old enough
		if k > 0 {
			ts := s.realBeats()
			now = ts[k-1].Add(time.Hour + time.Nanosecond)
		}
		before := s.api.statQ
		s.pool.VerifC20EvictTick(now)
		_, aq := s.pool.Stats()
		if aq < before {
			s.note("tick_evicted_txs")
		} else {
			s.note("tick_evicted_nothing")
		}
		return fmt.Sprintf("q%d", aq)
	}
	panic("harness: unknown op " + op)
}

func errClass(err error) string {
	m := err.Error()
	if strings.HasPrefix(m, "know transaction") {
		return "known transaction"
	}
	return m
}

// ---- canonical state ----

func listIDs(l *core.VerifC20List) string {
	var ids []string
	for _, tx := range l.Txs {
		ids = append(ids, txID(tx))
	}
	return strings.Join(ids, ",")
}

func (s *Sys) Key() string {
	if s.dead {
		return fmt.Sprintf("dead#%d:%s", s.nops, s.lastOp)
	}
	d := s.getDump()
	var b strings.Builder
	for i, a := range addrs {
		fmt.Fprintf(&b, "%s[P:", accName[i])
		if l := d.Pending[a]; l != nil {
			b.WriteString(listIDs(l))
		}
		b.WriteString(" Q:")
		if l := d.Queue[a]; l != nil {
			b.WriteString(listIDs(l))
		}
		fmt.Fprintf(&b, " n=%d sn=%d sb=%s]", s.api.nonce[i], d.StateNonce[a], d.StateBal[a])
	}
	var all []string
	for _, tx := range d.All {
		all = append(all, txID(tx))
	}
	sort.Strings(all)
	fmt.Fprintf(&b, " all=%s priced=%d(%d-%d,dup%d) gas=%d gp=%s", strings.Join(all, ","), d.PricedItems-d.PricedStale, d.PricedItems, d.PricedStale, d.PricedDup, d.MaxGas, d.GasPrice)
	var heap []string
	for _, tx := range d.PricedTxs {
		heap = append(heap, txID(tx))
	}
	sort.Strings(heap)
	b.WriteString(" heap=" + strings.Join(heap, ","))
	b.WriteString(" loc=")
	for _, i := range sortedAddrIdx(d.Locals) {
		b.WriteString(accName[i])
	}
	// relative heartbeat order (drives truncateQueue and eviction)
	type bt struct {
		i int
		t time.Time
	}
	var bs []bt
	for i, a := range addrs {
		bs = append(bs, bt{i, d.Beats[a]})
	}
	sort.Slice(bs, func(i, j int) bool { return bs[i].t.Before(bs[j].t) })
	b.WriteString(" beats=")
	for _, x := range bs {
		b.WriteString(accName[x.i])
		if isAncient(x.t) {
			b.WriteString("-")
		}
	}
	fmt.Fprintf(&b, " head=%s reqs=", heads[s.loopHead].name)
	for _, q := range s.reqs {
		b.WriteString(q.String() + ";")
	}
	if len(s.known) > 0 || len(s.blame) > 0 {
		var ks []string
		for k := range s.known {
			ks = append(ks, k)
		}
		for k, v := range s.blame {
			ks = append(ks, k+"<"+v)
		}
		sort.Strings(ks)
		b.WriteString(" seen=" + strings.Join(ks, ","))
	}
	return b.String()
}
