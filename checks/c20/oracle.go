package c20

import (
	"fmt"
	"math/big"
	"sort"
	"strings"

	"github.com/youchainhq/go-youchain/common"
	"github.com/youchainhq/go-youchain/core"
	"github.com/youchainhq/go-youchain/core/types"

	"verif/mc"
)

// soft is a condition that the pool may be in while a request is outstanding
// (a runReorg is still due) but not at quiescence.  key identifies the
// condition instance (kind + account) across steps.
type soft struct {
	key    string
	sig    string
	detail string
}

// covered: is a request outstanding whose runReorg is going to deal with the
// condition?  A reset promotes every queued account and every runReorg
// truncates; a promote request covers the accounts in its dirty set.
func (s *Sys) covered(key string) bool {
	acct := -1
	if i := strings.Index(key, ":"); i >= 0 {
		for j, n := range accName {
			if n == key[i+1:] {
				acct = j
			}
		}
	}
	for _, q := range s.reqs {
		if acct < 0 || q.reset {
			return true
		}
		if q.hasDirty && q.dirty&(1<<uint(acct)) != 0 {
			return true
		}
	}
	return false
}

// track is called by Apply after EVERY step (also on replayed prefixes).  For
// every soft condition it remembers (blame) the step after which the
// condition held with no outstanding request left to deal with it, and
// (known) whether it has already been reported.  A soft condition is reported
// at the first QUIESCENT state in which it holds - with the blamed step in the
// signature - and not again while it merely persists.
func (s *Sys) track() {
	softs := softConds(s.getDump(), func(string) {})
	now := map[string]soft{}
	for _, c := range softs {
		now[c.key] = c
	}
	for k := range s.known {
		if _, ok := now[k]; !ok {
			delete(s.known, k)
		}
	}
	for k := range s.blame {
		if _, ok := now[k]; !ok || s.covered(k) {
			delete(s.blame, k)
		}
	}
	var keys []string
	for k := range now {
		keys = append(keys, k)
		if _, ok := s.blame[k]; !ok && !s.covered(k) {
			s.blame[k] = s.afterClass()
		}
	}
	sort.Strings(keys)
	s.fresh = s.fresh[:0]
	if len(s.reqs) == 0 {
		for _, k := range keys {
			if !s.known[k] {
				s.known[k] = true
				c := now[k]
				c.sig += " at quiescence" + s.blame[k]
				s.fresh = append(s.fresh, c)
			}
		}
	}
}

func (s *Sys) Check() []mc.Violation {
	for _, n := range s.notes {
		s.count(n)
	}
	s.notes = s.notes[:0]
	if s.dead {
		return s.viols
	}
	out := append([]mc.Violation{}, s.viols...)
	hard, softs := checkViews(s.getDump(), &s.api, s.count)
	for _, v := range hard {
		v.Detail += "\nstate: " + s.Key()
		out = append(out, v)
	}
	if len(s.reqs) == 0 {
		s.count("oracle_quiescent_states")
		if len(softs) == 0 {
			s.count("oracle_quiescent_states_clean")
		}
	} else {
		s.count("oracle_non_quiescent_states")
		if len(softs) > 0 {
			s.count("oracle_soft_condition_while_request_outstanding(allowed)")
		}
	}
	for _, c := range s.fresh {
		out = append(out, mc.Violation{Sig: c.sig, Detail: c.detail + "\nstate: " + s.Key()})
	}
	return out
}

// afterClass names the kind of step that led to the current state; quiescence
// violations carry it in their signature (which critical section left the
// pool in that state).
func (s *Sys) afterClass() string {
	switch opKind(s.lastOp) {
	case "run", "only":
		if s.lastReset {
			return " after runReorg with reset"
		}
		return " after promote-only runReorg"
	case "price":
		return " after SetGasPrice"
	case "tick":
		return " after eviction tick"
	case "":
		return " initially"
	}
	return " after " + opKind(s.lastOp)
}

func txsIDs(txs types.Transactions) string {
	var ids []string
	for _, tx := range txs {
		ids = append(ids, txID(tx))
	}
	return strings.Join(ids, ",")
}

// checkViews is the oracle: the invariants of the C20 statement evaluated on a
// complete dump of the pool's indexes plus what the public read APIs returned
// in the same state.  hard = must hold in every state between two critical
// sections; soft = must hold whenever no promote/reset request is outstanding.
func checkViews(d *core.VerifC20Dump, api *apiView, count func(string)) (hard []mc.Violation, softs []soft) {
	bad := func(sig, detail string) { hard = append(hard, mc.Violation{Sig: sig, Detail: detail}) }

	allSet := map[common.Hash]bool{}
	for _, tx := range d.All {
		allSet[tx.Hash()] = true
	}
	inPending := map[common.Hash]bool{}
	inQueue := map[common.Hash]bool{}
	isLocal := map[common.Address]bool{}
	for _, a := range d.Locals {
		isLocal[a] = true
	}
	signer := types.MakeSigner(nil)

	// -- structural health of every list
	lists := func(kind string, m map[common.Address]*core.VerifC20List, strict bool) {
		for a, l := range m {
			who := fmt.Sprintf("%s[%s]", kind, accName[addrIdx[a]])
			if len(l.Txs) == 0 {
				bad("empty list kept in "+kind+" map", who)
			}
			if l.HasNil {
				bad("nil transaction stored in "+kind+" list", who)
			}
			if l.Strict != strict {
				bad(kind+" list has wrong strictness", who)
			}
			var nonces []uint64
			for _, tx := range l.Txs {
				nonces = append(nonces, tx.Nonce())
			}
			if fmt.Sprint(nonces) != fmt.Sprint(l.Index) && !(len(nonces) == 0 && len(l.Index) == 0) {
				bad(kind+" list nonce index out of sync with items", fmt.Sprintf("%s items %v index %v", who, nonces, l.Index))
			}
			// (a stale Flatten cache is caught through Pending()/Content(), which return it)
		}
	}
	lists("pending", d.Pending, true)
	lists("queue", d.Queue, false)

	// -- all = pending (+) queue
	nP, nQ := 0, 0
	for a, l := range d.Pending {
		for _, tx := range l.Txs {
			nP++
			inPending[tx.Hash()] = true
			if !allSet[tx.Hash()] {
				bad("pending tx missing from all", fmt.Sprintf("%s of %s", txID(tx), accName[addrIdx[a]]))
			}
			if from, _ := types.Sender(signer, tx); from != a {
				bad("tx filed under a foreign account", txID(tx))
			}
		}
	}
	for a, l := range d.Queue {
		for _, tx := range l.Txs {
			nQ++
			inQueue[tx.Hash()] = true
			if inPending[tx.Hash()] {
				bad("tx both pending and queued", txID(tx))
			}
			if !allSet[tx.Hash()] {
				bad("queued tx missing from all", fmt.Sprintf("%s of %s", txID(tx), accName[addrIdx[a]]))
			}
			if from, _ := types.Sender(signer, tx); from != a {
				bad("tx filed under a foreign account", txID(tx))
			}
		}
	}
	for _, tx := range d.All {
		if !inPending[tx.Hash()] && !inQueue[tx.Hash()] {
			bad("tx in all but neither pending nor queued", txID(tx))
		}
	}
	if len(d.All) != nP+nQ {
		bad("all count != pending + queued", fmt.Sprintf("all %d pending %d queued %d", len(d.All), nP, nQ))
	}
	// -- priced heap
	if n := d.PricedItems - d.PricedStale; n < len(d.All) {
		// the stale counter claims more dead heap entries than there are
		bad("priced count (items - stales) < all", fmt.Sprintf("items %d stales %d all %d", d.PricedItems, d.PricedStale, len(d.All)))
	} else if n > len(d.All) {
		// a transaction left the pool without the priced list being told
		bad("priced count (items - stales) > all", fmt.Sprintf("items %d stales %d all %d", d.PricedItems, d.PricedStale, len(d.All)))
	}
	if d.PricedLive != len(d.All) {
		bad("tx in all missing from priced heap", fmt.Sprintf("distinct live heap entries %d all %d", d.PricedLive, len(d.All)))
	}
	if d.PricedDup > 0 {
		// Not a violation by itself: a transaction that was dropped (its heap
		// entry went stale, counted in `stales`) and then added again sits in
		// the heap twice while items-stales still equals |all|.  Counted so
		// the evidence shows the precursor state was explored.
		count("oracle_priced_heap_holds_readded_tx_twice")
	}

	// -- per account
	for i, a := range addrs {
		name := accName[i]
		sn := d.StateNonce[a]
		bal, _ := new(big.Int).SetString(d.StateBal[a], 10)
		next := sn
		if l := d.Pending[a]; l != nil && len(l.Txs) > 0 {
			if l.Txs[0].Nonce() != sn {
				bad("pending does not start at head-state nonce", fmt.Sprintf("%s: first pending nonce %d, head-state nonce %d", name, l.Txs[0].Nonce(), sn))
			}
			for j, tx := range l.Txs {
				if j > 0 && tx.Nonce() != l.Txs[j-1].Nonce()+1 {
					bad("pending has nonce gap", fmt.Sprintf("%s: %s", name, listIDs(l)))
				}
				if tx.Cost().Cmp(bal) > 0 {
					bad("pending tx unaffordable", fmt.Sprintf("%s cost %v balance %v", txID(tx), tx.Cost(), bal))
				}
				if tx.Gas() > d.MaxGas {
					bad("pending tx exceeds block gas limit", fmt.Sprintf("%s gas %d limit %d", txID(tx), tx.Gas(), d.MaxGas))
				}
			}
			next = l.Txs[len(l.Txs)-1].Nonce() + 1
			if api.nonce[i] != next {
				bad("Nonce() != last pending+1", fmt.Sprintf("%s: Nonce() %d, pending %s", name, api.nonce[i], listIDs(l)))
			}
			count("oracle_nonce_vs_pending_compared")
		} else {
			if api.nonce[i] != sn {
				bad("Nonce() != head-state nonce for account without pending", fmt.Sprintf("%s: Nonce() %d, head-state nonce %d", name, api.nonce[i], sn))
			}
		}
		if l := d.Queue[a]; l != nil && len(l.Txs) > 0 {
			low := l.Txs[0].Nonce()
			if low < sn {
				bad("queued tx below head-state nonce", fmt.Sprintf("%s: queue %s, head-state nonce %d", name, listIDs(l), sn))
			}
			if p := d.Pending[a]; p != nil && len(p.Txs) > 0 && low <= p.Txs[len(p.Txs)-1].Nonce() {
				bad("queued nonce not above pending", fmt.Sprintf("%s: pending %s queue %s", name, listIDs(p), listIDs(l)))
			}
		}
	}

	// -- global limits
	if len(d.Locals) == 0 && uint64(len(d.All)) > d.Config.GlobalSlots+d.Config.GlobalQueue {
		bad("pool size exceeds GlobalSlots+GlobalQueue", fmt.Sprintf("all %d", len(d.All)))
	}
	softs = softConds(d, count)

	// -- what the pool reports is what it holds
	cmp := func(apiName string, got map[common.Address]types.Transactions, want map[common.Address]*core.VerifC20List) {
		var g, w []string
		for a, txs := range got {
			g = append(g, accName[addrIdx[a]]+":"+txsIDs(txs))
		}
		for a, l := range want {
			w = append(w, accName[addrIdx[a]]+":"+listIDs(l))
		}
		sort.Strings(g)
		sort.Strings(w)
		if strings.Join(g, " ") != strings.Join(w, " ") {
			bad(apiName+" differs from internal view", fmt.Sprintf("api {%s} internal {%s}", strings.Join(g, " "), strings.Join(w, " ")))
		}
	}
	cmp("Pending()", api.pending, d.Pending)
	cmp("Content() pending", api.cPending, d.Pending)
	cmp("Content() queued", api.cQueued, d.Queue)
	if api.statP != nP || api.statQ != nQ {
		bad("Stats() differs from internal view", fmt.Sprintf("api %d/%d internal %d/%d", api.statP, api.statQ, nP, nQ))
	}
	if nP > 0 {
		count("oracle_states_with_pending")
	}
	if nQ > 0 {
		count("oracle_states_with_queued")
	}
	if nP > 0 && nQ > 0 {
		count("oracle_states_with_pending_and_queued")
	}
	return hard, softs
}

// softConds evaluates the conditions that are allowed only while a request is
// outstanding: an executable transaction still queued, a limit exceeded.
func softConds(d *core.VerifC20Dump, count func(string)) (softs []soft) {
	softBad := func(key, sig, detail string) { softs = append(softs, soft{key, sig, detail}) }
	isLocal := map[common.Address]bool{}
	for _, a := range d.Locals {
		isLocal[a] = true
	}
	nP, nQ := 0, 0
	for _, l := range d.Pending {
		nP += len(l.Txs)
	}
	for _, l := range d.Queue {
		nQ += len(l.Txs)
	}
	for i, a := range addrs {
		name := accName[i]
		next := d.StateNonce[a]
		if l := d.Pending[a]; l != nil && len(l.Txs) > 0 {
			next = l.Txs[len(l.Txs)-1].Nonce() + 1
		}
		if l := d.Queue[a]; l != nil && len(l.Txs) > 0 {
			if l.Txs[0].Nonce() <= next {
				// Not a violation of the property as stated (queued nonces still lie strictly above the pending ones and
				// every tx is in exactly one of the two sets): "executable but not promoted at quiescence" was an extra
				// demand of DESIGN's oracle.  It is counted, not reported (upstream's reset/promote order behaves the same).
				count("info_executable_tx_left_in_queue_at_quiescence")
				_ = listIDs
			} else {
				count("oracle_gapped_queue")
			}
			if !isLocal[a] && uint64(len(l.Txs)) > d.Config.AccountQueue {
				softBad("acctqueue:"+name, "account queue limit exceeded", fmt.Sprintf("%s: queue %s limit %d", name, listIDs(l), d.Config.AccountQueue))
			}
		}
	}
	if uint64(nP) > d.Config.GlobalSlots {
		// truncatePending only takes from non-local accounts above AccountSlots
		over := false
		for a, l := range d.Pending {
			if !isLocal[a] && uint64(len(l.Txs)) > d.Config.AccountSlots {
				over = true
			}
		}
		if over {
			softBad("globalslots", "global slots exceeded", fmt.Sprintf("pending %d limit %d", nP, d.Config.GlobalSlots))
		} else {
			count("oracle_pending_above_global_but_all_within_account_slots")
		}
	}
	if uint64(nQ) > d.Config.GlobalQueue {
		remoteQueued := false
		for a := range d.Queue {
			if !isLocal[a] {
				remoteQueued = true
			}
		}
		if remoteQueued {
			softBad("globalqueue", "global queue exceeded", fmt.Sprintf("queued %d limit %d", nQ, d.Config.GlobalQueue))
		}
	}
	return softs
}
