package c20

import (
	"fmt"
	"math/big"
	"sort"
	"strings"
	"time"

	"github.com/youchainhq/go-youchain/core"
	"github.com/youchainhq/go-youchain/core/types"

	"verif/mc"
)

// freePool is the same stub chain with a FREE-RUNNING pool: core.NewTxPool as
// production builds it, both background goroutines alive, driven only through
// the public API and ChainHeadEvents.
type freePool struct {
	w     *world
	chain *stubChain
	pool  *core.TxPool
}

func newFreePool(l limits) *freePool {
	w := newWorld()
	c := newStubChain(w)
	return &freePool{w: w, chain: c, pool: core.NewTxPool(poolConfig(l), c)}
}

func (f *freePool) apply(op string) {
	kind := opKind(op)
	arg := strings.TrimSuffix(strings.TrimPrefix(op, kind+"("), ")")
	switch kind {
	case "add":
		parts := strings.Split(arg, ",")
		tx := txByID[parts[0]]
		if parts[1] == "L" {
			f.pool.AddLocals([]*types.Transaction{tx})
		} else {
			f.pool.AddRemotes([]*types.Transaction{tx})
		}
	case "head":
		b := f.chain.setHead(headIndex(arg))
		f.chain.feed.Send(core.ChainHeadEvent{Block: b})
	case "price":
		var p int64
		fmt.Sscan(arg, &p)
		f.pool.SetGasPrice(big.NewInt(p))
	default:
		panic("harness: op not drivable on the free-running pool: " + op)
	}
}

// viewOf renders every index of a dump (no heartbeats, no request list).
func viewOf(d *core.VerifC20Dump, nonce [2]uint64) string {
	var b strings.Builder
	for i, a := range addrs {
		fmt.Fprintf(&b, "%s[P:", accName[i])
		if l := d.Pending[a]; l != nil {
			b.WriteString(listIDs(l))
		}
		b.WriteString(" Q:")
		if l := d.Queue[a]; l != nil {
			b.WriteString(listIDs(l))
		}
		fmt.Fprintf(&b, " n=%d sn=%d sb=%s] ", nonce[i], d.StateNonce[a], d.StateBal[a])
	}
	var all []string
	for _, tx := range d.All {
		all = append(all, txID(tx))
	}
	sort.Strings(all)
	fmt.Fprintf(&b, "all=%s priced=%d gas=%d gp=%s loc=%v", strings.Join(all, ","), d.PricedItems-d.PricedStale, d.MaxGas, d.GasPrice, sortedAddrIdx(d.Locals))
	return b.String()
}

func (f *freePool) view() string {
	var n [2]uint64
	for i, a := range addrs {
		n[i] = f.pool.Nonce(a)
	}
	return viewOf(f.pool.VerifC20Dump(addrs), n)
}

type scenario struct {
	name string
	lim  limits
	ops  []string
}

// Scripted scenarios (no heartbeat ties, no eviction tick: the free-running
// pool's ticker is a one-minute wall-clock timer).  Each op is applied to the
// scheduler-driven Sys followed by run(all) - the schedule in which the loop
// serves every request before the next event - and to the free-running pool,
// which must converge to the identical dump.
var scenarios = []scenario{
	{"promote-and-truncate", defLimits, []string{"add(A0a,R)", "add(A1a,R)", "add(A2a,R)", "add(B0a,R)", "add(B1a,R)", "add(B2a,R)", "add(A3a,R)"}},
	{"gaps-and-queue-limits", defLimits, []string{"add(A0a,R)", "add(A2a,R)", "add(A3a,R)", "add(B1a,R)", "add(B2a,R)", "add(B3a,R)", "add(A1a,R)"}},
	{"replacements", defLimits, []string{"add(A0a,R)", "add(A0c,R)", "add(A0b,R)", "add(A2a,R)", "add(A2b,R)", "add(A2c,R)", "add(A1x,R)", "add(A1b,R)"}},
	{"heads-forward-and-reorg", defLimits, []string{"add(A0a,R)", "add(A1b,R)", "add(A2a,R)", "add(B0a,R)", "head(H1)", "head(H2)", "add(B1b,R)", "head(F1)", "add(A1x,R)", "head(G)", "head(H2)"}},
	{"reprice", defLimits, []string{"add(A0a,R)", "add(A1b,R)", "add(A2a,R)", "add(B0b,R)", "price(2)", "add(A0c,R)", "price(1)", "add(A0c,R)"}},
	{"locals-exempt", defLimits, []string{"add(A0a,L)", "add(A1a,L)", "add(A2a,L)", "add(A3a,L)", "add(B0a,R)", "add(B1a,R)", "add(B2a,R)", "price(2)", "head(F1)", "head(H1)"}},
	{"tight-limits", limits{1, 2, 1, 2}, []string{"add(A0a,R)", "add(A1b,R)", "add(A3b,R)", "add(B1a,R)", "add(B2a,R)", "head(H1)", "price(2)", "head(G)"}},
}

// conformance compares the scheduler-driven pool with the free-running pool.
func conformance(r *mc.Run) {
	okSteps, badSteps := 0, 0
	for _, sc := range scenarios {
		cfg := &config{name: "conf-" + sc.name, lim: sc.lim, maxReqs: 4}
		s := newSys(r, cfg)
		s.quiet = true
		s.Reset()
		f := newFreePool(sc.lim)
		for i, op := range sc.ops {
			s.Apply(op)
			if len(s.reqs) > 0 {
				s.Apply(fmt.Sprintf("run(%d)", len(s.reqs)))
			}
			if vs := s.Check(); len(vs) > 0 {
				// reported by the BFS too if real; here only noted
				r.Count("conformance_scenario_states_with_violation", 1)
			}
			var n [2]uint64
			n = s.api.nonce
			want := viewOf(s.getDump(), n)
			f.apply(op)
			got := ""
			deadline := time.Now().Add(5 * time.Second)
			for {
				got = f.view()
				if got == want || time.Now().After(deadline) {
					break
				}
				time.Sleep(200 * time.Microsecond)
			}
			if got == want {
				okSteps++
			} else {
				badSteps++
				r.HarnessError(fmt.Sprintf("conformance: scenario %s step %d (%s): free-running pool %q, scheduler-driven pool %q", sc.name, i, op, got, want))
			}
		}
		f.pool.Stop()
	}
	r.Count("conformance_steps_equal", int64(okSteps))
	r.Count("conformance_steps_different", int64(badSteps))
	forcedMerge(r)
}

// forcedMerge makes the REAL scheduleReorgLoop merge a promote request with a
// reset request, using public API only: an unbuffered NewTxsEvent subscriber
// that does not read stalls runReorg after its critical section (txFeed.Send
// blocks), so the loop keeps merging what arrives.  The scheduler-driven pool
// executes the same batch with run(2); both must agree.  This is the schedule
// class (batch = several requests) that the scripted scenarios above cannot
// force.
func forcedMerge(r *mc.Run) {
	f := newFreePool(defLimits)
	defer f.pool.Stop()
	evs := make(chan core.NewTxsEvent) // unbuffered, nobody reads yet
	sub := f.pool.SubscribeNewTxsEvent(evs)
	defer sub.Unsubscribe()

	wait := func(what string, cond func() bool) bool {
		deadline := time.Now().Add(5 * time.Second)
		for !cond() {
			if time.Now().After(deadline) {
				r.HarnessError("conformance/forced-merge: timeout waiting for " + what)
				return false
			}
			time.Sleep(200 * time.Microsecond)
		}
		return true
	}
	pendingCount := func() int { p, _ := f.pool.Stats(); return p }

	// run #1 promotes B0a and then blocks in txFeed.Send
	f.pool.AddRemotes([]*types.Transaction{txByID["B0a"]})
	if !wait("B0a pending", func() bool { return pendingCount() == 1 }) {
		return
	}
	// while run #1 is stalled: a promote request for B and a reset request
	f.pool.AddRemotes([]*types.Transaction{txByID["B1a"]})
	b := f.chain.setHead(headIndex("H1"))
	f.chain.feed.Send(core.ChainHeadEvent{Block: b})
	// give loop() time to hand the reset request to scheduleReorgLoop
	time.Sleep(50 * time.Millisecond)
	// release run #1; run #2 gets (reset G>H1, dirty {B}) merged
	go func() {
		for range evs {
		}
	}()
	if !wait("reset to H1", func() bool { return f.pool.Nonce(addrs[0]) == 1 }) {
		return
	}
	f.pool.AddRemotesSync(nil) // barrier: one more (empty) run has completed
	got := f.view()

	s := newSys(r, &config{name: "conf-forced-merge", lim: defLimits, maxReqs: 4})
	s.quiet = true
	s.Reset()
	for _, op := range []string{"add(B0a,R)", "run(1)", "add(B1a,R)", "head(H1)", "run(2)"} {
		s.Apply(op)
	}
	// the barrier's empty promote request
	s.push(request{hasDirty: true})
	s.Apply("run(1)")
	want := viewOf(s.getDump(), s.api.nonce)
	if got == want {
		r.Count("conformance_forced_merge_equal", 1)
	} else {
		// the 50 ms hand-over is a timing assumption; if the loop was slower the
		// two requests were served separately - that is a different (also legal)
		// schedule, which run(1);run(1) reproduces
		s.Reset()
		for _, op := range []string{"add(B0a,R)", "run(1)", "add(B1a,R)", "head(H1)", "run(1)", "run(1)"} {
			s.Apply(op)
		}
		if alt := viewOf(s.getDump(), s.api.nonce); got == alt {
			r.Count("conformance_forced_merge_served_separately", 1)
		} else {
			r.HarnessError(fmt.Sprintf("conformance/forced-merge: free-running pool %q, scheduler-driven pool %q (merged) / %q (separate)", got, want, alt))
		}
	}
	r.SetExtra("forced_merge_free_running_view", got)
}
