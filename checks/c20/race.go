package c20

import (
	"bytes"
	"context"
	"crypto/md5"
	"flag"
	"fmt"
	"io/ioutil"
	"math/big"
	"os"
	"os/exec"
	"path/filepath"
	"regexp"
	"sort"
	"strings"
	"sync"
	"sync/atomic"
	"time"

	"github.com/youchainhq/go-youchain/common"
	"github.com/youchainhq/go-youchain/core"
	"github.com/youchainhq/go-youchain/core/types"

	"verif/mc"
)

// ============================================================================
// Pass 2 (side condition): free-running pool under the race detector.
//
// The cooperative explorer cannot see unsynchronised accesses (its hand-offs
// are happens-before edges).  cmd/c20race (= RaceMain below, built with -race)
// runs the same op bodies concurrently from real goroutines against a pool
// whose own goroutines are alive, for a fixed set of configurations.  This
// pass SAMPLES schedules; it justifies the critical-section granularity of
// pass 1 and is not the deciding step.
// ============================================================================

type raceConfig struct {
	name   string
	lim    limits
	locals bool
}

var raceConfigs = []raceConfig{
	{"default-limits", defLimits, false},
	{"tight-limits+locals", limits{1, 2, 1, 2}, true},
	{"wide-limits", limits{4, 16, 4, 16}, true},
}

// RaceMain is the body of cmd/c20race.
func RaceMain() {
	secs := flag.Float64("secs", 6, "seconds per configuration")
	flag.Parse()
	initUniverse()
	var total int64
	for _, rc := range raceConfigs {
		n := raceOne(rc, time.Duration(*secs*float64(time.Second)))
		fmt.Printf("RACE-CONFIG %s ops=%d\n", rc.name, n)
		total += n
	}
	fmt.Printf("RACE-DRIVER-DONE ops=%d\n", total)
}

func allTxIDs() []string {
	var ids []string
	for id := range txByID {
		ids = append(ids, id)
	}
	sort.Strings(ids)
	return ids
}

// apiFromDump derives what the read APIs would return from the dump itself
// (a dump is one atomic snapshot under pool.mu; separate API calls are not).
func apiFromDump(d *core.VerifC20Dump) *apiView {
	v := &apiView{pending: map[common.Address]types.Transactions{}, cPending: map[common.Address]types.Transactions{}, cQueued: map[common.Address]types.Transactions{}}
	for a, l := range d.Pending {
		v.pending[a] = l.Txs
		v.cPending[a] = l.Txs
		v.statP += len(l.Txs)
	}
	for a, l := range d.Queue {
		v.cQueued[a] = l.Txs
		v.statQ += len(l.Txs)
	}
	for i, a := range addrs {
		if n, ok := d.NoncerRaw[a]; ok {
			v.nonce[i] = n
		} else {
			v.nonce[i] = d.StateNonce[a]
		}
	}
	return v
}

func rawNonces(d *core.VerifC20Dump) string {
	var out []string
	for a, n := range d.NoncerRaw {
		out = append(out, fmt.Sprintf("%s=%d", accName[addrIdx[a]], n))
	}
	sort.Strings(out)
	return strings.Join(out, ",")
}

func raceOne(rc raceConfig, dur time.Duration) int64 {
	f := newFreePool(rc.lim)
	pool := f.pool
	ids := allTxIDs()
	var hashes []common.Hash
	for _, id := range ids {
		hashes = append(hashes, txByID[id].Hash())
	}
	stop := make(chan struct{})
	var ops int64
	var wg sync.WaitGroup
	spawn := func(body func(i int)) {
		wg.Add(1)
		go func() {
			defer wg.Done()
			for i := 0; ; i++ {
				select {
				case <-stop:
					return
				default:
				}
				body(i)
				atomic.AddInt64(&ops, 1)
			}
		}()
	}
	// event consumer (p2p broadcast / miner side)
	evs := make(chan core.NewTxsEvent, 16)
	sub := pool.SubscribeNewTxsEvent(evs)
	go func() {
		for {
			select {
			case <-evs:
			case <-sub.Err():
				return
			}
		}
	}()
	// submitters: p2p (async remotes, batches), RPC (sync locals / remotes)
	for g := 0; g < 3; g++ {
		g := g
		spawn(func(i int) {
			k := (i*7 + g*13) % len(ids)
			tx := txByID[ids[k]]
			switch {
			case rc.locals && g == 0 && ids[k][0] == 'A':
				pool.AddLocal(tx)
			case i%5 == 0:
				pool.AddRemotesSync([]*types.Transaction{tx, txByID[ids[(k+3)%len(ids)]]})
			case i%3 == 0:
				pool.AddRemotes([]*types.Transaction{tx, txByID[ids[(k+1)%len(ids)]], txByID[ids[(k+5)%len(ids)]]})
			default:
				pool.AddRemote(tx)
			}
		})
	}
	// chain: head events walking the block tree incl. reorgs
	walk := []string{"H1", "H2", "F1", "G", "H2", "H1", "F1", "H1", "G"}
	spawn(func(i int) {
		b := f.chain.setHead(headIndex(walk[i%len(walk)]))
		f.chain.feed.Send(core.ChainHeadEvent{Block: b})
		time.Sleep(300 * time.Microsecond)
	})
	// miner / RPC readers
	for g := 0; g < 2; g++ {
		spawn(func(i int) {
			switch i % 8 {
			case 0:
				pool.Pending()
			case 1:
				pool.Content()
			case 2:
				pool.Stats()
			case 3:
				pool.Nonce(addrs[i%2])
			case 4:
				pool.Status(hashes)
			case 5:
				pool.Get(hashes[i%len(hashes)])
			case 6:
				pool.GasPrice()
			case 7:
				pool.Locals()
			}
		})
	}
	// miner re-pricing
	spawn(func(i int) {
		pool.SetGasPrice(big.NewInt(int64(1 + i%2)))
		time.Sleep(500 * time.Microsecond)
	})
	// eviction tick body (the real ticker fires once a minute)
	spawn(func(i int) {
		pool.VerifC20EvictTick(time.Now().Add(time.Duration(i%3) * time.Hour))
		time.Sleep(700 * time.Microsecond)
	})
	// invariant sampler: every dump is an atomic snapshot between two critical sections
	seen := map[string]bool{}
	var smu sync.Mutex
	spawn(func(i int) {
		d := pool.VerifC20Dump(addrs)
		hard, _ := checkViews(d, apiFromDump(d), func(string) {})
		for _, v := range hard {
			smu.Lock()
			if !seen[v.Sig] {
				seen[v.Sig] = true
				fmt.Printf("INVARIANT %s | config %s | %s | dump: %s raw=%v\n", v.Sig, rc.name, strings.Replace(v.Detail, "\n", " ", -1), viewOf(d, apiFromDump(d).nonce), rawNonces(d))
			}
			smu.Unlock()
		}
		time.Sleep(100 * time.Microsecond)
	})
	time.Sleep(dur)
	close(stop)
	wg.Wait()
	pool.Stop()
	return atomic.LoadInt64(&ops)
}

// ---- parent side: build with -race, run, parse ------------------------------

type raceResult struct {
	ran      bool
	buildErr string
	output   string
	exitErr  string
	wall     time.Duration
}

func goEnv() []string {
	env := os.Environ()
	return append(env, "GOFLAGS=-mod=mod", "GOPROXY=off", "GOSUMDB=off", "GOTOOLCHAIN=local", "CGO_ENABLED=1")
}

// modfileFor replicates run.sh: for VERIF_REPO != /repo an alternative go.mod
// (replace => $VERIF_REPO) lives in bin/alt-<md5 of "$repo\n", 8 hex>.mod.
func modfileFor(root string) (flag, tag string, err error) {
	repo := os.Getenv("VERIF_REPO")
	if repo == "" || repo == "/repo" {
		return "", "", nil
	}
	sum := md5.Sum([]byte(repo + "\n"))
	tag = fmt.Sprintf("%x", sum)[:8]
	mod := filepath.Join(root, "bin", "alt-"+tag+".mod")
	if _, e := os.Stat(mod); e != nil {
		src, e := ioutil.ReadFile(filepath.Join(root, "go.mod"))
		if e != nil {
			return "", "", e
		}
		out := regexp.MustCompile(`(?m)=> /repo$`).ReplaceAll(src, []byte("=> "+repo))
		os.MkdirAll(filepath.Join(root, "bin"), 0755)
		if e := ioutil.WriteFile(mod, out, 0644); e != nil {
			return "", "", e
		}
		if sumf, e := ioutil.ReadFile(filepath.Join(root, "go.sum")); e == nil {
			ioutil.WriteFile(filepath.Join(root, "bin", "alt-"+tag+".sum"), sumf, 0644)
		}
	}
	return "-modfile=" + filepath.Join("bin", "alt-"+tag+".mod"), tag, nil
}

func runRaceBinary(r *mc.Run, secs float64, buildTimeout time.Duration) raceResult {
	start := time.Now()
	res := raceResult{}
	modflag, tag, err := modfileFor(r.Root)
	if err != nil {
		res.buildErr = err.Error()
		return res
	}
	out := filepath.Join("bin", "c20race")
	if tag != "" {
		out += "-" + tag
	}
	args := []string{"build", "-race", "-tags", "verif"}
	if modflag != "" {
		args = append(args, modflag)
	}
	args = append(args, "-o", out, "./cmd/c20race")
	ctx, cancel := context.WithTimeout(context.Background(), buildTimeout)
	defer cancel()
	b := exec.CommandContext(ctx, "go", args...)
	b.Dir, b.Env = r.Root, goEnv()
	if bo, err := b.CombinedOutput(); err != nil {
		res.buildErr = fmt.Sprintf("go %s: %v: %s", strings.Join(args, " "), err, bo)
		return res
	}
	runTimeout := time.Duration(secs*float64(len(raceConfigs))+60) * time.Second
	ctx2, cancel2 := context.WithTimeout(context.Background(), runTimeout)
	defer cancel2()
	c := exec.CommandContext(ctx2, filepath.Join(r.Root, out), fmt.Sprintf("-secs=%g", secs))
	c.Dir = r.Root
	c.Env = append(os.Environ(), "GORACE=halt_on_error=0 exitcode=66")
	var buf bytes.Buffer
	c.Stdout, c.Stderr = &buf, &buf
	err = c.Run()
	res.ran = true
	res.output = buf.String()
	if err != nil {
		res.exitErr = err.Error()
	}
	res.wall = time.Since(start)
	return res
}

func startRacePass(r *mc.Run) chan raceResult {
	ch := make(chan raceResult, 1)
	if os.Getenv("VERIF_C20_NORACE") != "" { // development knob; recorded as a cap
		ch <- raceResult{buildErr: "skipped: VERIF_C20_NORACE set"}
		return ch
	}
	secs, bt := 6.0, 6*time.Minute
	if !r.Quick() {
		secs, bt = 60, 15*time.Minute
	}
	go func() { ch <- runRaceBinary(r, secs, bt) }()
	return ch
}

var frameRe = regexp.MustCompile(`^  ([^\s(][^\s]*)\(`)

// raceSignatures extracts, per race report, the top frame of each involved
// access ("data race: f <-> g", the two sorted).
func raceSignatures(out string) map[string]string {
	sigs := map[string]string{}
	blocks := strings.Split(out, "WARNING: DATA RACE")
	for _, blk := range blocks[1:] {
		if i := strings.Index(blk, "=================="); i >= 0 {
			blk = blk[:i]
		}
		var tops []string
		lines := strings.Split(blk, "\n")
		for i, l := range lines {
			if (strings.HasPrefix(l, "Write at ") || strings.HasPrefix(l, "Read at ") || strings.HasPrefix(l, "Previous write at ") || strings.HasPrefix(l, "Previous read at ")) && i+1 < len(lines) {
				// first non-runtime frame below the header
				for _, fl := range lines[i+1:] {
					if fl == "" {
						break
					}
					m := frameRe.FindStringSubmatch(fl)
					if m == nil {
						continue
					}
					fn := m[1]
					if strings.HasPrefix(fn, "runtime.") || strings.HasPrefix(fn, "sync.") || strings.HasPrefix(fn, "sync/atomic.") {
						continue
					}
					if j := strings.Index(fn, "go-youchain/"); j >= 0 {
						fn = fn[j+len("go-youchain/"):]
					}
					tops = append(tops, fn)
					break
				}
			}
		}
		sort.Strings(tops)
		sig := "data race: " + strings.Join(tops, " <-> ")
		if _, ok := sigs[sig]; !ok {
			sigs[sig] = "WARNING: DATA RACE" + blk
		}
	}
	return sigs
}

func finishRacePass(r *mc.Run, ch chan raceResult) {
	res := <-ch
	info := map[string]interface{}{"wall_s": res.wall.Seconds(), "configs": len(raceConfigs)}
	defer func() { r.SetExtra("race_pass", info) }()
	if res.buildErr != "" {
		info["status"] = "not run: build failed"
		r.HarnessError("race pass: " + res.buildErr)
		r.Cap("race pass not run (build of cmd/c20race with -race failed)")
		return
	}
	info["status"] = "ran"
	var total int64
	for _, l := range strings.Split(res.output, "\n") {
		if strings.HasPrefix(l, "RACE-DRIVER-DONE ops=") {
			fmt.Sscanf(l, "RACE-DRIVER-DONE ops=%d", &total)
		}
		if strings.HasPrefix(l, "INVARIANT ") {
			parts := strings.SplitN(strings.TrimPrefix(l, "INVARIANT "), " | ", 2)
			v := mc.Violation{Sig: parts[0], System: "race", Detail: "seen by the invariant sampler on the free-running pool: " + l}
			r.Report(v)
		}
	}
	info["concurrent_ops"] = total
	r.Count("race_pass_concurrent_ops", total)
	sigs := raceSignatures(res.output)
	info["race_reports"] = len(sigs)
	for sig, blk := range sigs {
		r.Report(mc.Violation{Sig: sig, System: "race", Detail: blk})
	}
	if total == 0 {
		tail := res.output
		if len(tail) > 1500 {
			tail = tail[len(tail)-1500:]
		}
		r.HarnessError("race pass: driver did not finish (" + res.exitErr + "): " + tail)
		r.Cap("race pass did not complete")
	}
}

// replayRace re-runs the race driver (sampling: a race may need several runs).
func replayRace(r *mc.Run, v *mc.Violation) {
	for i := 0; i < 3 && r.ViolationCount() == 0; i++ {
		ch := make(chan raceResult, 1)
		ch <- runRaceBinary(r, 10, 15*time.Minute)
		finishRacePass(r, ch)
	}
}
