package c15

import (
	"math/big"
	"strings"

	"github.com/youchainhq/go-youchain/common"
	"github.com/youchainhq/go-youchain/core/state"
	"github.com/youchainhq/go-youchain/core/vm/runtime"
	"github.com/youchainhq/go-youchain/youdb"

	"verif/mc"
)

// Driver of the implementation under test: the program is installed as the
// code of one contract account and run through runtime.Call with the
// runtime's own default EVM configuration (setDefaults), so the jump table is
// the one the runtime selects for the current protocol version.

const gasLimit = 10000000

var contractAddr = common.HexToAddress("0xc150000000000000000000000000000000000015")

type vmWorker struct {
	st  *state.StateDB
	cfg *runtime.Config
	n   int
}

func newState() *state.StateDB {
	st, err := state.New(common.Hash{}, common.Hash{}, common.Hash{}, state.NewDatabase(youdb.NewMemDatabase()))
	if err != nil {
		panic(err)
	}
	return st
}

// stateWithStorage returns a state whose contract account has the given
// committed ("original") storage.
func stateWithStorage(orig map[string]*big.Int) *state.StateDB {
	db := state.NewDatabase(youdb.NewMemDatabase())
	st, err := state.New(common.Hash{}, common.Hash{}, common.Hash{}, db)
	if err != nil {
		panic(err)
	}
	st.CreateAccount(contractAddr)
	st.SetNonce(contractAddr, 1)
	for k, v := range orig {
		st.SetState(contractAddr, common.BytesToHash([]byte(k)), common.BigToHash(v))
	}
	r0, r1, r2, err := st.Commit(true)
	if err != nil {
		panic(err)
	}
	st2, err := state.New(r0, r1, r2, db)
	if err != nil {
		panic(err)
	}
	return st2
}

// Out is what one execution on the implementation shows.
type Out struct {
	Ret     []byte
	GasUsed uint64
	Err     string // normalised class, "" if none
	RawErr  string
	Panic   string
}

func errClass(err error) string {
	if err == nil {
		return ""
	}
	s := err.Error()
	switch {
	case strings.Contains(s, "out of gas"), strings.Contains(s, "gas uint64 overflow"), strings.Contains(s, "reentrancy sentry"):
		return "out of gas"
	case strings.Contains(s, "stack underflow"):
		return "stack underflow"
	case strings.Contains(s, "stack limit"):
		return "stack overflow"
	case strings.Contains(s, "invalid opcode"):
		return "invalid opcode"
	}
	return s
}

// exec runs code on the real EVM.  st == nil: use (and recycle) the worker's
// scratch state; otherwise run on the given state (storage programs).
func (w *vmWorker) exec(code []byte, st *state.StateDB) (out Out, after *state.StateDB) {
	if st == nil {
		if w.st == nil || w.n >= 2048 {
			w.st, w.n = newState(), 0
		}
		w.n++
		st = w.st
	}
	if w.cfg == nil {
		w.cfg = &runtime.Config{GasLimit: gasLimit, Time: big.NewInt(1), BlockNumber: big.NewInt(1), GasPrice: new(big.Int), Value: new(big.Int)}
	}
	w.cfg.State = st
	out.Panic = mc.Catch(func() {
		st.SetCode(contractAddr, code)
		ret, left, err := runtime.Call(contractAddr, nil, w.cfg)
		out.Ret, out.GasUsed, out.Err = ret, gasLimit-left, errClass(err)
		if err != nil {
			out.RawErr = err.Error()
		}
	})
	return out, st
}

// viaExecute runs code through runtime.Execute with a nil input and a nil
// configuration (everything defaulted by the runtime).
func viaExecute(code []byte) (ret []byte, cls string, pmsg string) {
	pmsg = mc.Catch(func() {
		r, _, err := runtime.Execute(code, nil, nil)
		ret, cls = r, errClass(err)
	})
	return
}
