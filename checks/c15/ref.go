package c15

// Reference evaluator: a small EVM for straight-line programs written from the
// Yellow Paper (Istanbul revision: EIP-145 shifts, EIP-160 EXP gas, EIP-1884
// SLOAD gas, EIP-2200 SSTORE gas) on math/big only.  It imports nothing from
// the implementation under test.

import (
	"fmt"
	"math/big"
)

// opcode bytes (Yellow Paper appendix H.2)
const (
	STOP       = 0x00
	ADD        = 0x01
	MUL        = 0x02
	SUB        = 0x03
	DIV        = 0x04
	SDIV       = 0x05
	MOD        = 0x06
	SMOD       = 0x07
	ADDMOD     = 0x08
	MULMOD     = 0x09
	EXP        = 0x0a
	SIGNEXTEND = 0x0b
	LT         = 0x10
	GT         = 0x11
	SLT        = 0x12
	SGT        = 0x13
	EQ         = 0x14
	ISZERO     = 0x15
	AND        = 0x16
	OR         = 0x17
	XOR        = 0x18
	NOT        = 0x19
	BYTE       = 0x1a
	SHL        = 0x1b
	SHR        = 0x1c
	SAR        = 0x1d
	POP        = 0x50
	MLOAD      = 0x51
	MSTORE     = 0x52
	MSTORE8    = 0x53
	SLOAD      = 0x54
	SSTORE     = 0x55
	MSIZE      = 0x59
	PUSH1      = 0x60
	PUSH32     = 0x7f
	DUP1       = 0x80
	DUP16      = 0x8f
	SWAP1      = 0x90
	SWAP16     = 0x9f
	RETURN     = 0xf3
)

var opNames = map[byte]string{
	STOP: "STOP", ADD: "ADD", MUL: "MUL", SUB: "SUB", DIV: "DIV", SDIV: "SDIV", MOD: "MOD", SMOD: "SMOD",
	ADDMOD: "ADDMOD", MULMOD: "MULMOD", EXP: "EXP", SIGNEXTEND: "SIGNEXTEND", LT: "LT", GT: "GT", SLT: "SLT",
	SGT: "SGT", EQ: "EQ", ISZERO: "ISZERO", AND: "AND", OR: "OR", XOR: "XOR", NOT: "NOT", BYTE: "BYTE",
	SHL: "SHL", SHR: "SHR", SAR: "SAR", POP: "POP", MLOAD: "MLOAD", MSTORE: "MSTORE", MSTORE8: "MSTORE8",
	SLOAD: "SLOAD", SSTORE: "SSTORE", MSIZE: "MSIZE", RETURN: "RETURN",
}

func opName(b byte) string {
	if n, ok := opNames[b]; ok {
		return n
	}
	switch {
	case b >= PUSH1 && b <= PUSH32:
		return fmt.Sprintf("PUSH%d", int(b-PUSH1)+1)
	case b >= DUP1 && b <= DUP16:
		return fmt.Sprintf("DUP%d", int(b-DUP1)+1)
	case b >= SWAP1 && b <= SWAP16:
		return fmt.Sprintf("SWAP%d", int(b-SWAP1)+1)
	}
	return fmt.Sprintf("0x%02x", b)
}

var (
	one    = big.NewInt(1)
	tt256  = new(big.Int).Lsh(one, 256)
	tt255  = new(big.Int).Lsh(one, 255)
	mask   = new(big.Int).Sub(tt256, one)
	big32  = big.NewInt(32)
	big256 = big.NewInt(256)
)

func wrap(x *big.Int) *big.Int { return x.And(x, mask) } // x mod 2^256 (two's complement for negatives)

// signed reads a word as a two's-complement number.
func signed(x *big.Int) *big.Int {
	if x.Cmp(tt255) >= 0 {
		return new(big.Int).Sub(x, tt256)
	}
	return new(big.Int).Set(x)
}

func boolWord(b bool) *big.Int {
	if b {
		return big.NewInt(1)
	}
	return new(big.Int)
}

// arity of the computational opcodes (items removed); all push one result.
var arity = map[byte]int{
	ADD: 2, MUL: 2, SUB: 2, DIV: 2, SDIV: 2, MOD: 2, SMOD: 2, ADDMOD: 3, MULMOD: 3, EXP: 2, SIGNEXTEND: 2,
	LT: 2, GT: 2, SLT: 2, SGT: 2, EQ: 2, ISZERO: 1, AND: 2, OR: 2, XOR: 2, NOT: 1, BYTE: 2, SHL: 2, SHR: 2, SAR: 2,
}

// static gas (appendix G: Wverylow 3, Wlow 5, Wmid 8, Wbase 2; EXP and the
// storage opcodes are computed separately)
var staticGas = map[byte]uint64{
	ADD: 3, SUB: 3, NOT: 3, LT: 3, GT: 3, SLT: 3, SGT: 3, EQ: 3, ISZERO: 3, AND: 3, OR: 3, XOR: 3, BYTE: 3,
	SHL: 3, SHR: 3, SAR: 3, MLOAD: 3, MSTORE: 3, MSTORE8: 3,
	MUL: 5, DIV: 5, SDIV: 5, MOD: 5, SMOD: 5, SIGNEXTEND: 5,
	ADDMOD: 8, MULMOD: 8,
	POP: 2, MSIZE: 2,
	SLOAD: 800,
	STOP:  0, RETURN: 0,
}

// compute evaluates one computational opcode; a[0] is the top of the stack.
func compute(op byte, a []*big.Int) *big.Int {
	r := new(big.Int)
	switch op {
	case ADD:
		return wrap(r.Add(a[0], a[1]))
	case MUL:
		return wrap(r.Mul(a[0], a[1]))
	case SUB:
		return wrap(r.Sub(a[0], a[1]))
	case DIV:
		if a[1].Sign() == 0 {
			return r
		}
		return r.Quo(a[0], a[1])
	case SDIV:
		if a[1].Sign() == 0 {
			return r
		}
		// truncated division; -2^255 / -1 wraps to -2^255
		return wrap(r.Quo(signed(a[0]), signed(a[1])))
	case MOD:
		if a[1].Sign() == 0 {
			return r
		}
		return r.Rem(a[0], a[1])
	case SMOD:
		if a[1].Sign() == 0 {
			return r
		}
		// sgn(a) * (|a| mod |b|)  == truncated remainder
		return wrap(r.Rem(signed(a[0]), signed(a[1])))
	case ADDMOD:
		if a[2].Sign() == 0 {
			return r
		}
		return r.Mod(r.Add(a[0], a[1]), a[2])
	case MULMOD:
		if a[2].Sign() == 0 {
			return r
		}
		return r.Mod(r.Mul(a[0], a[1]), a[2])
	case EXP:
		return r.Exp(a[0], a[1], tt256)
	case SIGNEXTEND:
		if a[0].Cmp(big.NewInt(31)) >= 0 {
			return r.Set(a[1])
		}
		t := uint(a[0].Uint64())*8 + 7 // index of the sign bit
		low := new(big.Int).Sub(new(big.Int).Lsh(one, t+1), one)
		r.And(a[1], low)
		if a[1].Bit(int(t)) == 1 {
			r.Or(r, new(big.Int).Xor(mask, low))
		}
		return r
	case LT:
		return boolWord(a[0].Cmp(a[1]) < 0)
	case GT:
		return boolWord(a[0].Cmp(a[1]) > 0)
	case SLT:
		return boolWord(signed(a[0]).Cmp(signed(a[1])) < 0)
	case SGT:
		return boolWord(signed(a[0]).Cmp(signed(a[1])) > 0)
	case EQ:
		return boolWord(a[0].Cmp(a[1]) == 0)
	case ISZERO:
		return boolWord(a[0].Sign() == 0)
	case AND:
		return r.And(a[0], a[1])
	case OR:
		return r.Or(a[0], a[1])
	case XOR:
		return r.Xor(a[0], a[1])
	case NOT:
		return r.Xor(a[0], mask)
	case BYTE:
		if a[0].Cmp(big32) >= 0 {
			return r
		}
		i := uint(a[0].Uint64())
		return r.And(r.Rsh(a[1], 248-8*i), big.NewInt(0xff))
	case SHL:
		if a[0].Cmp(big256) >= 0 {
			return r
		}
		return wrap(r.Lsh(a[1], uint(a[0].Uint64())))
	case SHR:
		if a[0].Cmp(big256) >= 0 {
			return r
		}
		return r.Rsh(a[1], uint(a[0].Uint64()))
	case SAR:
		v := signed(a[1])
		if a[0].Cmp(big256) >= 0 {
			if v.Sign() < 0 {
				return r.Set(mask)
			}
			return r
		}
		return wrap(r.Rsh(v, uint(a[0].Uint64()))) // big.Int.Rsh is arithmetic (floor) for negatives
	}
	panic("compute: not a computational opcode " + opName(op))
}

// Result of a reference run.
type Result struct {
	Ret     []byte
	GasUsed uint64
	Err     string // "" | "out of gas" | "stack underflow" | "invalid opcode"
	Stack   []*big.Int
	// Trace[i] = (pc, opcode, operand values (top first), result) per executed
	// computational instruction, used to localise a divergence.
	Trace []Step
	// refund-independent storage after the run
	Storage map[string]*big.Int
}

type Step struct {
	PC   int
	Op   byte
	Args []*big.Int
	Res  *big.Int
}

type refMachine struct {
	stack   []*big.Int
	mem     []byte
	gas     uint64
	orig    map[string]*big.Int
	cur     map[string]*big.Int
	oog     bool
	memCost uint64 // cost of the current memory size
}

func words(n uint64) uint64 { return (n + 31) / 32 }

func cmem(w uint64) *big.Int {
	a := new(big.Int).SetUint64(w)
	sq := new(big.Int).Mul(a, a)
	sq.Quo(sq, big.NewInt(512))
	return sq.Add(sq, new(big.Int).Mul(a, big.NewInt(3)))
}

func (m *refMachine) use(g uint64) bool {
	if m.gas < g {
		m.gas = 0
		m.oog = true
		return false
	}
	m.gas -= g
	return true
}

// expand charges and performs memory expansion to cover [off, off+size).
func (m *refMachine) expand(off *big.Int, size uint64) bool {
	if size == 0 {
		return true
	}
	end := new(big.Int).Add(off, new(big.Int).SetUint64(size))
	// anything that needs more words than any gas limit can pay for is out of gas
	if end.BitLen() > 40 {
		m.gas, m.oog = 0, true
		return false
	}
	w := words(end.Uint64())
	if w*32 > uint64(len(m.mem)) {
		nc := cmem(w)
		delta := new(big.Int).Sub(nc, new(big.Int).SetUint64(m.memCost))
		if !delta.IsUint64() || !m.use(delta.Uint64()) {
			m.gas, m.oog = 0, true
			return false
		}
		m.memCost = nc.Uint64()
		m.mem = append(m.mem, make([]byte, w*32-uint64(len(m.mem)))...)
	}
	return true
}

func (m *refMachine) pop() *big.Int {
	x := m.stack[len(m.stack)-1]
	m.stack = m.stack[:len(m.stack)-1]
	return x
}

func (m *refMachine) push(x *big.Int) { m.stack = append(m.stack, x) }

func word32(x *big.Int) []byte {
	b := x.Bytes()
	out := make([]byte, 32)
	copy(out[32-len(b):], b)
	return out
}

func skey(k *big.Int) string { return string(word32(k)) }

func (m *refMachine) sget(mp map[string]*big.Int, k *big.Int) *big.Int {
	if v, ok := mp[skey(k)]; ok {
		return v
	}
	return new(big.Int)
}

// sstoreGas is the EIP-2200 schedule (refunds do not change the gas left of a
// message call and are not modelled).
func (m *refMachine) sstoreGas(k, v *big.Int) (uint64, bool) {
	if m.gas <= 2300 {
		return 0, false
	}
	cur, orig := m.sget(m.cur, k), m.sget(m.orig, k)
	if cur.Cmp(v) == 0 {
		return 800, true
	}
	if orig.Cmp(cur) == 0 {
		if orig.Sign() == 0 {
			return 20000, true
		}
		return 5000, true
	}
	return 800, true
}

// RefRun executes code with the given gas limit and original (committed) storage.
func RefRun(code []byte, gasLimit uint64, orig map[string]*big.Int) *Result {
	m := &refMachine{gas: gasLimit, orig: orig, cur: map[string]*big.Int{}}
	for k, v := range orig {
		m.cur[k] = v
	}
	res := &Result{}
	fail := func(e string) *Result {
		res.Err, res.GasUsed, res.Stack, res.Storage = e, gasLimit, nil, nil // exceptional halt consumes all gas
		return res
	}
	need := func(n int) bool { return len(m.stack) >= n }
	for pc := 0; ; pc++ {
		if pc >= len(code) {
			break // implicit STOP
		}
		op := code[pc]
		switch {
		case op >= PUSH1 && op <= PUSH32:
			n := int(op-PUSH1) + 1
			if !m.use(3) {
				return fail("out of gas")
			}
			if len(m.stack) >= 1024 {
				return fail("stack overflow")
			}
			buf := make([]byte, n)
			if pc+1 < len(code) {
				copy(buf, code[pc+1:]) // bytes past the end of the code read as zero
			}
			m.push(new(big.Int).SetBytes(buf))
			pc += n
			continue
		case op >= DUP1 && op <= DUP16:
			n := int(op-DUP1) + 1
			if !need(n) {
				return fail("stack underflow")
			}
			if !m.use(3) {
				return fail("out of gas")
			}
			m.push(new(big.Int).Set(m.stack[len(m.stack)-n]))
			continue
		case op >= SWAP1 && op <= SWAP16:
			n := int(op-SWAP1) + 1
			if !need(n + 1) {
				return fail("stack underflow")
			}
			if !m.use(3) {
				return fail("out of gas")
			}
			t := len(m.stack) - 1
			m.stack[t], m.stack[t-n] = m.stack[t-n], m.stack[t]
			continue
		}
		if k, ok := arity[op]; ok {
			if !need(k) {
				return fail("stack underflow")
			}
			g := staticGas[op]
			if op == EXP {
				// Gexp + Gexpbyte * (1 + floor(log256(exponent)))  (0 bytes for a zero exponent)
				g = 10 + 50*uint64((m.stack[len(m.stack)-2].BitLen()+7)/8)
			}
			if !m.use(g) {
				return fail("out of gas")
			}
			args := make([]*big.Int, k)
			for i := 0; i < k; i++ {
				args[i] = m.pop()
			}
			r := compute(op, args)
			m.push(r)
			res.Trace = append(res.Trace, Step{PC: pc, Op: op, Args: args, Res: new(big.Int).Set(r)})
			continue
		}
		switch op {
		case STOP:
			res.GasUsed, res.Stack, res.Storage = gasLimit-m.gas, m.stack, m.cur
			return res
		case POP:
			if !need(1) {
				return fail("stack underflow")
			}
			if !m.use(2) {
				return fail("out of gas")
			}
			m.pop()
		case MSIZE:
			if !m.use(2) {
				return fail("out of gas")
			}
			m.push(new(big.Int).SetUint64(uint64(len(m.mem))))
		case MLOAD:
			if !need(1) {
				return fail("stack underflow")
			}
			if !m.use(3) {
				return fail("out of gas")
			}
			off := m.pop()
			if !m.expand(off, 32) {
				return fail("out of gas")
			}
			o := off.Uint64()
			m.push(new(big.Int).SetBytes(m.mem[o : o+32]))
		case MSTORE:
			if !need(2) {
				return fail("stack underflow")
			}
			if !m.use(3) {
				return fail("out of gas")
			}
			off, v := m.pop(), m.pop()
			if !m.expand(off, 32) {
				return fail("out of gas")
			}
			copy(m.mem[off.Uint64():], word32(v))
		case MSTORE8:
			if !need(2) {
				return fail("stack underflow")
			}
			if !m.use(3) {
				return fail("out of gas")
			}
			off, v := m.pop(), m.pop()
			if !m.expand(off, 1) {
				return fail("out of gas")
			}
			m.mem[off.Uint64()] = byte(new(big.Int).And(v, big.NewInt(0xff)).Uint64())
		case SLOAD:
			if !need(1) {
				return fail("stack underflow")
			}
			if !m.use(800) {
				return fail("out of gas")
			}
			k := m.pop()
			m.push(new(big.Int).Set(m.sget(m.cur, k)))
		case SSTORE:
			if !need(2) {
				return fail("stack underflow")
			}
			k, v := m.stack[len(m.stack)-1], m.stack[len(m.stack)-2]
			g, ok := m.sstoreGas(k, v)
			if !ok || !m.use(g) {
				m.gas = 0
				return fail("out of gas")
			}
			m.pop()
			m.pop()
			m.cur[skey(k)] = new(big.Int).Set(v)
		case RETURN:
			if !need(2) {
				return fail("stack underflow")
			}
			off, size := m.pop(), m.pop()
			if size.Sign() != 0 {
				if !size.IsUint64() || size.BitLen() > 40 {
					m.gas = 0
					return fail("out of gas")
				}
				if !m.expand(off, size.Uint64()) {
					return fail("out of gas")
				}
				o := off.Uint64()
				res.Ret = append([]byte{}, m.mem[o:o+size.Uint64()]...)
			}
			res.GasUsed, res.Stack, res.Storage = gasLimit-m.gas, m.stack, m.cur
			return res
		default:
			return fail("invalid opcode")
		}
	}
	res.GasUsed, res.Stack, res.Storage = gasLimit-m.gas, m.stack, m.cur
	return res
}
