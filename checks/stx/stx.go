// Package stx holds what the StateDB-level systems (C08, C09, C10) share: a
// small colliding fixture (accounts, validators, one delegator), observation of
// the full API-visible state over that finite alphabet, and the independent
// recomputation oracles (statistics, indexes, delegation links).
package stx

import (
	"fmt"
	"math/big"
	"sort"
	"strings"

	"github.com/youchainhq/go-youchain/common"
	"github.com/youchainhq/go-youchain/core/state"
	"github.com/youchainhq/go-youchain/crypto"
	"github.com/youchainhq/go-youchain/params"
	"github.com/youchainhq/go-youchain/youdb"
)

var (
	// plain accounts; Acc[2] is the delegator
	Acc = []common.Address{
		common.HexToAddress("0xa000000000000000000000000000000000000001"),
		common.HexToAddress("0xa000000000000000000000000000000000000002"),
		common.HexToAddress("0xd000000000000000000000000000000000000003"),
	}
	Slots = []common.Hash{common.HexToHash("0x01"), common.HexToHash("0x02")}

	ValPub  [][]byte
	ValAddr []common.Address
	ValRole = []params.ValidatorRole{params.RoleChancellor, params.RoleHouse, params.RoleSenator}

	Unit = new(big.Int).Set(params.StakeUint)
)

func init() {
	for i := 1; i <= 3; i++ {
		k, err := crypto.ToECDSA(common.LeftPadBytes([]byte{byte(0x40 + i)}, 32))
		if err != nil {
			panic(err)
		}
		pub := crypto.CompressPubkey(&k.PublicKey)
		ValPub = append(ValPub, pub)
		ValAddr = append(ValAddr, state.PubToAddress(pub))
	}
}

// Tok returns units*StakeUnit + extra LU.
func Tok(units, extra int64) *big.Int {
	v := new(big.Int).Mul(big.NewInt(units), Unit)
	return v.Add(v, big.NewInt(extra))
}

func NewDB() (state.Database, youdb.Database) {
	disk := youdb.NewMemDatabase()
	return state.NewDatabase(disk), disk
}

// CreateVal creates fixture validator i the way genesis / teCreate do.
func CreateVal(st *state.StateDB, i int, token *big.Int, status uint8) *state.Validator {
	return st.CreateValidator(fmt.Sprintf("v%d", i), Acc[0], Acc[1], ValRole[i], ValPub[i], []byte{byte(i)}, token, params.YOUToStake(token), 1, 1000, 5000, status)
}

// ObserveVal renders one validator record completely.
func ObserveVal(v *state.Validator) string {
	if v == nil {
		return "nil"
	}
	var ds []string
	for _, d := range v.Delegations {
		if d == nil {
			ds = append(ds, "NIL-DELEGATION")
			continue
		}
		ds = append(ds, fmt.Sprintf("%x:%v/%v", d.Delegator[:2], d.Token, d.Stake))
	}
	return fmt.Sprintf("{%s op=%x cb=%x role=%d st=%d exp=%v/%d li=%d tok=%v stk=%v self=%v/%v rd=%v rt=%v rls=%d acc=%d cr=%d ro=%d dl=[%s] la=%d}",
		v.Name, v.OperatorAddress[:2], v.Coinbase[:2], v.Role, v.Status, v.Expelled, v.ExpelExpired, v.LastInactive,
		v.Token, v.Stake, v.SelfToken, v.SelfStake, v.RewardsDistributable, v.RewardsTotal, v.RewardsLastSettled,
		v.AcceptDelegation, v.CommissionRate, v.RiskObligation, strings.Join(ds, ","), v.LastActive())
}

func ObserveStat(s *state.ValidatorsStat) string {
	if s == nil {
		return "nil"
	}
	var b strings.Builder
	item := func(name string, k *state.ValKindStat) {
		fmt.Fprintf(&b, "%s(on=%v/%v/%d off=%v/%v/%d rw=%v/%v)", name, k.GetOnlineStake(), k.GetOnlineToken(), k.GetCount(),
			k.GetOfflineStake(), k.GetOfflineToken(), k.GetOfflineCount(), k.GetRewardsDistributable(), k.GetRewardsResidue())
	}
	for _, k := range []params.ValidatorKind{params.KindValidator, params.KindChamber, params.KindHouse} {
		item(fmt.Sprintf("K%d", k), s.GetByKind(k))
	}
	for _, ro := range []params.ValidatorRole{params.RoleChancellor, params.RoleSenator, params.RoleHouse} {
		item(fmt.Sprintf("R%d", ro), s.GetByRole(ro))
	}
	return b.String()
}

func ObserveQueue(q *state.WithdrawQueue) string {
	if q == nil {
		return "nil"
	}
	var rs []string
	for _, r := range q.Records {
		if r == nil {
			rs = append(rs, "NIL")
			continue
		}
		rs = append(rs, fmt.Sprintf("%x#%d:%v/%v/f%d@%d", r.Operator[:2], r.Nonce, r.InitialBalance, r.FinalBalance, r.Finished, r.CompletionHeight))
	}
	return "[" + strings.Join(rs, ",") + "]"
}

// Observe is the full observation vector of a StateDB over the fixture
// alphabet, read through the API only (nothing is flushed or finalised).
func Observe(st *state.StateDB) string {
	var b strings.Builder
	for i, a := range Acc {
		fmt.Fprintf(&b, "A%d{ex=%v bal=%v n=%d code=%x s=%x,%x sui=%v dbal=%v dl=%x}", i, st.Exist(a), st.GetBalance(a), st.GetNonce(a),
			st.GetCode(a), st.GetState(a, Slots[0]).Big(), st.GetState(a, Slots[1]).Big(), st.HasSuicided(a), st.VerifDelegationBalance(a), shortAddrs(st.VerifDelegations(a)))
	}
	fmt.Fprintf(&b, " logs=%d/%d/pre%d refund=%d", len(st.Logs()), st.VerifLogSize(), len(st.Preimages()), st.GetRefund())
	for i, a := range ValAddr {
		fmt.Fprintf(&b, " V%d%s", i, ObserveVal(st.GetValidatorByMainAddr(a)))
	}
	stat, _ := st.GetValidatorsStat()
	fmt.Fprintf(&b, " stat=%s idx=%x q=%s", ObserveStat(stat), shortAddrs(st.VerifValidatorIndex()), ObserveQueue(st.GetWithdrawQueue()))
	return b.String()
}

func shortAddrs(as []common.Address) [][]byte {
	var out [][]byte
	for i := range as {
		out = append(out, append([]byte{}, as[i][:2]...))
	}
	return out
}

// RecomputeStat sums the current validator records into fresh statistics.
// Reward pools/residues are not derivable from records and are copied over.
func RecomputeStat(vals []*state.Validator, from *state.ValidatorsStat) *state.ValidatorsStat {
	s := state.NewValidatorsStat()
	for _, v := range vals {
		if v == nil || v.VerifDeleted() {
			continue
		}
		s.GetByRole(v.Role).AddVal(v)
		s.GetByKind(v.Kind()).AddVal(v)
		s.GetByKind(params.KindValidator).AddVal(v)
	}
	if from != nil {
		for _, k := range []params.ValidatorKind{params.KindValidator, params.KindChamber, params.KindHouse} {
			s.GetByKind(k).ResetRewards(from.GetByKind(k).GetRewardsDistributable()).SetRewardsResidue(from.GetByKind(k).GetRewardsResidue())
		}
		for _, ro := range []params.ValidatorRole{params.RoleChancellor, params.RoleSenator, params.RoleHouse} {
			s.GetByRole(ro).ResetRewards(from.GetByRole(ro).GetRewardsDistributable()).SetRewardsResidue(from.GetByRole(ro).GetRewardsResidue())
		}
	}
	return s
}

// CheckLinks evaluates the C08 invariants on a StateDB over the fixture
// delegators `dlgs` and returns human-readable discrepancies (empty = holds).
func CheckLinks(st *state.StateDB, dlgs []common.Address) (bad []string) {
	return CheckLinksOver(st, ValAddr, dlgs)
}

// CheckLinksOver: `cands` is the universe of addresses that may hold a validator.
// The records are enumerated independently of the implementation's index by
// direct lookup over that universe; the implementation's own enumeration
// (GetValidatorsForUpdate) has to agree with it.
func CheckLinksOver(st *state.StateDB, cands []common.Address, dlgs []common.Address) (bad []string) {
	var vals []*state.Validator
	for _, a := range cands {
		if v := st.GetValidatorByMainAddr(a); v != nil {
			vals = append(vals, v)
		}
	}
	listed := st.GetValidatorsForUpdate()
	ls := func(vs []*state.Validator) string {
		var as []string
		for _, v := range vs {
			as = append(as, fmt.Sprintf("%x", v.MainAddress().Bytes()[:3]))
		}
		sort.Strings(as)
		return strings.Join(as, ",")
	}
	if a, b := ls(vals), ls(listed); a != b {
		bad = append(bad, fmt.Sprintf("enumeration-mismatch: existing validators [%s], GetValidatorsForUpdate lists [%s]", a, b))
	}
	stat, err := st.GetValidatorsStat()
	if err != nil {
		return []string{"stat-load-error: " + err.Error()}
	}
	if d := statDeltas(stat, RecomputeStat(vals, stat)); d != "" {
		bad = append(bad, fmt.Sprintf("stat-drift: stored minus recomputed: %s", d))
	}
	zero := new(big.Int)
	byDelegator := map[common.Address][]common.Address{}
	sumByDelegator := map[common.Address]*big.Int{}
	for _, v := range vals {
		tok := new(big.Int).Set(v.SelfToken)
		stk := new(big.Int).Set(v.SelfStake)
		if v.SelfStake.Cmp(params.YOUToStake(v.SelfToken)) != 0 {
			bad = append(bad, fmt.Sprintf("selfstake-unit: %s selfToken=%v selfStake=%v", v.Name, v.SelfToken, v.SelfStake))
		}
		prev := common.Address{}
		for i, d := range v.Delegations {
			if d == nil {
				bad = append(bad, fmt.Sprintf("nil-delegation: %s slot %d", v.Name, i))
				continue
			}
			if i > 0 && strings.Compare(string(prev[:]), string(d.Delegator[:])) >= 0 {
				bad = append(bad, fmt.Sprintf("delegations-unsorted-or-dup: %s", v.Name))
			}
			prev = d.Delegator
			tok.Add(tok, d.Token)
			stk.Add(stk, d.Stake)
			if d.Stake.Cmp(params.YOUToStake(d.Token)) != 0 {
				bad = append(bad, fmt.Sprintf("dstake-unit: %s d=%x token=%v stake=%v", v.Name, d.Delegator[:2], d.Token, d.Stake))
			}
			if d.Token.Cmp(zero) <= 0 {
				bad = append(bad, fmt.Sprintf("empty-delegation-kept: %s d=%x", v.Name, d.Delegator[:2]))
			}
			byDelegator[d.Delegator] = append(byDelegator[d.Delegator], v.MainAddress())
			if sumByDelegator[d.Delegator] == nil {
				sumByDelegator[d.Delegator] = new(big.Int)
			}
			sumByDelegator[d.Delegator].Add(sumByDelegator[d.Delegator], d.Token)
		}
		if tok.Cmp(v.Token) != 0 {
			bad = append(bad, fmt.Sprintf("token-sum: %s delta=%v (token=%v self+delegations=%v)", v.Name, new(big.Int).Sub(v.Token, tok), v.Token, tok))
		}
		if stk.Cmp(v.Stake) != 0 {
			bad = append(bad, fmt.Sprintf("stake-sum: %s delta=%v (stake=%v self+delegations=%v)", v.Name, new(big.Int).Sub(v.Stake, stk), v.Stake, stk))
		}
	}
	// index == set of existing validators
	idx := st.VerifValidatorIndex()
	var have []common.Address
	for _, v := range vals {
		have = append(have, v.MainAddress())
	}
	sort.Slice(have, func(i, j int) bool { return string(have[i][:]) < string(have[j][:]) })
	if fmt.Sprintf("%x", idx) != fmt.Sprintf("%x", have) {
		bad = append(bad, fmt.Sprintf("index-mismatch: index=%x records=%x", shortAddrs(idx), shortAddrs(have)))
	}
	// delegator side == validator side
	for _, d := range dlgs {
		side := st.VerifDelegations(d)
		want := byDelegator[d]
		sort.Slice(want, func(i, j int) bool { return string(want[i][:]) < string(want[j][:]) })
		if fmt.Sprintf("%x", side) != fmt.Sprintf("%x", want) {
			bad = append(bad, fmt.Sprintf("delegation-links: delegator %x lists %x, validators say %x", d[:2], shortAddrs(side), shortAddrs(want)))
		}
		db := st.VerifDelegationBalance(d)
		ws := sumByDelegator[d]
		if ws == nil {
			ws = new(big.Int)
		}
		if db == nil {
			db = new(big.Int)
		}
		if db.Cmp(ws) != 0 {
			bad = append(bad, fmt.Sprintf("delegation-balance: delegator %x delta=%v (balance=%v sum of delegations=%v)", d[:2], new(big.Int).Sub(db, ws), db, ws))
		}
	}
	return bad
}

// ObserveStaking renders the pending staking records / relationships of the fixture.
func ObserveStaking(st *state.StateDB) string {
	var b strings.Builder
	rec := func(name string, d, v common.Address) {
		r := st.GetStakingRecord(d, v)
		if r == nil {
			fmt.Fprintf(&b, " %s=nil", name)
			return
		}
		var hs []string
		for _, h := range r.TxHashes {
			hs = append(hs, fmt.Sprintf("%x", h[28:]))
		}
		fmt.Fprintf(&b, " %s={%v %v}", name, r.FinalValue, hs)
	}
	rec("rec(-,V1)", common.Address{}, ValAddr[1])
	rec("rec(D,V0)", Acc[2], ValAddr[0])
	fmt.Fprintf(&b, " rel(D,V0)=%v rel(D,V2)=%v dcnt=%d vcnt=%d/%d pv1=%v", st.PendingRelationshipExist(Acc[2], ValAddr[0]),
		st.PendingRelationshipExist(Acc[2], ValAddr[2]), st.DelegatorPendingCount(Acc[2]), st.ValidatorPendingCount(ValAddr[0]),
		st.ValidatorPendingCount(ValAddr[2]), st.PendingValidatorExist(ValAddr[1]))
	return b.String()
}

// statDeltas lists, field by field, stored minus recomputed (empty = equal).
func statDeltas(a, b *state.ValidatorsStat) string {
	var out []string
	cmp := func(name string, x, y *state.ValKindStat) {
		f := func(field string, p, q *big.Int) {
			if p.Cmp(q) != 0 {
				out = append(out, fmt.Sprintf("%s.%s:%v", name, field, new(big.Int).Sub(p, q)))
			}
		}
		f("onStake", x.GetOnlineStake(), y.GetOnlineStake())
		f("onToken", x.GetOnlineToken(), y.GetOnlineToken())
		f("onCount", new(big.Int).SetUint64(x.GetCount()), new(big.Int).SetUint64(y.GetCount()))
		f("offStake", x.GetOfflineStake(), y.GetOfflineStake())
		f("offToken", x.GetOfflineToken(), y.GetOfflineToken())
		f("offCount", new(big.Int).SetUint64(x.GetOfflineCount()), new(big.Int).SetUint64(y.GetOfflineCount()))
	}
	for _, k := range []params.ValidatorKind{params.KindValidator, params.KindChamber, params.KindHouse} {
		cmp(fmt.Sprintf("K%d", k), a.GetByKind(k), b.GetByKind(k))
	}
	for _, ro := range []params.ValidatorRole{params.RoleChancellor, params.RoleSenator, params.RoleHouse} {
		cmp(fmt.Sprintf("R%d", ro), a.GetByRole(ro), b.GetByRole(ro))
	}
	return strings.Join(out, " ")
}

// PersistKey is the identity of a discrepancy that survives unrelated changes:
// kind, entity and delta, without the absolute amounts in parentheses.
func PersistKey(b string) string {
	if i := strings.Index(b, " ("); i > 0 {
		return b[:i]
	}
	return b
}
