package stx

import (
	"fmt"
	"math/big"

	"github.com/youchainhq/go-youchain/common"
	"github.com/youchainhq/go-youchain/core/state"
	"github.com/youchainhq/go-youchain/core/types"
	"github.com/youchainhq/go-youchain/crypto"
	"github.com/youchainhq/go-youchain/params"
)

// Mut applies the shared mutation alphabet to a StateDB.  Validator records
// are changed only through the call patterns production uses.
type Mut struct {
	WNonce uint64 // next withdraw-record nonce (unique per (operator, nonce) as in production)
	SNonce int64  // staking-record tx counter
}

var emptyCodeHash = crypto.Keccak256Hash(nil)

func MkRecord(nonce uint64) *state.WithdrawRecord {
	rec := state.NewWithdrawRecord()
	rec.Operator = Acc[0]
	rec.Nonce = nonce
	rec.Validator = ValAddr[0]
	rec.Recipient = Acc[1]
	rec.InitialBalance = big.NewInt(int64(nonce))
	rec.FinalBalance = big.NewInt(int64(nonce))
	rec.CreationHeight = 1
	rec.CompletionHeight = 5 + nonce
	return rec
}

// Apply runs one mutation op; ok=false if op is not a mutation of this alphabet.
func (s *Mut) Apply(st *state.StateDB, op string, idx int) (ob string, ok bool) {
	one := big.NewInt(1)
	switch op {
	case "bal(A0)":
		st.AddBalance(Acc[0], one)
	case "bal(A1)":
		st.AddBalance(Acc[1], one)
	case "touch(A1)":
		st.AddBalance(Acc[1], new(big.Int))
	case "nonce(A0)":
		st.SetNonce(Acc[0], st.GetNonce(Acc[0])+1)
	case "store(A0)":
		cur := st.GetState(Acc[0], Slots[0]).Big()
		nv := new(big.Int).Add(cur, one)
		if nv.Cmp(big.NewInt(9)) >= 0 {
			nv.SetInt64(0) // wraps through deletion of the slot
		}
		st.SetState(Acc[0], Slots[0], common.BigToHash(nv))
	case "store7(A0)": // write the value the slot has in the committed base state
		st.SetState(Acc[0], Slots[0], common.BigToHash(big.NewInt(7)))
	case "store0(A0)": // clear the slot
		st.SetState(Acc[0], Slots[0], common.Hash{})
	case "store(A0,s1)": // a second slot of the same account: 0 -> 1 -> 2 -> 0 (deletion)
		cur := st.GetState(Acc[0], Slots[1]).Big()
		nv := new(big.Int).Add(cur, one)
		if nv.Cmp(big.NewInt(3)) >= 0 {
			nv.SetInt64(0)
		}
		st.SetState(Acc[0], Slots[1], common.BigToHash(nv))
	case "store0(A0,s1)":
		st.SetState(Acc[0], Slots[1], common.Hash{})
	case "code(A1)":
		st.SetCode(Acc[1], append(st.GetCode(Acc[1]), 0x01))
	case "suicide(A0)":
		return fmt.Sprint(st.Suicide(Acc[0])), true
	case "create(A1)":
		// exactly what evm.create does: collision guard, CreateAccount, SetNonce(1).
		// (A bare CreateAccount on an existing contract, or one not followed by the
		// nonce write, is not something the node can do.)
		if h := st.GetCodeHash(Acc[1]); st.GetNonce(Acc[1]) != 0 || (h != (common.Hash{}) && h != emptyCodeHash) {
			return "collision", true
		}
		st.CreateAccount(Acc[1])
		st.SetNonce(Acc[1], 1)
	case "log":
		st.AddLog(&types.Log{Address: Acc[0], Data: []byte{byte(idx)}})
	case "preimage": // SHA3 with preimage recording on
		st.AddPreimage(common.BigToHash(big.NewInt(int64(1000+idx))), []byte{byte(idx)})
	case "refund":
		st.AddRefund(1)
	case "refund-": // the EIP-2200 "slot recreated" path: part of the refund is taken back
		if st.GetRefund() < 1 {
			return "none", true
		}
		st.SubRefund(1)

	case "vcreate(V1)":
		return fmt.Sprint(CreateVal(st, 1, Tok(3, 5), params.ValidatorOffline) != nil), true
	case "vdeposit(V0)": // teDeposit pattern
		old := st.GetValidatorByMainAddr(ValAddr[0])
		if old == nil {
			return "absent", true
		}
		nv := old.PartialCopy()
		v := Tok(1, 500000000000000000)
		nv.SelfToken.Add(nv.SelfToken, v)
		ns := params.YOUToStake(nv.SelfToken)
		delta := new(big.Int).Sub(ns, nv.SelfStake)
		nv.SelfStake.Set(ns)
		nv.Token.Add(nv.Token, v)
		nv.Stake.Add(nv.Stake, delta)
		return fmt.Sprint(st.UpdateValidator(nv, old)), true
	case "vstatus(V0)": // teChangeStatus pattern
		old := st.GetValidatorByMainAddr(ValAddr[0])
		if old == nil {
			return "absent", true
		}
		nv := old.PartialCopy()
		nv.Status = 1 - old.Status
		nv.UpdateLastActive(uint64(idx + 1))
		return fmt.Sprint(st.UpdateValidator(nv, old)), true
	case "vreward(V0)": // endblock.go blockRewards pattern: copy kept as old, live object edited
		val := st.GetValidatorByMainAddr(ValAddr[0])
		if val == nil {
			return "absent", true
		}
		old := val.PartialCopy()
		val.AddTotalRewards(big.NewInt(11))
		return fmt.Sprint(st.UpdateValidator(val, old)), true
	case "dlg+(V0)": // teDelegationAdd
		val := st.GetValidatorByMainAddr(ValAddr[0])
		if val == nil {
			return "absent", true
		}
		_, _, _, fl := st.UpdateDelegation(Acc[2], val, Tok(1, 3))
		return fmt.Sprint(fl), true
	case "dlg+(V2)": // first delegation to another validator: the delegator's list (and its blob hash) changes
		val := st.GetValidatorByMainAddr(ValAddr[2])
		if val == nil {
			return "absent", true
		}
		_, _, _, fl := st.UpdateDelegation(Acc[2], val, Tok(1, 3))
		return fmt.Sprint(fl), true
	case "dlg-(V2)": // full withdrawal from the validator that is FIRST in the delegator's sorted list
		val := st.GetValidatorByMainAddr(ValAddr[2])
		if val == nil {
			return "absent", true
		}
		df := val.GetDelegationFrom(Acc[2])
		if df == nil {
			return "none", true
		}
		_, _, _, fl := st.UpdateDelegation(Acc[2], val, new(big.Int).Neg(df.Token))
		return fmt.Sprint(fl), true
	case "dlg-(V0)": // teDelegationSub: never more than what is there
		val := st.GetValidatorByMainAddr(ValAddr[0])
		if val == nil {
			return "absent", true
		}
		df := val.GetDelegationFrom(Acc[2])
		if df == nil {
			return "none", true
		}
		w := Tok(1, 3)
		if w.Cmp(df.Token) > 0 {
			w.Set(df.Token)
		}
		_, _, _, fl := st.UpdateDelegation(Acc[2], val, new(big.Int).Neg(w))
		return fmt.Sprint(fl), true
	case "wadd":
		s.WNonce++
		st.AddWithdrawRecord(MkRecord(s.WNonce))
	case "wrem":
		if st.GetWithdrawQueue().Len() == 0 {
			return "empty", true
		}
		st.RemoveWithdrawRecords([]int{0})

	case "wremL": // first and last record in one call
		n := st.GetWithdrawQueue().Len()
		if n < 2 {
			return "short", true
		}
		st.RemoveWithdrawRecords([]int{0, n - 1})

	case "statreward": // staking.rewardsToPool pattern: reward pools / residue edited in place on the cached statistics
		stat, err := st.GetValidatorsStat()
		if err != nil {
			return "err", true
		}
		stat.GetByRole(params.RoleHouse).AddRewards(big.NewInt(5))
		stat.GetByKind(params.KindValidator).SetRewardsResidue(big.NewInt(int64(3 + idx)))
	case "srec(V1)": // handleCreate / handleDeposit pattern: pending record for validator V1
		s.SNonce++
		st.AddStakingRecord(common.Address{}, ValAddr[1], common.BigToHash(big.NewInt(1000+s.SNonce)), Tok(s.SNonce, 1))
	case "srec(D,V0)": // handleDelegationAdd pattern
		s.SNonce++
		st.AddStakingRecord(Acc[2], ValAddr[0], common.BigToHash(big.NewInt(2000+s.SNonce)), Tok(s.SNonce, 2))
		st.AddPendingRelationship(Acc[2], ValAddr[0])
	case "srec3(D,V0)": // three staking txs of one (delegator, validator) pair in one block: the record's hash list grows in memory
		for i := 0; i < 3; i++ {
			s.SNonce++
			st.AddStakingRecord(Acc[2], ValAddr[0], common.BigToHash(big.NewInt(2000+s.SNonce)), Tok(s.SNonce, 2))
		}
		st.AddPendingRelationship(Acc[2], ValAddr[0])
	case "prel(D,V2)":
		st.AddPendingRelationship(Acc[2], ValAddr[2])
	default:
		return "", false
	}
	return "", true
}
