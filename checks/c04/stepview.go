package c04

import (
	"bytes"
	"encoding/binary"
	"fmt"
	"math/big"
	"sort"
	"strings"
	"sync"
	"sync/atomic"
	"time"

	"github.com/youchainhq/go-youchain/common"
	"github.com/youchainhq/go-youchain/consensus/ucon"
	"github.com/youchainhq/go-youchain/core/state"
	"github.com/youchainhq/go-youchain/core/types"
	"github.com/youchainhq/go-youchain/crypto"
	"github.com/youchainhq/go-youchain/params"
	"github.com/youchainhq/go-youchain/rlp"
	"github.com/youchainhq/go-youchain/youdb"

	"verif/mc"
)

// ---- part "stepview": the credentials the node issues to itself --------------
//
// SortitionManager (sortition_mgr.go) is what answers "am I a proposer / a
// committee member of (round, round index, step), and with which credential":
// Server.Prepare asks isProposer, Voter.vote asks isValidator, Server.clearData
// calls ClearStepView on a round switch.  The answers are cached ("step
// views").  The three callers run on different goroutines and take their round
// from different places (parent header / asynchronously delivered context
// event / chain head), so the manager is asked for rounds other than the one it
// was last cleared for.  The real manager is explored here as a state machine:
// every order of lookups and clears over a small domain, each answer judged
// against the sortition computed from scratch for exactly the asked key.

const (
	svR           = uint64(3*32768 - 1) // rounds R, R+1, R+2; R+1 is a certificate round (multiple of ACoCHTFrequency)
	svRounds      = 3
	svIndexes     = 2
	svSeedLB      = 2 // YouParams.SeedLookBack of the fixture
	svStakeLB     = 4 // YouParams.StakeLookBack of the fixture
	svPropTh      = 26
	svValTh       = 50
	svCertTh      = 45
	svCertVersion = params.YouVersion(0xC4) // version of every fixture header; carries the certificate committee size
)

// three validator sets; header n commits set n mod 3, so the three rounds look
// back to three different stake tables (the node's stake and the total differ
// per round; key 7 is not registered in the third).
var svSets = [3][]int64{
	{60, 10, 5, 5, 5, 5, 5, 5},
	{45, 20, 2, 10, 10, 11, 11, 11},
	{30, 30, 1, 5, 5, 5, 9, 0},
}

type svRole struct {
	name     string
	step     uint32
	lb       params.LookBackType
	proposer bool
}

// the lookups production makes: Prepare -> isProposer; Voter.vote ->
// isValidator(step = vote type, LookBackCert for the certificate vote, else LookBackPos)
var svRoles = []svRole{
	{"proposer", uint32(ucon.Propose), params.LookBackPos, true},
	{"prevote", uint32(ucon.Prevote), params.LookBackPos, false},
	{"precommit", uint32(ucon.Precommit), params.LookBackPos, false},
	{"nextindex", uint32(ucon.NextIndex), params.LookBackPos, false},
	{"certificate", uint32(ucon.Certificate), params.LookBackCert, false},
}

type svKey struct {
	rd   int    // round = R + rd
	ri   uint32 // round index
	role int    // index into svRoles
}

func (k svKey) round() *big.Int { return new(big.Int).SetUint64(svR + uint64(k.rd)) }
func (k svKey) String() string {
	return fmt.Sprintf("%s(R+%d,i%d)", svRoles[k.role].name, k.rd, k.ri)
}

// svDomain: every key of the domain, in a fixed order (the probe order of the
// state key and of the visible-view invariant).
var svDomain = func() []svKey {
	var ks []svKey
	for rd := 0; rd < svRounds; rd++ {
		for ri := uint32(1); ri <= svIndexes; ri++ {
			for role := range svRoles {
				ks = append(ks, svKey{rd, ri, role})
			}
		}
	}
	return ks
}()

// ---- fixture: a chain reader with one header per number ----------------------

func svSeedOf(n uint64) common.Hash {
	var b [8]byte
	binary.BigEndian.PutUint64(b[:], n)
	return common.BytesToHash(keccak(append([]byte("c04-stepview-seed-of-header"), b[:]...)))
}

type svChain struct {
	stubChain
	roots [3]common.Hash
	mu    sync.Mutex
	hdrs  map[uint64]*types.Header
}

func (c *svChain) header(n uint64) *types.Header {
	c.mu.Lock()
	defer c.mu.Unlock()
	if h, ok := c.hdrs[n]; ok {
		return h
	}
	cons, err := rlp.EncodeToBytes(&ucon.BlockConsensusData{Round: new(big.Int).SetUint64(n), RoundIndex: 1, Seed: svSeedOf(n), ProposerThreshold: svPropTh, ValidatorThreshold: svValTh, CertValThreshold: svCertTh})
	if err != nil {
		panic(err)
	}
	h := &types.Header{Number: new(big.Int).SetUint64(n), ValRoot: c.roots[n%3], Consensus: cons, CurrVersion: svCertVersion}
	c.hdrs[n] = h
	return h
}

func (c *svChain) CurrentHeader() *types.Header                    { return c.header(svR - 1) }
func (c *svChain) GetHeader(_ common.Hash, n uint64) *types.Header { return c.header(n) }
func (c *svChain) GetHeaderByNumber(n uint64) *types.Header        { return c.header(n) }
func (c *svChain) GetHeaderByHash(common.Hash) *types.Header       { return nil }

var (
	svOnce sync.Once
	svSrv  *ucon.Server
	svErr  string
)

func svBuild() {
	loadKeys()
	svErr = mc.Catch(func() {
		db := state.NewDatabase(youdb.NewMemDatabase())
		ch := &svChain{hdrs: map[uint64]*types.Header{}}
		ch.db = db
		for i := range svSets {
			ch.roots[i] = commitValidatorSet(db, svSets[i])
		}
		if ch.roots[0] == ch.roots[1] || ch.roots[1] == ch.roots[2] {
			panic("stepview fixture: validator sets share a root")
		}
		// the certificate committee size is read from the protocol version of
		// the certificate look-back header (sortition_verifier.go: "SPECIAL")
		if params.Versions == nil {
			params.Versions = params.VersionsMap{}
		}
		cv := params.YouParams{Version: svCertVersion}
		cv.CertValThreshold = svCertTh
		params.Versions[svCertVersion] = cv
		yp := &params.YouParams{}
		yp.ProposerThreshold, yp.ValidatorThreshold = svPropTh, svValTh
		yp.CertValThreshold = 33 // deliberately not the one in force for the look-back header
		yp.StakeLookBack, yp.SeedLookBack = svStakeLB, svSeedLB
		svSrv = ucon.VerifC04Server(ch, yp, new(big.Int).SetUint64(svR), 1)
	})
}

// ---- oracle: the sortition of exactly the asked key, from scratch ------------

// svExp is what the node's credential for one key must be.  Everything is
// derived here, not through the Server: which header carries the seed, which
// header commits the stake table, the node's stake and the total in that table,
// the committee size, then the honest prover path (VrfSortition) on exactly
// these inputs, the reference priority and the VRF of the next block seed.
type svExp struct {
	seedNum, stakeNum uint64
	seed              common.Hash
	member            bool
	stake, total      int64
	th                uint64
	value             common.Hash
	j                 uint32
	prio              common.Hash
	blockSeed         common.Hash // proposer with a seat only
}

func svExpect(node int, k svKey) (*svExp, string) {
	role := svRoles[k.role]
	round := svR + uint64(k.rd)
	e := &svExp{}
	switch {
	case role.lb == params.LookBackCert:
		e.seedNum, e.stakeNum = round-params.ACoCHTFrequency, round-2*params.ACoCHTFrequency
		e.th = svCertTh
	case role.proposer:
		e.seedNum, e.stakeNum = round-svSeedLB, round-svStakeLB
		e.th = svPropTh
	default:
		e.seedNum, e.stakeNum = round-svSeedLB, round-svStakeLB
		e.th = svValTh
	}
	e.seed = svSeedOf(e.seedNum)
	set := svSets[e.stakeNum%3]
	for _, s := range set {
		e.total += s
	}
	e.stake = set[node]
	e.member = e.stake > 0
	if !e.member {
		return e, ""
	}
	msg := mc.Catch(func() {
		var proof []byte
		e.value, proof, e.j = ucon.VrfSortition(keys[node].sk, e.seed, k.ri, role.step, e.th, big.NewInt(e.stake), big.NewInt(e.total))
		jlo, jhi, ok := seatInterval(e.value, e.stake, e.th, e.total)
		if !ok || int64(e.j) < jlo || int64(e.j) > jhi {
			panic(fmt.Sprintf("reference: VrfSortition seat count %d is not the exact binomial quantile [%d,%d]", e.j, jlo, jhi))
		}
		e.prio = oraclePriority(e.value, e.j)
		if e.j > 0 {
			if ok, err := ucon.VrfVerifySortition(keys[node].pk, e.seed, k.ri, role.step, proof, e.j, e.th, big.NewInt(e.stake), big.NewInt(e.total)); !ok || err != nil {
				panic(fmt.Sprintf("reference: the from-scratch credential does not verify: %v", err))
			}
		}
		if role.proposer && e.j > 0 {
			// <seed, proof> <- VRF(look-back seed || round || round index)
			var ix [4]byte
			binary.BigEndian.PutUint32(ix[:], k.ri)
			m := append(append(append([]byte{}, e.seed[:]...), new(big.Int).SetUint64(round).Bytes()...), ix[:]...)
			e.blockSeed, _ = keys[node].sk.Evaluate(m)
		}
	})
	return e, msg
}

func svTable(node int) (map[svKey]*svExp, string) {
	t := map[svKey]*svExp{}
	for _, k := range svDomain {
		e, msg := svExpect(node, k)
		if msg != "" {
			return nil, fmt.Sprintf("%v: %s", k, msg)
		}
		t[k] = e
	}
	return t, ""
}

// ---- the system ---------------------------------------------------------------

type svOp struct {
	clear bool
	key   svKey // clear: only rd is used
}

type svAlpha struct {
	name string
	desc string
	ops  []string
	byOp map[string]svOp
}

func svAlphabet(name string) *svAlpha {
	a := &svAlpha{name: name, byOp: map[string]svOp{}}
	var rounds []int
	var idx []uint32
	var roles []int
	switch name {
	case "full": // everything the engine can ask, 3 rounds x 2 indexes
		rounds, idx, roles = []int{0, 1, 2}, []uint32{1, 2}, []int{0, 1, 2, 3, 4}
	case "wide": // 3 rounds x 2 indexes, both code paths and both look-back kinds
		rounds, idx, roles = []int{0, 1, 2}, []uint32{1, 2}, []int{0, 1, 4}
	case "mid": // two round switches, round index 1, both code paths and both look-back kinds
		rounds, idx, roles = []int{0, 1, 2}, []uint32{1}, []int{0, 1, 4}
	case "steps": // one round switch, round index 1, every lookup kind
		rounds, idx, roles = []int{0, 1}, []uint32{1}, []int{0, 1, 2, 3, 4}
	case "switch": // one round switch, both round indexes, both code paths
		rounds, idx, roles = []int{0, 1}, []uint32{1, 2}, []int{0, 1}
	case "cert": // one round switch, round index 1 (the index Prepare uses for a round that is not the engine's), both look-back kinds
		rounds, idx, roles = []int{0, 1}, []uint32{1}, []int{0, 1, 4}
	default:
		panic("unknown stepview alphabet " + name)
	}
	for _, rd := range rounds {
		op := fmt.Sprintf("clear(R+%d)", rd)
		a.ops = append(a.ops, op)
		a.byOp[op] = svOp{clear: true, key: svKey{rd: rd}}
	}
	for _, rd := range rounds {
		for _, ri := range idx {
			for _, ro := range roles {
				k := svKey{rd, ri, ro}
				a.ops = append(a.ops, k.String())
				a.byOp[k.String()] = svOp{key: k}
			}
		}
	}
	var rn []string
	for _, ro := range roles {
		rn = append(rn, svRoles[ro].name)
	}
	a.desc = fmt.Sprintf("rounds R+%v x indexes %v x {%s} + clear per round = %d ops", rounds, idx, strings.Join(rn, ","), len(a.ops))
	return a
}

type svAns struct {
	name   string
	key    svKey
	is     bool
	view   *ucon.StepView
	sameAs string // the op that first received this very view object ("" = fresh object)
	again  bool   // the key was asked before in this history
}

// svCounters are per system instance (summed at the end; no lock on the hot path).
type svCounters struct {
	answers, withSeats, zeroSeats, nonMember           int64
	fromCache, recomputed                              int64
	otherRoundThanCleared, beforeAnyClear              int64
	afterClearOfLaterRound                             int64
	clears, noopClears, clearsDroppingViews            int64
	visibleChecked, visibleVerified, serverLevelAccept int64
	visibleUnchanged                                   int64
}

// svHanded: which lookup first received a view object, and the proof it carried then.
type svHanded struct {
	op    string
	proof []byte
}

type svSys struct {
	node  int
	alpha *svAlpha
	exp   map[svKey]*svExp
	cnt   *svCounters

	sm        *ucon.SortitionManager
	lastClear int // -1: never cleared
	asked     map[svKey]bool
	last      *svAns
	handed    map[*ucon.StepView]svHanded
	dead      bool
	pend      []mc.Violation
	dropped   bool // the last op was a clear that emptied a non-empty cache
	noop      bool // the last op was a clear for the round cleared last
}

func (s *svSys) Reset() {
	k := keys[s.node]
	s.sm = svSrv.VerifC04cManager(k.sk, crypto.PubkeyToAddress(k.ec.PublicKey))
	s.lastClear = -1
	s.asked = map[svKey]bool{}
	s.last = nil
	s.handed = map[*ucon.StepView]svHanded{}
	s.dead = false
	s.pend = nil
}

func (s *svSys) Enabled() []string {
	if s.dead {
		return nil
	}
	return s.alpha.ops
}

func (s *svSys) get(k svKey) *ucon.StepView {
	return s.sm.GetStepView(k.round(), k.ri, svRoles[k.role].step)
}

func svViewString(is bool, v *ucon.StepView) string {
	if v == nil {
		return fmt.Sprintf("is=%v view=nil", is)
	}
	// the proof is randomised: not part of the observation
	return fmt.Sprintf("is=%v seats=%d prio=%x seed=%x th=%d kind=%d proof=%dB", is, v.SubUsers, v.Priority[:6], v.SeedValue[:6], v.Threshold, v.ValidatorType, len(v.SortitionProof))
}

func (s *svSys) Apply(name string) string {
	op, ok := s.alpha.byOp[name]
	if !ok {
		panic("stepview: unknown op " + name)
	}
	s.last, s.dropped, s.noop = nil, false, false
	if op.clear {
		visible := 0
		for _, k := range svDomain {
			if s.get(k) != nil {
				visible++
			}
		}
		msg := mc.Catch(func() { s.sm.ClearStepView(new(big.Int).SetUint64(svR + uint64(op.key.rd))) })
		if msg != "" {
			s.dead = true
			s.pend = append(s.pend, mc.Violation{Sig: "stepview: SortitionManager.ClearStepView panics: " + msg, Detail: name})
			return "panic"
		}
		noop := s.lastClear == op.key.rd
		s.lastClear = op.key.rd
		left := 0
		for _, k := range svDomain {
			if s.get(k) != nil {
				left++
			}
		}
		s.dropped = visible > 0 && left == 0
		s.noop = noop
		if noop {
			return fmt.Sprintf("same round: %d views kept", left)
		}
		return fmt.Sprintf("%d views dropped, %d left", visible-left, left)
	}
	role := svRoles[op.key.role]
	var is bool
	var view *ucon.StepView
	msg := mc.Catch(func() {
		if role.proposer {
			is, view = s.sm.VerifC04cIsProposer(op.key.round(), op.key.ri)
		} else {
			is, view = s.sm.VerifC04cIsValidator(op.key.round(), op.key.ri, role.step, role.lb)
		}
	})
	if msg != "" {
		s.dead = true
		fn := "isValidator"
		if role.proposer {
			fn = "isProposer"
		}
		s.pend = append(s.pend, mc.Violation{Sig: fmt.Sprintf("stepview: SortitionManager.%s panics: %s", fn, msg), Detail: name})
		return "panic"
	}
	a := &svAns{name: name, key: op.key, is: is, view: view, again: s.asked[op.key]}
	s.asked[op.key] = true
	if view != nil {
		if first, ok := s.handed[view]; ok {
			a.sameAs = first.op
		} else {
			s.handed[view] = svHanded{name, append([]byte{}, view.SortitionProof...)}
		}
	}
	s.last = a
	return svViewString(is, view)
}

func svFn(k svKey) string {
	switch {
	case svRoles[k.role].proposer:
		return "isProposer"
	case svRoles[k.role].lb == params.LookBackCert:
		return "isValidator (certificate vote, certificate look-back)"
	}
	return "isValidator"
}

// verify runs the function-level verifier on a view for the inputs of key k.
func (s *svSys) verify(k svKey, e *svExp, v *ucon.StepView) (ok bool, err error, pmsg string) {
	role := svRoles[k.role]
	pmsg = mc.Catch(func() {
		if role.proposer {
			ok, err = ucon.VrfVerifyPriority(keys[s.node].pk, e.seed, k.ri, role.step, v.SortitionProof, v.Priority, v.SubUsers, e.th, big.NewInt(e.stake), big.NewInt(e.total))
		} else {
			ok, err = ucon.VrfVerifySortition(keys[s.node].pk, e.seed, k.ri, role.step, v.SortitionProof, v.SubUsers, e.th, big.NewInt(e.stake), big.NewInt(e.total))
		}
	})
	return
}

// verifyAsPeer hands the credential to the message-level verifier every other
// node applies to a proposal / vote of that round (Server.verifyPriority /
// Server.verifySortition).
func (s *svSys) verifyAsPeer(k svKey, v *ucon.StepView) (err error, pmsg string) {
	role := svRoles[k.role]
	pub := &keys[s.node].ec.PublicKey
	pmsg = mc.Catch(func() {
		if role.proposer {
			err = svSrv.VerifC04VerifyPriority(pub, &ucon.ConsensusCommon{Round: k.round(), RoundIndex: k.ri, Step: role.step,
				Priority: v.Priority, SortitionProof: v.SortitionProof, SubUsers: v.SubUsers})
		} else {
			err = svSrv.VerifC04VerifySortition(pub, &ucon.SortitionData{Round: k.round(), RoundIndex: k.ri, Step: role.step,
				Proof: v.SortitionProof, Votes: v.SubUsers}, role.lb)
		}
	})
	return
}

// originOf names the key of the domain whose sortition result has this content
// (among several, the one closest to k: fewest differing coordinates).
func (s *svSys) originOf(v *ucon.StepView, k svKey) (svKey, bool) {
	best, found, bd := svKey{}, false, 4
	for _, o := range svDomain {
		e := s.exp[o]
		same := e.member && e.j == v.SubUsers && e.prio == v.Priority
		if !e.member && v.SubUsers == 0 && v.Priority == (common.Hash{}) && len(v.SortitionProof) == 0 {
			same = true // the empty view cached for a node that is not in the stake table
		}
		if !same {
			continue
		}
		d := 0
		if o.rd != k.rd {
			d++
		}
		if o.ri != k.ri {
			d++
		}
		if o.role != k.role {
			d++
		}
		if d < bd {
			best, found, bd = o, true, d
		}
	}
	return best, found
}

func svCoordDiff(a, b svKey) string {
	var d []string
	if a.rd != b.rd {
		d = append(d, "round")
	}
	if a.ri != b.ri {
		d = append(d, "round index")
	}
	if a.role != b.role {
		d = append(d, "step")
	}
	return strings.Join(d, " and ")
}

// judgeAnswer: the answer to a lookup must be the sortition result of exactly
// the asked (round, round index, step) for the node's key and look-back stake.
func (s *svSys) judgeAnswer(a *svAns) []mc.Violation {
	c := s.cnt
	k, e, v := a.key, s.exp[a.key], a.view
	role := svRoles[k.role]
	c.answers++
	switch {
	case s.lastClear < 0:
		c.beforeAnyClear++
	case s.lastClear != k.rd:
		c.otherRoundThanCleared++
		if s.lastClear > k.rd {
			c.afterClearOfLaterRound++
		}
	}
	if a.sameAs != "" {
		c.fromCache++
	} else if a.again {
		c.recomputed++
	}
	var fails []string
	fail := func(f string, args ...interface{}) { fails = append(fails, fmt.Sprintf(f, args...)) }
	desc := fmt.Sprintf("node key %d, %s = round %d index %d step %d: look-back seed of header %d, stake %d of %d in the table of header %d, committee %d; the sortition of exactly these inputs gives %d seats",
		s.node, a.name, svR+uint64(k.rd), k.ri, role.step, e.seedNum, e.stake, e.total, e.stakeNum, e.th, e.j)
	if !e.member {
		c.nonMember++
		if a.is || (v != nil && v.SubUsers != 0) {
			fail("role flag: the node is not registered in the look-back stake table of that round, yet the manager says is=%v with %s", a.is, svViewString(a.is, v))
		}
	} else {
		want := e.j > 0
		if a.is != want {
			fail("role flag: is=%v, the node won %d seats", a.is, e.j)
		}
		if v == nil && (want || !role.proposer) {
			fail("role flag: no view returned")
		}
		if v != nil {
			if v.SubUsers != e.j {
				fail("seat count: %d, want %d", v.SubUsers, e.j)
			}
			if v.Priority != e.prio {
				fail("priority: %x, want the largest seat hash %x", v.Priority, e.prio)
			}
			if role.proposer && e.j > 0 && v.SeedValue != e.blockSeed {
				fail("block seed: %x, want VRF(look-back seed || round || index) = %x", v.SeedValue, e.blockSeed)
			}
			if !role.proposer && v.SeedValue != (common.Hash{}) {
				fail("block seed: a vote view carries a seed %x", v.SeedValue)
			}
			if v.Threshold != e.th || v.ValidatorType != params.KindChamber {
				fail("committee size / validator kind: %d / %d, want %d / %d", v.Threshold, v.ValidatorType, e.th, params.KindChamber)
			}
			if v.SubUsers > 0 {
				ok, err, pmsg := s.verify(k, e, v)
				if pmsg != "" || !ok || err != nil {
					fail("verification: the proof does not verify for the seed, stake and committee of the asked key (ok=%v err=%v panic=%q)", ok, err, pmsg)
				}
				perr, pmsg := s.verifyAsPeer(k, v)
				if pmsg != "" || perr != nil {
					fail("peer verification: the message-level verifier of a node in that round refuses it (err=%v panic=%q)", perr, pmsg)
				} else {
					c.serverLevelAccept++
				}
			}
		}
		if e.j > 0 {
			c.withSeats++
		} else {
			c.zeroSeats++
		}
	}
	if len(fails) == 0 {
		return nil
	}
	// signature: the root cause where it can be named (the answer is the
	// sortition result of another key of the domain), else the first failing aspect
	aspect := fails[0][:strings.Index(fails[0], ":")]
	detail := desc + "; the manager answers " + svViewString(a.is, v) + "; " + strings.Join(fails, "; ")
	if v != nil {
		if o, ok := s.originOf(v, k); ok && o != k {
			aspect = "it is the credential of another " + svCoordDiff(o, k)
			detail += fmt.Sprintf("; the content is the sortition result of %v", o)
		}
	}
	if a.sameAs != "" && a.sameAs != a.name {
		detail += fmt.Sprintf("; it is the very view object handed out earlier for %s", a.sameAs)
	}
	return []mc.Violation{{
		Sig:    fmt.Sprintf("stepview: SortitionManager.%s hands out a credential that is not the sortition result of the asked (round, round index, step): %s", svFn(k), aspect),
		Detail: detail}}
}

// judgeVisible: whatever the cache exposes under a key (GetStepView is the
// lookup isProposer / isValidator start with) must be the sortition result of
// that key: a view never survives into another round, round index or step.
func (s *svSys) judgeVisible() []mc.Violation {
	var out []mc.Violation
	for _, k := range svDomain {
		v := s.get(k)
		if v == nil {
			continue
		}
		s.cnt.visibleChecked++
		e := s.exp[k]
		okContent := (e.member && v.SubUsers == e.j && v.Priority == e.prio) || (!e.member && v.SubUsers == 0)
		if okContent && e.member && svRoles[k.role].proposer && e.j > 0 && v.SeedValue != e.blockSeed {
			okContent = false
		}
		if !okContent {
			what := "a view that is no sortition result of the domain"
			det := ""
			if o, ok := s.originOf(v, k); ok && o != k {
				what = "a view computed for another " + svCoordDiff(o, k)
				det = fmt.Sprintf(": its content is the sortition result of %v", o)
			}
			out = append(out, mc.Violation{
				Sig:    "stepview: the cache exposes under GetStepView(round, round index, step) " + what,
				Detail: fmt.Sprintf("node key %d: GetStepView for %v returns %s, the sortition of that key gives %d seats / priority %x%s", s.node, k, svViewString(v.SubUsers > 0, v), e.j, e.prio[:6], det)})
			continue
		}
		if v.SubUsers == 0 || (s.last != nil && s.last.view == v) {
			continue // the view just handed out was verified by judgeAnswer
		}
		// a view is verified when it is handed out; while it stays cached its
		// proof must stay the one handed out (no later operation may touch it).
		// A view no lookup of this history returned is verified here.
		if h, ok := s.handed[v]; ok {
			s.cnt.visibleUnchanged++
			if !bytes.Equal(h.proof, v.SortitionProof) {
				out = append(out, mc.Violation{
					Sig:    "stepview: the proof of a cached view changed after it was handed out",
					Detail: fmt.Sprintf("node key %d: %v, first handed out by %s", s.node, k, h.op)})
			}
			continue
		}
		ok, err, pmsg := s.verify(k, e, v)
		s.cnt.visibleVerified++
		if pmsg != "" || !ok || err != nil {
			out = append(out, mc.Violation{
				Sig:    "stepview: a cached view does not verify for the key it is cached under",
				Detail: fmt.Sprintf("node key %d: %v: ok=%v err=%v panic=%q", s.node, k, ok, err, pmsg)})
		}
	}
	return out
}

func (s *svSys) Check() []mc.Violation {
	vs := s.pend
	s.pend = nil
	if s.dead {
		return vs
	}
	if s.last != nil {
		vs = append(vs, s.judgeAnswer(s.last)...)
	} else if s.lastClear >= 0 {
		s.cnt.clears++
		if s.noop {
			s.cnt.noopClears++
		}
		if s.dropped {
			s.cnt.clearsDroppingViews++
		}
	}
	vs = append(vs, s.judgeVisible()...)
	return vs
}

// Key: last cleared round + what the cache exposes under every key of the
// domain (content, not the randomised proof).
func (s *svSys) Key() string {
	if s.dead {
		return ""
	}
	var b strings.Builder
	fmt.Fprintf(&b, "sv|%d|%s|c%d|", s.node, s.alpha.name, s.lastClear)
	for _, k := range svDomain {
		v := s.get(k)
		if v == nil {
			b.WriteByte('-')
			continue
		}
		fmt.Fprintf(&b, "[%d:%x]", v.SubUsers, v.Priority[:4])
	}
	return b.String()
}

// ---- driver -------------------------------------------------------------------

type svPlan struct {
	alpha string
	depth int // BFS depth
	nodes []int
	all   int // >0: additionally EVERY op sequence of this length (no state merging)
}

func svPlans(quick bool) []svPlan {
	// depth 16 is beyond the diameter of the small alphabets: their BFS ends on
	// an empty frontier (every reachable state expanded with every op)
	if quick {
		return []svPlan{
			{alpha: "switch", depth: 16, nodes: []int{0, 2, 7}, all: 3},
			{alpha: "cert", depth: 16, nodes: []int{0, 7}, all: 3},
			{alpha: "wide", depth: 3, nodes: []int{0}},
			{alpha: "full", depth: 2, nodes: []int{0}, all: 2},
		}
	}
	return []svPlan{
		{alpha: "switch", depth: 16, nodes: []int{0, 1, 2, 7}, all: 4},
		{alpha: "cert", depth: 16, nodes: []int{0, 1, 2, 7}, all: 4},
		{alpha: "steps", depth: 16, nodes: []int{0, 2, 7}},
		{alpha: "mid", depth: 20, nodes: []int{0, 7}},
		{alpha: "wide", depth: 4, nodes: []int{0}},
		{alpha: "full", depth: 3, nodes: []int{0}, all: 3},
	}
}

func svName(alpha string, node int) string { return fmt.Sprintf("stepview-%s/node%d", alpha, node) }

func svFactory(alpha *svAlpha, node int, exp map[svKey]*svExp, reg func(*svCounters)) func() mc.System {
	return func() mc.System {
		c := &svCounters{}
		if reg != nil {
			reg(c)
		}
		return &svSys{node: node, alpha: alpha, exp: exp, cnt: c}
	}
}

func runStepView(r *mc.Run) {
	svOnce.Do(svBuild)
	if svErr != "" {
		r.HarnessError("stepview fixture: " + svErr)
		return
	}
	var mu sync.Mutex
	var all []*svCounters
	reg := func(c *svCounters) { mu.Lock(); all = append(all, c); mu.Unlock() }
	tables := map[int]map[svKey]*svExp{}
	seatHist := map[string]map[string]int{}
	var report []map[string]interface{}
	for _, p := range svPlans(r.Quick()) {
		alpha := svAlphabet(p.alpha)
		for _, node := range p.nodes {
			exp := tables[node]
			if exp == nil {
				var msg string
				if exp, msg = svTable(node); msg != "" {
					r.HarnessError("stepview reference, node " + fmt.Sprint(node) + ": " + msg)
					return
				}
				tables[node] = exp
				h := map[string]int{}
				for _, k := range svDomain {
					e := exp[k]
					cls := "votes"
					if svRoles[k.role].proposer {
						cls = "proposer"
					}
					switch {
					case !e.member:
						h[cls+":not registered"]++
					case e.j == 0:
						h[cls+":0 seats"]++
					default:
						h[cls+":with seats"]++
					}
				}
				seatHist[fmt.Sprintf("node%d", node)] = h
			}
			name := svName(p.alpha, node)
			cfg := fmt.Sprintf("node=%d alphabet=%s", node, p.alpha)
			f := svFactory(alpha, node, exp, reg)
			t0, w0 := atomic.LoadInt64(&r.Transitions), time.Now()
			n := r.BFS(f, mc.SeqOpts{Name: name, Config: cfg, Depth: p.depth})
			row := map[string]interface{}{"system": name, "alphabet": alpha.desc, "bfs_depth_bound": p.depth, "bfs_states": n,
				"bfs_transitions": atomic.LoadInt64(&r.Transitions) - t0}
			if p.all > 0 {
				x1 := atomic.LoadInt64(&r.Executions)
				r.DFSAll(f, mc.SeqOpts{Name: name, Config: cfg, Depth: p.all, NoDistinct: true})
				row["all_sequences_of_length"] = p.all
				row["all_sequences_executions"] = atomic.LoadInt64(&r.Executions) - x1
			}
			row["wall_s"] = float64(time.Since(w0).Round(100*time.Millisecond)) / 1e9
			report = append(report, row)
			r.ConfirmSeq(name, f)
			if r.Expired() {
				break
			}
		}
	}
	sum := svCounters{}
	for _, c := range all {
		sum.answers += c.answers
		sum.withSeats += c.withSeats
		sum.zeroSeats += c.zeroSeats
		sum.nonMember += c.nonMember
		sum.fromCache += c.fromCache
		sum.recomputed += c.recomputed
		sum.otherRoundThanCleared += c.otherRoundThanCleared
		sum.beforeAnyClear += c.beforeAnyClear
		sum.afterClearOfLaterRound += c.afterClearOfLaterRound
		sum.clears += c.clears
		sum.noopClears += c.noopClears
		sum.clearsDroppingViews += c.clearsDroppingViews
		sum.visibleChecked += c.visibleChecked
		sum.visibleVerified += c.visibleVerified
		sum.visibleUnchanged += c.visibleUnchanged
		sum.serverLevelAccept += c.serverLevelAccept
	}
	r.Count("stepview_answers_judged", sum.answers)
	r.Count("stepview_answers_with_seats_verified", sum.withSeats)
	r.Count("stepview_answers_zero_seats", sum.zeroSeats)
	r.Count("stepview_answers_node_not_registered_in_that_round", sum.nonMember)
	r.Count("stepview_answers_served_from_cache_same_object", sum.fromCache)
	r.Count("stepview_answers_recomputed_for_a_key_asked_before", sum.recomputed)
	r.Count("stepview_asked_for_a_round_other_than_the_last_cleared", sum.otherRoundThanCleared)
	r.Count("stepview_asked_for_an_older_round_after_the_switch", sum.afterClearOfLaterRound)
	r.Count("stepview_asked_before_any_clear", sum.beforeAnyClear)
	r.Count("stepview_clear_transitions", sum.clears)
	r.Count("stepview_clear_transitions_emptying_a_filled_cache", sum.clearsDroppingViews)
	r.Count("stepview_clear_transitions_same_round_twice", sum.noopClears)
	r.Count("stepview_cached_views_checked_under_their_key", sum.visibleChecked)
	r.Count("stepview_cached_views_proof_unchanged_since_handed_out", sum.visibleUnchanged)
	r.Count("stepview_cached_views_never_handed_out_verified", sum.visibleVerified)
	r.Count("stepview_credentials_accepted_by_message_level_verifier", sum.serverLevelAccept)
	sort.Slice(report, func(i, j int) bool { return fmt.Sprint(report[i]["system"]) < fmt.Sprint(report[j]["system"]) })
	r.SetExtra("stepview_explorations", report)
	r.SetExtra("stepview_expected_seat_histogram", seatHist)
}

func replayStepView(r *mc.Run, v *mc.Violation) {
	svOnce.Do(svBuild)
	if svErr != "" {
		fmt.Println("fixture:", svErr)
		return
	}
	var node int
	var an string
	if _, err := fmt.Sscanf(v.Config, "node=%d alphabet=%s", &node, &an); err != nil {
		fmt.Println("replay file has no stepview config:", v.Config)
		return
	}
	exp, msg := svTable(node)
	if msg != "" {
		fmt.Println("reference:", msg)
		return
	}
	obs, viols, err := mc.ReplaySeq(svFactory(svAlphabet(an), node, exp, nil)(), v.Ops)
	for i, o := range obs {
		fmt.Printf("  %-24s -> %s\n", v.Ops[i], o)
	}
	if err != nil {
		fmt.Println("replay:", err)
	}
	for _, x := range viols {
		x.System, x.Config, x.Ops = v.System, v.Config, v.Ops
		fmt.Printf("  %s\n    %s\n", x.Sig, x.Detail)
		r.Report(x)
	}
}
