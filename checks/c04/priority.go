package c04

import (
	"crypto/ecdsa"
	"crypto/elliptic"
	"crypto/sha256"
	"encoding/binary"
	"fmt"
	"hash"
	"io"
	"math/big"
	"sort"
	"sync"
	"sync/atomic"
	"time"

	"golang.org/x/crypto/sha3"

	"github.com/youchainhq/go-youchain/common"
	"github.com/youchainhq/go-youchain/consensus/ucon"
	"github.com/youchainhq/go-youchain/crypto"
	secp256k1VRF "github.com/youchainhq/go-youchain/crypto/vrf/secp256k1"

	"verif/mc"
)

// ---- priority part: "a proposer priority verifies only if it is the largest
// hash over the winner's seats", for every seat-index boundary ----------------
//
// The priority of a credential with VRF output v and j seats is the largest of
// the j+1 hashes Keccak-256(v || be(i)), i = 0..j, where be(i) is the minimal
// big-endian encoding of the seat index (no bytes for 0, one byte up to 255,
// two bytes up to 65535, ...).  Whether a deviation on ONE seat index shows in
// the priority depends on where the largest hash falls, so this part does not
// take whatever credential comes: for every seat index t of a stated alphabet
// it first searches, in a fixed enumeration order, the first VRF output whose
// largest seat hash is exactly at t (a WITNESS for t), and then judges
//   - function level:   VrfComputePriority(v, j) for j = t-1, t, t+1,
//   - credential level: an honest credential from VrfSortition (round index
//     ground until the VRF output is a witness), the priority the honest
//     prover emits, VrfVerifyPriority on the largest hash (must accept) and on
//     the hash of every other offered seat index (must reject),
//   - message level:    the same through Server.verifyPriority on a validator
//     set whose stakes straddle the 256-seat boundaries,
// against the reference below, which is written from the definition and shares
// no code with the implementation (own encoder, own hasher instance).

// seatHasher computes Keccak-256(value || be(i)).
type seatHasher struct {
	h   hash.Hash
	rd  io.Reader // the sponge's squeeze side (no copy of the state, unlike Sum)
	buf [40]byte
}

func newSeatHasher(value common.Hash) *seatHasher {
	s := &seatHasher{h: sha3.NewLegacyKeccak256()}
	s.rd = s.h.(io.Reader)
	copy(s.buf[:32], value[:])
	return s
}

// the witness searches hash hundreds of millions of times: pooled hashers
var hasherPool = sync.Pool{New: func() interface{} { return newSeatHasher(common.Hash{}) }}

func getSeatHasher(value common.Hash) *seatHasher {
	s := hasherPool.Get().(*seatHasher)
	copy(s.buf[:32], value[:])
	return s
}

func (s *seatHasher) at(i uint64) (out common.Hash) {
	n := 32
	started := false
	for sh := 56; sh >= 0; sh -= 8 {
		b := byte(i >> uint(sh))
		if b != 0 || started {
			s.buf[n] = b
			n++
			started = true
		}
	}
	s.h.Reset()
	s.h.Write(s.buf[:n])
	s.rd.Read(out[:])
	return
}

func hashGreater(a, b *common.Hash) bool {
	for i := 0; i < 32; i++ {
		if a[i] != b[i] {
			return a[i] > b[i]
		}
	}
	return false
}

// seatScan is the result of hashing every seat index 0..upto.
type seatScan struct {
	upto   uint64
	arg    uint64      // seat index of the largest hash
	max    common.Hash // the largest hash = the priority
	arg2   uint64      // seat index of the second largest hash (valid if upto >= 1)
	second common.Hash
}

func scanSeats(value common.Hash, upto uint64) seatScan {
	sh := newSeatHasher(value)
	sc := seatScan{upto: upto}
	sc.max = sh.at(0)
	have2 := false
	for i := uint64(1); i <= upto; i++ {
		h := sh.at(i)
		switch {
		case hashGreater(&h, &sc.max):
			sc.second, sc.arg2, have2 = sc.max, sc.arg, true
			sc.max, sc.arg = h, i
		case !have2 || hashGreater(&h, &sc.second):
			sc.second, sc.arg2, have2 = h, i, true
		}
	}
	return sc
}

// argmaxIs tells whether the hash of seat index t is strictly the largest of
// the hashes of 0..upto (t <= upto).  It stops at the first larger hash, and
// does not look at the others at all when the hash of t is below the top
// 32/(upto+1) fraction of the hash space: the largest of upto+1 hashes lies
// below that with probability e^-32, so this is the same predicate for every
// output one can meet, at a tenth of the hashing.
func argmaxIs(value common.Hash, t, upto uint64) bool {
	sh := getSeatHasher(value)
	defer hasherPool.Put(sh)
	ht := sh.at(t)
	if upto >= 32 {
		d := (^uint64(0) / (upto + 1)) * 32
		if binary.BigEndian.Uint64(ht[:8]) < ^uint64(0)-d {
			return false
		}
	}
	for i := uint64(0); i <= upto; i++ {
		if i == t {
			continue
		}
		h := sh.at(i)
		if !hashGreater(&ht, &h) {
			return false
		}
	}
	return true
}

// seatClass names the class of a seat index for signatures: the classes are
// the regions in which an index encoding can go wrong independently.
func seatClass(t uint64) string {
	switch {
	case t > 0 && t%256 == 0:
		return "a multiple of 256"
	case t >= 1<<24:
		return "above 2^24"
	case t >= 65536:
		return "above 65536"
	case t >= 256:
		return "between 257 and 65535"
	default:
		return "below 256"
	}
}

// forEach1 runs fn(i) for i in [0,n) over the workers, one item at a time
// (mc.ForEach hands out chunks of 16, too coarse for few heavy items).
func forEach1(r *mc.Run, n int, fn func(i int)) {
	var next int64
	var wg sync.WaitGroup
	for w := 0; w < r.Workers; w++ {
		wg.Add(1)
		go func() {
			defer wg.Done()
			for {
				i := int(atomic.AddInt64(&next, 1) - 1)
				if i >= n || r.Expired() {
					return
				}
				atomic.AddInt64(&r.Evaluations, 1)
				fn(i)
			}
		}()
	}
	wg.Wait()
}

// firstHit returns the smallest n in [from, limit) with pred(n), searching
// blocks of indexes over the workers.  The result does not depend on the
// scheduling: every index below the returned one has been tried.
func firstHit(workers int, from, limit uint64, stop func() bool, pred func(n uint64) bool) (uint64, bool, uint64) {
	const block = 64
	next := from
	best := limit
	var tries uint64
	var wg sync.WaitGroup
	for w := 0; w < workers; w++ {
		wg.Add(1)
		go func() {
			defer wg.Done()
			for {
				lo := atomic.AddUint64(&next, block) - block
				if lo >= atomic.LoadUint64(&best) {
					return
				}
				if stop != nil && stop() {
					// out of time: nothing found is reported (a hit above an untried block is not "the first")
					atomic.StoreUint64(&best, limit)
					atomic.StoreUint64(&next, limit)
					return
				}
				for n := lo; n < lo+block && n < atomic.LoadUint64(&best); n++ {
					atomic.AddUint64(&tries, 1)
					if pred(n) {
						for {
							b := atomic.LoadUint64(&best)
							if n >= b || atomic.CompareAndSwapUint64(&best, b, n) {
								break
							}
						}
						break
					}
				}
			}
		}()
	}
	wg.Wait()
	return best, best < limit, tries
}

// searchLimit: a witness for one of upto+1 seat indexes comes once in upto+1
// outputs; none within 16 times that many happens with probability e^-16.
func searchLimit(upto uint64) uint64 { return 16*(upto+1) + 1024 }

// searchStop ends the witness searches of a run: the run's budget, and in the
// quick tier a limit on the searches alone (a tree whose VRF outputs never
// give a witness must not use up the budget of the other parts).
var searchDeadline time.Time

func searchStop(r *mc.Run) func() bool {
	return func() bool {
		if r.Expired() {
			return true
		}
		if !searchDeadline.IsZero() && time.Now().After(searchDeadline) {
			r.Cap("priority: witness search time limit reached")
			return true
		}
		return false
	}
}

// PInput is the replayable input of a priority violation.
type PInput struct {
	Part   string `json:"part"`
	Level  string `json:"level"` // function | credential | server
	Spec   int    `json:"spec"`  // index into prioSpecs / bigStakes (unused at function level)
	Key    int    `json:"key"`
	Target uint64 `json:"target"`
	Offer  string `json:"offer,omitempty"`
}

// ---- function level -----------------------------------------------------------

func fnTargets(quick bool) []uint64 {
	set := map[uint64]bool{}
	for t := uint64(0); t <= 1024; t++ {
		set[t] = true
	}
	for k := uint64(5); k <= 16; k++ {
		set[256*k] = true
	}
	for _, t := range []uint64{8192, 16384, 32768, 65280, 65535, 65536, 65537, 131072} {
		set[t] = true
	}
	if !quick {
		for _, t := range []uint64{8191, 8193, 65279, 65281, 65792, 131071, 131073} {
			set[t] = true
		}
		for k := uint64(1); k <= 512; k++ {
			set[256*k] = true
		}
		for _, t := range []uint64{1<<24 - 1, 1 << 24} {
			set[t] = true
		}
	}
	var ts []uint64
	for t := range set {
		ts = append(ts, t)
	}
	sort.Slice(ts, func(a, b int) bool { return ts[a] < ts[b] })
	return ts
}

// fnWitnessValue is the n-th candidate VRF output for target t.
func fnWitnessValue(t, n uint64) (out common.Hash) {
	const tag = "c04-priority-witness|"
	var b [len(tag) + 16]byte
	copy(b[:], tag)
	binary.BigEndian.PutUint64(b[len(tag):], t)
	binary.BigEndian.PutUint64(b[len(tag)+8:], n)
	sh := hasherPool.Get().(*seatHasher)
	sh.h.Reset()
	sh.h.Write(b[:])
	sh.rd.Read(out[:])
	hasherPool.Put(sh)
	return
}

// fnCase: one call VrfComputePriority(value, j) with the reference answer.
type fnCase struct {
	t, n  uint64
	value common.Hash
	j     uint64
	max   common.Hash
	arg   uint64
}

// fnWitnessCases finds the witness output for seat index t and returns the
// calls to judge: j = t-1, t, t+1 with the reference running maximum.
func fnWitnessCases(r *mc.Run, t uint64, workers int) []fnCase {
	n, ok, tries := firstHit(workers, 0, searchLimit(t), searchStop(r), func(n uint64) bool { return argmaxIs(fnWitnessValue(t, n), t, t) })
	r.Count("priority_witness_search_tries", int64(tries))
	if !ok {
		r.Cap(fmt.Sprintf("priority: no witness output for seat index %d", t))
		return nil
	}
	value := fnWitnessValue(t, n)
	r.Count("priority_function_witness_outputs", 1)
	r.Distinct(fmt.Sprintf("pf|%d", t))
	sh := newSeatHasher(value)
	var cs []fnCase
	// the neighbouring seat counts t-1 and t+1 are judged as well at and next to the encoding boundaries
	// (low byte 0x00, 0x01, 0xff) and above 1024
	if low := t % 256; t <= 1024 && low != 0 && low != 1 && low != 255 {
		return []fnCase{{t, n, value, t, sh.at(t), t}}
	}
	if t >= 1 {
		sc := scanSeats(value, t-1)
		cs = append(cs, fnCase{t, n, value, t - 1, sc.max, sc.arg})
	}
	ht := sh.at(t)
	cs = append(cs, fnCase{t, n, value, t, ht, t})
	hn := sh.at(t + 1)
	if hashGreater(&hn, &ht) {
		cs = append(cs, fnCase{t, n, value, t + 1, hn, t + 1})
	} else {
		cs = append(cs, fnCase{t, n, value, t + 1, ht, t})
	}
	return cs
}

func checkFnCase(r *mc.Run, w fnCase) {
	var got common.Hash
	pmsg := mc.Catch(func() { got = ucon.VrfComputePriority(w.value, uint32(w.j)) })
	r.Count("priority_function_cases", 1)
	in := PInput{Part: "priority", Level: "function", Target: w.t, Offer: fmt.Sprintf("j=%d", w.j)}
	desc := fmt.Sprintf("VRF output %x (candidate %d for seat index %d), seat count j=%d: largest hash %x at seat index %d", w.value, w.n, w.t, w.j, w.max, w.arg)
	switch {
	case pmsg != "":
		report(r, mc.Violation{Sig: "VrfComputePriority panics: " + pmsg, Detail: desc, Input: in})
	case got != w.max:
		report(r, mc.Violation{
			Sig:    fmt.Sprintf("VrfComputePriority does not return the largest hash over the seat indexes 0..j when the largest hash is at a seat index that is %s", seatClass(w.arg)),
			Detail: fmt.Sprintf("%s; VrfComputePriority returned %x", desc, got), Input: in})
	default:
		r.Count("priority_function_agrees_largest_at_"+classKey(w.arg), 1)
	}
}

func classKey(t uint64) string {
	switch seatClass(t) {
	case "a multiple of 256":
		return "multiple_of_256"
	case "above 2^24":
		return "above_2^24"
	case "above 65536":
		return "above_65536"
	case "between 257 and 65535":
		return "257_to_65535"
	}
	return "below_256"
}

func runPriorityFunction(r *mc.Run) {
	ts := fnTargets(r.Quick())
	var small, big []uint64
	for _, t := range ts {
		if t <= 4096 {
			small = append(small, t)
		} else {
			big = append(big, t)
		}
	}
	forEach1(r, len(small), func(i int) {
		for _, c := range fnWitnessCases(r, small[i], 1) {
			checkFnCase(r, c)
		}
	})
	var cases []fnCase
	for i := len(big) - 1; i >= 0 && !r.Expired(); i-- {
		cases = append(cases, fnWitnessCases(r, big[i], r.Workers)...)
	}
	forEach1(r, len(cases), func(i int) { checkFnCase(r, cases[i]) })
	r.SetExtra("priority_function_targets", map[string]interface{}{"count": len(ts), "every_index_up_to": 1024, "largest": ts[len(ts)-1]})
}

// ---- credential level ---------------------------------------------------------

var (
	vcurve   = crypto.S256()
	prioSeed = common.BytesToHash(keccak([]byte("c04-priority-seed")))
)

const prioStep = uint32(ucon.Propose)

// refVRF is the VRF output from its definition: SHA-256 of the uncompressed
// encoding of [k]H1(m).
func refVRF(k *ecdsa.PrivateKey, m []byte) common.Hash {
	hx, hy := secp256k1VRF.H1(m)
	vx, vy := vcurve.ScalarMult(hx, hy, k.D.Bytes())
	return sha256.Sum256(elliptic.Marshal(vcurve, vx, vy))
}

// ptarget: the seat index that must carry the largest hash, and the key whose
// round index is ground for it.  The key is irrelevant to the property; for the
// stakes above 65000, where a witness costs about stake VRF evaluations, the
// quick tier uses the keys whose first witness comes early.
type ptarget struct {
	T        uint64
	Key      int
	Thorough bool
}

type prioSpec struct {
	Name    string
	Th      uint64
	Stake   int64
	Total   int64
	Targets []ptarget
}

// committee = total stake (p = 1): every unit of stake is a seat, j = stake.
var prioSpecs = []prioSpec{
	{"70000/255/70000", 70000, 255, 70000, []ptarget{{255, 0, false}}},
	{"70000/256/70000", 70000, 256, 70000, []ptarget{{255, 1, false}, {256, 2, false}}},
	{"70000/257/70000", 70000, 257, 70000, []ptarget{{256, 2, false}, {257, 3, false}, {255, 4, true}}},
	{"70000/511/70000", 70000, 511, 70000, []ptarget{{256, 3, false}, {511, 4, false}}},
	{"70000/512/70000", 70000, 512, 70000, []ptarget{{256, 4, false}, {512, 5, false}, {511, 6, true}}},
	{"70000/513/70000", 70000, 513, 70000, []ptarget{{512, 5, false}, {513, 6, false}, {256, 7, true}}},
	{"70000/600/70000", 70000, 600, 70000, []ptarget{{256, 6, false}, {512, 7, false}, {600, 0, true}}},
	{"70000/1024/70000", 70000, 1024, 70000, []ptarget{{256, 7, false}, {512, 0, false}, {768, 1, false}, {1024, 2, false}, {1023, 3, true}}},
	{"70000/65535/70000", 70000, 65535, 70000, []ptarget{{65280, 0, false}, {65535, 1, true}, {256, 5, true}}},
	{"70000/65536/70000", 70000, 65536, 70000, []ptarget{{65536, 1, false}, {65535, 6, true}, {32768, 7, true}}},
	{"70000/65537/70000", 70000, 65537, 70000, []ptarget{{65536, 1, false}, {256, 2, false}, {65536, 3, true}, {65537, 4, true}}},
	// declared committee above the total stake (p clamped to 1)
	{"80000/600/70000", 80000, 600, 70000, []ptarget{{256, 3, false}, {512, 4, true}}},
	// p < 1: about 500 of 1000 and about 598 of 600 seats
	{"2000/1000/4000", 2000, 1000, 4000, []ptarget{{256, 4, false}}},
	{"3990/600/4000", 3990, 600, 4000, []ptarget{{512, 5, false}, {256, 6, true}}},
	// thorough only
	{"140000/131072/140000", 140000, 131072, 140000, []ptarget{{65536, 0, true}, {131072, 1, true}}},
}

type witness struct {
	level string // credential | server
	spec  int
	ki    int
	t     uint64
	index uint32
	c     *cred
	sc    seatScan // over 0..j
	tries uint64
	srv   *ucon.Server
}

// findWitness grinds the round index until the honest VRF output of key ki has
// its largest seat hash (over all of 0..stake) at seat index t and the honest
// credential has at least t seats.
func findWitness(r *mc.Run, level string, spec, ki int, t uint64, seed common.Hash, th uint64, stake, total int64) *witness {
	from := uint64(0)
	for {
		limit := from + searchLimit(uint64(stake))
		if limit > 1<<32 {
			limit = 1 << 32
		}
		n, ok, tries := firstHit(r.Workers, from, limit, searchStop(r), func(n uint64) bool {
			v := refVRF(keys[ki].ec, ucon.MakeM(seed, prioStep, uint32(n)))
			if !argmaxIs(v, t, uint64(stake)) {
				return false
			}
			if th < uint64(total) {
				jlo, _, has := seatInterval(v, stake, th, total)
				return has && uint64(jlo) >= t
			}
			return true
		})
		r.Count("priority_witness_search_tries", int64(tries))
		if !ok {
			r.Cap(fmt.Sprintf("priority: no witness credential for %s spec %d seat index %d", level, spec, t))
			return nil
		}
		w := &witness{level: level, spec: spec, ki: ki, t: t, index: uint32(n), tries: tries}
		msg := mc.Catch(func() {
			value, proof, j := ucon.VrfSortition(keys[ki].sk, seed, uint32(n), prioStep, th, big.NewInt(stake), big.NewInt(total))
			w.c = &cred{ki: ki, value: value, j: j}
			w.c.honest = args{key: ki, seed: seed, index: uint32(n), step: prioStep, proof: proof, seats: j, th: th, stake: stake, total: total}
		})
		in := PInput{Part: "priority", Level: level, Spec: spec, Key: ki, Target: t}
		if msg != "" {
			report(r, mc.Violation{Sig: "VrfSortition panics: " + msg, Detail: fmt.Sprintf("%s spec %d key %d round index %d", level, spec, ki, n), Input: in})
			return nil
		}
		if want := refVRF(keys[ki].ec, ucon.MakeM(seed, prioStep, uint32(n))); w.c.value != want {
			report(r, mc.Violation{
				Sig:    "VrfSortition's VRF value is not SHA-256 of the encoded point [k]H1(seed || step || round index)",
				Detail: fmt.Sprintf("%s spec %d key %d round index %d: got %x want %x", level, spec, ki, n, w.c.value, want), Input: in})
			return nil
		}
		if uint64(w.c.j) < t {
			// the float64 quantile landed below the exact one at a cell boundary: take the next witness
			from = n + 1
			continue
		}
		w.sc = scanSeats(w.c.value, uint64(w.c.j))
		if w.sc.arg != t {
			r.HarnessError(fmt.Sprintf("priority witness: largest hash at %d, wanted %d", w.sc.arg, t))
			return nil
		}
		return w
	}
}

// offerSeats is the set of seat indexes whose hash is offered as the priority
// of a witness credential (the largest one, t, is offered separately).
func offerSeats(j, t, arg2 uint64, all bool) []uint64 {
	set := map[uint64]bool{}
	add := func(i uint64) {
		if i <= j+2 {
			set[i] = true
		}
	}
	if all {
		for i := uint64(0); i <= j+2; i++ {
			add(i)
		}
	} else if j > 4096 {
		// one case costs j hashes in the verifier: the two encoding boundaries, the aliases of t and of the
		// runner-up under a dropped low byte, the runner-up, the last seats and the first index beyond them
		for _, i := range []uint64{0, 1, 255, 256, 65535, 65536, j - 1, j, j + 1, t >> 8, t >> 16, arg2} {
			add(i)
		}
	} else {
		for _, i := range []uint64{0, 1, 2, 3, 254, 255, 256, 257, 258, 511, 512, 513, 65279, 65280, 65281, 65535, 65536, 65537, 65538,
			j - 2, j - 1, j, j + 1, j + 2, t - 1, t + 1, t >> 8, t >> 16, arg2, arg2 >> 8} {
			add(i)
		}
		for k := uint64(1); k <= 16; k++ {
			add(256 * k)
		}
		for k := uint64(1); 65536*k <= j+2; k++ {
			add(65536 * k)
		}
	}
	delete(set, t)
	var out []uint64
	for i := range set {
		out = append(out, i)
	}
	sort.Slice(out, func(a, b int) bool { return out[a] < out[b] })
	return out
}

func (w *witness) label() string {
	if w.level == "server" {
		return fmt.Sprintf("Server.verifyPriority, validator %d (stake %d of %d, proposer threshold %d)", w.ki, bigStakes[w.ki], bigTotal, bigTotal)
	}
	return "committee/stake/total " + prioSpecs[w.spec].Name
}

func (w *witness) desc() string {
	return fmt.Sprintf("%s, key %d, round index %d (first whose VRF output %x has its largest seat hash at seat index %d), seats %d", w.label(), w.ki, w.index, w.c.value, w.t, w.c.j)
}

func (w *witness) verifier() string {
	if w.level == "server" {
		return "Server.verifyPriority"
	}
	return "VrfVerifyPriority"
}

// verify offers one priority with the honest proof and seat count.
func (w *witness) verify(prio common.Hash) (accepted bool, err error, pmsg string) {
	a := cloneArgs(w.c.honest)
	a.prio = prio
	if w.level == "server" {
		err, pmsg = callServerOn(w.srv, "verifyPriority", a)
		return err == nil && pmsg == "", err, pmsg
	}
	var ok bool
	ok, err, pmsg = callPriority(a)
	return ok && err == nil && pmsg == "", err, pmsg
}

// checkWitnessHonest: what the honest prover emits, and the verdict on the
// largest hash.
func checkWitnessHonest(r *mc.Run, w *witness) {
	in := PInput{Part: "priority", Level: w.level, Spec: w.spec, Key: w.ki, Target: w.t, Offer: "largest"}
	cls := seatClass(w.t)
	r.Count("priority_"+w.level+"_witness_credentials", 1)
	r.Distinct(fmt.Sprintf("pw|%s|%d|%d|%d", w.level, w.spec, w.ki, w.t))
	if w.level == "credential" {
		var got common.Hash
		pmsg := mc.Catch(func() { got = ucon.VrfComputePriority(w.c.value, w.c.j) })
		if pmsg != "" {
			report(r, mc.Violation{Sig: "VrfComputePriority panics: " + pmsg, Detail: w.desc(), Input: in})
		} else if got != w.sc.max {
			report(r, mc.Violation{
				Sig:    fmt.Sprintf("the honest prover (VrfSortition, VrfComputePriority) emits a priority that is not the largest hash over its seats when the largest hash is at a seat index that is %s", cls),
				Detail: fmt.Sprintf("%s: emitted %x, largest hash over seat indexes 0..%d is %x", w.desc(), got, w.c.j, w.sc.max), Input: in})
		} else {
			r.Count("priority_honest_prover_emits_largest", 1)
		}
	}
	ok, err, pmsg := w.verify(w.sc.max)
	r.Count("priority_"+w.level+"_cases", 1)
	switch {
	case pmsg != "":
		report(r, mc.Violation{Sig: w.verifier() + " panics on an honest credential with many seats: " + pmsg, Detail: w.desc(), Input: in})
	case !ok:
		report(r, mc.Violation{
			Sig:    fmt.Sprintf("%s rejects the largest hash over the winner's seats when it is at a seat index that is %s", w.verifier(), cls),
			Detail: fmt.Sprintf("%s: priority %x (seat index %d) rejected: %v", w.desc(), w.sc.max, w.t, err), Input: in})
	default:
		r.Count("priority_"+w.level+"_largest_accepted", 1)
	}
}

// checkWitnessOffer: the hash of another seat index must not verify.
func checkWitnessOffer(r *mc.Run, w *witness, i uint64) {
	h := newSeatHasher(w.c.value).at(i)
	in := PInput{Part: "priority", Level: w.level, Spec: w.spec, Key: w.ki, Target: w.t, Offer: fmt.Sprintf("seat:%d", i)}
	ok, _, pmsg := w.verify(h)
	r.Count("priority_"+w.level+"_cases", 1)
	switch {
	case pmsg != "":
		report(r, mc.Violation{Sig: w.verifier() + " panics on an honest credential with many seats: " + pmsg, Detail: w.desc(), Input: in})
	case ok && h != w.sc.max:
		what := fmt.Sprintf("the hash of seat index %d", i)
		if i > uint64(w.c.j) {
			what += " (beyond the last seat)"
		} else if i == w.sc.arg2 {
			what += " (the second largest)"
		}
		report(r, mc.Violation{
			Sig:    fmt.Sprintf("%s accepts a priority that is not the largest hash over the winner's seats when the largest hash is at a seat index that is %s", w.verifier(), seatClass(w.t)),
			Detail: fmt.Sprintf("%s: offered %s = %x, accepted; the largest is %x", w.desc(), what, h, w.sc.max), Input: in})
	default:
		r.Count("priority_"+w.level+"_other_seat_hash_rejected", 1)
		if i%256 == 0 && i > 0 {
			r.Count("priority_"+w.level+"_other_seat_hash_rejected_index_multiple_of_256", 1)
		}
		if i > uint64(w.c.j) {
			r.Count("priority_"+w.level+"_hash_beyond_last_seat_rejected", 1)
		}
	}
}

// ---- message level: a validator set whose stakes straddle the boundaries ------

var bigStakes = []int64{255, 256, 257, 512, 513, 600, 768, 1024}

const bigTotal = 255 + 256 + 257 + 512 + 513 + 600 + 768 + 1024

var (
	bigOnce sync.Once
	bigSrv  *ucon.Server
	bigErr  string
)

func buildBigServer() {
	loadKeys()
	// proposer committee = total stake: every unit of stake is a proposer seat
	bigSrv, bigErr = newServerFixture(bigStakes, bigTotal, bigTotal)
}

func serverTargets(stake int64, quick bool) []uint64 {
	var ts []uint64
	for k := uint64(1); 256*k <= uint64(stake); k++ {
		ts = append(ts, 256*k)
	}
	ts = append(ts, 255)
	if !quick && stake > 256 && stake%256 != 0 {
		ts = append(ts, uint64(stake))
	}
	return ts
}

// ---- driver -------------------------------------------------------------------

type wspec struct {
	level string
	spec  int
	ki    int
	t     uint64
}

func priorityWitnessSpecs(quick bool) []wspec {
	var ws []wspec
	for si, s := range prioSpecs {
		for _, t := range s.Targets {
			if t.Thorough && quick {
				continue
			}
			nk := 1
			if !quick && s.Stake <= 1024 {
				nk = 3
			}
			for d := 0; d < nk; d++ {
				ws = append(ws, wspec{"credential", si, (t.Key + 3*d) % nKeys, t.T})
			}
		}
	}
	for vi, st := range bigStakes {
		for _, t := range serverTargets(st, quick) {
			ws = append(ws, wspec{"server", vi, vi, t})
		}
	}
	return ws
}

func buildWitness(r *mc.Run, s wspec) *witness {
	if s.level == "server" {
		w := findWitness(r, "server", s.spec, s.ki, s.t, srvSeed, bigTotal, bigStakes[s.ki], bigTotal)
		if w != nil {
			w.srv = bigSrv
		}
		return w
	}
	ps := prioSpecs[s.spec]
	return findWitness(r, "credential", s.spec, s.ki, s.t, prioSeed, ps.Th, ps.Stake, ps.Total)
}

func allOffers(w *witness, quick bool) bool {
	if w.level == "server" {
		return w.c.j <= 300 || (!quick && w.c.j <= 600)
	}
	return w.c.j <= 600 || (!quick && w.c.j <= 1100)
}

func runPriority(r *mc.Run) {
	loadKeys()
	t0 := time.Now()
	walls := map[string]float64{}
	lap := func(name string) {
		walls[name] = float64(time.Since(t0).Round(100*time.Millisecond)) / 1e9
		t0 = time.Now()
	}
	if r.Quick() {
		searchDeadline = time.Now().Add(75 * time.Second)
	}
	runPriorityFunction(r)
	lap("function_level")
	bigOnce.Do(buildBigServer)
	if bigErr != "" {
		r.HarnessError("message-level fixture (large stakes): " + bigErr)
	}
	var ws []*witness
	var table []map[string]interface{}
	specs := priorityWitnessSpecs(r.Quick())
	// the searches grind the round index: pointless if the VRF output does not vary with it (the binding
	// part reports that)
	if refVRF(keys[0].ec, ucon.MakeM(prioSeed, prioStep, 0)) == refVRF(keys[0].ec, ucon.MakeM(prioSeed, prioStep, 1)) {
		r.Cap("priority: the VRF message does not vary with the round index, no witness credentials")
		specs = nil
	}
	for _, s := range specs {
		if searchStop(r)() {
			break
		}
		if s.level == "server" && bigErr != "" {
			continue
		}
		w := buildWitness(r, s)
		if w == nil {
			continue
		}
		ws = append(ws, w)
		table = append(table, map[string]interface{}{"level": w.level, "fixture": w.label(), "key": w.ki, "largest_hash_at_seat_index": w.t, "round_index": w.index, "seats": w.c.j})
	}
	r.SetExtra("priority_witness_credentials", table)
	lap("witness_search")
	type otask struct {
		w *witness
		i uint64
		h bool
	}
	var tasks []otask
	for _, w := range ws {
		tasks = append(tasks, otask{w, 0, true})
		for _, i := range offerSeats(uint64(w.c.j), w.t, w.sc.arg2, allOffers(w, r.Quick())) {
			tasks = append(tasks, otask{w, i, false})
		}
	}
	// heavy first: the cost of a case is proportional to the seat count
	sort.SliceStable(tasks, func(a, b int) bool { return tasks[a].w.c.j > tasks[b].w.c.j })
	r.SetExtra("priority_verifier_cases", len(tasks))
	forEach1(r, len(tasks), func(k int) {
		t := tasks[k]
		if t.h {
			checkWitnessHonest(r, t.w)
		} else {
			checkWitnessOffer(r, t.w, t.i)
		}
		if k%5003 == 0 {
			r.Sample(map[string]interface{}{"part": "priority", "fixture": t.w.label(), "key": t.w.ki, "round_index": t.w.index, "seats": t.w.c.j, "largest_hash_at_seat_index": t.w.t, "offered_seat_index": t.i, "honest": t.h})
		}
	})
	lap("verifier_cases")
	r.SetExtra("priority_wall_seconds", walls)
}

func replayPriority(r *mc.Run, in map[string]interface{}) {
	loadKeys()
	level := fmt.Sprint(in["level"])
	t := uint64(in["target"].(float64))
	if level == "function" {
		for _, c := range fnWitnessCases(r, t, r.Workers) {
			fmt.Printf("VrfComputePriority(%x, %d): reference %x (seat index %d)\n", c.value, c.j, c.max, c.arg)
			checkFnCase(r, c)
		}
		return
	}
	s := wspec{level, int(in["spec"].(float64)), int(in["key"].(float64)), t}
	if level == "server" {
		bigOnce.Do(buildBigServer)
		if bigErr != "" {
			fmt.Println("fixture:", bigErr)
			return
		}
	}
	w := buildWitness(r, s)
	if w == nil {
		fmt.Println("no witness credential")
		return
	}
	fmt.Println("witness credential:", w.desc())
	checkWitnessHonest(r, w)
	for _, i := range offerSeats(uint64(w.c.j), w.t, w.sc.arg2, allOffers(w, false)) {
		checkWitnessOffer(r, w, i)
	}
}
