package c04

import (
	"bytes"
	"crypto/ecdsa"
	"crypto/elliptic"
	"crypto/sha256"
	"fmt"
	"math/big"
	"sort"
	"sync"

	"github.com/youchainhq/go-youchain/common"
	"github.com/youchainhq/go-youchain/consensus/ucon"
	"github.com/youchainhq/go-youchain/crypto/vrf"
	secp256k1VRF "github.com/youchainhq/go-youchain/crypto/vrf/secp256k1"

	"verif/mc"
)

// ---- forgery part: the VRF proof binds every input of its challenge ----------
//
// A credential is a Chaum-Pedersen proof that log_G(pk) = log_H(V), made
// non-interactive with the challenge s = H2(G, H, pk, V, a, b) (H = H1(m) the
// message hashed to the curve, V the VRF point, a = [r]G and b = [r]H the
// commitments); the verifier recomputes a' = [t]G + [s]pk, b' = [t]H + [s]V
// and accepts iff s = H2(G, H, pk, V, a', b').  The VRF is a FUNCTION of
// (key, message) - one seat count, one priority - only while every one of
// these inputs is bound by the challenge.  Single-field perturbations of an
// honest proof cannot tell: they are rejected whether or not an input is
// bound.  What tells is the algebraic forgery that works if exactly one input
// were missing: the forger - a validator using its OWN registered key - fixes
// everything the (weakened) challenge covers, derives the challenge, and then
// SOLVES the verification equations for the input the challenge does not
// cover.  For every input that can be solved for, this part builds that
// forgery, for a stated set of free choices, and offers it to ProofToHash,
// VrfVerifySortition / VrfVerifyPriority and the two Server verifiers.
//
//   unbound V : a = [r]G, b = any point B, s = H2(G,H,pk,a,B), t = r - s*k,
//               V = s^-1 (B - [t]H)                      -> any number of outputs
//   unbound a : V = [w]H (w != k), b = [r]H, s = H2(G,H,pk,V,b), t = r - s*w
//   unbound b : V = any point, a = [r]G, s = H2(G,H,pk,V,a), t = r - s*k
//   unbound pk: V = [w]H, a = [r]G, b = [r']H, s = H2(G,H,V,a,b), t = r' - s*w,
//               key solved last: x = (r - t)/s, pk = [x]G (the key is chosen
//               after the message instead of registered before it)
//   G and H are not carried by the proof (G is a constant, H is recomputed from
//   the message), so there is nothing to solve for; binding of the message is
//   probed by replaying an honest proof of every other message of the alphabet.
//   spec      : the honest proof computed here from the full transcript - it
//               must be ACCEPTED with the honest output (control: the builder's
//               algebra and encodings are the verifier's)
//   degenerate: honest proof with s or t replaced by 0, N, N+1, 2^256-1 (a
//               scalar the curve code cannot multiply by): reject, never panic
//
// Oracle (uniqueness): for one (public key, message) every proof the verifier
// accepts maps to the output of the key's honest Evaluate.

var (
	vN = vcurve.Params().N
	vP = vcurve.Params().P
)

type pt struct{ x, y *big.Int }

func pad32(k *big.Int) []byte { return common.LeftPadBytes(k.Bytes(), 32) }

func mulG(k *big.Int) pt {
	x, y := vcurve.ScalarBaseMult(pad32(k))
	return pt{x, y}
}

func (p pt) mul(k *big.Int) pt {
	x, y := vcurve.ScalarMult(p.x, p.y, pad32(k))
	return pt{x, y}
}

func (p pt) add(q pt) pt {
	x, y := vcurve.Add(p.x, p.y, q.x, q.y)
	return pt{x, y}
}

func (p pt) neg() pt { return pt{new(big.Int).Set(p.x), new(big.Int).Sub(vP, p.y)} }

func (p pt) enc() []byte { return elliptic.Marshal(vcurve, p.x, p.y) }

func (p pt) ok() bool { return p.x != nil && p.y != nil && vcurve.IsOnCurve(p.x, p.y) }

func modN(x *big.Int) *big.Int { return x.Mod(x, vN) }

// scalar derives a fixed non-zero scalar from a label.
func scalar(label string, parts ...interface{}) *big.Int {
	s := new(big.Int).SetBytes(keccak([]byte("c04-forgery|" + label + "|" + fmt.Sprint(parts...))))
	s.Mod(s, new(big.Int).Sub(vN, big.NewInt(1)))
	return s.Add(s, big.NewInt(1))
}

var ptG = pt{vcurve.Params().Gx, vcurve.Params().Gy}

// transcript slots, in the order of the specification.
const (
	slotG = iota
	slotH
	slotPK
	slotV
	slotA
	slotB
	nSlots
)

var slotName = []string{"the generator", "the hashed message point", "the public key", "the VRF point", "the first commitment [r]G", "the second commitment [r]H"}

// challengeOf hashes the transcript without the omitted slot (omit < 0: full).
func challengeOf(omit int, slots [nSlots]pt) *big.Int {
	var b bytes.Buffer
	for i := 0; i < nSlots; i++ {
		if i != omit {
			b.Write(slots[i].enc())
		}
	}
	return secp256k1VRF.H2(b.Bytes())
}

func proofBytes(s, t *big.Int, v pt) []byte {
	var b bytes.Buffer
	b.Write(pad32(s))
	b.Write(pad32(t))
	b.Write(v.enc())
	return b.Bytes()
}

// refAccepts is the verifier of the specification with one transcript slot
// left out (omit < 0: the full, sound verifier).
func refAccepts(omit int, pk, h pt, proof []byte) bool {
	if len(proof) != 129 {
		return false
	}
	s, t := new(big.Int).SetBytes(proof[:32]), new(big.Int).SetBytes(proof[32:64])
	if s.Sign() == 0 || t.Sign() == 0 || s.Cmp(vN) >= 0 || t.Cmp(vN) >= 0 {
		return false
	}
	vx, vy := elliptic.Unmarshal(vcurve, proof[64:])
	if vx == nil {
		return false
	}
	v := pt{vx, vy}
	a := mulG(t).add(pk.mul(s))
	b := h.mul(t).add(v.mul(s))
	return challengeOf(omit, [nSlots]pt{ptG, h, pk, v, a, b}).Cmp(s) == 0
}

// forged is one constructed proof.
type forged struct {
	Dim    string // V | a | b | pk | spec
	Point  int    // which free point
	Choice int    // which scalars
	omit   int
	pub    *ecdsa.PublicKey // the key the proof is offered under (the solved key for Dim pk)
	priv   *big.Int         // its secret scalar
	proof  []byte
	out    common.Hash // SHA-256 of the carried VRF point
	honest common.Hash // the honest output of (priv, message)
	note   string
}

const (
	nPointsV  = 6
	nPointsA  = 5
	nPointsB  = 6
	nPointsPK = 4
)

func dimPoints(dim string) int {
	switch dim {
	case "V":
		return nPointsV
	case "a":
		return nPointsA
	case "b":
		return nPointsB
	case "pk":
		return nPointsPK
	}
	return 1
}

var forgeDims = []string{"V", "a", "b", "pk", "spec"}

// forge builds the forgery (dim, point, choice) for key k and message m.
func forge(k *ecdsa.PrivateKey, m []byte, dim string, point, choice int) *forged {
	f := &forged{Dim: dim, Point: point, Choice: choice, pub: &k.PublicKey, priv: k.D}
	hx, hy := secp256k1VRF.H1(m)
	H := pt{hx, hy}
	P := pt{k.PublicKey.X, k.PublicKey.Y}
	Vh := H.mul(k.D)
	f.honest = sha256.Sum256(Vh.enc())
	tag := fmt.Sprintf("%x|%x|%s|%d|%d", k.D, m, dim, point, choice)
	r := scalar("r", tag)
	u := scalar("u", tag)
	var s, t *big.Int
	var V pt
	// w-choices: the discrete logarithm of the claimed VRF point to the base H
	wOf := func(i int) (*big.Int, string) {
		switch i {
		case 0:
			return u, "V = [u]H, u unrelated to the key"
		case 1:
			return modN(new(big.Int).Add(k.D, big.NewInt(1))), "V = [k+1]H"
		case 2:
			return modN(new(big.Int).Sub(vN, k.D)), "V = -[k]H (the honest point mirrored)"
		case 3:
			return modN(new(big.Int).Lsh(k.D, 1)), "V = [2k]H"
		default:
			return big.NewInt(1), "V = H"
		}
	}
	switch dim {
	case "V":
		f.omit = slotV
		a := mulG(r)
		var B pt
		switch point {
		case 0:
			B, f.note = mulG(u), "b = [u]G"
		case 1:
			B, f.note = H.mul(u), "b = [u]H"
		case 2:
			B, f.note = ptG, "b = G"
		case 3:
			B, f.note = P, "b = pk"
		case 4:
			B, f.note = H.mul(r).add(ptG), "b = [r]H + G"
		default:
			B, f.note = Vh.mul(u), "b = [u][k]H"
		}
		s = challengeOf(slotV, [nSlots]pt{ptG, H, P, {}, a, B})
		t = modN(new(big.Int).Sub(r, new(big.Int).Mul(s, k.D)))
		if t.Sign() == 0 {
			return nil
		}
		negT := modN(new(big.Int).Sub(vN, t))
		V = B.add(H.mul(negT)).mul(new(big.Int).ModInverse(s, vN))
	case "a":
		f.omit = slotA
		var w *big.Int
		w, f.note = wOf(point)
		V = H.mul(w)
		b := H.mul(r)
		s = challengeOf(slotA, [nSlots]pt{ptG, H, P, V, {}, b})
		t = modN(new(big.Int).Sub(r, new(big.Int).Mul(s, w)))
	case "b":
		f.omit = slotB
		switch point {
		case 0:
			V, f.note = H.mul(u), "V = [u]H"
		case 1:
			V, f.note = mulG(u), "V = [u]G"
		case 2:
			V, f.note = ptG, "V = G"
		case 3:
			V, f.note = P, "V = pk"
		case 4:
			V, f.note = Vh.neg(), "V = -[k]H (the honest point mirrored)"
		default:
			V, f.note = H, "V = H"
		}
		a := mulG(r)
		s = challengeOf(slotB, [nSlots]pt{ptG, H, P, V, a, {}})
		t = modN(new(big.Int).Sub(r, new(big.Int).Mul(s, k.D)))
	case "pk":
		f.omit = slotPK
		var w *big.Int
		w, f.note = wOf(point)
		f.note += ", key solved after the challenge"
		V = H.mul(w)
		a := mulG(r)
		r2 := scalar("r2", tag)
		b := H.mul(r2)
		s = challengeOf(slotPK, [nSlots]pt{ptG, H, {}, V, a, b})
		t = modN(new(big.Int).Sub(r2, new(big.Int).Mul(s, w)))
		x := modN(new(big.Int).Mul(new(big.Int).Sub(r, t), new(big.Int).ModInverse(s, vN)))
		X := mulG(x)
		f.priv = x
		f.pub = &ecdsa.PublicKey{Curve: vcurve, X: X.x, Y: X.y}
		f.honest = sha256.Sum256(H.mul(x).enc())
	case "spec":
		f.omit = -1
		f.note = "honest proof computed from the specification"
		V = Vh
		s = challengeOf(-1, [nSlots]pt{ptG, H, P, V, mulG(r), H.mul(r)})
		t = modN(new(big.Int).Sub(r, new(big.Int).Mul(s, k.D)))
	}
	if t.Sign() == 0 || !V.ok() {
		return nil
	}
	f.proof = proofBytes(s, t, V)
	f.out = sha256.Sum256(V.enc())
	return f
}

// FInput is the replayable input of a forgery violation.
type FInput struct {
	Part   string `json:"part"`
	Level  string `json:"level"` // vrf | sortition | server | replay | degenerate
	Key    int    `json:"key"`
	Msg    int    `json:"msg"`
	Dim    string `json:"dim"`
	Point  int    `json:"point"`
	Choice int    `json:"choice"`
	Cfg    int    `json:"cfg,omitempty"`
	Fn     string `json:"fn,omitempty"`
	Claim  uint32 `json:"claim,omitempty"`
}

func dimWhat(dim string) string {
	switch dim {
	case "V":
		return "the VRF point (commitments chosen first, VRF point solved from the second verification equation)"
	case "a":
		return "the first commitment [r]G (proof of another exponent on the H side only)"
	case "b":
		return "the second commitment [r]H (proof of the key on the G side only, VRF point arbitrary)"
	case "pk":
		return "the public key (key solved after the challenge)"
	}
	return dim
}

func verifierOf(pub *ecdsa.PublicKey) vrf.PublicKey {
	pk, err := secp256k1VRF.NewVRFVerifier(pub)
	if err != nil {
		panic(err)
	}
	return pk
}

func msgBytes(mi int) []byte { return ucon.MakeM(msgs[mi].Seed, msgs[mi].Step, msgs[mi].Index) }

// checkForgedVRF offers one forged proof to ProofToHash.
func checkForgedVRF(r *mc.Run, ki, mi int, f *forged) (accepted bool) {
	in := FInput{Part: "forgery", Level: "vrf", Key: ki, Msg: mi, Dim: f.Dim, Point: f.Point, Choice: f.Choice}
	m := msgBytes(mi)
	hx, hy := secp256k1VRF.H1(m)
	H, P := pt{hx, hy}, pt{f.pub.X, f.pub.Y}
	desc := fmt.Sprintf("key %d, message %d, forgery for a challenge that does not bind %s, %s, scalars #%d: carried output %x, honest output %x", ki, mi, slotNameOf(f.omit), f.note, f.Choice, f.out, f.honest)
	// the forgery must be algebraically right: valid for the verifier that leaves the slot out
	if !refAccepts(f.omit, P, H, f.proof) {
		r.HarnessError("forgery does not satisfy its own verification equations: " + desc)
		return
	}
	r.Count("forgery_valid_for_the_weakened_reference_verifier", 1)
	sound := refAccepts(-1, P, H, f.proof)
	var out [32]byte
	var err error
	pmsg := mc.Catch(func() { out, err = verifierOf(f.pub).ProofToHash(m, f.proof) })
	r.Count("forgery_vrf_cases", 1)
	switch {
	case pmsg != "":
		report(r, mc.Violation{Sig: "ProofToHash panics on a constructed proof: " + pmsg, Detail: desc, Input: in})
	case f.Dim == "spec":
		if !sound {
			r.HarnessError("reference verifier rejects the reference proof: " + desc)
		}
		switch {
		case err != nil:
			report(r, mc.Violation{
				Sig:    "ProofToHash rejects an honest proof computed from the specified transcript s = H2(G, H, [k]G, VRF, [r]G, [r]H), t = r - s*k",
				Detail: desc + ": " + err.Error(), Input: in})
		case common.Hash(out) != f.honest:
			report(r, mc.Violation{Sig: "ProofToHash does not return SHA-256 of the VRF point", Detail: fmt.Sprintf("%s: returned %x", desc, out), Input: in})
		default:
			r.Count("forgery_control_specified_proof_accepted", 1)
		}
		// and the repository's prover computes the same output for this key and message
		var ev [32]byte
		if msg := mc.Catch(func() { ev, _ = keys[ki].sk.Evaluate(m) }); msg != "" {
			report(r, mc.Violation{Sig: "Evaluate panics: " + msg, Detail: desc, Input: in})
		} else if common.Hash(ev) != f.honest {
			report(r, mc.Violation{Sig: "Evaluate does not return SHA-256 of the VRF point [k]H1(m)", Detail: fmt.Sprintf("%s: Evaluate returned %x", desc, ev), Input: in})
		} else {
			r.Count("forgery_control_Evaluate_agrees_with_reference_output", 1)
		}
	case err == nil && common.Hash(out) != f.honest:
		accepted = true
		report(r, mc.Violation{
			Sig:    "ProofToHash accepts a second VRF output for one (key, message): the challenge does not bind " + dimWhat(f.Dim),
			Detail: fmt.Sprintf("%s: ProofToHash returned %x, nil", desc, out), Input: in})
	case err == nil:
		r.Count("forgery_accepted_with_the_honest_output", 1)
	default:
		if sound {
			r.HarnessError("a forged proof passes the sound reference verifier: " + desc)
		}
		r.Count("forgery_rejected_by_ProofToHash_unbound_"+f.Dim, 1)
		r.Distinct(fmt.Sprintf("fv|%d|%d|%s|%d|%d", ki, mi, f.Dim, f.Point, f.Choice))
	}
	return
}

func slotNameOf(omit int) string {
	if omit < 0 {
		return "nothing (control: the full specified challenge)"
	}
	return slotName[omit]
}

// claimsFor: the seat counts a forger would claim with the forged output:
// the exact quantile(s) of the forged output, the honest seat count, and 1.
func claimsFor(fv common.Hash, honestJ uint32, stake int64, th uint64, total int64) []uint32 {
	set := map[uint32]bool{1: true}
	if honestJ > 0 {
		set[honestJ] = true
	}
	if jlo, jhi, ok := seatInterval(fv, stake, th, total); ok {
		for j := jlo; j <= jhi && j <= jlo+3; j++ {
			set[uint32(j)] = true
		}
	}
	var out []uint32
	for j := range set {
		out = append(out, j)
	}
	sort.Slice(out, func(a, b int) bool { return out[a] < out[b] })
	return out
}

// checkForgedCredential offers the forged proof as a sortition credential and
// as a proposer credential under every parameter triple.
func checkForgedCredential(r *mc.Run, ki, mi int, f *forged, honestJ []uint32) {
	m := msgs[mi]
	pk := verifierOf(f.pub)
	for ci, cf := range cfgs {
		for _, claim := range claimsFor(f.out, honestJ[ci], cf.Stake, cf.Th, cf.Total) {
			prio := scanSeats(f.out, uint64(claim)).max
			for _, fn := range []string{"sortition", "priority"} {
				in := FInput{Part: "forgery", Level: "sortition", Key: ki, Msg: mi, Dim: f.Dim, Point: f.Point, Choice: f.Choice, Cfg: ci, Fn: fn, Claim: claim}
				var ok bool
				var err error
				claim, fn := claim, fn
				pmsg := mc.Catch(func() {
					if fn == "sortition" {
						ok, err = ucon.VrfVerifySortition(pk, m.Seed, m.Index, m.Step, f.proof, claim, cf.Th, big.NewInt(cf.Stake), big.NewInt(cf.Total))
					} else {
						ok, err = ucon.VrfVerifyPriority(pk, m.Seed, m.Index, m.Step, f.proof, prio, claim, cf.Th, big.NewInt(cf.Stake), big.NewInt(cf.Total))
					}
				})
				r.Count("forgery_credential_cases", 1)
				desc := fmt.Sprintf("key %d, message %d (index=%d step=%d), committee/stake/total %s, honest seats %d; forged proof (challenge not binding %s, %s, scalars #%d) with output %x, claimed seats %d", ki, mi, m.Index, m.Step, cf.Name, honestJ[ci], slotNameOf(f.omit), f.note, f.Choice, f.out, claim)
				switch {
				case pmsg != "":
					report(r, mc.Violation{Sig: sigFn(fn) + " panics on a constructed proof: " + pmsg, Detail: desc, Input: in})
				case ok && err == nil && f.out != f.honest:
					report(r, mc.Violation{
						Sig:    fmt.Sprintf("%s accepts a forged credential with a seat count the key did not win: the VRF challenge does not bind %s", sigFn(fn), dimWhat(f.Dim)),
						Detail: desc + ": accepted", Input: in})
				default:
					r.Count("forgery_credential_rejected", 1)
				}
			}
		}
	}
}

// checkForgedServer offers forgeries made with a validator's own key through
// the message-level verifiers.
func checkForgedServer(r *mc.Run, ki int, index uint32, fn, dim string, point, choice int) {
	th, step := uint64(srvPropTh), uint32(ucon.Propose)
	if fn == "verifySortition" {
		th, step = srvValTh, uint32(ucon.Prevote)
	}
	f := forge(keys[ki].ec, ucon.MakeM(srvSeed, step, index), dim, point, choice)
	if f == nil {
		return
	}
	hc, msg := srvCred(ki, index, fn)
	if msg != "" {
		return
	}
	for _, claim := range claimsFor(f.out, hc.j, srvStakes[ki], th, 4000) {
		a := args{key: ki, seed: srvSeed, index: index, step: step, proof: f.proof, seats: claim, th: th, stake: srvStakes[ki], total: 4000}
		a.prio = scanSeats(f.out, uint64(claim)).max
		err, pmsg := callServer(fn, a)
		r.Count("forgery_message_level_cases", 1)
		in := FInput{Part: "forgery", Level: "server", Key: ki, Msg: int(index), Dim: dim, Point: point, Choice: choice, Fn: fn, Claim: claim}
		desc := fmt.Sprintf("Server.%s: validator %d (stake %d of 4000), round %d index %d, honest seats %d; forged proof (challenge not binding %s, %s, scalars #%d) with output %x, claimed seats %d", fn, ki, srvStakes[ki], srvRound, index, hc.j, slotNameOf(f.omit), f.note, choice, f.out, claim)
		switch {
		case pmsg != "":
			report(r, mc.Violation{Sig: fmt.Sprintf("Server.%s panics on a constructed proof: %s", fn, pmsg), Detail: desc, Input: in})
		case err == nil:
			report(r, mc.Violation{
				Sig:    fmt.Sprintf("Server.%s accepts a forged credential with a seat count the validator did not win: the VRF challenge does not bind %s", fn, dimWhat(dim)),
				Detail: desc + ": returned nil", Input: in})
		default:
			r.Count("forgery_message_level_rejected", 1)
		}
	}
}

// ---- replayed and degenerate proofs ----------------------------------------------

func checkReplayed(r *mc.Run, ki, from, to int) {
	_, proof := keys[ki].sk.Evaluate(msgBytes(from))
	honest, _ := keys[ki].sk.Evaluate(msgBytes(to))
	var out [32]byte
	var err error
	pmsg := mc.Catch(func() { out, err = keys[ki].pk.ProofToHash(msgBytes(to), proof) })
	r.Count("forgery_replayed_proof_cases", 1)
	in := FInput{Part: "forgery", Level: "replay", Key: ki, Msg: to, Dim: "H", Point: from}
	desc := fmt.Sprintf("key %d: honest proof of message %d offered for message %d", ki, from, to)
	switch {
	case pmsg != "":
		report(r, mc.Violation{Sig: "ProofToHash panics on a replayed proof: " + pmsg, Detail: desc, Input: in})
	case err == nil && out != honest:
		report(r, mc.Violation{Sig: "ProofToHash accepts a proof issued for another message (the challenge does not bind the hashed message point)", Detail: desc, Input: in})
	default:
		r.Count("forgery_replayed_proof_rejected", 1)
	}
}

var degenerateNames = []string{"s=0", "t=0", "s=0,t=0", "s=N", "t=N", "s=N+1", "t=N+1", "s=2^256-1", "t=2^256-1", "t=N-1", "s=N-1"}

func degenerate(proof []byte, name string) []byte {
	p := append([]byte{}, proof...)
	n1 := new(big.Int).Add(vN, big.NewInt(1))
	nm1 := new(big.Int).Sub(vN, big.NewInt(1))
	ones := bytes.Repeat([]byte{0xff}, 32)
	zero := make([]byte, 32)
	set := func(off int, v []byte) { copy(p[off:off+32], v) }
	switch name {
	case "s=0":
		set(0, zero)
	case "t=0":
		set(32, zero)
	case "s=0,t=0":
		set(0, zero)
		set(32, zero)
	case "s=N":
		set(0, pad32(vN))
	case "t=N":
		set(32, pad32(vN))
	case "s=N+1":
		set(0, pad32(n1))
	case "t=N+1":
		set(32, pad32(n1))
	case "s=2^256-1":
		set(0, ones)
	case "t=2^256-1":
		set(32, ones)
	case "t=N-1":
		set(32, pad32(nm1))
	case "s=N-1":
		set(0, pad32(nm1))
	}
	return p
}

// checkDegenerate: an honest proof whose s or t is replaced by a scalar at the
// edge of (or outside) the group order, through every verifier.
func checkDegenerate(r *mc.Run, ki, mi, di int) {
	name := degenerateNames[di]
	m := msgs[mi]
	c, msg := honestCred(ki, mi, 0)
	if msg != "" {
		return
	}
	p := degenerate(c.honest.proof, name)
	in := FInput{Part: "forgery", Level: "degenerate", Key: ki, Msg: mi, Dim: name}
	desc := fmt.Sprintf("key %d, message %d (index=%d step=%d): honest proof with %s", ki, mi, m.Index, m.Step, name)
	cls := "zero or not below the group order"
	if name == "t=N-1" || name == "s=N-1" {
		cls = "N-1"
	}
	rootPanic := ""
	judge := func(who string, accepted bool, pmsg string) {
		r.Count("forgery_degenerate_scalar_cases", 1)
		switch {
		case pmsg != "" && who != "ProofToHash" && pmsg == rootPanic:
			// the same crash, reached through a caller of ProofToHash: one defect, one signature
			r.Count("forgery_degenerate_scalar_panic_reached_through_"+who, 1)
			report(r, mc.Violation{
				Sig:    fmt.Sprintf("ProofToHash panics on a proof whose scalar s or t is %s: %s", cls, pmsg),
				Detail: desc + "; the panic propagates through " + who, Input: in})
		case pmsg != "":
			report(r, mc.Violation{
				Sig:    fmt.Sprintf("%s panics on a proof whose scalar s or t is %s: %s", who, cls, pmsg),
				Detail: desc, Input: in})
		case accepted:
			report(r, mc.Violation{Sig: fmt.Sprintf("%s accepts a proof whose scalar s or t was replaced by one that is %s", who, cls), Detail: desc, Input: in})
		default:
			r.Count("forgery_degenerate_scalar_rejected", 1)
		}
	}
	var err error
	pmsg := mc.Catch(func() { _, err = keys[ki].pk.ProofToHash(msgBytes(mi), p) })
	rootPanic = pmsg
	judge("ProofToHash", err == nil && pmsg == "", pmsg)
	a := cloneArgs(c.honest)
	a.proof = p
	a.prio = scanSeats(c.value, uint64(c.j)).max
	ok, e2, pmsg := callSortition(a)
	judge("VrfVerifySortition", ok && e2 == nil && pmsg == "", pmsg)
	ok, e2, pmsg = callPriority(a)
	judge("VrfVerifyPriority", ok && e2 == nil && pmsg == "", pmsg)
	if mi == 0 {
		for _, fn := range []string{"verifyPriority", "verifySortition"} {
			sc, msg := srvCred(ki, srvRoundIndex, fn)
			if msg != "" {
				continue
			}
			sa := cloneArgs(sc.honest)
			sa.proof = degenerate(sc.honest.proof, name)
			sa.prio = scanSeats(sc.value, uint64(sc.j)).max
			if sa.seats == 0 {
				sa.seats = 1 // a zero-seat proposal is turned away before the proof is looked at
			}
			e3, pmsg := callServer(fn, sa)
			judge("Server."+fn, e3 == nil && pmsg == "", pmsg)
		}
	}
}

// ---- driver -------------------------------------------------------------------

type ftask struct {
	kind   string // forge | server | replay | degenerate
	ki, mi int
	dim    string
	point  int
	choice int
	fn     string
	index  uint32
	from   int
}

func forgeryChoices(quick bool) int {
	if quick {
		return 3
	}
	return 12
}

func runForgery(r *mc.Run) {
	loadKeys()
	srvOnce.Do(buildServer)
	nc := forgeryChoices(r.Quick())
	// honest seat counts per (key, message, parameter triple)
	honestJ := make([][]uint32, nKeys*len(msgs))
	forEach1(r, nKeys*len(msgs), func(i int) {
		ki, mi := i%nKeys, i/nKeys
		js := make([]uint32, len(cfgs))
		for ci := range cfgs {
			if c, msg := honestCred(ki, mi, ci); msg == "" {
				js[ci] = c.j
			}
		}
		honestJ[i] = js
	})
	var tasks []ftask
	for ki := 0; ki < nKeys; ki++ {
		for mi := range msgs {
			for _, dim := range forgeDims {
				for p := 0; p < dimPoints(dim); p++ {
					for c := 0; c < nc; c++ {
						tasks = append(tasks, ftask{kind: "forge", ki: ki, mi: mi, dim: dim, point: p, choice: c})
					}
				}
			}
			for from := range msgs {
				if from != mi {
					tasks = append(tasks, ftask{kind: "replay", ki: ki, mi: mi, from: from})
				}
			}
			for di := range degenerateNames {
				tasks = append(tasks, ftask{kind: "degenerate", ki: ki, mi: mi, point: di})
			}
		}
		if srvErr == "" {
			for _, fn := range []string{"verifyPriority", "verifySortition"} {
				for _, ix := range []uint32{2, 3} {
					for _, dim := range []string{"V", "a", "b"} {
						for p := 0; p < dimPoints(dim); p++ {
							for c := 0; c < nc; c++ {
								tasks = append(tasks, ftask{kind: "server", ki: ki, dim: dim, point: p, choice: c, fn: fn, index: ix})
							}
						}
					}
				}
			}
		}
	}
	r.SetExtra("forgery_alphabet", map[string]interface{}{
		"keys": nKeys, "messages": len(msgs), "scalar_choices": nc,
		"free_points":        map[string]int{"unbound VRF point": nPointsV, "unbound first commitment": nPointsA, "unbound second commitment": nPointsB, "unbound public key": nPointsPK},
		"degenerate_scalars": degenerateNames, "tasks": len(tasks)})
	var smu sync.Mutex
	samples := map[string]interface{}{}
	forEach1(r, len(tasks), func(i int) {
		t := tasks[i]
		switch t.kind {
		case "forge":
			f := forge(keys[t.ki].ec, msgBytes(t.mi), t.dim, t.point, t.choice)
			if f == nil {
				r.Count("forgery_construction_degenerate_skipped", 1)
				return
			}
			acc := checkForgedVRF(r, t.ki, t.mi, f)
			if t.ki == 0 && t.mi == 0 && t.point == 0 && t.choice == 0 {
				smu.Lock()
				samples["challenge not binding "+slotNameOf(f.omit)] = map[string]interface{}{"key": 0, "message": 0, "construction": f.note,
					"proof": fmt.Sprintf("%x", f.proof), "offered_under_public_key": fmt.Sprintf("%x", elliptic.Marshal(vcurve, f.pub.X, f.pub.Y)),
					"carried_output": fmt.Sprintf("%x", f.out), "honest_output": fmt.Sprintf("%x", f.honest), "ProofToHash_accepts_another_output": acc}
				smu.Unlock()
			}
			// the credential verifiers see the proof only through ProofToHash: the first scalar choice
			// goes through them under every parameter triple (thorough: every choice)
			if t.dim != "spec" && (t.choice == 0 || !r.Quick()) {
				checkForgedCredential(r, t.ki, t.mi, f, honestJ[t.mi*nKeys+t.ki])
			}
		case "server":
			checkForgedServer(r, t.ki, t.index, t.fn, t.dim, t.point, t.choice)
		case "replay":
			checkReplayed(r, t.ki, t.from, t.mi)
		case "degenerate":
			checkDegenerate(r, t.ki, t.mi, t.point)
		}
	})
	r.SetExtra("forgery_samples", samples)
}

func replayForgery(r *mc.Run, in map[string]interface{}) {
	loadKeys()
	srvOnce.Do(buildServer)
	num := func(k string) int {
		if v, ok := in[k].(float64); ok {
			return int(v)
		}
		return 0
	}
	ki, mi, dim, point, choice := num("key"), num("msg"), fmt.Sprint(in["dim"]), num("point"), num("choice")
	switch fmt.Sprint(in["level"]) {
	case "vrf", "sortition":
		f := forge(keys[ki].ec, msgBytes(mi), dim, point, choice)
		if f == nil {
			fmt.Println("degenerate construction")
			return
		}
		fmt.Printf("forged proof %x\n  offered under public key %x\n  carried output %x honest output %x\n", f.proof, elliptic.Marshal(vcurve, f.pub.X, f.pub.Y), f.out, f.honest)
		checkForgedVRF(r, ki, mi, f)
		if dim != "spec" {
			js := make([]uint32, len(cfgs))
			for ci := range cfgs {
				if c, msg := honestCred(ki, mi, ci); msg == "" {
					js[ci] = c.j
				}
			}
			checkForgedCredential(r, ki, mi, f, js)
		}
	case "server":
		if srvErr != "" {
			fmt.Println("fixture:", srvErr)
			return
		}
		checkForgedServer(r, ki, uint32(mi), fmt.Sprint(in["fn"]), dim, point, choice)
	case "replay":
		checkReplayed(r, ki, point, mi)
	case "degenerate":
		for di, n := range degenerateNames {
			if n == dim {
				checkDegenerate(r, ki, mi, di)
			}
		}
	}
}
