package c04

import (
	"fmt"
	"math"
	"math/big"
	"os"
	"sync"

	"gonum.org/v1/gonum/stat/distuv"

	"verif/mc"
)

// ---- upper tail: admissibility in TAIL space with a RELATIVE tolerance ------
//
// For a VRF output in the regime target > 0.99 the implementation does not
// compare target with F(j) (which cannot be resolved near 1 in float64) but
// 1-target with the upper tail Pr(X > j) = F(n-j-1; n, 1-p).  An absolute
// tolerance on the CDF says nothing there: every seat count whose tail is
// below the tolerance is "admissible".  In this regime the oracle therefore
// works on the exact tails
//
//	tail(j) = Pr(X > j)            (1024-bit, summed from the top)
//	inv     = 1 - hash/2^256       (exact)
//
// and a seat count j is admissible iff
//
//	tail(j) <= inv*(1+delta)  and  (j = 0 or tail(j-1) >= inv*(1-delta)),
//
// i.e. iff j is the exact quantile of some inv' within a RELATIVE delta of inv.
//
// Two readings of "the VRF output as a fraction": the statement divides by
// 2^256, the code by 2^256-1 (so that the all-ones output is exactly 1 and
// selects the whole stake).  They differ by less than one unit of the 256-bit
// grid, which is invisible everywhere except for the last few hashes below
// 2^256-1 (for hash 2^256-1-k: inv = (k+1)/2^256 against k/(2^256-1)).  A seat
// count is admissible when it is admissible under either reading; for
// k >= 2^32 the two coincide far below delta.

var (
	tailLow  = bf().SetMantExp(fOne, -250) // deepest tail cell probed
	tailHigh = bf().SetFloat64(0.01)       // 1 - 0.99: where the mirrored branch starts
)

func (d *dist) buildTails() {
	m := len(d.pmf)
	d.T = make([]*big.Float, m)
	acc := bf()
	d.T[m-1] = bf()
	for i := m - 2; i >= 0; i-- {
		acc.Add(acc, d.pmf[i+1]) // smallest terms first
		d.T[i] = bf().Set(acc)
	}
}

// tail returns Pr(X > j) (shared value: do not modify).  Below the cut of the
// table (weights under 2^-900 of the mode) the tail is reported as 0 resp. 1;
// every comparison made here is against numbers >= 2^-257.
func (d *dist) tail(j int64) *big.Float {
	d.tOnce.Do(d.buildTails)
	if j < d.lo {
		return fOne
	}
	if j >= d.hi() {
		return fZero
	}
	return d.T[j-d.lo]
}

// tailQuantile returns the smallest j with tail(j) <= inv, i.e. the smallest j
// with F(j) >= 1-inv.  inv = 0 (the all-ones output under the 2^256-1 reading)
// selects the whole stake: F(j) < 1 for every j < n.
func (d *dist) tailQuantile(inv *big.Float) int64 {
	if inv.Sign() <= 0 {
		return d.n
	}
	return d.firstWith(func(j int64) bool { return d.tail(j).Cmp(inv) <= 0 })
}

// tailAccept returns the interval of seat counts that are the exact quantile
// of some inv' with |inv'/inv - 1| <= delta.
func (d *dist) tailAccept(inv, delta *big.Float) (jlo, jhi int64) {
	if inv.Sign() <= 0 {
		return d.n, d.n
	}
	up := bf().Mul(inv, bf().Add(fOne, delta))
	dn := bf().Mul(inv, bf().Sub(fOne, delta))
	jlo = d.firstWith(func(j int64) bool { return d.tail(j).Cmp(up) <= 0 })
	pred := func(j int64) bool { return j >= 1 && d.tail(j-1).Cmp(dn) < 0 }
	first := d.firstWith(pred)
	if first == d.n && !pred(d.n) {
		jhi = d.n
	} else {
		jhi = first - 1
	}
	return
}

// invReadings returns 1 - hash/2^256 (statement) and 1 - hash/(2^256-1) (code).
func invReadings(h *big.Int) (invA, invB *big.Float) {
	k := new(big.Int).Sub(maxHash, h)
	invA = bf().Quo(bf().SetInt(new(big.Int).Add(k, big.NewInt(1))), two256)
	invB = bf().Quo(bf().SetInt(k), bf().SetInt(maxHash))
	return
}

// deltaTailFloat is the relative tolerance in tail space:
// max(5e-10, 16*n*ln(n+1)*2^-53).
//
// CALIBRATION (unchanged tree, measured by measureFloatTail on every run and
// recorded in the evidence): the float64 quantity the mirrored branch compares
// 1-target with is distuv.Binomial{N: n, P: 1.0-p}.CDF(n-j-1).  Its relative
// error against the exact tail(j), over every probed tail cell (tail(j) in
// [2^-250, 0.01], all pairs with n*p*(1-p) <= 2.5e5) is
//
//	stake            quick grid   thorough grid   n*ln(n+1)*2^-53   tolerance
//	1 .. 100         2.8e-12      2.4e-11         <= 5e-14          5e-10
//	1000 .. 10^4     3.0e-11      4.9e-11         <= 1.0e-11        5e-10
//	10^5             -            4.9e-10         1.3e-10           2.0e-9
//	10^6             3.5e-9       4.1e-9          1.5e-9            2.4e-8
//	5*10^6           -            2.2e-8          8.6e-9            1.4e-7
//	10^7 (-1)        4.5e-8       5.9e-8          1.8e-8            2.9e-7
//
// i.e. two sources: (a) the log-gamma conditioning of the incomplete beta
// function, 2.5 .. 3.9 times n*ln(n)*2^-53 for n >= 10^5 (the same figure the
// absolute tolerance of the lower regime is built on), and (b) for small
// stakes the rounding of 1.0-(1.0-p) (gonum evaluates I(j+1, n-j, 1-P) with
// P = 1.0-p), a relative (j+1)*2^-54/p, at most 4.9e-11 for the smallest p of
// the grid (26/10^6) and the deepest cell.  The tolerance is >= 4 times the
// measured maximum of its stake everywhere (10 times below 10^5).  The window
// ends at 2^-250, far above the point where gonum flushes to 0 (e^-708); down
// to there the error shows no degradation with depth beyond the linear factor
// (j+1) of (b).  The tolerance stays below the
// probe offsets 1e-9 (stakes up to 10^4) and 1e-6 (all stakes), so those
// probes have exactly one admissible seat count.  The large-variance regime
// n*p*(1-p) > 2.5e5 (continued fraction not converged, known finding) is
// excluded: no relative accuracy holds there.
func deltaTailFloat(n int64) float64 {
	e := deltaTailScale * float64(n) * math.Log(float64(n)+1) * math.Pow(2, -53)
	if e < deltaTail0 {
		e = deltaTail0
	}
	return e
}

const (
	deltaTail0     = 5e-10
	deltaTailScale = 16.0
)

func deltaTail(n int64) *big.Float { return bf().SetFloat64(deltaTailFloat(n)) }

// tailOracleApplies: the exact-tail oracle is used for probes of the regime
// target > 0.99 (the float64 target the implementation branches on) of pairs
// that have a distribution (p <= 1) outside the known large-variance regime.
func tailOracleApplies(pr *pair, br string) bool {
	if pr.d == nil || float64(pr.W)*pr.PS.P*(1-pr.PS.P) > 2.5e5 {
		return false
	}
	return br == "mirrored" || br == "hash=max"
}

// upperExtremeOffsets: hashes 2^256-1-k approaching the top of the range.
func upperExtremeHashes() []*big.Int {
	var out []*big.Int
	for _, k := range []int64{0, 1, 2, 3} {
		out = append(out, new(big.Int).Sub(maxHash, big.NewInt(k)))
	}
	for _, sh := range []uint{8, 32, 64, 128, 192, 200, 202, 203, 210, 220} {
		out = append(out, new(big.Int).Sub(maxHash, new(big.Int).Lsh(big.NewInt(1), sh)))
	}
	return out
}

var tailOffsets = []float64{1e-6, 1e-9, 1e-12}

// tailCells lists the seat counts j whose tail boundary 1 - tail(j) lies in the
// probed window: tail(j) in [2^-250, 0.01].
func tailCells(d *dist) []int64 {
	var out []int64
	for j := d.lo; j <= d.hi(); j++ {
		T := d.tail(j)
		if T.Cmp(tailLow) < 0 {
			break
		}
		if T.Cmp(tailHigh) > 0 {
			continue
		}
		out = append(out, j)
	}
	return out
}

// hashForInv returns the hash 2^256-1-k with k = floor(inv*2^256).
func hashForInv(inv *big.Float) *big.Int {
	k, _ := bf().Mul(inv, two256).Int(nil)
	h := new(big.Int).Sub(maxHash, k)
	if h.Sign() < 0 {
		h.SetInt64(0)
	}
	return h
}

// tailProbeHashes: every tail cell boundary approached from both sides at
// relative offsets of the TAIL value, plus the boundary itself and its hash
// neighbours.
func tailProbeHashes(d *dist, cells []int64) []*big.Int {
	var out []*big.Int
	for _, j := range cells {
		T := d.tail(j)
		h0 := hashForInv(T)
		out = append(out, h0)
		if h0.Cmp(maxHash) < 0 {
			out = append(out, new(big.Int).Add(h0, big.NewInt(1)))
		}
		if h0.Sign() > 0 {
			out = append(out, new(big.Int).Sub(h0, big.NewInt(1)))
		}
		for _, o := range tailOffsets {
			oo := bf().SetFloat64(o)
			out = append(out,
				hashForInv(bf().Mul(T, bf().Add(fOne, oo))), // larger tail: hash just below the boundary, seat count j
				hashForInv(bf().Mul(T, bf().Sub(fOne, oo)))) // smaller tail: hash just above the boundary, seat count j+1
		}
	}
	return out
}

var (
	tailMu       sync.Mutex
	tailFloatErr = map[int64]float64{} // stake -> largest relative error of the float64 CDF of binomial(n,1-p) against the exact tail, over the probed cells
	tailFloatAt  = map[int64]string{}
	tailDev      = map[int64]float64{} // stake -> largest relative distance of a probe from a tail boundary on which choose lands on the neighbouring seat count
)

// measureFloatTail measures, for every probed tail cell, the relative error of
// the float64 quantity the mirrored branch compares 1-target with:
// distuv.Binomial{N: n, P: 1.0 - p}.CDF(n-j-1), against the exact tail(j).
func measureFloatTail(r *mc.Run, pr *pair, cells []int64) {
	p := pr.PS.P
	if p > 1 {
		p = 1
	}
	b := distuv.Binomial{N: float64(pr.W), P: 1.0 - p}
	worst, at := 0.0, ""
	tiny := bf().SetMantExp(fOne, -990)
	for _, j := range cells {
		c := b.CDF(float64(pr.W - j - 1))
		T := pr.d.tail(j)
		// self-check of the oracle tables: tail (summed from the top) + CDF (summed from the bottom) = 1
		if s := bf().Sub(bf().Add(T, pr.d.cdf(j)), fOne); s.Abs(s).Cmp(tiny) > 0 {
			r.HarnessError(fmt.Sprintf("exact tables inconsistent: tail(%d)+F(%d)-1 = %s (stake %d, p %s)", j, j, s.Text('g', 5), pr.W, pr.PS.Name))
			return
		}
		rel, _ := bf().Quo(bf().Sub(bf().SetFloat64(c), T), T).Float64()
		rel = math.Abs(rel)
		if rel > worst {
			worst, at = rel, fmt.Sprintf("p %s j %d", pr.PS.Name, j)
		}
	}
	r.Count("upper_tail_float_cdf_cells_measured", int64(len(cells)))
	tailMu.Lock()
	if worst > tailFloatErr[pr.W] {
		tailFloatErr[pr.W], tailFloatAt[pr.W] = worst, at
	}
	tailMu.Unlock()
	if os.Getenv("C04_TAIL_CALIBRATE") != "" {
		fmt.Printf("CAL w=%d p=%s cells=%d maxrel=%.3g at %s  n*ln(n)*2^-53=%.3g\n", pr.W, pr.PS.Name, len(cells), worst, at, float64(pr.W)*math.Log(float64(pr.W)+1)*math.Pow(2, -53))
	}
}

// depthClass splits the regime at the float64 resolution of the target: below
// 2^-53 a float64 target is 1.0 (or its predecessor) and only the exact
// 1-hash/max still carries the position.
func depthClass(inv *big.Float) string {
	if inv.Cmp(bf().SetMantExp(fOne, -53)) >= 0 {
		return "1-t>=2^-53"
	}
	return "1-t<2^-53"
}

// evalTail applies the tail-space oracle to one probe of the upper regime.
func evalTail(r *mc.Run, pr *pair, h *big.Int, j int64, br string, in QInput) {
	d := pr.d
	invA, invB := invReadings(h)
	dl := deltaTail(pr.W)
	a1, a2 := d.tailAccept(invA, dl)
	b1, b2 := d.tailAccept(invB, dl)
	qA, qB := d.tailQuantile(invA), d.tailQuantile(invB)
	r.Count("upper_tail_probes", 1)
	if a1 != b1 || a2 != b2 {
		r.Count("upper_tail_probe_where_the_2^256_and_2^256-1_readings_differ", 1)
	}
	if a1 == a2 && b1 == b2 && a1 == b1 {
		r.Count("upper_tail_probe_with_unique_admissible_seat_count", 1)
	} else {
		r.Count("upper_tail_probe_within_relative_tolerance_of_a_boundary", 1)
	}
	okA, okB := j >= a1 && j <= a2, j >= b1 && j <= b2
	switch {
	case j == qB:
		r.Count("upper_tail_j_is_exact_quantile", 1)
	case j == qA:
		r.Count("upper_tail_j_is_exact_quantile_of_the_2^256_reading", 1)
	case okA || okB:
		r.Count("upper_tail_j_differs_from_exact_within_relative_tolerance", 1)
		inv, q := invB, qB
		if !okB {
			inv, q = invA, qA
		}
		var dev float64
		if j > q {
			dev, _ = bf().Sub(fOne, bf().Quo(d.tail(j-1), inv)).Float64()
		} else {
			dev, _ = bf().Sub(bf().Quo(d.tail(j), inv), fOne).Float64()
		}
		tailMu.Lock()
		if dev > tailDev[pr.W] {
			tailDev[pr.W] = dev
		}
		tailMu.Unlock()
	}
	if okA || okB {
		return
	}
	dir := "off (between the two readings of)"
	if j < a1 && j < b1 {
		dir = "below"
	} else if j > a2 && j > b2 {
		dir = "above"
	}
	r.Count("upper_tail_inadmissible", 1)
	report(r, mc.Violation{
		Sig: fmt.Sprintf("choose returns a seat count %s the binomial quantile in the upper tail (exact tail, relative tolerance; %s, branch=%s, %s, regime %s)", dir, pclass(pr.PS.P), br, depthClass(invB), regime(pr.W, pr.PS.P)),
		Detail: fmt.Sprintf("choose(hash=%s, w=%d, p=%v [%s]) = %d; exact quantile %d (output/2^256: %d); admissible with relative tail tolerance %.3g: [%d,%d] (output/2^256: [%d,%d]); 1-t=%s tail(%d)=%s tail(%d)=%s",
			in.Hash, pr.W, pr.PS.P, pr.PS.Name, j, qB, qA, deltaTailFloat(pr.W), b1, b2, a1, a2, invB.Text('g', 25), qB-1, d.tail(qB-1).Text('g', 25), qB, d.tail(qB).Text('g', 25)),
		Input: in})
}

// tailExtras writes the measured figures of the upper-tail part to the evidence.
func tailExtras(r *mc.Run, cells int) {
	r.SetExtra("upper_tail_cells_probed", cells)
	tailMu.Lock()
	defer tailMu.Unlock()
	fe, gmax := map[string]string{}, 0.0
	for w, e := range tailFloatErr {
		fe[fmt.Sprint(w)] = fmt.Sprintf("%.3g at %s (relative tolerance %.3g)", e, tailFloatAt[w], deltaTailFloat(w))
		if e > gmax {
			gmax = e
		}
	}
	r.SetExtra("upper_tail_float64_cdf_max_relative_error_against_exact_tail_by_stake", fe)
	r.SetExtra("upper_tail_float64_cdf_max_relative_error", fmt.Sprintf("%.3g", gmax))
	dv := map[string]string{}
	for w, e := range tailDev {
		dv[fmt.Sprint(w)] = fmt.Sprintf("%.3g (relative tolerance %.3g)", e, deltaTailFloat(w))
	}
	r.SetExtra("upper_tail_largest_relative_probe_distance_from_a_boundary_with_a_seat_count_differing_from_exact_by_stake", dv)
}
