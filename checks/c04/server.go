package c04

import (
	"fmt"
	"math/big"
	"sync"

	"github.com/youchainhq/go-youchain/common"
	"github.com/youchainhq/go-youchain/consensus/ucon"
	"github.com/youchainhq/go-youchain/core/rawdb"
	"github.com/youchainhq/go-youchain/core/state"
	"github.com/youchainhq/go-youchain/core/types"
	"github.com/youchainhq/go-youchain/crypto"
	"github.com/youchainhq/go-youchain/params"
	"github.com/youchainhq/go-youchain/rlp"
	"github.com/youchainhq/go-youchain/youdb"

	"verif/mc"
)

// ---- message-level verifiers -------------------------------------------------
// Server.verifyPriority (handed to NewProposal: judges every proposal and
// priority message) and Server.verifySortition (handed to NewVoter: judges
// every vote message) wrap VrfVerifyPriority / VrfVerifySortition with the
// look-back seed and stake.  They are driven here on a Server that holds a
// stub chain reader: one look-back header (seed) and one committed validator
// set (stakes) — the only things the two functions read.

var srvStakes = []int64{1000, 100, 10, 5, 1000, 885, 500, 500} // chamber validators, total 4000

const (
	srvRound      = 10
	srvRoundIndex = 2
	srvPropTh     = 26
	srvValTh      = 2000
)

type stubChain struct {
	hdr *types.Header
	db  state.Database
}

func (c *stubChain) VersionForRound(uint64) (*params.YouParams, error) {
	return nil, fmt.Errorf("unused")
}
func (c *stubChain) VersionForRoundWithParents(uint64, []*types.Header) (*params.YouParams, error) {
	return nil, fmt.Errorf("unused")
}
func (c *stubChain) CurrentHeader() *types.Header                { return c.hdr }
func (c *stubChain) GetHeader(common.Hash, uint64) *types.Header { return c.hdr }
func (c *stubChain) GetHeaderByNumber(uint64) *types.Header      { return c.hdr }
func (c *stubChain) GetHeaderByHash(common.Hash) *types.Header   { return c.hdr }
func (c *stubChain) GetBlock(common.Hash, uint64) *types.Block   { return nil }
func (c *stubChain) GetBlockByNumber(uint64) *types.Block        { return nil }
func (c *stubChain) GetAcReader() rawdb.AcReader                 { return nil }
func (c *stubChain) UpdateExistedHeader(*types.Header)           {}
func (c *stubChain) GetVldReader(root common.Hash) (state.ValidatorReader, error) {
	return state.NewVldReader(root, c.db, false)
}

var srvSeed = common.BytesToHash(keccak([]byte("c04-lookback-seed")))

var (
	srvOnce sync.Once
	srv     *ucon.Server
	srvErr  string
)

func buildServer() {
	loadKeys()
	srv, srvErr = newServerFixture(srvStakes, srvPropTh, srvValTh)
}

// commitValidatorSet commits a validator set that gives key i the stake
// stakes[i] (online chamber validators; 0 = key i is not registered) into db
// and returns its validator root.  Panics on failure (callers use mc.Catch).
func commitValidatorSet(db state.Database, stakes []int64) common.Hash {
	st, err := state.New(common.Hash{}, common.Hash{}, common.Hash{}, db)
	if err != nil {
		panic(err)
	}
	for i, k := range keys {
		if stakes[i] == 0 {
			continue
		}
		pub := crypto.CompressPubkey(&k.ec.PublicKey)
		tok := new(big.Int).Mul(big.NewInt(stakes[i]), params.StakeUint)
		v := st.CreateValidator(fmt.Sprintf("v%d", i), common.Address{0xa0, byte(i)}, common.Address{0xb0, byte(i)}, params.RoleChancellor, pub, []byte{byte(i)}, tok, big.NewInt(stakes[i]), 1, 1000, 5000, params.ValidatorOnline)
		if v == nil || v.MainAddress() != crypto.PubkeyToAddress(k.ec.PublicKey) {
			panic("validator fixture: address mismatch")
		}
	}
	_, valRoot, _, err := st.Commit(true)
	if err != nil {
		panic(err)
	}
	return valRoot
}

// newServerFixture builds a Server over a stub chain reader whose committed
// validator set gives key i the stake stakes[i] (all chamber validators) and
// whose round parameters carry the given thresholds.
func newServerFixture(stakes []int64, propTh, valTh uint64) (s *ucon.Server, errMsg string) {
	errMsg = mc.Catch(func() {
		db := state.NewDatabase(youdb.NewMemDatabase())
		valRoot := commitValidatorSet(db, stakes)
		cons, err := rlp.EncodeToBytes(&ucon.BlockConsensusData{Round: big.NewInt(1), Seed: srvSeed, ProposerThreshold: propTh, ValidatorThreshold: valTh})
		if err != nil {
			panic(err)
		}
		hdr := &types.Header{Number: big.NewInt(1), ValRoot: valRoot, Consensus: cons}
		yp := &params.YouParams{}
		yp.ProposerThreshold, yp.ValidatorThreshold, yp.CertValThreshold = propTh, valTh, valTh
		yp.StakeLookBack, yp.SeedLookBack = 4, 2
		s = ucon.VerifC04Server(&stubChain{hdr: hdr, db: db}, yp, big.NewInt(srvRound), srvRoundIndex)
	})
	return
}

// SInput is the replayable input of a message-level violation.
type SInput struct {
	Part  string `json:"part"`
	Key   int    `json:"key"`
	Index uint32 `json:"index"`
	Fn    string `json:"fn"`
	Pert  string `json:"pert"`
}

// srvCred is an honest credential for (key, round index) under the look-back
// seed and stake of the fixture; fn selects proposer (step 1, ProposerThreshold)
// or voter (step 2 = Prevote, ValidatorThreshold).
func srvCred(ki int, index uint32, fn string) (*cred, string) {
	th, step := uint64(srvPropTh), uint32(ucon.Propose)
	if fn == "verifySortition" {
		th, step = srvValTh, uint32(ucon.Prevote)
	}
	var c *cred
	msg := mc.Catch(func() {
		value, proof, j := ucon.VrfSortition(keys[ki].sk, srvSeed, index, step, th, big.NewInt(srvStakes[ki]), big.NewInt(4000))
		c = &cred{ki: ki, value: value, j: j}
		c.honest = args{key: ki, seed: srvSeed, index: index, step: step, proof: proof, seats: j, th: th, stake: srvStakes[ki], total: 4000}
	})
	return c, msg
}

func callServer(fn string, a args) (err error, pmsg string) {
	return callServerOn(srv, fn, a)
}

func callServerOn(srv *ucon.Server, fn string, a args) (err error, pmsg string) {
	pmsg = mc.Catch(func() {
		pub := &keys[a.key].ec.PublicKey
		if fn == "verifyPriority" {
			err = srv.VerifC04VerifyPriority(pub, &ucon.ConsensusCommon{Round: big.NewInt(srvRound), RoundIndex: a.index, Step: a.step,
				Priority: a.prio, SortitionProof: a.proof, SubUsers: a.seats})
		} else {
			err = srv.VerifC04VerifySortition(pub, &ucon.SortitionData{Round: big.NewInt(srvRound), RoundIndex: a.index, Step: a.step,
				Proof: a.proof, Votes: a.seats}, params.LookBackPos)
		}
	})
	return
}

// srvPerturbations: the fields a message carries (the seed and the stake come
// from the chain and cannot be chosen by the sender).
func srvPerturbations(c *cred, fn string) []pert {
	var ps []pert
	for _, p := range perturbations(c, true) {
		switch p.kind {
		case "vrf":
			if len(p.name) >= 4 && p.name[:4] == "seed" {
				continue
			}
			if p.name == "index<->step" {
				continue
			}
			ps = append(ps, p)
		case "seats":
			ps = append(ps, p)
		case "prio", "seats+prio", "prio-recomputed":
			if fn == "verifyPriority" {
				ps = append(ps, p)
			}
		}
	}
	return ps
}

func evalServer(r *mc.Run, c *cred, index uint32, fn string, p *pert) {
	a := cloneArgs(c.honest)
	a.prio = oraclePriority(c.value, c.j)
	name, kind := "none", "honest"
	if p != nil {
		p.apply(&a)
		name, kind = p.name, p.kind
	}
	in := SInput{Part: "server", Key: c.ki, Index: index, Fn: fn, Pert: name}
	err, pmsg := callServer(fn, a)
	r.Count("message_level_cases", 1)
	desc := fmt.Sprintf("Server.%s: validator %d (stake %d of 4000), round %d index %d, honest seats %d, perturbation %s", fn, c.ki, srvStakes[c.ki], srvRound, index, c.j, name)
	if pmsg != "" {
		report(r, mc.Violation{Sig: fmt.Sprintf("Server.%s panics (%s): %s", fn, pertClass(name), pmsg), Detail: desc, Input: in})
		return
	}
	accepted := err == nil
	older := a.index < srvRoundIndex // the verifier's own position is (round 10, index 2)
	switch kind {
	case "honest":
		switch {
		case c.j >= 1 && !accepted:
			report(r, mc.Violation{Sig: fmt.Sprintf("Server.%s rejects an honest credential", fn), Detail: fmt.Sprintf("%s: %v", desc, err), Input: in})
		case c.j >= 1:
			r.Count("message_level_honest_accepted", 1)
		case accepted && fn == "verifyPriority":
			report(r, mc.Violation{
				Sig:    "Server.verifyPriority accepts a zero-seat proposer credential (SubUsers=0)",
				Detail: desc + ": returned nil; a validator that won no proposer seat passes the proposal-message check", Input: in})
		case accepted && !older:
			report(r, mc.Violation{Sig: "Server.verifySortition accepts a zero-seat credential", Detail: desc, Input: in})
		default:
			r.Count("message_level_zero_seats_rejected", 1)
		}
	case "prio-recomputed":
		want := a.prio == oraclePriority(c.value, c.j)
		if accepted && !want {
			report(r, mc.Violation{
				Sig:    "Server.verifyPriority returns nil for a priority that is not the largest hash over the seats",
				Detail: desc + ": VrfVerifyPriority answers (false, nil) for a wrong priority and verifyPriority returns that nil error", Input: in})
		} else if !accepted && want && c.j >= 1 {
			report(r, mc.Violation{Sig: "Server.verifyPriority rejects the honest priority", Detail: desc, Input: in})
		} else {
			r.Count("message_level_priority_recomputed_ok", 1)
		}
	default:
		if accepted {
			cls := pertClass(name)
			sig := fmt.Sprintf("Server.%s returns nil for a credential with perturbed %s", fn, cls)
			extra := ""
			if kind == "prio" {
				sig = "Server.verifyPriority returns nil for a priority that is not the largest hash over the seats"
				extra = ": VrfVerifyPriority answers (false, nil) for a wrong priority and verifyPriority returns that nil error"
			}
			if fn == "verifySortition" && older {
				sig = "Server.verifySortition returns nil for an invalid credential when the message's round index is older than the verifier's"
				extra = ": the error of VrfVerifySortition is dropped for data.RoundIndex < s.roundIndex"
			}
			report(r, mc.Violation{Sig: sig, Detail: desc + extra, Input: in})
		} else {
			r.Count("message_level_rejected_"+kind, 1)
			r.Distinct(fmt.Sprintf("s|%d|%d|%s|%s", c.ki, index, fn, name))
		}
	}
}

type stask struct {
	c     *cred
	index uint32
	fn    string
	p     *pert
}

func runServer(r *mc.Run) {
	srvOnce.Do(buildServer)
	if srvErr != "" {
		r.HarnessError("message-level fixture: " + srvErr)
		return
	}
	indexes := []uint32{2, 3}
	if !r.Quick() {
		indexes = []uint32{2, 3, 4, 5, 6, 7}
	}
	var tasks []stask
	zero, won := 0, 0
	for _, fn := range []string{"verifyPriority", "verifySortition"} {
		for ki := 0; ki < nKeys; ki++ {
			for _, ix := range indexes {
				c, msg := srvCred(ki, ix, fn)
				if msg != "" {
					report(r, mc.Violation{Sig: "VrfSortition panics: " + msg, Input: SInput{Part: "server", Key: ki, Index: ix, Fn: fn, Pert: "none"}})
					continue
				}
				if c.j == 0 {
					zero++
				} else {
					won++
				}
				tasks = append(tasks, stask{c, ix, fn, nil})
				ps := srvPerturbations(c, fn)
				for i := range ps {
					tasks = append(tasks, stask{c, ix, fn, &ps[i]})
				}
			}
		}
	}
	r.SetExtra("message_level_credentials", map[string]int{"zero_seats": zero, "with_seats": won})
	r.SetExtra("message_level_cases", len(tasks))
	r.ForEach(len(tasks), func(_, i int) {
		t := tasks[i]
		evalServer(r, t.c, t.index, t.fn, t.p)
	})
}

func replayServer(r *mc.Run, in map[string]interface{}) {
	srvOnce.Do(buildServer)
	if srvErr != "" {
		fmt.Println("fixture:", srvErr)
		return
	}
	ki, ix := int(in["key"].(float64)), uint32(in["index"].(float64))
	fn, pn := fmt.Sprint(in["fn"]), fmt.Sprint(in["pert"])
	c, msg := srvCred(ki, ix, fn)
	if msg != "" {
		report(r, mc.Violation{Sig: "VrfSortition panics: " + msg})
		return
	}
	fmt.Printf("honest credential: validator %d index %d %s value %x seats %d\n", ki, ix, fn, c.value, c.j)
	if pn == "none" {
		evalServer(r, c, ix, fn, nil)
		return
	}
	ps := srvPerturbations(c, fn)
	for i := range ps {
		if ps[i].name == pn {
			evalServer(r, c, ix, fn, &ps[i])
			return
		}
	}
	fmt.Println("perturbation not found:", pn)
}
