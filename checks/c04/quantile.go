package c04

import (
	"fmt"
	"math"
	"math/big"
	"sort"
	"strings"
	"sync"

	"github.com/youchainhq/go-youchain/common"
	"github.com/youchainhq/go-youchain/consensus/ucon"

	"verif/mc"
)

// ---- quantile part: choose(hash, w, p) against the exact binomial CDF -------

// eps0 is the tolerance of the design (1e-12).  It holds for stakes up to a
// few hundred; beyond that the float64 evaluation of the CDF through log-gamma
// has an unavoidable conditioning error of about n*ln(n)*2^-53 (measured on
// the unchanged implementation: 0.6..1.2 times that figure for n = 10^2..10^7,
// see the design probe figures in the report).  epsFor(n) is the absolute
// tolerance around a cell boundary inside which the float64 implementation may
// land on either neighbouring seat count: max(1e-12, 4*n*ln(n)*2^-53).
const eps0 = 1e-12

func epsFloat(n int64) float64 {
	e := 4 * float64(n) * math.Log(float64(n)+1) * math.Pow(2, -53)
	if e < eps0 {
		e = eps0
	}
	return e
}

func epsFor(n int64) *big.Float { return bf().SetFloat64(epsFloat(n)) }

// regime names the parameter region.  The continued fraction behind the
// float64 CDF (cephes incbet, at most 300 iterations) stops converging once
// the variance n*p*(1-p) is a few hundred thousand: measured on the unchanged
// implementation the CDF error is within the conditioning bound for every
// probed pair with n*p*(1-p) <= 2.5e5 and grows from 2e-8 (3.5e5) over 4e-7
// (5e5) to 1.3e-3 (2.5e6).
func regime(w int64, p float64) string {
	if float64(w)*p*(1-p) > 2.5e5 {
		return "n*p*(1-p)>2.5e5"
	}
	return "n*p*(1-p)<=2.5e5"
}

var (
	devMu   sync.Mutex
	seatOff = map[string]int64{}  // (stake, p) -> largest distance in seats from the admissible interval
	devMax  = map[int64]float64{} // stake -> largest |t - boundary| on a seat count that differs from the exact quantile (within tolerance)
)

func noteDeviation(w int64, dev float64) {
	devMu.Lock()
	if dev > devMax[w] {
		devMax[w] = dev
	}
	devMu.Unlock()
}

type pspec struct {
	Name string
	P    float64 // the value handed to choose
}

// prodP converts committee/total the way VrfSortition / VrfVerify* do.
func prodP(threshold uint64, total *big.Int) float64 {
	p, _ := new(big.Float).Quo(new(big.Float).SetUint64(threshold), new(big.Float).SetInt(total)).Float64()
	return p
}

type pair struct {
	W    int64
	PS   pspec
	d    *dist
	hs   []*big.Int // probe hashes, ascending, de-duplicated
	js   []int64    // result of choose per probe (-1: not evaluated / panicked)
	base int        // index of the first probe in the flattened list
	tc   []int64    // upper-tail cells probed (tail.go)
}

// QInput is the replayable input of a quantile violation.
type QInput struct {
	Part string `json:"part"`
	W    int64  `json:"w"`
	P    string `json:"p"`     // decimal rendering
	PBit string `json:"pbits"` // exact float64 bits (hex)
	Hash string `json:"hash"`
	Prev string `json:"prev_hash,omitempty"` // monotonicity: the smaller hash
}

func pbits(p float64) string { return fmt.Sprintf("%016x", math.Float64bits(p)) }

func qgrid(quick bool) ([]int64, []pspec) {
	ws := []int64{1, 2, 3, 5, 10, 39, 40, 41, 64, 1000, 3076, 3077, 10000, 1000000, 10000000}
	ps := []pspec{
		{"26/4000", prodP(26, big.NewInt(4000))},
		{"2000/4000", prodP(2000, big.NewInt(4000))},
		{"0.001", 0.001},
		{"0.999", 0.999},
		{"2000/10^7", prodP(2000, big.NewInt(10000000))},
		{"4000/4000", prodP(4000, big.NewInt(4000))},
		{"4001/4000", prodP(4001, big.NewInt(4000))},
		{"8000/4000", prodP(8000, big.NewInt(4000))},
	}
	if !quick {
		ws = append(ws, 4, 6, 7, 8, 9, 16, 19, 20, 21, 32, 63, 65, 100, 999, 5000, 100000, 5000000, 9999999)
		ps = append(ps,
			pspec{"26/10^6", prodP(26, big.NewInt(1000000))},
			pspec{"0.01", 0.01}, pspec{"0.1", 0.1}, pspec{"0.25", 0.25}, pspec{"0.75", 0.75}, pspec{"0.9", 0.9}, pspec{"0.99", 0.99},
			pspec{"1-2^-53", math.Nextafter(1, 0)}, pspec{"1+2^-52", math.Nextafter(1, 2)},
		)
		sort.Slice(ws, func(i, j int) bool { return ws[i] < ws[j] })
	}
	return ws, ps
}

func deltas(quick bool) []float64 {
	if quick {
		return []float64{1e-9, 1e-6}
	}
	return []float64{1e-11, 1e-9, 1e-6, 1e-3}
}

// f099 is the float64 constant the implementation switches branches at.
const f099 = 0.99

func extremeHashes() []*big.Int {
	var out []*big.Int
	add := func(x *big.Int) {
		if x.Sign() >= 0 && x.Cmp(maxHash) <= 0 {
			out = append(out, x)
		}
	}
	add(big.NewInt(0))
	add(big.NewInt(1))
	add(big.NewInt(2))
	add(new(big.Int).Set(maxHash))
	add(new(big.Int).Sub(maxHash, big.NewInt(1)))
	add(new(big.Int).Sub(maxHash, big.NewInt(2)))
	// around the branch switch: the float64 constant 0.99 read as a fraction
	c := hashOf(bf().SetFloat64(f099))
	add(c)
	for _, sh := range []uint{0, 64, 200, 202, 203, 204, 205, 210, 230, 245} {
		dlt := new(big.Int).Lsh(big.NewInt(1), sh)
		add(new(big.Int).Add(c, dlt))
		add(new(big.Int).Sub(c, dlt))
	}
	// top of the range approached in float64-visible steps
	for _, sh := range []uint{64, 192, 203, 204, 220} {
		add(new(big.Int).Sub(maxHash, new(big.Int).Lsh(big.NewInt(1), sh)))
		add(new(big.Int).Lsh(big.NewInt(1), sh))
	}
	return out
}

func buildPair(w int64, ps pspec, quick bool) *pair {
	pr := &pair{W: w, PS: ps}
	if ps.P > 1 {
		// no distribution exists; the implementation must still return a seat
		// count in [0,w] (checked) — probe the extremes and a spread of hashes
		pr.hs = append(extremeHashes(), upperExtremeHashes()...)
		for _, f := range []float64{0.001, 0.25, 0.5, 0.75, 0.985, 0.995, 0.999999} {
			pr.hs = append(pr.hs, hashOf(bf().SetFloat64(f)))
		}
	} else {
		pr.d = newDist(w, bf().SetFloat64(ps.P))
		lowB, highB := bf().SetFloat64(1e-12), bf().Sub(fOne, bf().SetFloat64(1e-12))
		pr.hs = append(extremeHashes(), upperExtremeHashes()...)
		if tailOracleApplies(pr, "mirrored") {
			// upper tail: every tail cell boundary, in tail space (tail.go)
			pr.tc = tailCells(pr.d)
			pr.hs = append(pr.hs, tailProbeHashes(pr.d, pr.tc)...)
		}
		for j := pr.d.lo; j <= pr.d.hi(); j++ {
			F := pr.d.cdf(j)
			if w > 64 && (F.Cmp(lowB) < 0 || F.Cmp(highB) > 0) {
				continue
			}
			h0 := hashOf(F)
			pr.hs = append(pr.hs, h0)
			if h0.Cmp(maxHash) < 0 {
				pr.hs = append(pr.hs, new(big.Int).Add(h0, big.NewInt(1)))
			}
			dls := deltas(quick)
			if e := epsFloat(w); e > 1e-10 {
				// large stakes: the design offsets fall inside the float tolerance; add one just outside it
				dls = append(dls, 4*e)
			}
			for _, dl := range dls {
				dd := bf().SetFloat64(dl)
				pr.hs = append(pr.hs, hashOf(bf().Add(F, dd)), hashOf(bf().Sub(F, dd)))
			}
		}
	}
	sort.Slice(pr.hs, func(i, j int) bool { return pr.hs[i].Cmp(pr.hs[j]) < 0 })
	out := pr.hs[:0]
	for i, h := range pr.hs {
		if i == 0 || h.Cmp(pr.hs[i-1]) != 0 {
			out = append(out, h)
		}
	}
	pr.hs = out
	pr.js = make([]int64, len(pr.hs))
	for i := range pr.js {
		pr.js[i] = -1
	}
	return pr
}

func toHash(h *big.Int) common.Hash { return common.BigToHash(h) }

// branchOf names the code path of choose a (hash, w, p) input takes.
func branchOf(h *big.Int, w int64, p float64) string {
	if h.Cmp(maxHash) == 0 {
		return "hash=max"
	}
	if h.Sign() == 0 {
		return "hash=0"
	}
	t, _ := new(big.Float).Quo(new(big.Float).SetInt(h), new(big.Float).SetInt(maxHash)).Float64()
	if t > f099 {
		return "mirrored"
	}
	if float64(w)*p < 20 {
		return "forward"
	}
	return "binary"
}

func pclass(p float64) string {
	switch {
	case p > 1:
		return "p>1"
	case p == 1:
		return "p=1"
	}
	return "p<1"
}

// evalQuantile runs choose on one probe and applies the oracle.
func evalQuantile(r *mc.Run, pr *pair, h *big.Int) (j int64, ok bool) {
	w := big.NewInt(pr.W)
	in := QInput{Part: "quantile", W: pr.W, P: fmt.Sprint(pr.PS.P), PBit: pbits(pr.PS.P), Hash: fmt.Sprintf("0x%064x", h)}
	br := branchOf(h, pr.W, pr.PS.P)
	msg, where := mc.CatchStack(func() { j = ucon.VerifC04Choose(toHash(h), w, pr.PS.P) })
	r.Count("quantile_probes", 1)
	r.Count("branch_"+br, 1)
	if msg != "" {
		r.Count("quantile_panics", 1)
		sig := fmt.Sprintf("choose panics (%s, branch=%s): %s", pclass(pr.PS.P), br, msg)
		if pr.PS.P > 1 {
			sig = "choose panics when the declared committee exceeds the total stake (p>1): " + msg
		}
		report(r, mc.Violation{
			Sig:    sig,
			Detail: fmt.Sprintf("choose(hash=%s, w=%d, p=%v [%s]) panicked: %s (at %s); a seat count between 0 and the stake is required for every committee size and total stake", in.Hash, pr.W, pr.PS.P, pr.PS.Name, msg, where),
			Input:  in})
		return -1, false
	}
	if j < 0 || j > pr.W {
		report(r, mc.Violation{
			Sig:    fmt.Sprintf("choose returns a seat count outside [0,stake] (%s, branch=%s)", pclass(pr.PS.P), br),
			Detail: fmt.Sprintf("choose(hash=%s, w=%d, p=%v) = %d", in.Hash, pr.W, pr.PS.P, j),
			Input:  in})
		return j, true
	}
	switch {
	case j == 0:
		r.Count("j_zero", 1)
	case j == pr.W:
		r.Count("j_equals_stake", 1)
	default:
		r.Count("j_interior", 1)
	}
	if pr.d == nil {
		r.Count("p>1_returned", 1)
		return j, true
	}
	t := fracOf(h)
	jlo, jhi := pr.d.accept(t, epsFor(pr.W))
	jex := pr.d.quantile(t)
	if j == jex {
		r.Count("j_is_exact_quantile", 1)
	} else if j >= jlo && j <= jhi {
		r.Count("j_differs_from_exact_within_tolerance", 1)
		var dev float64
		if j > jex {
			dev, _ = bf().Sub(pr.d.cdf(j-1), t).Float64()
		} else {
			dev, _ = bf().Sub(t, pr.d.cdf(j)).Float64()
		}
		noteDeviation(pr.W, dev)
		if dev > eps0 {
			r.Count("float_deviation_above_1e-12_within_stake_scaled_tolerance", 1)
		}
	}
	if jlo != jhi {
		r.Count("probe_within_tolerance_of_a_boundary", 1)
	} else {
		r.Count("probe_with_unique_admissible_seat_count", 1)
	}
	r.Distinct(fmt.Sprintf("q|%d|%s|%d|%s", pr.W, pr.PS.Name, jex, br))
	if j < jlo || j > jhi {
		dir, off := "below", jlo-j
		if j > jhi {
			dir, off = "above", j-jhi
		}
		devMu.Lock()
		if k := fmt.Sprintf("stake %d p %s", pr.W, pr.PS.Name); off > seatOff[k] {
			seatOff[k] = off
		}
		devMu.Unlock()
		report(r, mc.Violation{
			Sig: fmt.Sprintf("choose returns a seat count %s the binomial quantile (%s, branch=%s, regime %s)", dir, pclass(pr.PS.P), br, regime(pr.W, pr.PS.P)),
			Detail: fmt.Sprintf("choose(hash=%s, w=%d, p=%v [%s]) = %d; exact quantile %d, admissible with tolerance %.3g: [%d,%d]; t=%s F(%d)=%s F(%d)=%s",
				in.Hash, pr.W, pr.PS.P, pr.PS.Name, j, jex, epsFloat(pr.W), jlo, jhi, t.Text('g', 30), jex-1, pr.d.cdf(jex-1).Text('g', 30), jex, pr.d.cdf(jex).Text('g', 30)),
			Input: in})
	}
	if tailOracleApplies(pr, br) {
		// regime target > 0.99: exact tails, relative tolerance (tail.go)
		evalTail(r, pr, h, j, br, in)
	}
	return j, true
}

func runQuantile(r *mc.Run) {
	ws, ps := qgrid(r.Quick())
	var pairs []*pair
	for _, w := range ws {
		for _, p := range ps {
			pairs = append(pairs, &pair{W: w, PS: p})
		}
	}
	// build the exact distributions and probe lists (parallel over pairs)
	var mu sync.Mutex
	quick := r.Quick()
	r.ForEach(len(pairs), func(_, i int) {
		b := buildPair(pairs[i].W, pairs[i].PS, quick)
		if len(b.tc) > 0 {
			measureFloatTail(r, b, b.tc)
		}
		mu.Lock()
		pairs[i] = b
		mu.Unlock()
	})
	type probe struct{ pi, hi int }
	var probes []probe
	cells, tcells := 0, 0
	for i, pr := range pairs {
		if pr.hs == nil { // deadline hit while building
			continue
		}
		tcells += len(pr.tc)
		for k := range pr.hs {
			probes = append(probes, probe{i, k})
		}
		if pr.d != nil {
			cells += len(pr.d.F)
		}
	}
	r.SetExtra("quantile_pairs", len(pairs))
	r.SetExtra("quantile_probe_hashes", len(probes))
	r.SetExtra("quantile_exact_cdf_cells_computed", cells)
	r.ForEach(len(probes), func(_, i int) {
		pb := probes[i]
		pr := pairs[pb.pi]
		j, ok := evalQuantile(r, pr, pr.hs[pb.hi])
		if ok {
			pr.js[pb.hi] = j // distinct index per task: no race
		}
		if i%20011 == 0 {
			r.Sample(map[string]interface{}{"part": "quantile", "w": pr.W, "p": pr.PS.Name, "hash": fmt.Sprintf("0x%064x", pr.hs[pb.hi]), "j": j})
		}
	})
	devMu.Lock()
	dv := map[string]string{}
	for w, d := range devMax {
		dv[fmt.Sprint(w)] = fmt.Sprintf("%.3g (tolerance %.3g)", d, epsFloat(w))
	}
	devMu.Unlock()
	r.SetExtra("largest_probe_distance_from_a_boundary_with_a_seat_count_differing_from_exact_by_stake", dv)
	so := map[string]int64{}
	devMu.Lock()
	for k, v := range seatOff {
		so[k] = v
	}
	devMu.Unlock()
	r.SetExtra("largest_seat_count_error_outside_tolerance", so)
	tailExtras(r, tcells)
	// monotone in the hash
	c99 := hashOf(bf().SetFloat64(f099))
	for _, pr := range pairs {
		prev := -1
		for k := range pr.hs {
			if pr.js[k] < 0 {
				continue
			}
			if prev >= 0 {
				r.Count("monotonicity_comparisons", 1)
				if pr.hs[prev].Cmp(c99) > 0 {
					r.Count("upper_tail_monotonicity_comparisons", 1)
				}
				if pr.js[k] < pr.js[prev] {
					report(r, mc.Violation{
						Sig:    fmt.Sprintf("choose is not monotone in the hash (%s, %s -> %s)", pclass(pr.PS.P), branchOf(pr.hs[prev], pr.W, pr.PS.P), branchOf(pr.hs[k], pr.W, pr.PS.P)),
						Detail: fmt.Sprintf("w=%d p=%v: hash %064x gives %d seats but the larger hash %064x gives %d", pr.W, pr.PS.P, pr.hs[prev], pr.js[prev], pr.hs[k], pr.js[k]),
						Input:  QInput{Part: "monotone", W: pr.W, P: fmt.Sprint(pr.PS.P), PBit: pbits(pr.PS.P), Hash: fmt.Sprintf("0x%064x", pr.hs[k]), Prev: fmt.Sprintf("0x%064x", pr.hs[prev])}})
				}
			}
			prev = k
		}
	}
}

// replayQuantile re-evaluates one recorded quantile / monotonicity input.
func replayQuantile(r *mc.Run, in map[string]interface{}) {
	var bits uint64
	fmt.Sscanf(fmt.Sprint(in["pbits"]), "%x", &bits)
	p := math.Float64frombits(bits)
	w := int64(in["w"].(float64))
	parse := func(s string) *big.Int {
		x, _ := new(big.Int).SetString(strings.TrimPrefix(s, "0x"), 16)
		return x
	}
	pr := &pair{W: w, PS: pspec{Name: fmt.Sprint(in["p"]), P: p}}
	if p <= 1 {
		pr.d = newDist(w, bf().SetFloat64(p))
	}
	h := parse(fmt.Sprint(in["hash"]))
	j, ok := evalQuantile(r, pr, h)
	fmt.Printf("choose(hash=%064x, w=%d, p=%v) = %d (returned=%v)\n", h, w, p, j, ok)
	if in["part"] == "monotone" {
		h0 := parse(fmt.Sprint(in["prev_hash"]))
		j0, ok0 := evalQuantile(r, pr, h0)
		fmt.Printf("choose(hash=%064x, w=%d, p=%v) = %d (returned=%v)\n", h0, w, p, j0, ok0)
		if ok && ok0 && j < j0 {
			report(r, mc.Violation{Sig: "choose is not monotone in the hash", Detail: fmt.Sprintf("%d < %d", j, j0)})
		}
	}
}
