// Package c04: sortition selects exactly the binomial quantile and its proofs
// bind all inputs.  Exhaustive enumeration of (a) every quantile cell boundary
// of a (stake, probability) grid, probed from both sides, against an exact
// math/big binomial CDF (upper tail: every tail cell boundary down to 2^-250
// against the exact tails with a relative tolerance, tail.go), and (b) every
// single-field perturbation of honest
// credentials over a fixed key x message x parameter grid.
package c04

import (
	"encoding/json"
	"fmt"
	"sort"
	"sync"

	"github.com/youchainhq/go-youchain/logging"

	"verif/mc"
)

// Violations are collected and, per signature, the one with the smallest
// input (in JSON order) is reported, so that the replay file of a signature
// does not depend on goroutine scheduling.
var (
	colMu sync.Mutex
	col   = map[string]mc.Violation{}
	colK  = map[string]string{}
)

func report(r *mc.Run, v mc.Violation) {
	kb, _ := json.Marshal(v.Input)
	k := fmt.Sprintf("%08d|%s", len(kb), kb)
	colMu.Lock()
	if old, ok := colK[v.Sig]; !ok || k < old {
		col[v.Sig], colK[v.Sig] = v, k
	}
	colMu.Unlock()
}

func flush(r *mc.Run) {
	colMu.Lock()
	defer colMu.Unlock()
	var sigs []string
	for s := range col {
		sigs = append(sigs, s)
	}
	sort.Strings(sigs)
	for _, s := range sigs {
		r.Report(col[s])
	}
}

func Run(r *mc.Run) {
	logging.Root().SetHandler(logging.DiscardHandler())
	r.Level = "exploration"
	if r.Quick() {
		r.SetBudget(150e9)
	} else {
		r.SetBudget(30 * 60e9)
	}
	r.Rule = "quantile: for every (stake, probability) pair of the grid, every quantile cell boundary F(j) of the exact binomial CDF (all j for stake <= 64, else all j with 1e-12 <= F(j) <= 1-1e-12) is turned into hashes floor((F(j) +- d)*2^256), d in {0, 1 ulp, 1e-9, 1e-6, and 4x the float tolerance where that exceeds 1e-10}, plus the hash extremes and the 0.99 branch switch; choose() must return a seat count admissible for the exact CDF, inside [0,stake], monotone in the hash; distinct = (stake, p, exact seat count, code branch).  upper tail (regime target > 0.99, every pair with p <= 1 and n*p*(1-p) <= 2.5e5): hashes 2^256-1-k for k in {0,1,2,3,2^8,2^32,2^64,2^128,2^192,2^200,2^202,2^203,2^210,2^220} and EVERY tail cell boundary: for every j with exact tail Pr(X>j) in [2^-250, 0.01] the hashes 2^256-1-floor(tail(j)*(1+-o)*2^256), o in {0, 1e-12, 1e-9, 1e-6} (relative offsets of the TAIL value, both sides) and the two hash neighbours of the boundary; there the seat count is judged in tail space against the exact 1024-bit tails with a RELATIVE tolerance: tail(j) <= inv*(1+delta) and tail(j-1) >= inv*(1-delta), inv = 1-hash/2^256 exact, delta = max(5e-10, 16*n*ln(n+1)*2^-53) (>= 4x the relative error of the float64 CDF of binomial(n,1-p) measured over all probed cells, recorded under upper_tail_float64_cdf_max_relative_error*).  binding: for every key x message x parameter triple an honest credential from VrfSortition, then every single-field perturbation (other key, each seed bit, index, step, each proof byte +-1, proof length, claimed seats, threshold/stake/total +-1, each priority byte +-1, every other seat count with its own priority) through VrfVerifySortition and VrfVerifyPriority; distinct = rejected perturbation cases.  message level: the same message-carried perturbations through Server.verifyPriority / Server.verifySortition (the functions production hands to the proposal and vote handlers) on a Server over a stub chain reader (one look-back header with the seed, one committed validator set of 8 chamber validators)"
	r.Assume("float64 by design: a seat count is admissible when it is the exact quantile of some t' with |t'-t| <= max(1e-12, 4*n*ln(n)*2^-53) (conditioning of the log-gamma based float64 CDF; 1e-12 up to stake ~400)")
	r.Assume("upper tail (target > 0.99): the VRF output as a fraction is read both ways, output/2^256 (statement) and output/(2^256-1) (code: the all-ones output is exactly 1 and selects the whole stake); a seat count is admissible when it is the exact quantile, within the relative tail tolerance, under either reading; the readings differ by less than one unit of the 256-bit grid and give different seat counts only for the last few hashes below 2^256-1 (counted)")
	r.Assume("the exact-tail oracle is restricted to n*p*(1-p) <= 2.5e5: beyond that the float64 CDF has no relative accuracy (known finding), only the absolute oracle applies there")
	r.Assume("the priority is defined over the sub-user indices 0..j (j+1 hashes), as the implementation and every node compute it")
	runQuantile(r)
	runBinding(r)
	runServer(r)
	flush(r)
}

func Replay(r *mc.Run, v *mc.Violation) {
	logging.Root().SetHandler(logging.DiscardHandler())
	in, ok := v.Input.(map[string]interface{})
	if !ok {
		fmt.Println("replay file has no input")
		return
	}
	switch in["part"] {
	case "quantile", "monotone":
		replayQuantile(r, in)
	case "binding":
		replayBinding(r, in)
	case "server":
		replayServer(r, in)
	}
	flush(r)
}
