// Package c04: sortition selects exactly the binomial quantile and its proofs
// bind all inputs.  Exhaustive enumeration of (a) every quantile cell boundary
// of a (stake, probability) grid, probed from both sides, against an exact
// math/big binomial CDF (upper tail: every tail cell boundary down to 2^-250
// against the exact tails with a relative tolerance, tail.go), and (b) every
// single-field perturbation of honest
// credentials over a fixed key x message x parameter grid, (c) for every seat
// index of a boundary alphabet a witness credential whose largest seat hash is
// at that index, judged against a reference priority written from the
// definition (priority.go), and (d) the algebraic forgery for every input of
// the VRF challenge that can be solved for, plus replayed and degenerate
// proofs (forgery.go), and (e) the real SortitionManager — the cache of the
// node's own credentials — explored as a state machine over every order of
// lookups and clears across a round switch, every answer judged against the
// sortition of exactly the asked (round, round index, step) (stepview.go).
package c04

import (
	"encoding/json"
	"fmt"
	"sort"
	"strings"
	"sync"
	"time"

	"github.com/youchainhq/go-youchain/logging"

	"verif/mc"
)

// Violations are collected and, per signature, the one with the smallest
// input (in JSON order) is reported, so that the replay file of a signature
// does not depend on goroutine scheduling.
var (
	colMu sync.Mutex
	col   = map[string]mc.Violation{}
	colK  = map[string]string{}
)

func report(r *mc.Run, v mc.Violation) {
	kb, _ := json.Marshal(v.Input)
	k := fmt.Sprintf("%08d|%s", len(kb), kb)
	colMu.Lock()
	if old, ok := colK[v.Sig]; !ok || k < old {
		col[v.Sig], colK[v.Sig] = v, k
	}
	colMu.Unlock()
}

func flush(r *mc.Run) {
	colMu.Lock()
	defer colMu.Unlock()
	var sigs []string
	for s := range col {
		sigs = append(sigs, s)
	}
	sort.Strings(sigs)
	for _, s := range sigs {
		r.Report(col[s])
	}
}

func Run(r *mc.Run) {
	logging.Root().SetHandler(logging.DiscardHandler())
	r.Level = "exploration"
	if r.Quick() {
		r.SetBudget(210e9)
	} else {
		r.SetBudget(30 * 60e9)
	}
	r.Rule = "quantile: for every (stake, probability) pair of the grid, every quantile cell boundary F(j) of the exact binomial CDF (all j for stake <= 64, else all j with 1e-12 <= F(j) <= 1-1e-12) is turned into hashes floor((F(j) +- d)*2^256), d in {0, 1 ulp, 1e-9, 1e-6, and 4x the float tolerance where that exceeds 1e-10}, plus the hash extremes and the 0.99 branch switch; choose() must return a seat count admissible for the exact CDF, inside [0,stake], monotone in the hash; distinct = (stake, p, exact seat count, code branch).  upper tail (regime target > 0.99, every pair with p <= 1 and n*p*(1-p) <= 2.5e5): hashes 2^256-1-k for k in {0,1,2,3,2^8,2^32,2^64,2^128,2^192,2^200,2^202,2^203,2^210,2^220} and EVERY tail cell boundary: for every j with exact tail Pr(X>j) in [2^-250, 0.01] the hashes 2^256-1-floor(tail(j)*(1+-o)*2^256), o in {0, 1e-12, 1e-9, 1e-6} (relative offsets of the TAIL value, both sides) and the two hash neighbours of the boundary; there the seat count is judged in tail space against the exact 1024-bit tails with a RELATIVE tolerance: tail(j) <= inv*(1+delta) and tail(j-1) >= inv*(1-delta), inv = 1-hash/2^256 exact, delta = max(5e-10, 16*n*ln(n+1)*2^-53) (>= 4x the relative error of the float64 CDF of binomial(n,1-p) measured over all probed cells, recorded under upper_tail_float64_cdf_max_relative_error*).  binding: for every key x message x parameter triple an honest credential from VrfSortition, then every single-field perturbation (other key, each seed bit, index, step, each proof byte +-1, proof length, claimed seats, threshold/stake/total +-1, each priority byte +-1, every other seat count with its own priority) through VrfVerifySortition and VrfVerifyPriority; distinct = rejected perturbation cases.  message level: the same message-carried perturbations through Server.verifyPriority / Server.verifySortition (the functions production hands to the proposal and vote handlers) on a Server over a stub chain reader (one look-back header with the seed, one committed validator set of 8 chamber validators).  priority: for every seat index t of {0..1024, 256k (k<=16), 8192, 16384, 32768, 65280, 65535, 65536, 65537, 131072; thorough adds 8191, 8193, 65279, 65281, 65792, 131071, 131073, every 256k up to 131072 and 2^24-1, 2^24} the first VRF output of a fixed enumeration whose largest seat hash Keccak-256(output || minimal big-endian seat index) over 0..t is at t, then VrfComputePriority(output, j) for j = t (and j = t-1, t+1 when t > 1024 or the low byte of t is 0x00, 0x01 or 0xff) against the reference maximum; for every (committee/stake/total, t) of a table with stakes 255, 256, 257, 511, 512, 513, 600, 1024, 65535, 65536, 65537 (thorough: 131072) and t among 255, 256, 257, 511, 512, 513, 768, 1024, 65280, 65536 (thorough: also 32768, 65535, 65537, 131072; three keys per pair up to stake 1024) (committee = total stake, so every unit is a seat; also committee > total and two p < 1 triples) the first round index whose honest VRF output has its largest seat hash at t: the priority the honest prover emits must be that largest hash, VrfVerifyPriority must accept it and must reject the hash of every other seat index 0..j+2 (seat counts up to 600, thorough 1100; above: the boundary indexes 0..3, 254..258, 511..513, every 256k <= 4096, the second largest and its alias >>8, t-1, t+1, t>>8, t>>16, j-2..j+2; above 4096 seats: 0, 1, 255, 256, 65535, 65536, j-1, j, j+1, t>>8, t>>16, the second largest); the same through Server.verifyPriority on a validator set with stakes 255, 256, 257, 512, 513, 600, 768, 1024 and proposer committee = total stake; distinct = witness seat indexes and witness credentials.  forgery: for every key x message x input of the VRF challenge that can be solved for (VRF point, first commitment, second commitment, public key) x free point x scalar choice the proof that verifies if exactly that input were missing from the challenge (everything else fixed first, challenge derived, the unbound input solved from the verification equations), checked against the weakened reference verifier (must pass) and offered to ProofToHash (must reject, or return the honest output), to VrfVerifySortition / VrfVerifyPriority under every parameter triple with the seat counts the forged output would win, and to Server.verifyPriority / Server.verifySortition; control: the honest proof computed from the specified full transcript must be accepted with the honest output; honest proofs replayed for every other message; honest proofs with s or t replaced by 0, N-1, N, N+1, 2^256-1 (reject, never panic); distinct = rejected forgeries.  stepview (the node's OWN credentials): the real SortitionManager, wired to the look-back functions of a Server exactly as StartMining wires it, over a chain reader with one header per number (its own seed; validator set n mod 3 of three sets, so the node's stake, the total and, for key 7, the membership differ per round), is explored as a state machine: ops = the lookups production makes, isProposer(round, index) (Server.Prepare) and isValidator(round, index, step, look-back kind) for prevote / precommit / nextindex / certificate (Voter.vote; certificate with the certificate look-back), and ClearStepView(round) (Server.clearData on a round switch), over rounds {R, R+1, R+2} (R+1 a certificate round) x round indexes {1, 2}, in EVERY order (a round asked before it is cleared for, an older round asked after the switch, the same key twice, the same clear twice, clears going back); BFS over the states (state = last cleared round + what GetStepView exposes under each of the 30 keys of the domain, content without the randomised proof) until the frontier is empty for the sub-alphabets 'switch' (R, R+1 x indexes 1, 2 x proposer, prevote), 'cert' (R, R+1 x index 1 x proposer, prevote, certificate) (thorough: also 'steps' = R, R+1 x index 1 x all five lookups, 'mid' = 3 rounds x index 1 x proposer, prevote, certificate), to depth 3 (thorough 4) for 'wide' (3 rounds x 2 indexes x proposer, prevote, certificate = 21 ops) and to depth 2 (thorough 3) for the full alphabet of 33 ops, plus EVERY op sequence of length 3 on switch / cert and 2 on the full alphabet (thorough 4 and 3) without state merging; nodes: key 0 (always seats; every alphabet), and on the saturated sub-alphabets also key 2 (stake 5, 2, 1: zero-seat answers) and key 7 (not registered in the look-back table of some rounds) (thorough: also key 1; the evidence lists every (alphabet, node) exploration under stepview_explorations).  Oracle per lookup, derived without the Server: which header carries the seed and which the stake table of exactly the asked round and look-back kind, the node's stake / total / committee size there, then the honest prover path VrfSortition on exactly these inputs (its seat count checked against the exact binomial quantile), the reference priority, and VRF(seed || round || index) for the proposer's block seed: the answer must have that role flag, seat count, priority, block seed, committee size, its proof must verify under VrfVerifyPriority / VrfVerifySortition with these inputs and be accepted by Server.verifyPriority / Server.verifySortition for a message of that round; state invariant after every op: whatever GetStepView exposes under a key is the sortition result of that key (a view never survives into another round, round index or step) and a cached proof is byte-identical to the one handed out"
	r.Assume("float64 by design: a seat count is admissible when it is the exact quantile of some t' with |t'-t| <= max(1e-12, 4*n*ln(n)*2^-53) (conditioning of the log-gamma based float64 CDF; 1e-12 up to stake ~400)")
	r.Assume("upper tail (target > 0.99): the VRF output as a fraction is read both ways, output/2^256 (statement) and output/(2^256-1) (code: the all-ones output is exactly 1 and selects the whole stake); a seat count is admissible when it is the exact quantile, within the relative tail tolerance, under either reading; the readings differ by less than one unit of the 256-bit grid and give different seat counts only for the last few hashes below 2^256-1 (counted)")
	r.Assume("the exact-tail oracle is restricted to n*p*(1-p) <= 2.5e5: beyond that the float64 CDF has no relative accuracy (known finding), only the absolute oracle applies there")
	r.Assume("the priority is defined over the sub-user indices 0..j (j+1 hashes), as the implementation and every node compute it")
	r.Assume("forgery: the generator and the hashed message point are not carried by a proof (constant / recomputed by the verifier from seed, step, round index), so no proof can be solved for them; their binding is probed by replaying honest proofs across messages and by the single-field perturbations of the binding part")
	r.Assume("stepview: the proof of a credential is randomised, so a view is identified by its content (seat count, priority, block seed, committee size, kind); every proof is verified when the lookup that returns it is the explored transition; views recreated while a shorter path is replayed are checked by content and by staying unchanged")
	r.Assume("stepview: the manager is driven through its own methods in arbitrary order (that is what the three goroutines of the engine can produce); the order constraints of one goroutine (a voter asks prevote before precommit) are not imposed")
	walls := map[string]float64{}
	timed := func(name string, f func(*mc.Run)) {
		t0 := time.Now()
		f(r)
		walls[name] = float64(time.Since(t0).Round(100*time.Millisecond)) / 1e9
	}
	timed("quantile", runQuantile)
	timed("binding", runBinding)
	timed("server", runServer)
	timed("forgery", runForgery)
	timed("priority", runPriority)
	timed("stepview", runStepView)
	r.SetExtra("part_wall_seconds", walls)
	flush(r)
}

func Replay(r *mc.Run, v *mc.Violation) {
	logging.Root().SetHandler(logging.DiscardHandler())
	if strings.HasPrefix(v.System, "stepview") {
		replayStepView(r, v)
		return
	}
	in, ok := v.Input.(map[string]interface{})
	if !ok {
		fmt.Println("replay file has no input")
		return
	}
	switch in["part"] {
	case "quantile", "monotone":
		replayQuantile(r, in)
	case "binding":
		replayBinding(r, in)
	case "server":
		replayServer(r, in)
	case "priority":
		replayPriority(r, in)
	case "forgery":
		replayForgery(r, in)
	}
	flush(r)
}
