package c04

import (
	"crypto/ecdsa"
	"fmt"
	"math/big"
	"sort"
	"sync"

	"golang.org/x/crypto/sha3"

	"github.com/youchainhq/go-youchain/common"
	"github.com/youchainhq/go-youchain/consensus/ucon"
	"github.com/youchainhq/go-youchain/crypto"
	"github.com/youchainhq/go-youchain/crypto/vrf"
	secp256k1VRF "github.com/youchainhq/go-youchain/crypto/vrf/secp256k1"

	"verif/mc"
)

// ---- binding part: every single-field perturbation of an honest credential --

const nKeys = 8

type keyT struct {
	ec *ecdsa.PrivateKey
	sk vrf.PrivateKey
	pk vrf.PublicKey
}

var (
	keys     []keyT
	keysOnce sync.Once
)

func loadKeys() {
	keysOnce.Do(func() {
		for i := 1; i <= nKeys; i++ {
			k, err := crypto.ToECDSA(common.LeftPadBytes([]byte{0xc0, byte(i)}, 32))
			if err != nil {
				panic(err)
			}
			sk, err := secp256k1VRF.NewVRFSigner(k)
			if err != nil {
				panic(err)
			}
			pk, err := secp256k1VRF.NewVRFVerifier(&k.PublicKey)
			if err != nil {
				panic(err)
			}
			keys = append(keys, keyT{k, sk, pk})
		}
	})
}

type msgT struct {
	Seed  common.Hash
	Index uint32
	Step  uint32
}

var msgs = []msgT{
	{common.BytesToHash(keccak([]byte("c04-seed-0"))), 1, 1},
	{common.BytesToHash(keccak([]byte("c04-seed-1"))), 7, 2},
	{common.Hash{}, 0, 3},
	{common.HexToHash("0xffffffffffffffffffffffffffffffffffffffffffffffffffffffffffffffff"), 0xffffffff, 5},
}

type cfgT struct {
	Name  string
	Th    uint64
	Stake int64
	Total int64
}

// committee/stake/total grids: seats ~ 500, ~ 6.5, ~ 0.65 (0, 1 or 2 seats),
// all seats (committee = total), and almost never a seat.
var cfgs = []cfgT{
	{"2000/1000/4000", 2000, 1000, 4000},
	{"26/1000/4000", 26, 1000, 4000},
	{"26/100/4000", 26, 100, 4000},
	{"4000/5/4000", 4000, 5, 4000},
	{"26/10/4000", 26, 10, 4000},
}

func keccak(b []byte) []byte {
	h := sha3.NewLegacyKeccak256()
	h.Write(b)
	return h.Sum(nil)
}

// oraclePriority: the largest Keccak-256(value || minimal-big-endian(i)) over
// the sub-user indices i = 0..j (the indexing the implementation defines).
func oraclePriority(value common.Hash, j uint32) common.Hash {
	var best []byte
	for i := uint64(0); i <= uint64(j); i++ {
		h := keccak(append(append([]byte{}, value[:]...), new(big.Int).SetUint64(i).Bytes()...))
		if best == nil || bytesGreater(h, best) {
			best = h
		}
	}
	return common.BytesToHash(best)
}

func bytesGreater(a, b []byte) bool {
	for i := range a {
		if a[i] != b[i] {
			return a[i] > b[i]
		}
	}
	return false
}

// args is one complete argument vector of VrfVerifySortition / VrfVerifyPriority.
type args struct {
	key   int
	seed  common.Hash
	index uint32
	step  uint32
	proof []byte
	seats uint32
	th    uint64
	stake int64
	total int64
	prio  common.Hash
}

type cred struct {
	ki, mi, ci int
	value      common.Hash
	j          uint32
	honest     args
}

// pert is one named single-field perturbation.  kind: vrf (key/seed/index/
// step/proof: must be rejected), seats (claimed seat count: must be rejected),
// param (threshold/stake/total: accepted iff the recomputed seat count is
// unchanged), prio (priority only).
type pert struct {
	name  string
	kind  string
	apply func(a *args)
}

func perturbations(c *cred, quick bool) []pert {
	var ps []pert
	add := func(name, kind string, f func(a *args)) { ps = append(ps, pert{name, kind, f}) }
	for k := 0; k < nKeys; k++ {
		if k != c.ki {
			k := k
			add(fmt.Sprintf("key:%d", k), "vrf", func(a *args) { a.key = k })
		}
	}
	// quick tier: the VRF-level perturbations do not depend on the parameter
	// triple; every seed bit / proof byte is walked on triples 0 and 2, the
	// other triples get the first, middle and last positions only
	sparse := quick && c.ci != 0 && c.ci != 2
	for b := 0; b < 256; b++ {
		b := b
		if sparse && b != 0 && b != 128 && b != 255 {
			continue
		}
		add(fmt.Sprintf("seed-bit:%d", b), "vrf", func(a *args) { a.seed[b/8] ^= 1 << uint(b%8) })
	}
	add("index+1", "vrf", func(a *args) { a.index++ })
	add("index-1", "vrf", func(a *args) { a.index-- })
	for s := uint32(0); s <= 6; s++ {
		if s != c.honest.step {
			s := s
			add(fmt.Sprintf("step:%d", s), "vrf", func(a *args) { a.step = s })
		}
	}
	if c.honest.index != c.honest.step {
		add("index<->step", "vrf", func(a *args) { a.index, a.step = a.step, a.index })
	}
	for i := 0; i < len(c.honest.proof); i++ {
		i := i
		if sparse && i != 0 && i != 31 && i != 32 && i != 63 && i != 64 && i != 65 && i != 128 {
			continue
		}
		add(fmt.Sprintf("proof-byte:%d:+1", i), "vrf", func(a *args) { a.proof[i]++ })
		add(fmt.Sprintf("proof-byte:%d:-1", i), "vrf", func(a *args) { a.proof[i]-- })
	}
	add("proof-truncated", "vrf", func(a *args) { a.proof = a.proof[:len(a.proof)-1] })
	add("proof-extended", "vrf", func(a *args) { a.proof = append(a.proof, 0) })
	add("proof-empty", "vrf", func(a *args) { a.proof = nil })

	// claimed seat count
	seen := map[uint32]bool{c.j: true}
	seat := func(k uint32) {
		if !seen[k] {
			seen[k] = true
			add(fmt.Sprintf("seats=%d", k), "seats", func(a *args) { a.seats = k })
		}
	}
	seat(c.j + 1)
	seat(c.j - 1)
	seat(c.j + 2)
	seat(c.j - 2)
	seat(0)
	seat(1)
	seat(uint32(c.honest.stake))
	seat(uint32(c.honest.stake) + 1)
	seat(0xffffffff)

	// declared committee size, stake, total stake
	add("threshold+1", "param", func(a *args) { a.th++ })
	add("threshold-1", "param", func(a *args) { a.th-- })
	add("stake+1", "param", func(a *args) { a.stake++ })
	add("stake-1", "param", func(a *args) { a.stake-- })
	add("total+1", "param", func(a *args) { a.total++ })
	add("total-1", "param", func(a *args) { a.total-- })

	// priority only
	for i := 0; i < 32; i++ {
		i := i
		add(fmt.Sprintf("prio-byte:%d:+1", i), "prio", func(a *args) { a.prio[i]++ })
		add(fmt.Sprintf("prio-byte:%d:-1", i), "prio", func(a *args) { a.prio[i]-- })
	}
	if c.j >= 1 {
		add("prio-over-fewer-seats", "prio-recomputed", func(a *args) { a.prio = oraclePriority(c.value, c.j-1) })
	}
	add("prio-over-more-seats", "prio-recomputed", func(a *args) { a.prio = oraclePriority(c.value, c.j+1) })
	// every other seat count, claimed together with the priority that count would give
	limit := uint32(c.honest.stake) + 1
	if quick && limit > 65 {
		limit = 65
	}
	ks := map[uint32]bool{}
	for k := uint32(0); k <= limit; k++ {
		ks[k] = true
	}
	for _, k := range []uint32{c.j - 2, c.j - 1, c.j + 1, c.j + 2, uint32(c.honest.stake), uint32(c.honest.stake) + 1} {
		if k < 100000 {
			ks[k] = true
		}
	}
	delete(ks, c.j)
	var kl []int
	for k := range ks {
		kl = append(kl, int(k))
	}
	sort.Ints(kl)
	for _, k := range kl {
		k := uint32(k)
		add(fmt.Sprintf("seats+prio=%d", k), "seats+prio", func(a *args) { a.seats = k; a.prio = oraclePriority(c.value, k) })
	}
	return ps
}

func cloneArgs(a args) args {
	a.proof = append([]byte{}, a.proof...)
	return a
}

// BInput is the replayable input of a binding violation.
type BInput struct {
	Part string `json:"part"`
	Key  int    `json:"key"`
	Msg  int    `json:"msg"`
	Cfg  int    `json:"cfg"`
	Fn   string `json:"fn"`
	Pert string `json:"pert"`
}

func honestCred(ki, mi, ci int) (*cred, string) {
	loadKeys()
	m, cf := msgs[mi], cfgs[ci]
	var c *cred
	msg := mc.Catch(func() {
		value, proof, j := ucon.VrfSortition(keys[ki].sk, m.Seed, m.Index, m.Step, cf.Th, big.NewInt(cf.Stake), big.NewInt(cf.Total))
		c = &cred{ki: ki, mi: mi, ci: ci, value: value, j: j}
		c.honest = args{key: ki, seed: m.Seed, index: m.Index, step: m.Step, proof: proof, seats: j, th: cf.Th, stake: cf.Stake, total: cf.Total}
	})
	return c, msg
}

func callSortition(a args) (ok bool, err error, pmsg string) {
	pmsg = mc.Catch(func() {
		ok, err = ucon.VrfVerifySortition(keys[a.key].pk, a.seed, a.index, a.step, a.proof, a.seats, a.th, big.NewInt(a.stake), big.NewInt(a.total))
	})
	return
}

func callPriority(a args) (ok bool, err error, pmsg string) {
	pmsg = mc.Catch(func() {
		ok, err = ucon.VrfVerifyPriority(keys[a.key].pk, a.seed, a.index, a.step, a.proof, a.prio, a.seats, a.th, big.NewInt(a.stake), big.NewInt(a.total))
	})
	return
}

// distCache: exact distributions for (stake, threshold/total).
var (
	dcMu sync.Mutex
	dc   = map[string]*dist{}
)

func exactDist(stake int64, th uint64, total int64) *dist {
	key := fmt.Sprintf("%d|%d|%d", stake, th, total)
	dcMu.Lock()
	d, ok := dc[key]
	dcMu.Unlock()
	if ok {
		return d
	}
	p := bf().Quo(bf().SetUint64(th), bfInt(total))
	d = newDist(stake, p)
	dcMu.Lock()
	dc[key] = d
	dcMu.Unlock()
	return d
}

// seatInterval returns the seat counts the exact oracle admits for this VRF
// value under the given parameters (ok=false: no distribution, p > 1).
func seatInterval(value common.Hash, stake int64, th uint64, total int64) (jlo, jhi int64, ok bool) {
	if total <= 0 || stake < 0 || th > uint64(total) {
		return 0, 0, false
	}
	d := exactDist(stake, th, total)
	t := fracOf(new(big.Int).SetBytes(value[:]))
	jlo, jhi = d.accept(t, epsFor(stake))
	return jlo, jhi, true
}

func sigFn(fn string) string {
	if fn == "sortition" {
		return "VrfVerifySortition"
	}
	return "VrfVerifyPriority"
}

// pertClass strips the position from a perturbation name for the signature.
func pertClass(name string) string {
	for i, c := range name {
		if c == ':' || c == '=' {
			return name[:i]
		}
	}
	return name
}

// evalBinding evaluates one (credential, verifier, perturbation) case.
func evalBinding(r *mc.Run, c *cred, fn string, p *pert) {
	a := cloneArgs(c.honest)
	a.prio = oraclePriority(c.value, c.j)
	p.apply(&a)
	in := BInput{Part: "binding", Key: c.ki, Msg: c.mi, Cfg: c.ci, Fn: fn, Pert: p.name}
	var ok bool
	var err error
	var pmsg string
	if fn == "sortition" {
		ok, err, pmsg = callSortition(a)
	} else {
		ok, err, pmsg = callPriority(a)
	}
	r.Count("binding_cases", 1)
	desc := fmt.Sprintf("key %d, message %d (index=%d step=%d), committee/stake/total %s, honest seats %d, perturbation %s", c.ki, c.mi, msgs[c.mi].Index, msgs[c.mi].Step, cfgs[c.ci].Name, c.j, p.name)
	if pmsg != "" {
		r.Count("binding_panics", 1)
		sig := fmt.Sprintf("%s panics on a perturbed credential (%s): %s", sigFn(fn), pertClass(p.name), pmsg)
		if a.th > uint64(a.total) {
			sig = fmt.Sprintf("%s panics when the declared committee exceeds the total stake (p>1): %s", sigFn(fn), pmsg)
		}
		report(r, mc.Violation{
			Sig:    sig,
			Detail: desc + ": " + pmsg, Input: in})
		return
	}
	accepted := ok && err == nil
	if ok && err != nil {
		report(r, mc.Violation{Sig: sigFn(fn) + " returns true together with an error", Detail: desc + ": " + err.Error(), Input: in})
	}
	switch p.kind {
	case "vrf", "seats", "prio", "seats+prio":
		if accepted {
			report(r, mc.Violation{
				Sig:    fmt.Sprintf("%s accepts a credential with perturbed %s", sigFn(fn), pertClass(p.name)),
				Detail: desc + ": accepted", Input: in})
		} else {
			r.Count("rejected_"+p.kind, 1)
			r.Distinct(fmt.Sprintf("b|%d|%d|%d|%s|%s", c.ki, c.mi, c.ci, fn, p.name))
		}
	case "prio-recomputed":
		want := a.prio == oraclePriority(c.value, c.j) && (fn == "priority")
		if accepted != want {
			report(r, mc.Violation{
				Sig:    fmt.Sprintf("%s: wrong verdict for a priority computed over another seat count (%s)", sigFn(fn), p.name),
				Detail: fmt.Sprintf("%s: accepted=%v, priority equals the honest one=%v", desc, accepted, want), Input: in})
		} else if accepted {
			r.Count("accepted_prio_same_maximum", 1)
		} else {
			r.Count("rejected_prio_other_maximum", 1)
			r.Distinct(fmt.Sprintf("b|%d|%d|%d|%s|%s", c.ki, c.mi, c.ci, fn, p.name))
		}
	case "param":
		jlo, jhi, has := seatInterval(c.value, a.stake, a.th, a.total)
		if !has {
			// p > 1: no seat count is defined; the verifier must not accept and must not crash (crash handled above)
			r.Count("param_perturbation_without_distribution", 1)
			return
		}
		minSeats := int64(1)
		if fn == "priority" {
			minSeats = 0 // zero-seat acceptance is judged separately on the honest credential
		}
		s := int64(a.seats)
		mustAccept := jlo == jhi && s == jlo && s >= minSeats
		mustReject := s < jlo || s > jhi || s < minSeats
		switch {
		case mustAccept && !accepted:
			report(r, mc.Violation{
				Sig:    fmt.Sprintf("%s rejects a credential whose seat count is unchanged under perturbed %s", sigFn(fn), pertClass(p.name)),
				Detail: fmt.Sprintf("%s: exact seat count %d, rejected: %v", desc, jlo, err), Input: in})
		case mustReject && accepted:
			report(r, mc.Violation{
				Sig:    fmt.Sprintf("%s accepts a credential whose seat count changed under perturbed %s", sigFn(fn), pertClass(p.name)),
				Detail: fmt.Sprintf("%s: exact seat interval [%d,%d], claimed %d, accepted", desc, jlo, jhi, s), Input: in})
		case accepted:
			r.Count("param_perturbation_accepted_same_seats", 1)
		default:
			r.Count("param_perturbation_rejected_seats_changed", 1)
			r.Distinct(fmt.Sprintf("b|%d|%d|%d|%s|%s", c.ki, c.mi, c.ci, fn, p.name))
		}
	}
}

// checkHonest judges the unperturbed credential.
func checkHonest(r *mc.Run, c *cred) {
	cf := cfgs[c.ci]
	in := BInput{Part: "binding", Key: c.ki, Msg: c.mi, Cfg: c.ci, Fn: "honest", Pert: "none"}
	desc := fmt.Sprintf("key %d, message %d, committee/stake/total %s, seats %d", c.ki, c.mi, cf.Name, c.j)
	r.Count("honest_credentials", 1)
	// the prover's seat count is the exact quantile of its VRF value
	jlo, jhi, _ := seatInterval(c.value, cf.Stake, cf.Th, cf.Total)
	if int64(c.j) < jlo || int64(c.j) > jhi {
		report(r, mc.Violation{Sig: "VrfSortition returns a seat count that is not the binomial quantile of its VRF value",
			Detail: fmt.Sprintf("%s: exact interval [%d,%d]", desc, jlo, jhi), Input: in})
	}
	// evaluating again gives the same value and seat count (the proof is randomised)
	c2, msg := honestCred(c.ki, c.mi, c.ci)
	if msg != "" || c2.value != c.value || c2.j != c.j {
		report(r, mc.Violation{Sig: "VrfSortition is not a function of (key, seed, index, step, parameters)", Detail: desc, Input: in})
	}
	a := cloneArgs(c.honest)
	a.prio = oraclePriority(c.value, c.j)
	if got := ucon.VrfComputePriority(c.value, c.j); got != a.prio {
		report(r, mc.Violation{Sig: "VrfComputePriority is not the largest hash over the sub-user indices 0..j",
			Detail: fmt.Sprintf("%s: got %x want %x", desc, got, a.prio), Input: in})
	}
	ok, err, pmsg := callSortition(a)
	if pmsg != "" {
		report(r, mc.Violation{Sig: "VrfVerifySortition panics on an honest credential: " + pmsg, Detail: desc, Input: in})
	} else if c.j >= 1 {
		r.Count("honest_sortition_accepted", 1)
		if !ok {
			r.Count("honest_sortition_accepted", -1)
			report(r, mc.Violation{Sig: "VrfVerifySortition rejects an honest credential", Detail: fmt.Sprintf("%s: %v", desc, err), Input: in})
		}
	} else {
		r.Count("honest_zero_seats_sortition_rejected", 1)
		if ok {
			r.Count("honest_zero_seats_sortition_rejected", -1)
			report(r, mc.Violation{Sig: "VrfVerifySortition accepts a zero-seat credential", Detail: desc, Input: in})
		}
	}
	ok, err, pmsg = callPriority(a)
	if pmsg != "" {
		report(r, mc.Violation{Sig: "VrfVerifyPriority panics on an honest credential: " + pmsg, Detail: desc, Input: in})
	} else if c.j >= 1 {
		r.Count("honest_priority_accepted", 1)
		if !ok {
			r.Count("honest_priority_accepted", -1)
			report(r, mc.Violation{Sig: "VrfVerifyPriority rejects an honest credential", Detail: fmt.Sprintf("%s: %v", desc, err), Input: in})
		}
	} else {
		r.Count("zero_seat_priority_cases", 1)
		if ok {
			report(r, mc.Violation{
				Sig:    "VrfVerifyPriority accepts a zero-seat credential (SubUsers=0, j=0): a validator that won no seat has a verifying proposer priority",
				Detail: fmt.Sprintf("%s: VrfVerifyPriority(proof, priority=keccak(value||<empty>), SubUsers=0) = true; VrfVerifySortition rejects the same credential (\"not a validator\")", desc),
				Input:  in})
		}
	}
}

type btask struct {
	c  *cred
	fn string
	p  *pert
}

func runBinding(r *mc.Run) {
	loadKeys()
	var creds []*cred
	var mu sync.Mutex
	n := nKeys * len(msgs) * len(cfgs)
	all := make([]*cred, n)
	r.ForEach(n, func(_, i int) {
		ki, mi, ci := i%nKeys, (i/nKeys)%len(msgs), i/(nKeys*len(msgs))
		c, msg := honestCred(ki, mi, ci)
		if msg != "" {
			report(r, mc.Violation{Sig: "VrfSortition panics: " + msg, Detail: fmt.Sprintf("key %d msg %d cfg %s", ki, mi, cfgs[ci].Name),
				Input: BInput{Part: "binding", Key: ki, Msg: mi, Cfg: ci, Fn: "honest", Pert: "none"}})
			return
		}
		mu.Lock()
		all[i] = c
		mu.Unlock()
	})
	seatHist := map[string]int{}
	for _, c := range all {
		if c != nil {
			creds = append(creds, c)
			switch {
			case c.j == 0:
				seatHist["0"]++
			case c.j <= 2:
				seatHist["1-2"]++
			case int64(c.j) == cfgs[c.ci].Stake:
				seatHist["all"]++
			default:
				seatHist["3+"]++
			}
		}
	}
	r.SetExtra("honest_seat_count_histogram", seatHist)
	r.ForEach(len(creds), func(_, i int) { checkHonest(r, creds[i]) })
	var tasks []btask
	for _, c := range creds {
		ps := perturbations(c, r.Quick())
		for i := range ps {
			p := &ps[i]
			if p.kind == "vrf" || p.kind == "seats" || p.kind == "param" {
				tasks = append(tasks, btask{c, "sortition", p})
			}
			tasks = append(tasks, btask{c, "priority", p})
		}
	}
	r.SetExtra("binding_perturbation_cases", len(tasks))
	r.ForEach(len(tasks), func(_, i int) {
		t := tasks[i]
		evalBinding(r, t.c, t.fn, t.p)
		if i%40009 == 0 {
			r.Sample(map[string]interface{}{"part": "binding", "key": t.c.ki, "msg": t.c.mi, "cfg": cfgs[t.c.ci].Name, "seats": t.c.j, "fn": t.fn, "perturbation": t.p.name})
		}
	})
}

func replayBinding(r *mc.Run, in map[string]interface{}) {
	ki, mi, ci := int(in["key"].(float64)), int(in["msg"].(float64)), int(in["cfg"].(float64))
	c, msg := honestCred(ki, mi, ci)
	if msg != "" {
		report(r, mc.Violation{Sig: "VrfSortition panics: " + msg})
		return
	}
	fmt.Printf("honest credential: key %d msg %d cfg %s value %x seats %d\n", ki, mi, cfgs[ci].Name, c.value, c.j)
	fn, pn := fmt.Sprint(in["fn"]), fmt.Sprint(in["pert"])
	if fn == "honest" {
		checkHonest(r, c)
		return
	}
	ps := perturbations(c, false)
	for i := range ps {
		if ps[i].name == pn {
			evalBinding(r, c, fn, &ps[i])
			return
		}
	}
	fmt.Println("perturbation not found:", pn)
}
