package c04

import (
	"math/big"
	"sort"
	"sync"
)

// Exact binomial CDF oracle in math/big, independent of the float64 / gonum
// code under test.

const prec = 1024 // mantissa bits of every oracle number

// weights smaller than 2^-cutBits relative to the mode are dropped (their total
// mass is below n*2^-cutBits, i.e. invisible at any tolerance used here).
const cutBits = 900

func bf() *big.Float { return new(big.Float).SetPrec(prec) }

func bfInt(i int64) *big.Float { return bf().SetInt64(i) }

var (
	fZero  = bf()
	fOne   = bfInt(1)
	two256 = bf().SetInt(new(big.Int).Lsh(big.NewInt(1), 256))
)

// dist is the exact distribution Binomial(n, p): F[i] = Pr(X <= lo+i).
// CDF(j) is 0 below lo (up to the cut) and 1 at and above lo+len(F)-1.
type dist struct {
	n   int64
	lo  int64
	F   []*big.Float
	pmf []*big.Float // pmf[i] = Pr(X = lo+i)

	tOnce sync.Once
	T     []*big.Float // upper tails, T[i] = Pr(X > lo+i), built on first use (tail.go)
}

// newDist builds the distribution for success probability p (0 < p; p >= 1 is
// the degenerate distribution with all mass at n).
func newDist(n int64, p *big.Float) *dist {
	d := &dist{n: n}
	if p.Cmp(fOne) >= 0 {
		d.lo = n
		d.F = []*big.Float{bfInt(1)}
		d.pmf = []*big.Float{bfInt(1)}
		return d
	}
	P := bf().Set(p)
	q := bf().Sub(fOne, P)
	ratio := bf().Quo(P, q) // p/(1-p)
	// mode = floor((n+1)p) clipped to [0,n]
	mf := bf().Mul(bfInt(n+1), P)
	mode, _ := mf.Int64()
	if mode > n {
		mode = n
	}
	if mode < 0 {
		mode = 0
	}
	cut := bf().SetMantExp(fOne, -cutBits)
	// upwards from the mode
	up := []*big.Float{bfInt(1)}
	for k := mode; k < n; k++ {
		// w[k+1] = w[k]*(n-k)/(k+1)*ratio
		w := bf().Mul(up[len(up)-1], bfInt(n-k))
		w.Quo(w, bfInt(k+1))
		w.Mul(w, ratio)
		if w.Cmp(cut) < 0 {
			break
		}
		up = append(up, w)
	}
	// downwards from the mode
	var down []*big.Float
	last := up[0]
	for k := mode; k > 0; k-- {
		// w[k-1] = w[k]*k/(n-k+1)/ratio
		w := bf().Mul(last, bfInt(k))
		w.Quo(w, bfInt(n-k+1))
		w.Quo(w, ratio)
		if w.Cmp(cut) < 0 {
			break
		}
		down = append(down, w)
		last = w
	}
	d.lo = mode - int64(len(down))
	ws := make([]*big.Float, 0, len(down)+len(up))
	for i := len(down) - 1; i >= 0; i-- {
		ws = append(ws, down[i])
	}
	ws = append(ws, up...)
	sum := bf()
	for _, w := range ws {
		sum.Add(sum, w)
	}
	acc := bf()
	d.F = make([]*big.Float, len(ws))
	d.pmf = make([]*big.Float, len(ws))
	for i, w := range ws {
		acc.Add(acc, w)
		d.F[i] = bf().Quo(acc, sum)
		d.pmf[i] = bf().Quo(w, sum)
	}
	d.F[len(ws)-1] = bfInt(1)
	return d
}

func (d *dist) hi() int64 { return d.lo + int64(len(d.F)) - 1 }

// cdf returns Pr(X <= j) (shared value: do not modify).
func (d *dist) cdf(j int64) *big.Float {
	if j < d.lo {
		return fZero
	}
	if j >= d.hi() {
		return fOne
	}
	return d.F[j-d.lo]
}

// quantile returns the smallest j in [0,n] with cdf(j) >= t (the definition
// in the property statement).
func (d *dist) quantile(t *big.Float) int64 {
	return d.firstWith(func(j int64) bool { return d.cdf(j).Cmp(t) >= 0 })
}

// firstWith returns the smallest j in [0,n] for which the monotone predicate
// holds (n if none does; the predicates used here always hold at n).
func (d *dist) firstWith(f func(int64) bool) int64 {
	// only [lo-1, hi] can matter; search the whole range logarithmically
	return int64(sort.Search(int(d.n), func(j int) bool { return f(int64(j)) }))
}

// accept returns the interval [jlo,jhi] of seat counts that are the quantile
// of some t' with |t'-t| <= eps:  F(j-1) - eps < t <= F(j) + eps.
func (d *dist) accept(t, eps *big.Float) (jlo, jhi int64) {
	tm := bf().Sub(t, eps) // t <= F(j)+eps  <=>  F(j) >= t-eps
	jlo = d.firstWith(func(j int64) bool { return d.cdf(j).Cmp(tm) >= 0 })
	tp := bf().Add(t, eps) // F(j-1)-eps < t  <=>  F(j-1) < t+eps
	// jhi = largest j with F(j-1) < t+eps = (smallest j with F(j-1) >= t+eps) - 1
	first := d.firstWith(func(j int64) bool { return j >= 1 && d.cdf(j-1).Cmp(tp) >= 0 })
	if first == d.n && !(d.n >= 1 && d.cdf(d.n-1).Cmp(tp) >= 0) {
		jhi = d.n
	} else {
		jhi = first - 1
	}
	return
}

// hashOf returns floor(t*2^256) clipped to [0, 2^256-1].
func hashOf(t *big.Float) *big.Int {
	if t.Sign() <= 0 {
		return new(big.Int)
	}
	x := bf().Mul(t, two256)
	i, _ := x.Int(nil)
	if i.Cmp(maxHash) > 0 {
		i.Set(maxHash)
	}
	return i
}

// fracOf returns h/2^256.
func fracOf(h *big.Int) *big.Float {
	return bf().Quo(bf().SetInt(h), two256)
}

var maxHash = new(big.Int).Sub(new(big.Int).Lsh(big.NewInt(1), 256), big.NewInt(1))
