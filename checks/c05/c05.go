// Package c05: only real equivocation is slashable, and it is slashed exactly
// once.  Exhaustive enumeration of double-sign evidences (signer index x vote
// type x round x round index x every ordered pair/triple with repetition of
// signatures from a pool of genuine and forged signatures) x placements
// (once / repeated / two different evidences / replay in the next block) x
// validator states, each run through the real builder path (evidence queue,
// isSeal=true) and the real import path (header.SlashData, isSeal=false).
package c05

import (
	"encoding/json"
	"fmt"
	"math/big"
	"strings"
	"sync"

	"github.com/youchainhq/go-youchain/common"
	"github.com/youchainhq/go-youchain/core/state"
	"github.com/youchainhq/go-youchain/staking"

	"verif/checks/chainx"
	"verif/mc"
)

// one signature of the pool
type sigSpec struct {
	Name  string // e.g. "A", "B", "0" (zero hash: next-index vote), "A@i2", "A@r+1", "A/c1" (signed by c1's key), "A!bad"
	Hash  common.Hash
	Valid bool // genuine signature of the accused validator over (Hash, R, declared index 1)
}

var (
	hA = common.HexToHash("0xaaaa01")
	hB = common.HexToHash("0xbbbb02")
	h0 = common.Hash{}
)

// Case is one evidence placement (the replayable input).
type Case struct {
	State     string   `json:"state"` // prefix name (validator state)
	Cfg       string   `json:"cfg"`   // parameter variant
	Signs     []string `json:"signs"` // names from the pool, in order
	VoteType  uint8    `json:"voteType"`
	IdxOf     string   `json:"signerIdxOf"` // "s1" (accused), "c1" (other), "oor" (out of range)
	RoundOff  int      `json:"roundOffset"` // evidence round = head + off
	Index     uint32   `json:"roundIndex"`
	Proposer  string   `json:"proposer,omitempty"` // "" = c1; otherwise the fixture validator proposing the carrying block (the accused itself)
	Placement string   `json:"placement"`          // once | x2 | x3 | two | replay
}

func (c Case) String() string {
	p := ""
	if c.Proposer != "" {
		p = " proposer=" + c.Proposer
	}
	return fmt.Sprintf("%s/%s signs=[%s] type=%d idx=%s round%+d ri=%d %s%s", c.State, c.Cfg, strings.Join(c.Signs, ","), c.VoteType, c.IdxOf, c.RoundOff, c.Index, c.Placement, p)
}

type world struct {
	r     *mc.Run
	f     *chainx.Fixture
	start map[string]*chainx.Node // per state: node after the prefix (never mutated: always forked)
	cmu   sync.Mutex
	ctrl  map[string]*snap
}

// targetOf: the accused validator of a validator state.
func targetOf(state string) string {
	if state == "tinyhouse" {
		return "z1"
	}
	return "s1"
}

func mkSig(f *chainx.Fixture, target, name string, round uint64) (common.Hash, []byte, bool) {
	s1, c1 := f.Val(target), f.Val("c1")
	switch name {
	case "A":
		return hA, s1.SignVote(hA, round, 1), true
	case "B":
		return hB, s1.SignVote(hB, round, 1), true
	case "0":
		return h0, s1.SignVote(h0, round, 1), true
	case "A@i2": // s1's genuine vote for A in round index 2
		return hA, s1.SignVote(hA, round, 2), false
	case "B@i2":
		return hB, s1.SignVote(hB, round, 2), false
	case "B@r-1": // s1's genuine vote for B in the previous round
		return hB, s1.SignVote(hB, round-1, 1), false
	case "B/c1": // c1's genuine vote for B, attributed to s1
		return hB, c1.SignVote(hB, round, 1), false
	case "B!hash": // s1's signature over A presented as a vote for B
		return hB, s1.SignVote(hA, round, 1), false
	case "B!bad": // garbage bytes of signature length
		g := s1.SignVote(hB, round, 1)
		g[5] ^= 0x40
		return hB, g, false
	}
	panic("unknown sig " + name)
}

var poolGenuine = []string{"A", "B", "0"}
var poolForged = []string{"A@i2", "B@i2", "B@r-1", "B/c1", "B!hash", "B!bad"}

func (w *world) evidence(n *chainx.Node, c Case) (staking.Evidence, bool) {
	head := n.Head().NumberU64()
	round := uint64(int64(head) + int64(c.RoundOff))
	var idx uint32
	switch c.IdxOf {
	case "oor":
		idx = 77
	default:
		who := c.IdxOf
		if who == "s1" {
			who = targetOf(c.State) // "s1" in a case means: the accused
		}
		// a certificate vote names its signer in the CERTIFICATE look-back set; a validator that is not a member
		// of that set cannot have cast such a vote (the case is then not evaluated)
		i, ok := chainx.SignerIdxFor(n, w.f.Val(who), round, c.VoteType == staking.Certificate)
		if !ok {
			return staking.Evidence{}, false
		}
		idx = i
	}
	ev := staking.EvidenceDoubleSignV5{Round: round, RoundIndex: c.Index, SignerIdx: idx, VoteType: c.VoteType}
	for _, s := range c.Signs {
		// signatures are always made for the head round: a different declared round/index makes them mismatch
		h, sig, _ := mkSig(w.f, targetOf(c.State), s, head)
		ev.Signs = append(ev.Signs, &staking.SignInfo{Hash: h, Sign: sig})
	}
	return staking.NewEvidence(ev), true
}

// classify decides, from the structure of the evidence alone, what the property demands.
//
//	"real"    : >=2 genuine signatures of the accused over different hashes for the declared (round, index): indistinguishable
//	            from real equivocation; MUST be accepted when declared against the signer (canonical evidence of the honest detector)
//	"dup"     : genuine signatures of the accused, all over ONE hash: one honest vote listed several times; must be rejected
//	"forged"  : some signature is not a genuine signature of the accused for the declared (round, index); must be rejected
//	"stale"   : declared round is not the parent round: must have no effect in this block
func classify(c Case) string {
	if c.RoundOff != 0 {
		return "stale"
	}
	if c.IdxOf != "s1" || c.Index != 1 {
		return "forged"
	}
	hashes := map[string]bool{}
	for _, s := range c.Signs {
		ok := false
		for _, g := range poolGenuine {
			if s == g {
				ok = true
			}
		}
		if !ok {
			return "forged"
		}
		hashes[s] = true
	}
	if len(c.Signs) < 2 {
		return "forged"
	}
	if len(hashes) == 1 {
		return "dup"
	}
	return "real"
}

type snap struct {
	vals     map[string]string
	tokens   map[string]*big.Int // Token + unfinished withdrawals, per validator
	staked   map[string]*big.Int // Token only
	penalty  *big.Int
	expel    map[string]string
	supply   *big.Int
	accounts *big.Int // sum of the balances of all fixture accounts (withdrawal recipients among them)
}

func (w *world) take(n *chainx.Node) snap {
	st := n.State()
	s := snap{vals: map[string]string{}, tokens: map[string]*big.Int{}, staked: map[string]*big.Int{}, expel: map[string]string{}}
	for _, v := range w.f.Vals {
		val := st.GetValidatorByMainAddr(v.Main)
		if val == nil {
			continue
		}
		s.vals[v.Name] = fmt.Sprintf("tok=%v stk=%v self=%v st=%d exp=%v/%d dl=%s", val.Token, val.Stake, val.SelfToken, val.Status, val.Expelled, val.ExpelExpired, dls(val))
		s.expel[v.Name] = fmt.Sprintf("%v/%d", val.Expelled, val.ExpelExpired)
		t := new(big.Int).Set(val.Token)
		s.staked[v.Name] = new(big.Int).Set(val.Token)
		for _, rec := range st.GetWithdrawQueue().Records {
			if rec.Validator == v.Main && rec.Finished == 0 {
				t.Add(t, rec.FinalBalance)
			}
		}
		s.tokens[v.Name] = t
	}
	s.penalty = st.GetBalance(chainx.V5().PenaltyTo)
	s.accounts = new(big.Int)
	for _, a := range w.f.Accounts {
		s.accounts.Add(s.accounts, st.GetBalance(a.Addr))
	}
	return s
}

func dls(v *state.Validator) string {
	var out []string
	for _, d := range v.Delegations {
		out = append(out, d.Token.String())
	}
	return strings.Join(out, ",")
}

func (w *world) proposerOf(c Case) common.Address {
	if c.Proposer == "" {
		return w.f.Val("c1").Main
	}
	return w.f.Val(c.Proposer).Main
}

// control returns the snapshot after one evidence-free block built on the case's start state (cached per state).
func (w *world) control(c Case, n *chainx.Node) snap {
	key := c.State + "/" + c.Cfg + "/" + c.Proposer
	w.cmu.Lock()
	defer w.cmu.Unlock()
	if s, ok := w.ctrl[key]; ok {
		return *s
	}
	ctl := n.Fork()
	defer ctl.Close()
	if _, err := ctl.Build(w.proposerOf(c), nil); err != nil {
		panic("harness: control block fails: " + err.Error())
	}
	s := w.take(ctl)
	if w.ctrl == nil {
		w.ctrl = map[string]*snap{}
	}
	w.ctrl[key] = &s
	return s
}

// run one case; returns a short outcome string for the distinct counter.
func (w *world) run(c Case) string {
	r := w.r
	n := w.start[c.State+"/"+c.Cfg].Fork()
	defer n.Close()
	ev, ok := w.evidence(n, c)
	if !ok {
		return "noidx"
	}
	var evs []staking.Evidence
	switch c.Placement {
	case "once", "replay":
		evs = []staking.Evidence{ev}
	case "x2":
		evs = []staking.Evidence{ev, ev}
	case "x3":
		evs = []staking.Evidence{ev, ev, ev}
	case "two": // a second, different real evidence against the same validator in the same block
		c2 := c
		c2.Signs, c2.VoteType = []string{"B", "0"}, staking.Prevote
		ev2, _ := w.evidence(n, c2)
		evs = []staking.Evidence{ev, ev2}
	}
	report := func(sig, detail string) {
		r.Report(mc.Violation{Sig: sig, Detail: detail + "\ncase: " + c.String(), Input: c})
	}
	pre := n.Fork()
	defer pre.Close()
	stateBefore := w.take(n)
	// control: the same next block WITHOUT the evidence (withdrawals maturing, rewards and period-end
	// processing of that block are not effects of the evidence); every comparison below is against it
	before := w.control(c, n)
	before.staked = stateBefore.staked
	for _, e := range evs {
		n.Staking.VerifAddEvidence(e)
	}
	var built *chainx.Built
	var berr error
	if m, where := mc.CatchStack(func() { built, berr = n.Build(w.proposerOf(c), nil) }); m != "" {
		report(fmt.Sprintf("builder panics while processing evidence at %s", where), m)
		return "panic"
	}
	if berr != nil {
		report("builder fails: "+berr.Error(), "")
		return "err"
	}
	// import path must agree
	var ierr error
	if m, where := mc.CatchStack(func() { ierr = pre.Import(built.Block) }); m != "" {
		report(fmt.Sprintf("import path panics on slash data at %s", where), m)
		return "panic"
	}
	if ierr != nil {
		report("import path rejects a block whose slash data the builder accepted", ierr.Error())
		return "disagree"
	}
	after := w.take(n)
	cls := classify(c)
	if c.Placement == "two" {
		// the second evidence of this placement is a pair over different hashes with the same declared
		// signer index, round and round index: genuine iff those are
		c2 := c
		c2.Signs, c2.VoteType = []string{"B", "0"}, staking.Prevote
		if classify(c2) == "real" {
			cls = "real"
		}
	}
	target := targetOf(c.State)
	accepted := after.expel[target] != before.expel[target] || after.penalty.Cmp(before.penalty) != 0 || after.tokens[target].Cmp(before.tokens[target]) != 0
	hasSlash := len(built.Block.Header().SlashData) > 0
	// nobody but the accused may be touched, whatever the evidence says
	for name := range before.vals {
		if name == target {
			continue
		}
		if before.expel[name] != after.expel[name] {
			report("a validator other than the signer of the votes is penalised", fmt.Sprintf("%s: %s -> %s", name, before.vals[name], after.vals[name]))
		}
		if after.tokens[name].Cmp(before.tokens[name]) < 0 {
			report("a validator other than the signer of the votes loses stake", fmt.Sprintf("%s: %s -> %s", name, before.vals[name], after.vals[name]))
		}
	}
	out := cls + ":rejected"
	if accepted {
		out = cls + ":accepted"
	}
	r.Count("class_"+strings.Replace(out, ":", "_", 1), 1)
	switch cls {
	case "dup":
		if accepted {
			report("honest validator slashed: one of its votes listed twice is accepted as double-sign evidence (no distinct-hash check)",
				fmt.Sprintf("before %s\nafter %s", before.vals[target], after.vals[target]))
		}
	case "forged":
		if accepted {
			report("forged evidence accepted: "+forgeKind(c), fmt.Sprintf("before %s\nafter %s", before.vals[target], after.vals[target]))
		}
	case "stale":
		if accepted {
			report("evidence for another round than the parent takes effect", fmt.Sprintf("before %s\nafter %s", before.vals[target], after.vals[target]))
		}
	case "real":
		// two genuine signatures over different hashes for one (round, index).  The payload carries no vote kind, so
		// this is BOTH what real equivocation looks like (must be accepted) and what an honest validator's
		// prevote(A)+precommit(B), or its two next-index votes, look like (must never be accepted).
		if !accepted {
			report("real equivocation (two genuine signatures over different hashes, same round/index) is not penalised", "")
		} else {
			report("honest validator slashable: its votes of different kinds (prevote A + precommit B, or next-index votes) verify as double-sign evidence of any declared kind (signed payload has no vote kind; verifier ignores VoteType)",
				fmt.Sprintf("declared type %d; before %s\nafter %s", c.VoteType, before.vals[target], after.vals[target]))
		}
	}
	if accepted {
		if !hasSlash {
			report("validator penalised although the block carries no slash data", "")
		}
		// exactly once and within the configured fraction of stake + unfinished withdrawals
		// what the accused side loses: the validator's tokens and unfinished withdrawals, plus what the
		// recipients of withdrawals paid out in this very block receive less than in the control block
		taken := new(big.Int).Sub(before.tokens[target], after.tokens[target])
		taken.Add(taken, new(big.Int).Sub(before.accounts, after.accounts))
		gain := new(big.Int).Sub(after.penalty, before.penalty)
		if taken.Cmp(gain) != 0 {
			report("penalty account does not receive exactly what the validator loses", fmt.Sprintf("taken %v, PenaltyTo +%v", taken, gain))
		}
		max := new(big.Int).Div(new(big.Int).Mul(before.staked[target], new(big.Int).SetUint64(chainx.V5().PenaltyFractionForDoubleSign)), big.NewInt(100))
		if taken.Cmp(max) > 0 {
			report("penalty exceeds the configured fraction of the stake (penalised more than once?)", fmt.Sprintf("taken %v > max %v (placement %s)", taken, max, c.Placement))
		}
		if taken.Sign() <= 0 {
			report("evidence accepted but nothing taken", "")
		}
		r.Count("penalties_within_bound", 1)
	}
	if c.Placement == "replay" {
		// the same evidence offered again in the next block must change nothing more
		b2 := w.take(n)
		n.Staking.VerifAddEvidence(ev)
		pre2 := n.Fork()
		defer pre2.Close()
		built2, err := n.Build(w.f.Val("c1").Main, nil)
		if err != nil {
			report("builder fails on replayed evidence: "+err.Error(), "")
			return out
		}
		if err := pre2.Import(built2.Block); err != nil {
			report("import path rejects block after replayed evidence", err.Error())
		}
		a2 := w.take(n)
		if a2.penalty.Cmp(b2.penalty) != 0 || a2.expel[target] != b2.expel[target] {
			report("evidence replayed in the next block penalises again", fmt.Sprintf("before %s after %s", b2.vals[target], a2.vals[target]))
		}
		r.Count("replays_checked", 1)
	}
	return out
}

func forgeKind(c Case) string {
	if c.IdxOf != "s1" {
		return "signatures of one validator accepted against signer index of another (" + c.IdxOf + ")"
	}
	if c.Index != 1 {
		return "signatures for another round index"
	}
	for _, s := range c.Signs {
		for _, f := range poolForged {
			if s == f {
				switch {
				case strings.Contains(f, "@i"):
					return "signature made for another round index"
				case strings.Contains(f, "@r"):
					return "signature made for another round"
				case strings.Contains(f, "/"):
					return "signature by another validator's key"
				case strings.Contains(f, "!hash"):
					return "signature over another block hash"
				default:
					return "corrupted signature"
				}
			}
		}
	}
	return "single signature"
}

func (w *world) cases(quick bool) []Case {
	var out []Case
	states := statesOf(quick)
	pool := append(append([]string{}, poolGenuine...), poolForged...)
	var seqs [][]string
	for _, a := range pool {
		seqs = append(seqs, []string{a})
		for _, b := range pool {
			seqs = append(seqs, []string{a, b})
		}
	}
	// triples: with repetition over the genuine pool + one forged element in any position
	for _, a := range poolGenuine {
		for _, b := range poolGenuine {
			for _, c := range pool {
				seqs = append(seqs, []string{a, b, c}, []string{c, a, b})
			}
		}
	}
	if !quick {
		// thorough: the full triple product over the whole pool
		seqs = seqs[:0]
		for _, a := range pool {
			seqs = append(seqs, []string{a})
			for _, b := range pool {
				seqs = append(seqs, []string{a, b})
				for _, c := range pool {
					seqs = append(seqs, []string{a, b, c})
				}
			}
		}
	}
	for _, st := range states {
		for _, cfg := range []string{"base"} {
			for _, s := range seqs {
				out = append(out, Case{State: st, Cfg: cfg, Signs: s, VoteType: staking.Precommit, IdxOf: "s1", RoundOff: 0, Index: 1, Placement: "once"})
				// the accused proposes the carrying block itself (its record is also the proposer record of the
				// rewards step); only where the accused is a chamber validator, i.e. can propose. Quick: 1- and 2-element
				// sequences, thorough: all
				if targetOf(st) == "s1" && st != "expelled" && (!quick || len(s) <= 2) {
					out = append(out, Case{State: st, Cfg: cfg, Signs: s, VoteType: staking.Precommit, IdxOf: "s1", RoundOff: 0, Index: 1, Placement: "once", Proposer: "s1"})
				}
			}
			// dimension sweeps around every pair of genuine signatures
			for _, a := range poolGenuine {
				for _, b := range poolGenuine {
					base := Case{State: st, Cfg: cfg, Signs: []string{a, b}, VoteType: staking.Precommit, IdxOf: "s1", RoundOff: 0, Index: 1, Placement: "once"}
					for vt := uint8(0); vt <= 6; vt++ {
						c := base
						c.VoteType = vt
						out = append(out, c)
					}
					for _, idx := range []string{"c1", "oor"} {
						c := base
						c.IdxOf = idx
						out = append(out, c)
					}
					for _, off := range []int{-1, 1} {
						c := base
						c.RoundOff = off
						out = append(out, c)
					}
					c := base
					c.Index = 2
					out = append(out, c)
					for _, pl := range []string{"x2", "x3", "two", "replay"} {
						c := base
						c.Placement = pl
						out = append(out, c)
					}
					if !quick {
						// thorough: the full product of the sweep dimensions instead of one at a time
						for vt := uint8(0); vt <= 6; vt++ {
							for _, idx := range []string{"s1", "c1", "oor"} {
								for _, off := range []int{-1, 0, 1} {
									for _, ri := range []uint32{1, 2} {
										for _, pl := range []string{"once", "x2", "two", "replay"} {
											c := base
											c.VoteType, c.IdxOf, c.RoundOff, c.Index, c.Placement = vt, idx, off, ri, pl
											out = append(out, c)
										}
									}
								}
							}
						}
					}
				}
			}
		}
	}
	return out
}

// statesOf: the validator states evidences are judged in.  Thorough adds matured
// withdrawals, a validator that is online only thanks to a delegation, and a
// validator that was already expelled for an earlier double sign.
func statesOf(quick bool) []string {
	if quick {
		return []string{"genesis", "delegated", "withdrawing", "tinyhouse"}
	}
	return []string{"genesis", "delegated", "withdrawing", "tinyhouse", "matured", "thin", "expelled"}
}

func setup(r *mc.Run) *world {
	cfg := chainx.DefaultCfg
	cfg.MaxRewardsPeriod = 1000
	chainx.SetParams(cfg)
	w := &world{r: r, f: chainx.Fix(), start: map[string]*chainx.Node{}}
	for _, st := range statesOf(r.Quick()) {
		h := &chainx.Hist{F: w.f, R: r, Prefix: chainx.Prefixes[st]}
		h.Reset()
		// one more empty block in genesis state so that round-1 exists for "B@r-1"
		if st == "genesis" {
			h.Apply("c1:")
		}
		w.start[st+"/base"] = h.Node
	}
	return w
}

func Run(r *mc.Run) {
	r.Level = "exploration"
	r.Rule = "evidences = (every 1-, 2-element and the listed 3-element ordered sequences with repetition over a pool of 3 genuine + 6 forged signatures) + single-dimension sweeps (vote type 0..6, signer index of another/out of range, round -1/+1, round index 2, placements x2/x3/two different/replay in next block) around every pair of genuine signatures, x 4 validator states (no delegations; 2 delegations + risk obligation; + pending withdraw records; a house validator below one stake unit: Token > 0, Stake == 0); each goes through builder path and import path on the real chain; non-trivial/distinct = distinct (state, class, outcome, placement, vote type) combinations observed"
	r.SetBudget(170e9)
	if !r.Quick() {
		r.SetBudget(30 * 60e9)
	}
	w := setup(r)
	cases := w.cases(r.Quick())
	r.SetExtra("cases", len(cases))
	r.ForEach(len(cases), func(_ int, i int) {
		c := cases[i]
		out := w.run(c)
		if r.Distinct(fmt.Sprintf("%s|%s|%s|%d|%s|%d", c.State, out, c.Placement, c.VoteType, c.IdxOf, c.RoundOff)) {
			r.Sample(c.String() + " => " + out)
		}
	})
	for _, n := range w.start {
		n.Close()
	}
	r.Assume("the signed payload of a vote is blockHash||round||roundIndex (no vote kind): an honest validator's prevote(A)+precommit(B) and its two next-index votes are byte-for-byte what real equivocation looks like")
}

func Replay(r *mc.Run, v *mc.Violation) {
	bs, _ := json.Marshal(v.Input)
	var c Case
	if err := json.Unmarshal(bs, &c); err != nil {
		fmt.Println("bad replay input:", err)
		return
	}
	w := setup(r)
	fmt.Println(c.String(), "=>", w.run(c))
}
