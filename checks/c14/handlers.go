package c14

// Phase D: the message handlers built on the decoder.  The hostile payload
// families of phase B (grammar, header rewrites, single-byte mutations of valid
// payloads) are wrapped the way a peer / a transaction sender would wrap them
// and driven through the production entry points.  They must return.

import (
	"crypto/ecdsa"
	"encoding/hex"
	"fmt"
	"math"
	"math/big"
	"reflect"
	"strings"
	"sync/atomic"
	"time"

	"github.com/youchainhq/go-youchain/common"
	"github.com/youchainhq/go-youchain/consensus/ucon"
	"github.com/youchainhq/go-youchain/core"
	"github.com/youchainhq/go-youchain/core/state"
	"github.com/youchainhq/go-youchain/core/types"
	"github.com/youchainhq/go-youchain/core/vm"
	"github.com/youchainhq/go-youchain/crypto"
	"github.com/youchainhq/go-youchain/event"
	"github.com/youchainhq/go-youchain/params"
	"github.com/youchainhq/go-youchain/staking"

	"verif/checks/stx"
	"verif/mc"
)

// ---- ucon MessageHandler ------------------------------------------------------------

var hmKey *ecdsa.PrivateKey

func init() {
	k, err := crypto.ToECDSA(common.LeftPadBytes([]byte{0x77, 0x01}, 32))
	if err != nil {
		panic(err)
	}
	hmKey = k
}

type hmCounters struct {
	prio, block, vote, recv, posts int64
}

// newHandler builds the real MessageHandler with a stub validator lookup (every
// sender is an online chamber validator with stake) and stub consensus
// callbacks that only record that the decoded message reached them.
func newHandler(cnt *hmCounters, ctx int) *ucon.MessageHandler {
	val := &state.Validator{Role: params.RoleChancellor, Status: params.ValidatorOnline, Stake: big.NewInt(100), Token: big.NewInt(100)}
	mh := ucon.NewMessageHandler(hmKey, new(event.TypeMux),
		func(round *big.Int, addr common.Address, lb params.LookBackType) (*state.Validator, bool) { return val, false },
		func(ev ucon.ReceivedMsgEvent) (error, bool) { atomic.AddInt64(&cnt.recv, 1); return nil, true },
		func(m *ucon.CachedPriorityMessage, st ucon.MsgReceivedStatus) (error, bool) {
			atomic.AddInt64(&cnt.prio, 1)
			return nil, false
		},
		func(m *ucon.CachedBlockMessage, st ucon.MsgReceivedStatus) (error, bool) {
			atomic.AddInt64(&cnt.block, 1)
			return nil, false
		},
		func(ev ucon.VoteMsgEvent, st ucon.MsgReceivedStatus) (error, bool) {
			atomic.AddInt64(&cnt.vote, 1)
			return nil, false
		})
	if ctx == 1 {
		mh.VerifC14SetContext(ucon.ContextChangeEvent{Round: big.NewInt(hmCtxRound), RoundIndex: 1, Step: 2})
	}
	return mh
}

const hmCtxRound = 1001 // the rich seeds carry rounds around 1000

func envelope(code uint8, payload []byte) []byte {
	sig, err := ucon.Sign(hmKey, append(append([]byte{}, payload...), code))
	if err != nil {
		panic(err)
	}
	b, err := enc(&ucon.Message{Code: ucon.MsgType(code), Payload: payload, Signature: sig})
	if err != nil {
		panic(err)
	}
	return b
}

type hmCase struct {
	data []byte
	what string
}

func (c *checker) handleOne(mh *ucon.MessageHandler, data []byte, ctx int, what string) string {
	var err error
	msg, where := mc.CatchStack(func() { err = mh.HandleMsg(data, time.Unix(1700000000, 0)) })
	if msg != "" {
		c.report(fmt.Sprintf("ucon.MessageHandler.HandleMsg panic: %s at %s", normMsg(msg), where),
			fmt.Sprintf("data %x (%s, handler context %d): %s", data, what, ctx, msg),
			input{Phase: "handlemsg", Hex: hex.EncodeToString(data), Ctx: ctx, Desc: what})
		return "panic"
	}
	if err != nil {
		return "reject:" + errClass(err)
	}
	return "return-nil"
}

func (c *checker) hmPayloadSeeds() map[uint8][][]byte {
	seeds := map[uint8][][]byte{}
	for _, n := range []string{"ucon.ConsensusCommon", "ucon.BlockHashWithVotes", "types.Block"} {
		c.ensureSeeds(c.byName[n])
	}
	seeds[1] = c.byName["ucon.ConsensusCommon"].seeds
	for _, code := range []uint8{3, 4, 5, 6} {
		seeds[code] = c.byName["ucon.BlockHashWithVotes"].seeds
	}
	blk := append([][]byte{}, c.byName["types.Block"].seeds...)
	// a block whose header carries decodable consensus data (reaches the judger)
	h := sampleHeader(true)
	ctr := 300
	bcd := c.ctx.rich(reflect.TypeOf(ucon.BlockConsensusData{}), "BlockConsensusData", &ctr).Interface().(ucon.BlockConsensusData)
	h.Consensus, _ = enc(&bcd)
	if b, err := enc(types.NewBlockWithHeader(h).WithBody(&types.Body{Transactions: sampleTxs()})); err == nil {
		blk = append(blk, b)
	}
	seeds[2] = blk
	return seeds
}

func (c *checker) phaseHandlers(g *grammar) {
	c.phaseHandleMsg(g)
	if !c.r.Expired() {
		c.phaseStaking(g)
	}
}

func (c *checker) phaseHandleMsg(g *grammar) {
	var posts int64
	event.VerifAsyncPostHook = func(mux *event.TypeMux, ev interface{}) bool { atomic.AddInt64(&posts, 1); return true }
	defer func() { event.VerifAsyncPostHook = nil }()
	cnt := &hmCounters{}
	type wk struct {
		mh    [2]*ucon.MessageHandler
		calls int
	}
	ws := make([]wk, c.r.Workers)
	run := func(w int, data []byte, what string, both bool) {
		k := &ws[w]
		if k.mh[0] == nil || k.calls > 4096 { // bound the future-message cache
			k.mh[0], k.mh[1], k.calls = newHandler(cnt, 0), newHandler(cnt, 1), 0
		}
		k.calls++
		for ctx := 0; ctx < 2; ctx++ {
			if ctx == 1 && !both {
				break
			}
			out := c.handleOne(k.mh[ctx], data, ctx, what)
			c.r.Count("handlemsg_calls", 1)
			if out == "return-nil" {
				c.r.Count("handlemsg_returned_nil", 1)
			} else {
				c.r.Count("handlemsg_rejected_with_error", 1)
			}
			if len(data) > 0 {
				c.r.Distinct(fmt.Sprintf("hm|%d|%s|%s", ctx, what, out))
			}
			if out == "return-nil" && len(data) < 300 && strings.HasPrefix(what, "signed-mutated") {
				c.sampleOnce("hm|"+what, map[string]string{"phase": "D HandleMsg", "family": what, "data": hex.EncodeToString(data), "outcome": out})
			}
		}
	}
	seeds := c.hmPayloadSeeds()
	glimit := 12
	if !c.quick {
		glimit = 24
	}
	var gsmall [][]byte
	for _, in := range g.inputs {
		if len(in) <= glimit {
			gsmall = append(gsmall, in)
		}
	}
	// D1: raw bytes as the whole message (grammar)
	c.r.ForEach(len(g.inputs), func(w, i int) { run(w, g.inputs[i], "raw-grammar", false) })
	// D2: grammar items as the payload of a correctly signed envelope, every code 0..7
	c.r.Enum([]int{8, len(gsmall)}, func(w int, idx []int) {
		run(w, envelope(uint8(idx[0]), gsmall[idx[1]]), fmt.Sprintf("signed-grammar-payload code=%d", idx[0]), false)
	})
	for code := uint8(1); code <= 6; code++ {
		for si, s := range seeds[code] {
			s, code := s, code
			// the valid seed itself under every code
			for cc := uint8(0); cc <= 7; cc++ {
				run(0, envelope(cc, s), fmt.Sprintf("seed-payload code=%d", cc), true)
			}
			if code > 3 && c.quick {
				// codes 4..6 share the vote decoder with code 3: rewrites only
				rw := headerRewrites(s)
				c.r.ForEach(len(rw), func(w, i int) {
					run(w, envelope(code, rw[i].data), fmt.Sprintf("signed-rewritten-payload code=%d", code), true)
				})
				continue
			}
			rw := headerRewrites(s)
			c.r.ForEach(len(rw), func(w, i int) {
				run(w, envelope(code, rw[i].data), fmt.Sprintf("signed-rewritten-payload code=%d", code), true)
			})
			// signed envelope around every single-byte mutation of the payload
			full := len(s) <= c.smallLimit()
			per := 5
			if full {
				per = 256
			}
			c.r.Enum([]int{per, len(s)}, func(w int, idx []int) {
				pos := idx[1]
				nv := byte(idx[0])
				if !full {
					nv = mutValues(s[pos])[idx[0]]
				}
				if nv == s[pos] {
					return
				}
				b := append([]byte{}, s...)
				b[pos] = nv
				run(w, envelope(code, b), fmt.Sprintf("signed-mutated-payload code=%d", code), true)
			})
			// single-byte mutation of the whole envelope (signature no longer matches: recovers another key)
			if si < 2 {
				e := envelope(code, s)
				efull := len(e) <= c.smallLimit()
				eper := 5
				if efull {
					eper = 256
				}
				c.r.Enum([]int{eper, len(e)}, func(w int, idx []int) {
					pos := idx[1]
					nv := byte(idx[0])
					if !efull {
						nv = mutValues(e[pos])[idx[0]]
					}
					if nv == e[pos] {
						return
					}
					b := append([]byte{}, e...)
					b[pos] = nv
					run(w, b, fmt.Sprintf("mutated-envelope code=%d", code), false)
				})
				for _, rw := range headerRewrites(e) {
					run(0, rw.data, fmt.Sprintf("rewritten-envelope code=%d", code), false)
				}
			}
			if c.r.Expired() {
				break
			}
		}
	}
	c.r.Count("handlemsg_reached_priority_callback", cnt.prio)
	c.r.Count("handlemsg_reached_block_callback", cnt.block)
	c.r.Count("handlemsg_reached_vote_callback", cnt.vote)
	c.r.Count("handlemsg_reached_time_judge", cnt.recv)
	c.r.Count("handlemsg_relayed(AsyncPost)", atomic.LoadInt64(&posts))
	if cnt.prio == 0 || cnt.block == 0 || cnt.vote == 0 {
		c.r.HarnessError("HandleMsg never reached one of the consensus callbacks: the handler phase is vacuous")
	}
}

// ---- staking TxConverter --------------------------------------------------------------

type stakeFixture struct {
	db    state.Database
	roots [3]common.Hash
	yp    params.YouParams
	hdr   *types.Header
	from  common.Address
}

func newStakeFixture() *stakeFixture {
	db, _ := stx.NewDB()
	st, err := state.New(common.Hash{}, common.Hash{}, common.Hash{}, db)
	if err != nil {
		panic(err)
	}
	from := stx.Acc[0]
	st.AddBalance(from, stx.Tok(1000000, 0))
	stx.CreateVal(st, 0, stx.Tok(2000, 0), params.ValidatorOnline)
	stx.CreateVal(st, 1, stx.Tok(200, 0), params.ValidatorOffline)
	st.UpdateDelegation(from, st.GetValidatorByMainAddr(stx.ValAddr[0]), stx.Tok(50, 0))
	r0, r1, r2, err := st.Commit(true)
	if err != nil {
		panic(err)
	}
	yp := params.Versions[params.YouV5].DeepCopy()
	return &stakeFixture{db: db, roots: [3]common.Hash{r0, r1, r2}, yp: yp, from: from,
		hdr: &types.Header{Number: big.NewInt(100), Time: 1700000000, CurrVersion: params.YouV5, GasLimit: 100000000}}
}

type stakeSeed struct {
	action  staking.ActionType
	payload []byte
	name    string
}

func stakeSeeds(from common.Address) []stakeSeed {
	v0 := stx.ValAddr[0]
	mk := func(a staking.ActionType, name string, v interface{}) stakeSeed {
		b, err := enc(v)
		if err != nil {
			panic(err)
		}
		return stakeSeed{a, b, name}
	}
	return []stakeSeed{
		mk(staking.ValidatorCreate, "create", &staking.TxCreateValidator{Name: "n", OperatorAddress: from, Coinbase: stx.Acc[1], MainPubKey: stx.ValPub[2],
			BlsPubKey: []byte{1, 2, 3}, Value: stx.Tok(600, 0), CommissionRate: 1000, RiskObligation: 5000, AcceptDelegation: 1, Role: params.RoleChancellor}),
		mk(staking.ValidatorUpdate, "update", &staking.TxUpdateValidator{Name: "new", MainAddress: v0, Coinbase: stx.Acc[2], CommissionRate: 2000,
			RiskObligation: math.MaxUint16, AcceptDelegation: math.MaxUint16}),
		mk(staking.ValidatorDeposit, "deposit", &staking.TxValidatorDeposit{MainAddress: v0, Value: stx.Tok(10, 0)}),
		mk(staking.ValidatorWithDraw, "withdraw", &staking.TxValidatorWithdraw{MainAddress: v0, Recipient: stx.Acc[1], Value: stx.Tok(1, 0)}),
		mk(staking.ValidatorChangeStatus, "changestatus", &staking.TxValidatorChangeStatus{MainAddress: v0, Status: params.ValidatorOffline}),
		mk(staking.ValidatorSettle, "settle", &staking.TxValidatorSettle{MainAddress: v0}),
		mk(staking.DelegationAdd, "delegation-add", &staking.TxDelegation{Validator: v0, Value: stx.Tok(20, 0)}),
		mk(staking.DelegationSub, "delegation-sub", &staking.TxDelegation{Validator: v0, Value: stx.Tok(1, 0)}),
		mk(staking.DelegationSettle, "delegation-settle", &staking.TxDelegationSettle{Validator: v0}),
	}
}

func stakingData(action uint8, payload []byte) []byte {
	b, err := enc(&staking.Message{Action: staking.ActionType(action), Payload: payload})
	if err != nil {
		panic(err)
	}
	return b
}

// applyOne drives one transaction data blob through TxConverter.ApplyMessage on
// a fresh copy of the fixture state and, if the message was accepted, through
// the take-effect entry (as the end-block hook does at the end of the staking
// period).  Returns an outcome class.
func (c *checker) applyOne(fx *stakeFixture, data []byte, what string) string {
	st, err := state.New(fx.roots[0], fx.roots[1], fx.roots[2], fx.db)
	if err != nil {
		panic(err)
	}
	to := params.StakingModuleAddress
	msg := types.NewMessage(fx.from, &to, st.GetNonce(fx.from), new(big.Int), 10000000, big.NewInt(1), data, true)
	msg.SetHash(common.BytesToHash([]byte{0xc1, 0x40}))
	st.Prepare(msg.TxHash(), common.Hash{}, 0)
	cfg := &vm.Config{RuntimeConfig: vm.RuntimeConfig{CurrYouParams: &fx.yp}}
	mctx := &core.MessageContext{Msg: msg, State: st, InitialGas: 10000000, AvailableGas: 9000000, Header: fx.hdr, Cfg: cfg}
	in := input{Phase: "staking", Hex: hex.EncodeToString(data), Desc: what}
	var failed bool
	if m, where := mc.CatchStack(func() { _, _, failed, err = (&staking.TxConverter{}).ApplyMessage(mctx) }); m != "" {
		c.report(fmt.Sprintf("staking.TxConverter.ApplyMessage panic: %s at %s", normMsg(m), where),
			fmt.Sprintf("tx data %x (%s): %s", data, what, m), in)
		return "panic"
	}
	if err != nil {
		return "error"
	}
	if failed {
		return "failed-tx"
	}
	rc := &types.Receipt{}
	if m, where := mc.CatchStack(func() { staking.VerifC14TakeEffect(msg, st, &fx.yp, fx.hdr, rc) }); m != "" {
		c.report(fmt.Sprintf("staking take-effect panic on a message ApplyMessage accepted: %s at %s", normMsg(m), where),
			fmt.Sprintf("tx data %x (%s): %s", data, what, m), in)
		return "accepted+take-effect-panic"
	}
	return "accepted"
}

func (c *checker) phaseStaking(g *grammar) {
	fxs := make([]*stakeFixture, c.r.Workers)
	fx := func(w int) *stakeFixture {
		if fxs[w] == nil {
			fxs[w] = newStakeFixture()
		}
		return fxs[w]
	}
	run := func(w int, data []byte, what string) string {
		out := c.applyOne(fx(w), data, what)
		c.r.Count("staking_apply_calls", 1)
		c.r.Count("staking_outcome_"+out, 1)
		c.r.Distinct(fmt.Sprintf("stk|%s|%s", what, out))
		if out == "accepted" && strings.HasPrefix(what, "mutated") {
			c.sampleOnce("stk|"+out, map[string]string{"phase": "D staking ApplyMessage + take-effect", "family": what, "data": hex.EncodeToString(data), "outcome": out})
		}
		return out
	}
	seeds := stakeSeeds(stx.Acc[0])
	for _, s := range seeds {
		if out := run(0, stakingData(uint8(s.action), s.payload), "seed "+s.name); out != "accepted" {
			c.r.HarnessError(fmt.Sprintf("staking seed %s is not accepted by ApplyMessage (%s): the accepted branch would be vacuous", s.name, out))
		} else {
			c.r.Count("staking_seed_accepted_and_took_effect", 1)
		}
	}
	glimit := 12
	if !c.quick {
		glimit = 24
	}
	var gsmall [][]byte
	for _, in := range g.inputs {
		if len(in) <= glimit {
			gsmall = append(gsmall, in)
		}
	}
	actions := []uint8{0, 1, 2, 3, 4, 5, 6, 7, 0x10, 0x11, 0x12, 0x13, 0x80, 0xff}
	// D3: raw grammar as the whole tx data
	c.r.ForEach(len(g.inputs), func(w, i int) { run(w, g.inputs[i], "raw-grammar") })
	// D4: grammar items as the payload under every action
	c.r.Enum([]int{len(actions), len(gsmall)}, func(w int, idx []int) {
		run(w, stakingData(actions[idx[0]], gsmall[idx[1]]), fmt.Sprintf("grammar-payload action=%#x", actions[idx[0]]))
	})
	for _, s := range seeds {
		s := s
		for _, a := range actions {
			run(0, stakingData(a, s.payload), fmt.Sprintf("%s-payload under action=%#x", s.name, a))
		}
		rw := headerRewrites(s.payload)
		c.r.ForEach(len(rw), func(w, i int) {
			run(w, stakingData(uint8(s.action), rw[i].data), "rewritten "+s.name+" payload")
		})
		c.r.Enum([]int{256, len(s.payload)}, func(w int, idx []int) {
			if byte(idx[0]) == s.payload[idx[1]] {
				return
			}
			b := append([]byte{}, s.payload...)
			b[idx[1]] = byte(idx[0])
			run(w, stakingData(uint8(s.action), b), "mutated "+s.name+" payload")
		})
		outer := stakingData(uint8(s.action), s.payload)
		c.r.Enum([]int{256, len(outer)}, func(w int, idx []int) {
			if byte(idx[0]) == outer[idx[1]] {
				return
			}
			b := append([]byte{}, outer...)
			b[idx[1]] = byte(idx[0])
			run(w, b, "mutated "+s.name+" tx data")
		})
		for _, rw := range headerRewrites(outer) {
			run(0, rw.data, "rewritten "+s.name+" tx data")
		}
		if c.r.Expired() {
			return
		}
	}
}

func (c *checker) replayHandler(in input, data []byte) {
	switch in.Phase {
	case "handlemsg":
		event.VerifAsyncPostHook = func(mux *event.TypeMux, ev interface{}) bool { return true }
		cnt := &hmCounters{}
		out := c.handleOne(newHandler(cnt, in.Ctx), data, in.Ctx, in.Desc)
		fmt.Printf("HandleMsg(%x) context %d: %s (callbacks prio=%d block=%d vote=%d)\n", data, in.Ctx, out, cnt.prio, cnt.block, cnt.vote)
	case "staking":
		out := c.applyOne(newStakeFixture(), data, in.Desc)
		fmt.Printf("ApplyMessage(%x): %s\n", data, out)
	}
}
