package c14

// Reflective boundary-value domains.  For a (mirror) struct type the generator
// yields: the full product of the per-field domains when the struct has <= 6
// fields, and around each of two baselines (all-zero-ish, all-distinct "rich")
// every single-field and every field-pair variation.

import (
	"fmt"
	"math/big"
	"reflect"
	"strings"
)

type domCtx struct {
	samples   map[reflect.Type][]reflect.Value // opaque types: first = zero-ish, last = rich
	overrides map[string][]reflect.Value       // "Type.Field": first = zero-ish, last = rich
}

func newDomCtx() *domCtx {
	return &domCtx{samples: map[reflect.Type][]reflect.Value{}, overrides: map[string][]reflect.Value{}}
}

func (c *domCtx) override(key string, vals ...interface{}) {
	var vs []reflect.Value
	for _, v := range vals {
		vs = append(vs, reflect.ValueOf(v))
	}
	c.overrides[key] = vs
}

func (c *domCtx) sample(vals ...interface{}) {
	t := reflect.TypeOf(vals[0])
	for _, v := range vals {
		c.samples[t] = append(c.samples[t], reflect.ValueOf(v))
	}
}

func pow2(n uint) *big.Int { return new(big.Int).Lsh(big.NewInt(1), n) }

var bigDomain = []*big.Int{
	nil, big.NewInt(0), big.NewInt(0x80), new(big.Int).Sub(pow2(256), big.NewInt(1)), big.NewInt(1), big.NewInt(0x7f),
	new(big.Int).SetUint64(^uint64(0)), pow2(64),
}

func fieldHasTag(f reflect.StructField, tag string) bool {
	for _, tg := range strings.Split(f.Tag.Get("rlp"), ",") {
		if strings.TrimSpace(tg) == tag {
			return true
		}
	}
	return false
}

// domain returns the boundary values of type t.  Values are ordered by
// importance (trimmed products keep a prefix).  depth limits nested variation.
func (c *domCtx) domain(t reflect.Type, key string, nilOK bool, depth int) []reflect.Value {
	if ov, ok := c.overrides[key]; ok {
		out := make([]reflect.Value, len(ov))
		for i, v := range ov {
			out[i] = conv(v, t)
		}
		return out
	}
	if s, ok := c.samples[t]; ok {
		return s
	}
	var out []reflect.Value
	add := func(v interface{}) { out = append(out, conv(reflect.ValueOf(v), t)) }
	switch {
	case t == bigPtrType:
		for _, b := range bigDomain {
			out = append(out, reflect.ValueOf(b))
		}
		return out
	case t == bigIntType:
		for _, b := range bigDomain[1:] {
			out = append(out, reflect.ValueOf(*b))
		}
		return out
	}
	switch t.Kind() {
	case reflect.Uint8:
		for _, v := range []uint8{0, 0x80, 0xff, 1, 0x7f} {
			add(v)
		}
	case reflect.Uint16:
		for _, v := range []uint16{0, 0x80, 0xffff, 1, 0x100, 0x7f, 0xff} {
			add(v)
		}
	case reflect.Uint32:
		for _, v := range []uint32{0, 0x80, 0xffffffff, 1, 0x100, 0x7f} {
			add(v)
		}
	case reflect.Uint64, reflect.Uint:
		for _, v := range []uint64{0, 0x80, ^uint64(0), 1, 0x100, 0x7f, 1 << 32} {
			add(v)
		}
	case reflect.Bool:
		add(false)
		add(true)
	case reflect.String:
		for _, v := range []string{"", "\x80", strings.Repeat("y", 56), "a", strings.Repeat("x", 55), "\x00"} {
			add(v)
		}
	case reflect.Slice:
		if t.Elem().Kind() == reflect.Uint8 {
			out = append(out, reflect.Zero(t)) // nil
			for _, v := range [][]byte{{}, {0x80}, repeat(0x22, 56), {0x00}, {0x7f}, {0x00, 0x01}, repeat(0x11, 55)} {
				add(v)
			}
			return out
		}
		out = append(out, reflect.Zero(t), reflect.MakeSlice(t, 0, 0))
		et := t.Elem()
		ctr := 40
		r1 := c.rich(et, key+"[]", &ctr)
		r2 := c.rich(et, key+"[]", &ctr)
		one := reflect.MakeSlice(t, 1, 1)
		one.Index(0).Set(r1)
		two := reflect.MakeSlice(t, 2, 2)
		two.Index(0).Set(r2)
		two.Index(1).Set(c.zeroish(et, key+"[]"))
		out = append(out, one, two)
		if depth < 1 {
			for _, ev := range c.singles(et, key+"[]", r1, depth+1) {
				s := reflect.MakeSlice(t, 1, 1)
				s.Index(0).Set(ev)
				out = append(out, s)
			}
		}
	case reflect.Array:
		if t.Elem().Kind() == reflect.Uint8 {
			n := t.Len()
			z := reflect.New(t).Elem()
			ff := reflect.New(t).Elem()
			hi := reflect.New(t).Elem()
			lo := reflect.New(t).Elem()
			for i := 0; i < n; i++ {
				ff.Index(i).SetUint(0xff)
			}
			if n > 0 {
				hi.Index(0).SetUint(1)
				lo.Index(n - 1).SetUint(1)
			}
			return []reflect.Value{z, ff, lo, hi}
		}
		ctr := 60
		return []reflect.Value{reflect.New(t).Elem(), c.rich(t, key, &ctr)}
	case reflect.Ptr:
		if nilOK {
			out = append(out, reflect.Zero(t))
		}
		for _, ev := range c.domain(t.Elem(), key, false, depth) {
			p := reflect.New(t.Elem())
			p.Elem().Set(ev)
			out = append(out, p)
		}
	case reflect.Struct:
		ctr := 20
		base := c.rich(t, key, &ctr)
		out = append(out, c.zeroish(t, key), base)
		if depth < 1 {
			out = append(out, c.singles(t, key, base, depth+1)...)
		}
	default:
		out = append(out, reflect.Zero(t))
	}
	return out
}

func conv(v reflect.Value, t reflect.Type) reflect.Value {
	if !v.IsValid() {
		return reflect.Zero(t)
	}
	if v.Type() == t {
		return v
	}
	if v.Type().AssignableTo(t) {
		nv := reflect.New(t).Elem()
		nv.Set(v)
		return nv
	}
	return v.Convert(t)
}

// singles returns every single-field variation of base (a struct or a pointer
// to one); nothing for other kinds.
func (c *domCtx) singles(t reflect.Type, key string, base reflect.Value, depth int) []reflect.Value {
	st, ptr := t, false
	if st.Kind() == reflect.Ptr {
		st, ptr = st.Elem(), true
	}
	if st.Kind() != reflect.Struct || st == bigIntType {
		return nil
	}
	if _, opaque := c.samples[t]; opaque {
		return nil
	}
	bv := base
	if ptr {
		if base.IsNil() {
			return nil
		}
		bv = base.Elem()
	}
	var out []reflect.Value
	for _, f := range rlpFields(st) {
		for _, dv := range c.domain(f.Type, st.Name()+"."+f.Name, fieldHasTag(f, "nil"), depth) {
			nv := reflect.New(st).Elem()
			nv.Set(bv)
			nv.FieldByName(f.Name).Set(dv)
			if ptr {
				p := reflect.New(st)
				p.Elem().Set(nv)
				out = append(out, p)
			} else {
				out = append(out, nv)
			}
		}
	}
	return out
}

// zeroish: zero values, but struct pointers allocated (a nil struct pointer
// encodes as an empty list the decoder cannot read back; counted separately).
func (c *domCtx) zeroish(t reflect.Type, key string) reflect.Value {
	if ov, ok := c.overrides[key]; ok {
		return conv(ov[0], t)
	}
	if s, ok := c.samples[t]; ok {
		return s[0]
	}
	switch t.Kind() {
	case reflect.Ptr:
		if t == bigPtrType || t.Elem().Kind() != reflect.Struct {
			return reflect.Zero(t)
		}
		p := reflect.New(t.Elem())
		p.Elem().Set(c.zeroish(t.Elem(), key))
		return p
	case reflect.Struct:
		if t == bigIntType {
			return reflect.Zero(t)
		}
		v := reflect.New(t).Elem()
		for _, f := range rlpFields(t) {
			if fieldHasTag(f, "nil") {
				continue
			}
			v.FieldByName(f.Name).Set(c.zeroish(f.Type, t.Name()+"."+f.Name))
		}
		return v
	}
	return reflect.Zero(t)
}

// rich: every scalar distinct (driven by *ctr) so that swapped or forgotten
// fields change the value.
func (c *domCtx) rich(t reflect.Type, key string, ctr *int) reflect.Value {
	if ov, ok := c.overrides[key]; ok {
		return conv(ov[len(ov)-1], t)
	}
	if s, ok := c.samples[t]; ok {
		return s[len(s)-1]
	}
	*ctr++
	n := *ctr
	switch {
	case t == bigPtrType:
		return reflect.ValueOf(big.NewInt(int64(1000 + n)))
	case t == bigIntType:
		return reflect.ValueOf(*big.NewInt(int64(1000 + n)))
	}
	v := reflect.New(t).Elem()
	switch t.Kind() {
	case reflect.Uint8:
		v.SetUint(uint64(0x81 + n%0x7e))
	case reflect.Uint16, reflect.Uint32, reflect.Uint64, reflect.Uint:
		v.SetUint(uint64(0x8100 + n))
	case reflect.Bool:
		v.SetBool(true)
	case reflect.String:
		v.SetString(fmt.Sprintf("s%d", n))
	case reflect.Slice:
		if t.Elem().Kind() == reflect.Uint8 {
			v.SetBytes([]byte{byte(0x80 + n%0x7f), byte(n), 0x01})
			return v
		}
		s := reflect.MakeSlice(t, 2, 2)
		s.Index(0).Set(c.rich(t.Elem(), key+"[]", ctr))
		s.Index(1).Set(c.rich(t.Elem(), key+"[]", ctr))
		return s
	case reflect.Array:
		for i := 0; i < t.Len(); i++ {
			if t.Elem().Kind() == reflect.Uint8 {
				v.Index(i).SetUint(uint64(byte(n*7 + i + 1)))
			} else {
				v.Index(i).Set(c.rich(t.Elem(), key, ctr))
			}
		}
	case reflect.Ptr:
		p := reflect.New(t.Elem())
		p.Elem().Set(c.rich(t.Elem(), key, ctr))
		return p
	case reflect.Struct:
		for _, f := range rlpFields(t) {
			v.FieldByName(f.Name).Set(c.rich(f.Type, t.Name()+"."+f.Name, ctr))
		}
	}
	return v
}

// ---- case enumeration ---------------------------------------------------------

// caseSet is the enumerable set of values of one mirror type.
type caseSet struct {
	t       reflect.Type // mirror type (struct, or any type for non-struct roots)
	fields  []reflect.StructField
	doms    [][]reflect.Value
	bases   []reflect.Value
	product []int // trimmed domain sizes for the full product (nil: no product)
	nProd   int
	nSingle int
	pairs   [][2]int
	pairOff []int // cumulative case offsets per pair (per baseline)
	nPair   int
	rootDom []reflect.Value // non-struct roots
}

const productFieldLimit = 6

func exportedFields(t reflect.Type) []reflect.StructField {
	var out []reflect.StructField
	for i := 0; i < t.NumField(); i++ {
		if f := t.Field(i); f.PkgPath == "" {
			out = append(out, f)
		}
	}
	return out
}

func (c *domCtx) newCaseSetFor(tg *target, prodCap int) *caseSet {
	return c.newCaseSet(tg.mirror, tg.only, prodCap, tg.allExported)
}

// seedIndexes: the cases whose encodings seed the mutation families.
func (cs *caseSet) seedIndexes() []int {
	if cs.rootDom != nil {
		var out []int
		for i := 0; i < len(cs.rootDom) && i < 6; i++ {
			out = append(out, i)
		}
		return out
	}
	per := 1 + cs.nSingle + cs.nPair
	return []int{cs.nProd, cs.nProd + per}
}

func (c *domCtx) newCaseSet(t reflect.Type, only map[string]bool, prodCap int, allExported bool) *caseSet {
	cs := &caseSet{t: t}
	if t.Kind() != reflect.Struct {
		cs.rootDom = c.domain(t, t.String(), false, 0)
		return cs
	}
	fields := rlpFields(t)
	if allExported {
		fields = exportedFields(t)
	}
	for _, f := range fields {
		if only != nil && !only[f.Name] {
			continue
		}
		cs.fields = append(cs.fields, f)
		cs.doms = append(cs.doms, c.domain(f.Type, t.Name()+"."+f.Name, fieldHasTag(f, "nil"), 0))
	}
	ctr := 0
	cs.bases = []reflect.Value{c.zeroish(t, t.Name()), c.rich(t, t.Name(), &ctr)}
	for i := range cs.fields {
		cs.nSingle += len(cs.doms[i])
	}
	if len(cs.fields) <= productFieldLimit {
		sizes := make([]int, len(cs.doms))
		for i := range sizes {
			sizes[i] = len(cs.doms[i])
		}
		for prodOf(sizes) > prodCap {
			// shrink the largest domain
			mi := 0
			for i := range sizes {
				if sizes[i] > sizes[mi] {
					mi = i
				}
			}
			if sizes[mi] <= 2 {
				break
			}
			sizes[mi]--
		}
		cs.product, cs.nProd = sizes, prodOf(sizes)
	}
	for i := 0; i < len(cs.fields); i++ {
		for j := i + 1; j < len(cs.fields); j++ {
			cs.pairs = append(cs.pairs, [2]int{i, j})
			cs.pairOff = append(cs.pairOff, cs.nPair)
			cs.nPair += len(cs.doms[i]) * len(cs.doms[j])
		}
	}
	return cs
}

func prodOf(s []int) int {
	p := 1
	for _, x := range s {
		p *= x
		if p > 1<<40 {
			return p
		}
	}
	return p
}

// size is the number of cases: product + per baseline (1 + singles + pairs).
func (cs *caseSet) size() int {
	if cs.rootDom != nil {
		return len(cs.rootDom)
	}
	return cs.nProd + len(cs.bases)*(1+cs.nSingle+cs.nPair)
}

// at builds case i (a fresh addressable value of the mirror type) and a short
// description of how it was derived.
func (cs *caseSet) at(i int) (reflect.Value, string) {
	if cs.rootDom != nil {
		v := reflect.New(cs.t).Elem()
		v.Set(cs.rootDom[i])
		return v, fmt.Sprintf("root[%d]", i)
	}
	v := reflect.New(cs.t).Elem()
	if i < cs.nProd {
		desc := "product"
		x := i
		for f, sz := range cs.product {
			k := x % sz
			x /= sz
			v.FieldByName(cs.fields[f].Name).Set(cs.doms[f][k])
			desc += fmt.Sprintf(" %s#%d", cs.fields[f].Name, k)
		}
		return v, desc
	}
	i -= cs.nProd
	per := 1 + cs.nSingle + cs.nPair
	b := i / per
	i %= per
	v.Set(cs.bases[b])
	bn := []string{"zero", "rich"}[b]
	if i == 0 {
		return v, "baseline " + bn
	}
	i--
	if i < cs.nSingle {
		for f := range cs.fields {
			if i < len(cs.doms[f]) {
				v.FieldByName(cs.fields[f].Name).Set(cs.doms[f][i])
				return v, fmt.Sprintf("%s %s#%d", bn, cs.fields[f].Name, i)
			}
			i -= len(cs.doms[f])
		}
	}
	i -= cs.nSingle
	// pairs: binary search over offsets
	lo, hi := 0, len(cs.pairs)-1
	for lo < hi {
		m := (lo + hi + 1) / 2
		if cs.pairOff[m] <= i {
			lo = m
		} else {
			hi = m - 1
		}
	}
	p := cs.pairs[lo]
	i -= cs.pairOff[lo]
	k1, k2 := i%len(cs.doms[p[0]]), i/len(cs.doms[p[0]])
	v.FieldByName(cs.fields[p[0]].Name).Set(cs.doms[p[0]][k1])
	v.FieldByName(cs.fields[p[1]].Name).Set(cs.doms[p[1]][k2])
	return v, fmt.Sprintf("%s %s#%d %s#%d", bn, cs.fields[p[0]].Name, k1, cs.fields[p[1]].Name, k2)
}
