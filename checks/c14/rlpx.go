package c14

// An independent, strict RLP reader (written from the encoding rules, not from
// /repo/rlp) plus tree diffing and the builders of the hostile-input families:
// the bounded shape grammar, header-form rewrites of valid encodings and
// single-byte mutations.

import (
	"bytes"
	"fmt"
)

// node is one parsed RLP item.
type node struct {
	list     bool
	str      []byte // string content (single bytes included)
	kids     []*node
	off, end int // [off,end) in the parsed input, header included
	hdr      int // header length
}

// strictParse reads b as exactly one canonical RLP item.  reason == "" on
// success; otherwise it names the first rule broken.
func strictParse(b []byte) (n *node, reason string) {
	n, used, reason := parseItem(b, 0, len(b))
	if reason != "" {
		return nil, reason
	}
	if used != len(b) {
		return nil, "trailing bytes after the top-level item"
	}
	return n, ""
}

func parseItem(b []byte, off, limit int) (*node, int, string) {
	if off >= limit {
		return nil, off, "item expected but enclosing payload ended"
	}
	t := b[off]
	switch {
	case t < 0x80:
		return &node{str: b[off : off+1], off: off, end: off + 1}, off + 1, ""
	case t < 0xb8:
		l := int(t - 0x80)
		if off+1+l > limit {
			return nil, off, "string payload overruns the enclosing payload"
		}
		if l == 1 && b[off+1] < 0x80 {
			return nil, off, "single byte below 0x80 encoded as a 1-byte string"
		}
		return &node{str: b[off+1 : off+1+l], off: off, end: off + 1 + l, hdr: 1}, off + 1 + l, ""
	case t < 0xc0:
		l, hl, why := readLen(b, off, limit, int(t-0xb7))
		if why != "" {
			return nil, off, "string " + why
		}
		return &node{str: b[off+hl : off+hl+l], off: off, end: off + hl + l, hdr: hl}, off + hl + l, ""
	case t < 0xf8:
		l := int(t - 0xc0)
		if off+1+l > limit {
			return nil, off, "list payload overruns the enclosing payload"
		}
		return parseList(b, off, 1, l)
	default:
		l, hl, why := readLen(b, off, limit, int(t-0xf7))
		if why != "" {
			return nil, off, "list " + why
		}
		return parseList(b, off, hl, l)
	}
}

func readLen(b []byte, off, limit, ll int) (l, hl int, why string) {
	if off+1+ll > limit {
		return 0, 0, "length bytes overrun the enclosing payload"
	}
	if b[off+1] == 0 {
		return 0, 0, "length has a leading zero byte"
	}
	var v uint64
	for i := 0; i < ll; i++ {
		if v>>56 != 0 {
			return 0, 0, "length overflows 64 bits"
		}
		v = v<<8 | uint64(b[off+1+i])
	}
	if v < 56 {
		return 0, 0, "long form used for a length below 56"
	}
	if v > uint64(limit-off-1-ll) {
		return 0, 0, "payload overruns the enclosing payload"
	}
	return int(v), 1 + ll, ""
}

func parseList(b []byte, off, hl, l int) (*node, int, string) {
	n := &node{list: true, off: off, end: off + hl + l, hdr: hl}
	p, lim := off+hl, off+hl+l
	for p < lim {
		k, np, why := parseItem(b, p, lim)
		if why != "" {
			return nil, off, why
		}
		n.kids = append(n.kids, k)
		p = np
	}
	return n, lim, ""
}

// walk visits every item of the tree with its index path.
func (n *node) walk(path []int, f func(n *node, path []int)) {
	f(n, path)
	for i, k := range n.kids {
		k.walk(append(append([]int{}, path...), i), f)
	}
}

// treeDiff returns the path of the first item where two canonical trees differ
// and a description of the difference, in(put) versus re(-encoding).
func treeDiff(in, re *node, path []int) ([]int, string) {
	if in.list != re.list {
		switch {
		case in.list && len(in.kids) == 0 && len(re.str) == 0:
			return path, "empty list accepted where the encoder writes an empty string"
		case !in.list && len(in.str) == 0 && len(re.kids) == 0:
			return path, "empty string accepted where the encoder writes an empty list"
		case in.list:
			return path, "list accepted where the encoder writes a string"
		}
		return path, "string accepted where the encoder writes a list"
	}
	if !in.list {
		if bytes.Equal(in.str, re.str) {
			return nil, ""
		}
		return path, "string value changed by the re-encoding"
	}
	switch {
	case len(in.kids) > len(re.kids):
		return path, "list items dropped by the re-encoding"
	case len(in.kids) < len(re.kids):
		return path, "list items added by the re-encoding"
	}
	first, what := []int(nil), ""
	for i := range in.kids {
		if p, w := treeDiff(in.kids[i], re.kids[i], append(append([]int{}, path...), i)); w != "" {
			first, what = p, w
			break
		}
	}
	if what != "" && len(first) == len(path)+1 && sameMultiset(in, re) {
		return path, "list items reordered by the re-encoding"
	}
	return first, what
}

func sameMultiset(a, b *node) bool {
	cnt := map[string]int{}
	for _, k := range a.kids {
		cnt[k.key()]++
	}
	for _, k := range b.kids {
		cnt[k.key()]--
	}
	for _, v := range cnt {
		if v != 0 {
			return false
		}
	}
	return true
}

// key is a canonical rendering of the item (content only).
func (n *node) key() string {
	if !n.list {
		return fmt.Sprintf("s%x", n.str)
	}
	s := "l("
	for _, k := range n.kids {
		s += k.key() + ","
	}
	return s + ")"
}

// ---- encoding helpers (independent of /repo/rlp) -----------------------------

func beLen(n uint64) []byte {
	var out []byte
	for n > 0 {
		out = append([]byte{byte(n)}, out...)
		n >>= 8
	}
	return out
}

func encStr(s []byte) []byte {
	if len(s) == 1 && s[0] < 0x80 {
		return []byte{s[0]}
	}
	return append(hdrOf(0x80, uint64(len(s))), s...)
}

func encList(items ...[]byte) []byte {
	var p []byte
	for _, it := range items {
		p = append(p, it...)
	}
	return append(hdrOf(0xc0, uint64(len(p))), p...)
}

func hdrOf(base byte, l uint64) []byte {
	if l < 56 {
		return []byte{base + byte(l)}
	}
	bl := beLen(l)
	return append([]byte{base + 55 + byte(len(bl))}, bl...)
}

// headerForms returns alternative headers for an item whose canonical payload
// length is l (base 0x80 string / 0xc0 list): wrong declared lengths, huge
// declared lengths and non-minimal encodings of the right length.
type hform struct {
	name string
	hdr  []byte
}

func headerForms(base byte, l uint64) []hform {
	long := func(v uint64, pad int) []byte {
		bl := beLen(v)
		if len(bl) == 0 {
			bl = []byte{0}
		}
		for i := 0; i < pad; i++ {
			bl = append([]byte{0}, bl...)
		}
		return append([]byte{base + 55 + byte(len(bl))}, bl...)
	}
	fs := []hform{
		{"len+1", hdrOf(base, l+1)},
		{"len=2^32", long(1<<32, 0)},
		{"len=2^63", long(1<<63, 0)},
		{"len=2^64-1", long(^uint64(0), 0)},
		{"len=2^31", long(1<<31, 0)},
		{"long-form-leading-zero", long(l, 1)},
	}
	if l > 0 {
		fs = append(fs, hform{"len-1", hdrOf(base, l-1)})
	}
	if l < 56 {
		fs = append(fs, hform{"long-form-for-short", long(l, 0)})
	} else {
		fs = append(fs, hform{"long-form-8-byte-length", long(l, 8-len(beLen(l)))})
	}
	return fs
}

// headerRewrites yields, for every item of a canonical encoding, the encoding
// with that item's header replaced by each alternative form, plus integer and
// single-byte canonicality attacks on string items.  Enclosing list headers are
// NOT fixed up for the size-lying forms (the lie is the attack) but ARE fixed up
// for the same-content re-spellings so that only one rule is broken at a time.
type rewrite struct {
	what string
	data []byte
}

func headerRewrites(enc []byte) []rewrite {
	root, why := strictParse(enc)
	if why != "" {
		return nil
	}
	var out []rewrite
	root.walk(nil, func(n *node, path []int) {
		base := byte(0x80)
		if n.list {
			base = 0xc0
		}
		payload := enc[n.off+n.hdr : n.end]
		if !n.list && n.hdr == 0 {
			payload = enc[n.off:n.end] // single byte: its own payload
		}
		for _, f := range headerForms(base, uint64(len(payload))) {
			item := append(append([]byte{}, f.hdr...), payload...)
			raw := splice(enc, n.off, n.end, item)
			out = append(out, rewrite{f.name + " (raw)", raw})
			if fixed := respell(root, enc, path, item); fixed != nil {
				out = append(out, rewrite{f.name + " (outer lengths adjusted)", fixed})
			}
		}
		if !n.list {
			// leading zero byte in front of the content (integers must reject it)
			z := append([]byte{0}, payload...)
			if fixed := respell(root, enc, path, encStr(z)); fixed != nil {
				out = append(out, rewrite{"leading-zero-content", fixed})
			}
			if len(payload) == 0 {
				// empty string <-> empty list, and explicit zero byte
				if fixed := respell(root, enc, path, []byte{0xc0}); fixed != nil {
					out = append(out, rewrite{"empty-list-for-empty-string", fixed})
				}
				if fixed := respell(root, enc, path, []byte{0x00}); fixed != nil {
					out = append(out, rewrite{"zero-byte-for-empty-string", fixed})
				}
			}
			if len(payload) == 1 && payload[0] < 0x80 {
				if fixed := respell(root, enc, path, []byte{0x81, payload[0]}); fixed != nil {
					out = append(out, rewrite{"single-byte-as-string", fixed})
				}
			}
		} else {
			if len(n.kids) == 0 {
				if fixed := respell(root, enc, path, []byte{0x80}); fixed != nil {
					out = append(out, rewrite{"empty-string-for-empty-list", fixed})
				}
			}
			// one extra trailing item inside the list / one item dropped / first item duplicated
			extra := append(append([]byte{}, payload...), 0x01)
			if fixed := respell(root, enc, path, append(hdrOf(0xc0, uint64(len(extra))), extra...)); fixed != nil {
				out = append(out, rewrite{"extra-item-in-list", fixed})
			}
			if len(n.kids) > 0 {
				last := n.kids[len(n.kids)-1]
				short := enc[n.off+n.hdr : last.off]
				if fixed := respell(root, enc, path, append(hdrOf(0xc0, uint64(len(short))), short...)); fixed != nil {
					out = append(out, rewrite{"last-item-dropped", fixed})
				}
				first := n.kids[0]
				dup := append(append([]byte{}, enc[first.off:first.end]...), payload...)
				if fixed := respell(root, enc, path, append(hdrOf(0xc0, uint64(len(dup))), dup...)); fixed != nil {
					out = append(out, rewrite{"first-item-duplicated", fixed})
				}
			}
			if len(n.kids) > 1 {
				a, b := n.kids[0], n.kids[1]
				sw := append([]byte{}, enc[b.off:b.end]...)
				sw = append(sw, enc[a.off:a.end]...)
				sw = append(sw, enc[b.end:n.end]...)
				if fixed := respell(root, enc, path, append(hdrOf(0xc0, uint64(len(sw))), sw...)); fixed != nil {
					out = append(out, rewrite{"first-two-items-swapped", fixed})
				}
			}
		}
	})
	// whole-input attacks
	out = append(out, rewrite{"trailing-byte-after-value", append(append([]byte{}, enc...), 0x00)})
	out = append(out, rewrite{"value-twice", append(append([]byte{}, enc...), enc...)})
	if len(enc) > 1 {
		out = append(out, rewrite{"truncated-by-one", append([]byte{}, enc[:len(enc)-1]...)})
	}
	return out
}

func splice(enc []byte, off, end int, item []byte) []byte {
	out := make([]byte, 0, len(enc)-(end-off)+len(item))
	out = append(out, enc[:off]...)
	out = append(out, item...)
	return append(out, enc[end:]...)
}

// respell rebuilds enc with the item at path replaced by item and every
// enclosing list header recomputed canonically.
func respell(root *node, enc []byte, path []int, item []byte) []byte {
	var rec func(n *node, depth int) []byte
	rec = func(n *node, depth int) []byte {
		if depth == len(path) {
			return item
		}
		var p []byte
		for i, k := range n.kids {
			if i == path[depth] {
				p = append(p, rec(k, depth+1)...)
			} else {
				p = append(p, enc[k.off:k.end]...)
			}
		}
		return append(hdrOf(0xc0, uint64(len(p))), p...)
	}
	return rec(root, 0)
}

// ---- bounded shape grammar ----------------------------------------------------

// grammar holds the pre-built item sets of the bounded shape grammar.
type grammar struct {
	inputs [][]byte // every top-level input, de-duplicated
	sizeAttack []bool // inputs[i] declares a length it does not have
}

func repeat(b byte, n int) []byte { return bytes.Repeat([]byte{b}, n) }

// atoms: every header form of a string item, canonical and not.
func grammarAtoms() (full, small, tiny [][]byte) {
	full = [][]byte{
		{0x00}, {0x01}, {0x7f}, // single bytes
		{0x80},                 // empty string
		{0x81, 0x00},           // non-canonical: single byte as string
		{0x81, 0x7f},           // non-canonical
		{0x81, 0x80},           // canonical 1-byte string
		{0x82, 0x00, 0x01},     // leading-zero integer
		{0x82, 0x01, 0x00},     // 256
		encStr(repeat(0xff, 8)),  // 2^64-1
		encStr(append([]byte{1}, repeat(0, 8)...)), // 2^64
		encStr(repeat(0xab, 20)), // address sized
		encStr(repeat(0xcd, 32)), // hash sized
		encStr(repeat(0x11, 55)), // longest short string
		encStr(repeat(0x22, 56)), // shortest long string
		append([]byte{0xb8, 0x37}, repeat(0x33, 55)...), // long form for 55
		append([]byte{0xb9, 0x00, 0x38}, repeat(0x44, 56)...), // leading zero in length
		{0xb8, 0x38},                   // long string header, payload missing
		{0xbf, 0xff, 0xff, 0xff, 0xff, 0xff, 0xff, 0xff, 0xff}, // 2^64-1 declared
		{0xbb, 0x01, 0x00, 0x00, 0x00, 0x00},                   // 2^32 declared
		{0xb7},       // short string header, payload missing
		{0xc0},       // empty list
	}
	small = [][]byte{{0x01}, {0x80}, {0x81, 0x80}, {0x82, 0x00, 0x01}, encStr(repeat(0xab, 20)), {0xc0}}
	tiny = [][]byte{{0x01}, {0x80}, {0xc0}}
	return
}

func listsOf(items [][]byte, max int) [][]byte {
	out := [][]byte{encList()}
	var rec func(prefix []byte, k int)
	rec = func(prefix []byte, k int) {
		if k == max {
			return
		}
		for _, it := range items {
			p := append(append([]byte{}, prefix...), it...)
			out = append(out, append(hdrOf(0xc0, uint64(len(p))), p...))
			rec(p, k+1)
		}
	}
	rec(nil, 0)
	return out
}

// buildGrammar enumerates every RLP shape of depth <= 3 with <= 3 items per
// list over the atom sets (the sets shrink with depth to keep the product
// finite: full atoms at depth 1, small at depth 2, tiny at depth 3), and for
// every depth-1/2 list additionally every alternative form of the outermost
// header.
func buildGrammar(quick bool) *grammar {
	full, small, tiny := grammarAtoms()
	l1 := listsOf(full, 3) // depth 1
	l1sMax, l3Max := 2, 3
	if quick {
		l1sMax, l3Max = 1, 2
	}
	l1s := listsOf(small, l1sMax)                                  // reduced depth-1 lists used as items
	l2 := listsOf(append(append([][]byte{}, small...), l1s...), 3) // depth 2
	l1t := listsOf(tiny, 1)
	l2t := listsOf(append(append([][]byte{}, tiny...), l1t...), 2)
	l3items := append(append([][]byte{}, tiny...), l2t...)
	l3 := listsOf(l3items, l3Max) // depth 3
	g := &grammar{}
	seen := map[string]bool{}
	add := func(b []byte, attack bool) {
		k := string(b)
		if seen[k] {
			return
		}
		seen[k] = true
		g.inputs = append(g.inputs, b)
		g.sizeAttack = append(g.sizeAttack, attack)
	}
	add([]byte{}, false)
	for _, a := range full {
		add(a, false)
	}
	withForms := func(ls [][]byte) {
		for _, l := range ls {
			add(l, false)
			hl := 1
			if l[0] >= 0xf8 {
				hl = 1 + int(l[0]-0xf7)
			}
			payload := l[hl:]
			for _, f := range headerForms(0xc0, uint64(len(payload))) {
				add(append(append([]byte{}, f.hdr...), payload...), true)
			}
		}
	}
	withForms(l1)
	withForms(l2)
	for _, l := range l3 {
		add(l, false)
	}
	return g
}

func pathString(p []int) string {
	s := ""
	for _, i := range p {
		s += fmt.Sprintf("[%d]", i)
	}
	if s == "" {
		return "top level"
	}
	return s
}
