// Package c14: RLP encoding is canonical, round-trips, and decoding hostile
// bytes is safe.  Bounded-exhaustive input enumeration over every wire / disk
// type of the node:
//
//	A. round trip        decode(encode(v)) == v, encoding deterministic and canonical
//	S. container sizes   (sizes.go) every collection / byte string at every boundary size x every
//	                     encoder exit x every history of the pooled encoder buffer, against an
//	                     independent reference encoder (reftree.go)
//	B. accept=>canonical every accepted hostile input is canonical RLP and re-encodes to itself; no panic
//	C. allocation        decoding size-lying inputs allocates O(len(input)); C2 (alloc.go): calibrated
//	                     per-input bound, capacity rule, three decoder entry styles
//	D. handlers          ucon MessageHandler.HandleMsg and staking TxConverter.ApplyMessage
//	                     (+ take-effect entry for accepted messages) return, never panic
//	E. entry points      (entry.go) every function that enters the decoder on its own refuses
//	                     trailing bytes / truncations / an extra list around a valid encoding
package c14

import (
	"bytes"
	"encoding/hex"
	"encoding/json"
	"fmt"
	"hash/fnv"
	"os"
	"reflect"
	"runtime"
	"sort"
	"strings"
	"sync"
	"sync/atomic"
	"time"

	"github.com/youchainhq/go-youchain/logging"
	"github.com/youchainhq/go-youchain/params"
	"github.com/youchainhq/go-youchain/rlp"

	"verif/checks/chainx"
	"verif/mc"
)

func enc(v interface{}) ([]byte, error)  { return rlp.EncodeToBytes(v) }
func dec(b []byte, v interface{}) error { return rlp.DecodeBytes(b, v) }

// input is the replayable description of one evaluated case.
type input struct {
	Phase string `json:"phase"`
	Type  string `json:"type,omitempty"`
	Case  int    `json:"case,omitempty"`
	Desc  string `json:"desc,omitempty"`
	Hex   string `json:"hex,omitempty"`
	Code  int    `json:"code,omitempty"`
	Ctx   int    `json:"ctx,omitempty"`
	Style int    `json:"style,omitempty"` // phase alloc2: index of the decoder entry style
}

type typeStat struct {
	RoundTrips  int64 `json:"round_trip_values"`
	Accepts     int64 `json:"hostile_accepted"`
	Rejects     int64 `json:"hostile_rejected"`
	NonTrivAcc  int64 `json:"hostile_accepted_other_than_seed"`
	EncLenMax   int64 `json:"max_encoding_len"`
}

type checker struct {
	r       *mc.Run
	targets []*target
	byName  map[string]*target
	ctx     *domCtx
	stats   []typeStat
	quick   bool
	vmu     sync.Mutex
	best    map[string]mc.Violation
	// overAlloc: the allocation phase found a decoder trusting declared sizes
	overAlloc bool
	sampled   map[string]bool
	alloc     *allocStats
	// chain nodes opened by the block-import entry point (closed at the end of phase E)
	chainNodes []*chainx.Node
}

func normMsg(m string) string {
	var b strings.Builder
	for _, c := range m {
		if c >= '0' && c <= '9' {
			continue
		}
		b.WriteRune(c)
	}
	out := b.String()
	if i := strings.Index(out, "x"); i >= 0 && strings.Contains(out, "[signal") {
		out = out[:i]
	}
	if len(out) > 90 {
		out = out[:90]
	}
	return out
}

func hash64(b []byte) uint64 {
	h := fnv.New64a()
	h.Write(b)
	return h.Sum64()
}

func newChecker(r *mc.Run) *checker {
	logging.Root().SetHandler(logging.DiscardHandler())
	params.InitNetworkId(params.NetworkIdForTestCase)
	ts, ctx := buildTargets(enc, dec)
	c := &checker{r: r, targets: ts, ctx: ctx, byName: map[string]*target{}, quick: r.Quick(), best: map[string]mc.Violation{}, sampled: map[string]bool{},
		alloc: &allocStats{byClass: map[string]int64{}, classOwners: map[string]map[string]bool{}}}
	c.stats = make([]typeStat, len(ts))
	prodCap := 20000
	if !c.quick {
		prodCap = 300000
	}
	for _, t := range ts {
		c.byName[t.name] = t
		t.cases = ctx.newCaseSetFor(t, prodCap)
	}
	return c
}

// ---- phase A: round trip --------------------------------------------------------

// report keeps, per signature, the smallest witness (shortest input, then
// lexicographically first) so that the reported counterexample does not depend
// on worker scheduling; flush hands them to the run.
func (c *checker) report(sig, detail string, in input) {
	c.vmu.Lock()
	defer c.vmu.Unlock()
	old, ok := c.best[sig]
	if ok {
		a, b := in.Hex, old.Input.(input).Hex
		if len(a) > len(b) || (len(a) == len(b) && a >= b) {
			return
		}
	}
	c.best[sig] = mc.Violation{Sig: sig, Detail: detail, Input: in}
}

// sampleOnce keeps one verbatim case per key for the evidence file.
func (c *checker) sampleOnce(key string, v interface{}) {
	c.vmu.Lock()
	seen := c.sampled[key]
	c.sampled[key] = true
	c.vmu.Unlock()
	if !seen {
		c.r.Sample(v)
	}
}

func (c *checker) flush() {
	c.vmu.Lock()
	defer c.vmu.Unlock()
	for _, v := range c.best {
		c.r.Report(v)
	}
}

// roundTrip checks one value; returns its encoding (nil if not encodable).
func (c *checker) roundTrip(t *target, idx int, record bool) []byte {
	m, desc := t.cases.at(idx)
	in := input{Phase: "roundtrip", Type: t.name, Case: idx, Desc: desc}
	var val, expect interface{}
	var ok bool
	if msg := mc.Catch(func() { val, expect, ok = t.build(m) }); msg != "" || !ok {
		c.r.Count("rt_value_not_constructible", 1)
		return nil
	}
	var e1 []byte
	var err error
	if msg, where := mc.CatchStack(func() { e1, err = enc(val) }); msg != "" {
		c.report(fmt.Sprintf("%s: encode panic: %s at %s", t.name, normMsg(msg), where), fmt.Sprintf("value %s: %s", desc, msg), in)
		return nil
	}
	if err != nil {
		c.r.Count("rt_encode_error", 1)
		return nil
	}
	in.Hex = hex.EncodeToString(e1)
	// deterministic
	tries := 4
	if t.mapOrdered {
		tries = 64
	}
	for k := 0; k < tries; k++ {
		e2, _ := enc(val)
		if !bytes.Equal(e1, e2) {
			c.report(t.name+": encoding is not deterministic (two encodings of one value differ)",
				fmt.Sprintf("value %s\n first: %x\n other: %x", desc, e1, e2), in)
			break
		}
	}
	// the encoder itself must emit canonical RLP
	if _, why := strictParse(e1); why != "" {
		c.report(fmt.Sprintf("%s: encoder emits malformed RLP (%s)", t.name, why), fmt.Sprintf("value %s: %x", desc, e1), in)
		return nil
	}
	d := t.fresh()
	if msg, where := mc.CatchStack(func() { err = dec(e1, d) }); msg != "" {
		c.report(fmt.Sprintf("%s: decode panic on own encoding: %s at %s", t.name, normMsg(msg), where), fmt.Sprintf("value %s: %x: %s", desc, e1, msg), in)
		return e1
	}
	if err != nil {
		if isNilStructPtrCase(m) {
			c.r.Count("rt_nil_struct_pointer_not_decodable(excluded)", 1)
			return nil
		}
		c.report(fmt.Sprintf("%s: own encoding rejected by the decoder (%s)", t.name, errClass(err)), fmt.Sprintf("value %s: %x: %v", desc, e1, err), in)
		return e1
	}
	var where, detail string
	if msg := mc.Catch(func() { where, detail = diffIface(expect, t.view(d), t.only) }); msg != "" {
		c.report(fmt.Sprintf("%s: decoded value unusable (accessor panic: %s)", t.name, normMsg(msg)), fmt.Sprintf("value %s: %x", desc, e1), in)
		return e1
	}
	if where != "" {
		c.report(fmt.Sprintf("%s: field %s not preserved by decode(encode(v))", t.name, where), fmt.Sprintf("value %s: %x: %s", desc, e1, detail), in)
	}
	var e3 []byte
	if msg, w := mc.CatchStack(func() { e3, err = enc(d) }); msg != "" {
		c.report(fmt.Sprintf("%s: re-encode panic: %s at %s", t.name, normMsg(msg), w), fmt.Sprintf("value %s: %x", desc, e1), in)
		return e1
	}
	if err != nil || !bytes.Equal(e1, e3) {
		same := false
		if t.mapOrdered {
			for k := 0; k < 256 && !same; k++ {
				e3, _ = enc(d)
				same = bytes.Equal(e1, e3)
			}
		}
		if !same {
			c.report(t.name+": encode(decode(encode(v))) differs from encode(v)", fmt.Sprintf("value %s\n first: %x\n again: %x err=%v", desc, e1, e3, err), in)
		}
	}
	if record {
		atomic.AddInt64(&c.stats[t.id].RoundTrips, 1)
		for {
			old := atomic.LoadInt64(&c.stats[t.id].EncLenMax)
			if int64(len(e1)) <= old || atomic.CompareAndSwapInt64(&c.stats[t.id].EncLenMax, old, int64(len(e1))) {
				break
			}
		}
		if c.r.Distinct(fmt.Sprintf("rt|%s|%x", t.name, hash64(e1))) {
			c.r.Count("rt_distinct_encodings", 1)
		}
		if strings.HasPrefix(desc, "baseline rich") && len(e1) < 260 {
			c.sampleOnce("rt|"+t.name[:strings.Index(t.name, ".")+1], map[string]string{"phase": "A round trip", "type": t.name, "value": desc, "encoding": in.Hex})
		}
	}
	return e1
}

// isNilStructPtrCase: the value holds a nil pointer to a struct in a field
// without the "nil" tag; rlp encodes it as an empty list which the struct
// decoder cannot read back.  Production never sends such values; counted only.
func isNilStructPtrCase(m reflect.Value) bool {
	found := false
	var walk func(v reflect.Value, depth int)
	walk = func(v reflect.Value, depth int) {
		if found || depth > 4 {
			return
		}
		switch v.Kind() {
		case reflect.Ptr:
			if v.IsNil() {
				if v.Type() != bigPtrType && v.Type().Elem().Kind() == reflect.Struct {
					found = true
				}
				return
			}
			walk(v.Elem(), depth+1)
		case reflect.Interface:
			if v.IsNil() {
				found = true
				return
			}
			walk(v.Elem(), depth+1)
		case reflect.Struct:
			if v.Type() == bigIntType {
				return
			}
			for i := 0; i < v.NumField(); i++ {
				f := v.Type().Field(i)
				if f.PkgPath != "" || fieldHasTag(f, "nil") {
					continue
				}
				walk(v.Field(i), depth+1)
			}
		case reflect.Slice:
			if v.Type().Elem().Kind() == reflect.Uint8 {
				return
			}
			for i := 0; i < v.Len(); i++ {
				walk(v.Index(i), depth+1)
			}
		}
	}
	walk(m, 0)
	return found
}

func errClass(err error) string {
	s := err.Error()
	if i := strings.Index(s, " for "); i > 0 {
		s = s[:i]
	}
	if i := strings.Index(s, ", decoding into"); i > 0 {
		s = s[:i]
	}
	return normMsg(s)
}

func (c *checker) phaseRoundTrip() {
	for _, t := range c.targets {
		t := t
		n := t.cases.size()
		c.r.ForEach(n, func(w, i int) { c.roundTrip(t, i, true) })
		c.r.Count("rt_cases", int64(n))
		c.ensureSeeds(t)
		if c.r.Expired() {
			return
		}
	}
}

// ensureSeeds fills the mutation seeds of a type: the encodings of its baselines
// (and, for non-struct roots, of every domain value).
func (c *checker) ensureSeeds(t *target) {
	if len(t.seeds) > 0 {
		return
	}
	for _, i := range t.cases.seedIndexes() {
		if e := c.roundTrip(t, i, false); e != nil {
			dup := false
			for _, s := range t.seeds {
				dup = dup || bytes.Equal(s, e)
			}
			if !dup {
				t.seeds = append(t.seeds, e)
			}
		}
	}
}

// ---- phase B: accept => canonical ---------------------------------------------------

// tryDecode feeds one hostile input to one target type.  family names the
// generator for the counters.  Returns true if the decoder accepted.
func (c *checker) tryDecode(t *target, data []byte, family string, isSeed bool) bool {
	in := input{Phase: "decode", Type: t.name, Hex: hex.EncodeToString(data), Desc: family}
	d := t.fresh()
	var err error
	if msg, where := mc.CatchStack(func() { err = dec(data, d) }); msg != "" {
		c.report(fmt.Sprintf("%s decode panic: %s at %s", t.name, normMsg(msg), where), fmt.Sprintf("input %x (%s): %s", data, family, msg), in)
		return false
	}
	if err != nil {
		atomic.AddInt64(&c.stats[t.id].Rejects, 1)
		return false
	}
	atomic.AddInt64(&c.stats[t.id].Accepts, 1)
	if !isSeed {
		atomic.AddInt64(&c.stats[t.id].NonTrivAcc, 1)
		c.r.Distinct(fmt.Sprintf("acc|%s|%x", t.name, hash64(data)))
		if len(data) < 120 && (t.name == "ucon.Message" || t.name == "types.Transaction") {
			c.sampleOnce("acc|"+t.name+family[:4], map[string]string{"phase": "B accepted hostile input (re-encodes to itself)", "type": t.name, "family": family, "input": in.Hex})
		}
	}
	root, why := strictParse(data)
	if why != "" {
		// an RLP-level rule: the defect is in the shared decoder, not in the type
		c.report(fmt.Sprintf("rlp decoder: accepted malformed RLP (%s)", why), fmt.Sprintf("input %x (%s) decodes into %s without error", data, family, t.name), in)
		return true
	}
	var re []byte
	if msg, where := mc.CatchStack(func() { re, err = enc(d) }); msg != "" {
		c.report(fmt.Sprintf("%s: value decoded from hostile input cannot be re-encoded (panic: %s at %s)", t.name, normMsg(msg), where), fmt.Sprintf("input %x (%s): %s", data, family, msg), in)
		return true
	}
	if err != nil {
		c.report(fmt.Sprintf("%s: value decoded from hostile input cannot be re-encoded (%s)", t.name, errClass(err)), fmt.Sprintf("input %x (%s): %v", data, family, err), in)
		return true
	}
	if bytes.Equal(re, data) {
		return true
	}
	if t.mapOrdered {
		for k := 0; k < 256; k++ {
			if re, _ = enc(d); bytes.Equal(re, data) {
				return true
			}
		}
	}
	owner, what, field := t.name, "re-encoding is not canonical RLP", "top level"
	if rr, w2 := strictParse(re); w2 == "" {
		p, wh := treeDiff(root, rr, nil)
		var leaf reflect.Type
		owner, field, leaf = pathName(t.name, t.wireShape(), p)
		what = wh
		if isIntType(leaf) && strings.HasPrefix(wh, "string value changed") {
			what = "integer value changed by the re-encoding"
		}
	}
	c.r.Count("noncanonical_accepts_seen", 1)
	via := ""
	if owner != t.name {
		via = fmt.Sprintf("\ncarried inside %s", t.name)
	}
	c.report(fmt.Sprintf("%s: accepted non-canonical encoding (%s at %s)", owner, what, field),
		fmt.Sprintf("input    %x (%s)\nre-encode %x\nidentified by: %s%s", data, family, re, t.ident, via), in)
	return true
}

// mutation values for large encodings
func mutValues(orig byte) []byte {
	return []byte{orig + 1, orig - 1, orig ^ 0x80, 0x00, 0xff}
}

func (c *checker) smallLimit() int {
	if c.quick {
		return 160
	}
	return 1200
}

func (c *checker) phaseHostile(g *grammar) {
	type job struct {
		t    *target
		seed []byte
	}
	// B1: the shape grammar against every type
	for _, t := range c.targets {
		t := t
		c.r.ForEach(len(g.inputs), func(w, i int) {
			if c.tryDecode(t, g.inputs[i], "grammar", false) {
				c.r.Count("grammar_accepted", 1)
			} else {
				c.r.Count("grammar_rejected", 1)
			}
		})
		if c.r.Expired() {
			return
		}
	}
	// B2: header-form rewrites and structural edits of every seed
	for _, t := range c.targets {
		t := t
		for _, s := range t.seeds {
			c.tryDecode(t, s, "seed", true)
			rw := headerRewrites(s)
			c.r.ForEach(len(rw), func(w, i int) {
				if c.tryDecode(t, rw[i].data, "rewrite:"+rw[i].what, false) {
					c.r.Count("rewrite_accepted", 1)
				} else {
					c.r.Count("rewrite_rejected", 1)
				}
			})
		}
	}
	// B3: single-byte mutation of every seed
	for _, t := range c.targets {
		t := t
		for _, s := range t.seeds {
			s := s
			full := len(s) <= c.smallLimit()
			per := 5
			if full {
				per = 256
				c.r.Count("seeds_mutated_exhaustively(every_byte_x_every_value)", 1)
			} else {
				c.r.Count("seeds_mutated_with_5_values_per_byte", 1)
			}
			bufs := make([][]byte, c.r.Workers)
			c.r.Enum([]int{per, len(s)}, func(w int, idx []int) {
				pos := idx[1]
				var nv byte
				if full {
					nv = byte(idx[0])
				} else {
					nv = mutValues(s[pos])[idx[0]]
				}
				if nv == s[pos] {
					return
				}
				if bufs[w] == nil {
					bufs[w] = make([]byte, len(s))
				}
				b := bufs[w]
				copy(b, s)
				b[pos] = nv
				if c.tryDecode(t, b, "byte-mutation", false) {
					c.r.Count("mutation_accepted", 1)
				} else {
					c.r.Count("mutation_rejected", 1)
				}
			})
			if c.r.Expired() {
				return
			}
		}
	}
}

// ---- phase B': rlp/raw.go splitters ----------------------------------------------------

// headerOnly reads the first item's header by the encoding rules (content is
// not inspected, exactly the contract of rlp.Split).
func headerOnly(b []byte) (list bool, hdr, clen int, why string) {
	if len(b) == 0 {
		return false, 0, 0, "empty input"
	}
	t := b[0]
	long := func(ll int) (int, string) {
		if 1+ll > len(b) {
			return 0, "length bytes missing"
		}
		if b[1] == 0 {
			return 0, "length has a leading zero byte"
		}
		var v uint64
		for i := 0; i < ll; i++ {
			if v>>56 != 0 {
				return 0, "length overflows"
			}
			v = v<<8 | uint64(b[1+i])
		}
		if v < 56 {
			return 0, "long form used for a length below 56"
		}
		if v > uint64(len(b)-1-ll) {
			return 0, "payload longer than the input"
		}
		return int(v), ""
	}
	switch {
	case t < 0x80:
		return false, 0, 1, ""
	case t < 0xb8:
		l := int(t - 0x80)
		if 1+l > len(b) {
			return false, 0, 0, "payload longer than the input"
		}
		if l == 1 && b[1] < 0x80 {
			return false, 0, 0, "single byte below 0x80 encoded as a 1-byte string"
		}
		return false, 1, l, ""
	case t < 0xc0:
		l, w := long(int(t - 0xb7))
		return false, 1 + int(t-0xb7), l, w
	case t < 0xf8:
		l := int(t - 0xc0)
		if 1+l > len(b) {
			return true, 0, 0, "payload longer than the input"
		}
		return true, 1, l, ""
	}
	l, w := long(int(t - 0xf7))
	return true, 1 + int(t-0xf7), l, w
}

// tryRaw checks rlp.Split / SplitString / SplitList / CountValues on one input.
func (c *checker) tryRaw(data []byte, family string) {
	in := input{Phase: "raw", Hex: hex.EncodeToString(data), Desc: family}
	var k rlp.Kind
	var content, rest []byte
	var err error
	if msg, where := mc.CatchStack(func() {
		k, content, rest, err = rlp.Split(data)
		rlp.SplitString(data)
		rlp.SplitList(data)
	}); msg != "" {
		c.report(fmt.Sprintf("rlp.Split panic: %s at %s", normMsg(msg), where), fmt.Sprintf("input %x: %s", data, msg), in)
		return
	}
	list, hdr, clen, why := headerOnly(data)
	if err == nil {
		c.r.Count("raw_split_accepted", 1)
		switch {
		case why != "":
			c.report(fmt.Sprintf("rlp.Split: accepted a malformed header (%s)", why), fmt.Sprintf("input %x", data), in)
		case list != (k == rlp.List) || len(content) != clen || len(rest) != len(data)-hdr-clen || !bytes.Equal(content, data[hdr:hdr+clen]):
			c.report("rlp.Split: content/rest do not partition the input", fmt.Sprintf("input %x -> kind=%v content=%x rest=%x", data, k, content, rest), in)
		}
	} else {
		c.r.Count("raw_split_rejected", 1)
		if why == "" {
			c.report("rlp.Split: rejected a well-formed item", fmt.Sprintf("input %x: %v", data, err), in)
		}
	}
	// CountValues over the whole input against header-by-header walking
	want, bad := 0, false
	for p := 0; p < len(data); {
		_, h, l, w := headerOnly(data[p:])
		if w != "" {
			bad = true
			break
		}
		p += h + l
		want++
	}
	var n int
	if msg, where := mc.CatchStack(func() { n, err = rlp.CountValues(data) }); msg != "" {
		c.report(fmt.Sprintf("rlp.CountValues panic: %s at %s", normMsg(msg), where), fmt.Sprintf("input %x: %s", data, msg), in)
		return
	}
	if (err == nil) != !bad || (err == nil && n != want) {
		c.report("rlp.CountValues: disagrees with header-by-header counting", fmt.Sprintf("input %x: got %d err=%v, want %d malformed=%v", data, n, err, want, bad), in)
	}
}

func (c *checker) phaseRaw(g *grammar) {
	c.r.ForEach(len(g.inputs), func(w, i int) { c.tryRaw(g.inputs[i], "grammar") })
	for _, name := range []string{"types.Transaction", "ucon.Message", "state.Record", "types.Header"} {
		for _, s := range c.byName[name].seeds {
			s := s
			rw := headerRewrites(s)
			c.r.ForEach(len(rw), func(w, i int) { c.tryRaw(rw[i].data, "rewrite:"+rw[i].what) })
			if len(s) > c.smallLimit() {
				continue
			}
			c.r.Enum([]int{256, len(s)}, func(w int, idx []int) {
				if byte(idx[0]) == s[idx[1]] {
					return
				}
				b := append([]byte{}, s...)
				b[idx[1]] = byte(idx[0])
				c.tryRaw(b, "byte-mutation")
			})
		}
	}
}

// ---- phase C: allocation ----------------------------------------------------------

func totalAlloc() uint64 {
	var m runtime.MemStats
	runtime.ReadMemStats(&m)
	return m.TotalAlloc
}

const (
	allocBatch     = 256
	allocPerInput  = 1 << 20 // individual bound: 64*len + 1 MiB
	allocBatchSlop = 1 << 20
)

// phaseAlloc runs single-threaded (nothing else allocates meanwhile): every
// size-lying input is decoded into every type and the bytes allocated are read
// from runtime.MemStats.TotalAlloc.  Batches keep the cost of ReadMemStats low;
// a batch over budget is re-measured input by input.
func (c *checker) phaseAlloc(g *grammar) {
	var attack [][]byte
	lim := 1 << 30
	if c.quick {
		lim = 24 // the lie is in the header; longer payloads add nothing
	}
	for i, in := range g.inputs {
		if (g.sizeAttack[i] && len(in) <= lim) || len(in) <= 9 {
			attack = append(attack, in)
		}
	}
	c.r.SetExtra("alloc_size_attack_inputs_per_type", len(attack))
	var maxPer uint64
	decodeOne := func(t *target, data []byte) {
		mc.Catch(func() { dec(data, t.fresh()) })
	}
	for _, t := range c.targets {
		inputs := append([][]byte{}, attack...)
		for _, s := range t.seeds {
			for _, rw := range headerRewrites(s) {
				inputs = append(inputs, rw.data)
			}
		}
		for lo := 0; lo < len(inputs); lo += allocBatch {
			hi := lo + allocBatch
			if hi > len(inputs) {
				hi = len(inputs)
			}
			budget := uint64(allocBatchSlop)
			for _, in := range inputs[lo:hi] {
				budget += 64 * uint64(len(in))
			}
			a := totalAlloc()
			t0, slow := time.Now(), false
			for k, in := range inputs[lo:hi] {
				decodeOne(t, in)
				// a batch of 256 decodes takes well under a millisecond; a decoder
				// allocating gigabytes does not.  The clock only decides whether to
				// switch to per-input measurement early, never the verdict.
				if k%8 == 7 && time.Since(t0) > 100*time.Millisecond {
					slow = true
					break
				}
			}
			delta := totalAlloc() - a
			c.r.Count("alloc_inputs_measured", int64(hi-lo))
			if per := delta / uint64(hi-lo); per > maxPer && !slow {
				maxPer = per
			}
			if delta <= budget && !slow {
				continue
			}
			c.r.Count("alloc_batches_remeasured_individually", 1)
			found := false
			for _, in := range inputs[lo:hi] {
				a := totalAlloc()
				decodeOne(t, in)
				d := totalAlloc() - a
				if d > 64*uint64(len(in))+allocPerInput {
					c.report(fmt.Sprintf("%s: decoding allocates far beyond the input size", t.name),
						fmt.Sprintf("input %x (%d bytes) made the decoder allocate %d bytes", in, len(in), d),
						input{Phase: "alloc", Type: t.name, Hex: hex.EncodeToString(in)})
					found = true
					break
				}
			}
			if found {
				// one witness per type: a decoder that trusts declared sizes makes
				// every further size-lying input cost gigabytes
				c.overAlloc = true
				runtime.GC()
				break
			}
		}
		if c.r.Expired() {
			break
		}
	}
	c.r.SetExtra("alloc_max_batch_average_bytes_per_decode", maxPer)
}

// ---- entry points ---------------------------------------------------------------------

// Run is the check entry point.
func Run(r *mc.Run) {
	r.Level = "exploration"
	r.Rule = "S (container sizes, single-threaded, GOMAXPROCS 1): per wire/disk type holding a variable-length collection or byte string, every size of {0,1,2,255,256,257,300,1023,1024,1025} plus the two sizes around every point where the payload of the collection or of a list enclosing it crosses 56 / 256 / 65536 bytes (nested collections: every pair (n,m) of the base sizes with n*m under a per-type bound), each value encoded through every encoder exit (EncodeToBytes of pointer / of value, Encode(io.Writer), own EncodeRLP, EncodeToReader read at once / 7 bytes at a time / after another encoding, wrapped in an outer list) under every buffer history (new pooled buffer after two GC cycles, buffer that just encoded the same value, new buffer warmed by a small value, buffer that encoded the largest value of the type); every encoding must equal the encoding computed by an independent reference encoder from the type's field list, parse strictly, have the announced size, and decode (DecodeBytes, size-limited Stream, Decode from a reader) to the value; " +
		"A (round trip): per wire/disk type, every value of the full product of per-field boundary domains (structs with <= 6 fields; domains trimmed to a prefix only when the product exceeds the tier cap) plus, around an all-zero and an all-distinct baseline, every single-field and every field-pair variation; " +
		"B (accept => canonical): every input of a bounded RLP shape grammar (depth <= 3, <= 3 items per list, every header form incl. wrong/huge/non-minimal declared lengths, leading-zero integers), every header-form rewrite / structural edit of every item of every baseline encoding, and every single-byte mutation of every baseline encoding (every byte x every value for small encodings, 5 values per byte for large), each fed to every covered type; " +
		"C (allocation): all size-lying inputs decoded single-threaded with MemStats.TotalAlloc deltas, in batches against 64*len + 1 MiB; " +
		"C2 (calibrated allocation, every input measured on its own, GOMAXPROCS 1): (i) the valid encoding of every container-size case at every boundary size of S, that encoding truncated by one byte, and that encoding with the first element of the scaled list made undecodable; (ii) an honest list header over n one-byte items (80 / c0 / 01 / bf then 80) for n over the boundary sizes, 4096, 65536 (thorough: 2^20) into every type; (iii) for every item of every baseline encoding of every type the item's header rewritten to declare {len, len+1, 2^16, 2^24, 2^31, 2^32-1, 2^56-1, 2^63, 2^64-1} with the input cut after the header / after two payload bytes / after the payload / left complete and the enclosing headers untouched or declaring 2^64-1 themselves -- each through DecodeBytes, NewStream(reader, len).Decode and Decode(plain io.Reader: no input limit); oracles: no panic, every slice of the (partially) decoded value has capacity <= max(4, 2 x length), bytes allocated <= K x (len(input) + ideal in-memory size of what was decoded) + C with K, C calibrated on the unchanged tree and stated in the evidence (alloc2); " +
		"D (handlers): the same payload families wrapped in signed ucon envelopes / staking messages and driven through MessageHandler.HandleMsg and TxConverter.ApplyMessage (+ take-effect for accepted messages); " +
		"E (entry points): every function of the repository that turns wire / disk bytes into one of the property's objects by its own call into the decoder (inventory with covered / not covered and why in the evidence) is offered each valid encoding of a small set, that encoding followed by each suffix of {00, 80, c0, 01, ff, a second copy of the value, 1024 zero bytes}, truncated by 1..3 bytes, and wrapped in one more list -- at the outer position and at the inner payload position (envelope payload re-signed, staking message / log data / evidence list re-encoded around the varied payload); through the real MessageHandler.HandleMsg with correctly signed envelopes, TxConverter.ApplyMessage, the StateDB loaders on tries holding the planted record, the rawdb readers, p2p Msg.Decode and a real block import for header.SlashData / Evidence.Data; the entry point must act on the valid encoding and refuse every variant that is not itself a canonical value (entry points that ignore trailing bytes by design are named with the reason and counted separately). " +
		"A case is non-trivial when the value encodes (A) or the hostile input is ACCEPTED by the decoder and is not the seed itself (B); distinct = distinct encodings (A) + distinct accepted hostile inputs per type (B) + distinct handler outcomes (D) + distinct refused (entry point, case, variant) triples (E)"
	if r.Quick() {
		r.SetBudget(170 * time.Second)
	} else {
		r.SetBudget(35 * time.Minute)
	}
	r.Assume("round-trip domains hold values of the type only: Receipt.PostState is empty or 32 bytes and Status is 0/1; struct pointers without the rlp \"nil\" tag are non-nil (a nil one encodes as an empty list that no struct decoder reads back; counted, not reported); EvidenceDoubleSign.Round is non-nil")
	r.Assume("decode targets are the ones production uses: ValidatorsStat / ValidatorIndex / pendingRelationship are decoded into their New...() constructors' values (their DecodeRLP writes into maps a zero value does not have)")
	r.Assume("the p2p packet types of you/protocol.go are covered through field-for-field mirrored structs (package you cannot be linked: its quic-go dependency panics at init under the installed Go); their RLP codec is derived from the struct shape alone")
	r.Assume("HandleMsg runs the real MessageHandler with a stub validator lookup (every sender is an online chamber validator) and stub consensus callbacks that only record being reached; ApplyMessage runs on a committed fixture state (two validators, one delegation) under the YouV5 test-case parameters")
	r.Assume("take-effect entry is driven only with messages ApplyMessage accepted in the same state (production replays only recorded, previously accepted transactions)")
	r.Assume("container-size phase: which pooled encoder buffer a call gets is controlled from outside only (runtime.GC twice empties the sync.Pool; GOMAXPROCS(1) makes the pool a single slot); elements are generated from their index with the public constructors; the reference tree of a type with a custom codec is written by hand from its documented wire format")
	r.Assume("allocation bound: the ideal in-memory size of a decoded value is computed by walking it with reflect (slices at their LENGTH, sync.Map entries at 48 bytes + key + value); for a rejected input it is the size of the partially decoded value the decoder leaves behind, and never less than the size of the valid value the input was derived from; the constants are calibrated for the installed Go runtime (size classes, bufio default size)")
	r.Assume("a Stream WITHOUT an input limit allocates the declared size of a STRING before reading it (make([]byte, size) in Stream.Bytes / Raw: the documented contract is that the input limit protects; production gives every untrusted input a limit -- DecodeBytes, the automatic limit for bytes.Reader / strings.Reader, Msg.Decode with msg.Size -- and uses the unlimited form only for the node's own transaction journal); on the unlimited entry style only LIST sizes lie, hostile string sizes are counted as not fed")
	r.Assume("entry points: a function counts as accepting when it returns its value without error (readers: a non-nil result; StateDB loaders: state.New succeeds and the accessor returns the record; HandleMsg: nil error, or any consensus callback / the time judge / the relay reached; ApplyMessage: message accepted and took effect; block import: InsertChain succeeds and the block becomes the head); trie records are planted by updating the committed trie under the production key (flag || record) -- the situation after a state sync")
	c := newChecker(r)
	// development aid: C14_PHASES=SE runs only the named phases (S A C c(=C2) B D E); such a run is never exhaustive
	only := os.Getenv("C14_PHASES")
	want := func(p string) bool { return only == "" || strings.Contains(only, p) }
	if only != "" {
		r.Cap("development run restricted to phases " + only)
	}
	ts := time.Now()
	sizeBudget := 75 * time.Second
	if !r.Quick() {
		sizeBudget = 20 * time.Minute
	}
	if want("S") {
		c.phaseSizes(ts.Add(sizeBudget))
	}
	r.SetExtra("phase_S_seconds", time.Since(ts).Seconds())
	if want("I") {
		c.phaseInts()
	}
	t0 := time.Now()
	if want("A") {
		c.phaseRoundTrip()
	} else {
		for _, t := range c.targets {
			c.ensureSeeds(t)
		}
	}
	r.SetExtra("phase_A_seconds", time.Since(t0).Seconds())
	g := buildGrammar(c.quick)
	r.SetExtra("grammar_inputs", len(g.inputs))
	t1 := time.Now()
	if !r.Expired() && want("C") {
		c.phaseAlloc(g)
	}
	r.SetExtra("phase_C_seconds", time.Since(t1).Seconds())
	t1b := time.Now()
	if !r.Expired() && !c.overAlloc && want("c") {
		c.phaseAlloc2()
	}
	c.allocEvidence()
	r.SetExtra("phase_C2_seconds", time.Since(t1b).Seconds())
	t2 := time.Now()
	if c.overAlloc {
		// feeding the same size-lying inputs to 16 parallel workers would have each
		// of them allocate gigabytes; the violation is already established
		r.Cap("phases B and D skipped: the allocation phase found decoders that allocate what the input declares")
	}
	if !r.Expired() && !c.overAlloc && want("B") {
		c.phaseHostile(g)
	}
	if !r.Expired() && !c.overAlloc && want("B") {
		c.phaseRaw(g)
	}
	r.SetExtra("phase_B_seconds", time.Since(t2).Seconds())
	t3 := time.Now()
	if !r.Expired() && !c.overAlloc && want("D") {
		c.phaseHandlers(g)
	}
	r.SetExtra("phase_D_seconds", time.Since(t3).Seconds())
	t4 := time.Now()
	if !r.Expired() && want("E") {
		c.phaseEntry()
	}
	r.SetExtra("phase_E_seconds", time.Since(t4).Seconds())
	c.pruneAllocFindings()
	c.flush()
	per := map[string]typeStat{}
	var vac []string
	for i, t := range c.targets {
		per[t.name] = c.stats[i]
		if c.stats[i].RoundTrips == 0 || c.stats[i].Accepts == 0 || c.stats[i].Rejects == 0 {
			vac = append(vac, t.name)
		}
	}
	sort.Strings(vac)
	r.SetExtra("per_type", per)
	r.SetExtra("types_covered", len(c.targets))
	if len(vac) > 0 {
		r.SetExtra("types_with_a_vacuous_branch", vac)
	}
}

// Replay re-evaluates one recorded case.
func Replay(r *mc.Run, v *mc.Violation) {
	var in input
	bs, _ := json.Marshal(v.Input)
	if err := json.Unmarshal(bs, &in); err != nil {
		fmt.Println("bad replay input:", err)
		return
	}
	c := newChecker(r)
	defer func() {
		// only the recorded signature counts as a reproduction
		for sig, b := range c.best {
			if sig == v.Sig {
				r.Report(b)
			} else {
				fmt.Println("a different violation was seen:", sig)
			}
		}
	}()
	data, _ := hex.DecodeString(in.Hex)
	if in.Phase == "ints" {
		c.phaseInts() // small and deterministic: re-run as a whole (reports through r directly)
		return
	}
	switch in.Phase {
	case "roundtrip":
		t := c.byName[in.Type]
		if t == nil {
			fmt.Println("unknown type", in.Type)
			return
		}
		m, desc := t.cases.at(in.Case)
		fmt.Printf("value %s = %+v\n", desc, m.Interface())
		e := c.roundTrip(t, in.Case, false)
		fmt.Printf("encoding %x\n", e)
	case "decode":
		t := c.byName[in.Type]
		if t == nil {
			fmt.Println("unknown type", in.Type)
			return
		}
		fmt.Printf("decode %x into %s: accepted=%v\n", data, t.name, c.tryDecode(t, data, in.Desc, false))
	case "raw":
		c.tryRaw(data, in.Desc)
	case "alloc":
		t := c.byName[in.Type]
		a := totalAlloc()
		mc.Catch(func() { dec(data, t.fresh()) })
		d := totalAlloc() - a
		fmt.Printf("decode of %d bytes into %s allocated %d bytes\n", len(data), t.name, d)
		if d > 64*uint64(len(data))+allocPerInput {
			c.report(v.Sig, "", in)
		}
	case "entry":
		c.replayEntry(in, data)
	case "alloc2":
		if t := c.byName[in.Type]; t != nil {
			c.ensureSeeds(t)
		}
		c.replayAlloc2(in, data)
	case "sizes":
		c.replaySizes(in)
	case "handlemsg", "staking":
		c.replayHandler(in, data)
	}
}

