package c14

// Phase S — the CONTAINER-SIZE dimension of the round trip.
//
// Phase A varies field VALUES over boundary domains but keeps every collection
// at 0..2 elements.  Here every wire / disk type that holds a variable-length
// collection (or a variable-length byte string) is built at every size of a
// boundary alphabet and encoded through
//
//	every encoder exit   EncodeToBytes(pointer), EncodeToBytes(value), Encode(io.Writer),
//	                     the type's own EncodeRLP(io.Writer), EncodeToReader+ReadAll,
//	                     EncodeToReader read 7 bytes at a time, EncodeToReader read only
//	                     after another value was encoded, the value wrapped in a list
//	x every buffer history   the encoder takes its work buffer from a sync.Pool; the call is
//	                     made on a NEW buffer (two GC cycles empty the pool), on the buffer
//	                     that just encoded the same value, on a buffer that only saw a small
//	                     value of the type, on a buffer that saw the largest value of the type
//
// Oracles: (i) every one of those encodings is byte-identical to the encoding an
// independent reference encoder (reftree.go) produces from the type's field
// list -- hence identical across exits and histories; (ii) it passes the strict
// parser; (iii) it has the reference size and the reader announces that size;
// (iv) decoding it through every decoder entry (DecodeBytes, a size-limited
// Stream, Decode from an io.Reader) gives back the value, which re-encodes to
// the same bytes.
//
// The phase is single-threaded with GOMAXPROCS(1): which pooled buffer a call
// gets is then a function of the history alone.

import (
	"bytes"
	"encoding/binary"
	"fmt"
	"io"
	"io/ioutil"
	"math/big"
	"reflect"
	"runtime"
	"sort"
	"strings"
	"sync/atomic"
	"time"

	"github.com/youchainhq/go-youchain/common"
	"github.com/youchainhq/go-youchain/consensus/ucon"
	"github.com/youchainhq/go-youchain/core/state"
	"github.com/youchainhq/go-youchain/core/types"
	"github.com/youchainhq/go-youchain/params"
	"github.com/youchainhq/go-youchain/rlp"
	"github.com/youchainhq/go-youchain/staking"

	"verif/mc"
)

// ---- alphabet -------------------------------------------------------------------

var (
	szBaseQuick    = []int{0, 1, 2, 255, 256, 257, 300, 1023, 1024, 1025}
	szBaseThorough = []int{0, 1, 2, 3, 127, 128, 129, 255, 256, 257, 300, 511, 512, 513, 1023, 1024, 1025, 2047, 2048, 2049, 4095, 4096, 4097}
	// nested collections: n outer x m inner elements
	szNestedQuick = []int{0, 1, 2, 255, 256, 257, 1024, 1025}
	// payload sizes at which an RLP header changes its form / its length
	szThresholds = []int{56, 256, 65536}
)

const (
	szProbe     = 4099  // size used to locate the scaled collection and to search payload crossings
	szProbeTiny = 70001 // same, for collections of tiny elements (crossing 65536 needs that many)
	szBig24     = 1<<24 + 3
)

type sizeCase struct {
	name  string
	kind  string // list | string | nested
	t     *target
	gen   func(n, m int) reflect.Value // addressable mirror value of t
	tiny  bool                         // elements of a few bytes: search crossings up to szProbeTiny
	limit int                          // nested: bound on n*m (quick)
	m     int                          // flat: fixed inner size handed to gen
	big24 bool                         // thorough: also the 2^24 payload boundary (strings)
}

type sizeCaseStat struct {
	Kind          string   `json:"kind"`
	Sizes         []string `json:"sizes"`
	Values        int      `json:"values"`
	Exits         int      `json:"encoder_exits"`
	Histories     int      `json:"buffer_histories"`
	Encodings     int      `json:"encodings_compared_with_the_reference"`
	Decodes       int      `json:"decodes_compared_with_the_value"`
	MaxLists      int      `json:"max_lists_in_one_value"`
	MaxLen        int      `json:"max_encoding_len"`
	CrossingSizes int      `json:"sizes_from_header_form_crossings"`
	Seconds       float64  `json:"seconds"`
	GCSeconds     float64  `json:"seconds_in_gc"`
}

// ---- element generators: element i depends on i only --------------------------------

func szAddr(i int) common.Address {
	var a common.Address
	a[0] = 0xA1
	binary.BigEndian.PutUint32(a[16:], uint32(i))
	return a
}

func szHash(i int) common.Hash {
	var h common.Hash
	h[0] = 0xDD
	binary.BigEndian.PutUint32(h[28:], uint32(i))
	return h
}

func szBig(i int) *big.Int { return big.NewInt(int64(i)) }

func szBytes(n, salt int) []byte {
	b := make([]byte, n)
	for k := range b {
		b[k] = byte(k*37 + salt + 1)
	}
	return b
}

var szSigner = types.NewYouSigner(7)
var szSig = append(append(common.LeftPadBytes([]byte{0x11, 0x22}, 32), common.LeftPadBytes([]byte{0x80, 0x01}, 32)...), 1)

func szTx(i int) *types.Transaction {
	switch i % 4 {
	case 1:
		return types.NewContractCreation(uint64(i), szBig(i), 50000+uint64(i), big.NewInt(0x80), szBytes(i%60, i))
	case 2:
		tx, err := types.NewTransaction(uint64(i), szAddr(i), szBig(i*1000), 21000, big.NewInt(int64(1+i%300)), szBytes(3, i)).WithSignature(szSigner, szSig)
		if err != nil {
			panic(err)
		}
		return tx
	case 3:
		return types.NewTransaction(uint64(i), szAddr(i), szBig(i), 21000, big.NewInt(1), []byte{byte(i % 0x80)})
	}
	return types.NewTransaction(uint64(i), szAddr(i), szBig(i), 21000, big.NewInt(1), nil)
}

func szTxs(n, from int) []*types.Transaction {
	out := make([]*types.Transaction, n)
	for i := range out {
		out[i] = szTx(from + i)
	}
	return out
}

var szBaseHeader = sampleHeader(true)

func szHeader(i int) *types.Header {
	h := types.CopyHeader(szBaseHeader)
	h.Number = szBig(i)
	h.Time = uint64(i)
	h.Extra = szBytes(i%60, i)
	return h
}

func szLog(i, topics int, storage bool) *types.Log {
	l := &types.Log{Address: szAddr(i), Topics: make([]common.Hash, topics), Data: szBytes(i%70, i)}
	for k := range l.Topics {
		l.Topics[k] = szHash(i*5 + k)
	}
	if storage {
		l.BlockNumber, l.TxHash, l.TxIndex, l.BlockHash, l.Index = uint64(i), szHash(i+1), uint(i%300), szHash(i+2), uint(i)
	}
	return l
}

func szReceipt(i, logs int, storage bool) *types.Receipt {
	r := &types.Receipt{Status: uint64(i % 2), CumulativeGasUsed: uint64(21000 * (i + 1)), Logs: make([]*types.Log, logs)}
	if i%5 == 4 {
		r.PostState, r.Status = szBytes(32, i), 0
	}
	for k := range r.Logs {
		r.Logs[k] = szLog(i*3+k, 1+(i+k)%3, storage)
	}
	r.Bloom = types.CreateBloom(types.Receipts{r})
	if storage {
		r.TxHash, r.ContractAddress, r.GasUsed = szHash(i), szAddr(i), uint64(21000+i)
	}
	return r
}

func szDelegations(m, from int) state.DelegationFroms {
	out := make(state.DelegationFroms, m)
	for k := range out {
		out[k] = &state.DelegationFrom{Delegator: szAddr(from + k), Stake: szBig(from + k), Token: szBig((from+k)*1000 + 7)}
	}
	return out
}

func szValidator(i, m int) *state.Validator {
	v := state.NewValidator(fmt.Sprintf("v%d", i), szAddr(i), szAddr(i+1), params.RoleChancellor, szBytes(33, i), szBytes(48, i),
		big.NewInt(int64(1000000+i)), big.NewInt(int64(1000+i)), 1, 100, 200, params.ValidatorOnline)
	v.Delegations = szDelegations(m, 0)
	v.Expelled = i%2 == 1
	v.Ext.Version, v.Ext.Data = 1, szBytes(8, i)
	return v
}

// szRich: a plain element with every scalar distinct and derived from i.
func (c *checker) szRich(t reflect.Type, i int) reflect.Value {
	ctr := i * 64
	return c.ctx.rich(t, "sz", &ctr)
}

func (c *checker) szRichSlice(st reflect.Type, n int) reflect.Value {
	s := reflect.MakeSlice(st, n, n)
	for i := 0; i < n; i++ {
		s.Index(i).Set(c.szRich(st.Elem(), i))
	}
	return s
}

type szSmall struct {
	A uint64
	B []byte
}

// ---- the registry ----------------------------------------------------------------

func (c *checker) sizeCases() []*sizeCase {
	var out []*sizeCase
	local := func(name string, zero interface{}) *target {
		rt := reflect.TypeOf(zero)
		return &target{name: name, mirror: rt, fresh: func() interface{} { return reflect.New(rt).Interface() }, build: identityBuild,
			view: func(d interface{}) interface{} { return d }}
	}
	tg := func(name string) *target {
		t := c.byName[name]
		if t == nil {
			panic("c14 sizes: unknown target " + name)
		}
		return t
	}
	add := func(sc *sizeCase) { out = append(out, sc) }
	flat := func(name string, t *target, gen func(n int) interface{}) *sizeCase {
		sc := &sizeCase{name: name, kind: "list", t: t, gen: func(n, m int) reflect.Value { return reflect.ValueOf(gen(n)).Elem() }}
		add(sc)
		return sc
	}
	str := func(name string, t *target, gen func(n int) interface{}) *sizeCase {
		sc := flat(name, t, gen)
		sc.kind, sc.tiny, sc.big24 = "string", true, true
		return sc
	}
	nested := func(name string, t *target, limit int, gen func(n, m int) interface{}) *sizeCase {
		sc := &sizeCase{name: name, kind: "nested", t: t, limit: limit, gen: func(n, m int) reflect.Value { return reflect.ValueOf(gen(n, m)).Elem() }}
		add(sc)
		return sc
	}
	ev1 := &staking.Evidence{Type: staking.EvidenceTypeDoubleSignV5, Data: []byte{0xc1, 0x80}}

	// ---- core/types ----
	flat("types.Block.Txs", tg("types.Block"), func(n int) interface{} { return &blockM{Header: szHeader(3), Txs: szTxs(n, 0)} })
	flat("types.Body.Transactions", tg("types.Body"), func(n int) interface{} { return &types.Body{Transactions: szTxs(n, 0)} })
	flat("types.Receipt.Logs", tg("types.Receipt"), func(n int) interface{} {
		r := szReceipt(1, 0, false)
		for k := 0; k < n; k++ {
			r.Logs = append(r.Logs, szLog(k, 1+k%3, false))
		}
		return r
	})
	flat("types.ReceiptForStorage.Logs", tg("types.ReceiptForStorage"), func(n int) interface{} {
		r := szReceipt(1, 0, true)
		for k := 0; k < n; k++ {
			r.Logs = append(r.Logs, szLog(k, 1+k%3, true))
		}
		return (*types.ReceiptForStorage)(r)
	})
	flat("types.Log.Topics", tg("types.Log"), func(n int) interface{} { return szLog(7, n, false) })
	flat("types.LogForStorage.Topics", tg("types.LogForStorage"), func(n int) interface{} { return (*types.LogForStorage)(szLog(7, n, true)) })
	nested("types.Receipt: n logs x m topics", tg("types.Receipt"), 4200, func(n, m int) interface{} {
		r := szReceipt(1, 0, false)
		for k := 0; k < n; k++ {
			r.Logs = append(r.Logs, szLog(k, m, false))
		}
		return r
	})
	nested("[]*types.ReceiptForStorage (receipts table): n receipts x m logs", local("[]*types.ReceiptForStorage", []*types.ReceiptForStorage{}), 2100, func(n, m int) interface{} {
		rs := make([]*types.ReceiptForStorage, n)
		for i := range rs {
			rs[i] = (*types.ReceiptForStorage)(szReceipt(i, m, true))
		}
		return &rs
	})
	str("types.Transaction.Payload", tg("types.Transaction"), func(n int) interface{} {
		to := szAddr(1)
		return &txM{AccountNonce: 0x81, Price: big.NewInt(0x80), GasLimit: 21000, Recipient: &to, Amount: big.NewInt(1000), Payload: szBytes(n, 0),
			V: big.NewInt(0x25), R: big.NewInt(0x1122), S: big.NewInt(0x8001)}
	})
	str("types.Header.Extra", tg("types.Header"), func(n int) interface{} { h := szHeader(3); h.Extra = szBytes(n, 0); return h })
	str("types.Header.Validator", tg("types.Header"), func(n int) interface{} { h := szHeader(3); h.Validator = szBytes(n, 0x7f); return h })
	str("types.Log.Data", tg("types.Log"), func(n int) interface{} { l := szLog(7, 2, false); l.Data = szBytes(n, 0); return l })

	// ---- core/state ----
	flat("state.Validator.Delegations", tg("state.Validator"), func(n int) interface{} { return szValidator(5, n) })
	flat("state.ValidatorIndex", tg("state.ValidatorIndex"), func(n int) interface{} {
		m := &addrListM{Addrs: make([]common.Address, n)}
		for i := range m.Addrs {
			m.Addrs[i] = szAddr(i)
		}
		return m
	})
	flat("state.WithdrawQueue.Records", tg("state.WithdrawQueue"), func(n int) interface{} {
		q := &state.WithdrawQueue{Records: make([]*state.WithdrawRecord, n)}
		for i := range q.Records {
			q.Records[i] = c.szRich(reflect.TypeOf(&state.WithdrawRecord{}), i).Interface().(*state.WithdrawRecord)
		}
		return q
	})
	flat("state.Record.TxHashes", tg("state.Record"), func(n int) interface{} {
		r := &state.Record{FinalValue: big.NewInt(0x8123), TxHashes: make([]common.Hash, n)}
		for i := range r.TxHashes {
			r.TxHashes[i] = szHash(i)
		}
		return r
	})
	flat("state.pendingRelationship", tg("state.pendingRelationship"), func(n int) interface{} {
		m := &pendingM{Pairs: make([]pairM, n)}
		for i := range m.Pairs {
			m.Pairs[i] = pairM{szAddr(i / 3), szAddr(i)}
		}
		return m
	})
	flat("state.DelegationTos", tg("state.DelegationTos"), func(n int) interface{} {
		d := make(state.DelegationTos, n)
		for i := range d {
			d[i] = &state.DelegationTo{Validator: szAddr(i), Stake: szBig(i), Token: szBig(i*1000 + 7)}
		}
		return &d
	})
	valSet := &target{name: "state.Validators", mirror: reflect.TypeOf(valSetM{}), fresh: func() interface{} { return new(state.Validators) },
		build: func(m reflect.Value) (interface{}, interface{}, bool) {
			vs := state.NewValidators(m.Interface().(valSetM).Vals)
			return vs, &valSetM{Vals: vs.List()}, true
		},
		view: func(d interface{}) interface{} { return &valSetM{Vals: d.(*state.Validators).List()} }}
	nested("state.Validators: n validators x m delegations", valSet, 4200, func(n, m int) interface{} {
		s := &valSetM{Vals: make([]*state.Validator, n)}
		for i := range s.Vals {
			s.Vals[i] = szValidator(i, m)
		}
		return s
	})

	// ---- consensus/ucon ----
	svT := reflect.TypeOf([]ucon.SingleVote{})
	votes := func(n int) []ucon.SingleVote { return c.szRichSlice(svT, n).Interface().([]ucon.SingleVote) }
	flat("ucon.UconValidators.ChamberCommitters", tg("ucon.UconValidators"), func(n int) interface{} {
		return &ucon.UconValidators{RoundIndex: 1, ChamberCommitters: votes(n), HouseCommitters: votes(2), ChamberCerts: votes(1),
			SCAggrSig: szBytes(48, 1), MCAggrSig: szBytes(48, 2), CCAggrSig: []byte{}}
	})
	flat("ucon.UconValidators (all three vote lists)", tg("ucon.UconValidators"), func(n int) interface{} {
		return &ucon.UconValidators{RoundIndex: 0x81, ChamberCommitters: votes(n), HouseCommitters: votes(n), ChamberCerts: votes(n),
			SCAggrSig: szBytes(48, 1), MCAggrSig: szBytes(48, 2), CCAggrSig: szBytes(48, 3)}
	})
	str("ucon.Message.Payload", tg("ucon.Message"), func(n int) interface{} {
		return &ucon.Message{Code: 3, Payload: szBytes(n, 0), Signature: szBytes(65, 9)}
	})
	str("ucon.SingleVote.Proof", tg("ucon.SingleVote"), func(n int) interface{} {
		return &ucon.SingleVote{VoterIdx: 0x8101, Votes: 3, Signature: szBytes(65, 1), Proof: szBytes(n, 0)}
	})

	// ---- staking ----
	flat("[]staking.Evidence", tg("[]staking.Evidence"), func(n int) interface{} {
		e := make([]staking.Evidence, n)
		for i := range e {
			e[i].Type, e[i].Data = fmt.Sprintf("t%d", i), szBytes(i%60, i)
		}
		return &e
	})
	flat("staking.EvidenceDoubleSign.Signs", tg("staking.EvidenceDoubleSign"), func(n int) interface{} {
		m := &evidenceDSM{Round: big.NewInt(0x8001), RoundIndex: 2, Signs: make([]signM, n)}
		for i := range m.Signs {
			m.Signs[i] = signM{szHash(i), szBytes(65, i)}
		}
		return m
	})
	flat("staking.EvidenceInactive.Validators", tg("staking.EvidenceInactive"), func(n int) interface{} {
		e := &staking.EvidenceInactive{Round: 0x8101, Validators: make([]common.Address, n)}
		for i := range e.Validators {
			e.Validators[i] = szAddr(i)
		}
		return e
	})
	flat("staking.EvidenceDoubleSignV5.Signs", tg("staking.EvidenceDoubleSignV5"), func(n int) interface{} {
		e := &staking.EvidenceDoubleSignV5{Round: 0x8101, RoundIndex: 1, SignerIdx: 0x82, VoteType: 2, Signs: make([]*staking.SignInfo, n)}
		for i := range e.Signs {
			e.Signs[i] = &staking.SignInfo{Hash: szHash(i), Sign: szBytes(96, i)}
		}
		return e
	})
	swrT := reflect.TypeOf([]*staking.SlashWithdrawRecord{})
	flat("staking.SlashData.Records", tg("staking.SlashData"), func(n int) interface{} {
		return &staking.SlashData{Type: 1, MainAddress: szAddr(9), Total: big.NewInt(0x8123), Evidence: ev1,
			Records: c.szRichSlice(swrT, n).Interface().([]*staking.SlashWithdrawRecord)}
	})
	flat("staking.SlashDataV5 (FromWithdraw and FromDeposit)", tg("staking.SlashDataV5"), func(n int) interface{} {
		return &staking.SlashDataV5{Type: 1, MainAddress: szAddr(9), Total: big.NewInt(0x8123),
			FromWithdraw: c.szRichSlice(swrT, n).Interface().([]*staking.SlashWithdrawRecord),
			FromDeposit:  c.szRichSlice(reflect.TypeOf([]*staking.PenaltyRecord{}), n).Interface().([]*staking.PenaltyRecord)}
	})
	flat("staking.LogData.Tags", tg("staking.LogData"), func(n int) interface{} {
		l := &staking.LogData{Topic: "slashing", Data: szBytes(40, 1), Tags: make([]string, n)}
		for i := range l.Tags {
			l.Tags[i] = fmt.Sprintf("tag-%d", i)
		}
		return l
	}).tiny = true
	str("staking.Message.Payload", tg("staking.Message"), func(n int) interface{} { return &staking.Message{Action: 2, Payload: szBytes(n, 0)} })
	str("staking.Evidence.Data", tg("staking.Evidence"), func(n int) interface{} {
		return &staking.Evidence{Type: staking.EvidenceTypeDoubleSignV5, Data: szBytes(n, 0)}
	})

	// ---- you (p2p packets, mirrored structs) ----
	flat("you.NewBlockHashesData", tg("you.NewBlockHashesData"), func(n int) interface{} {
		d := make(youNewBlockHashesData, n)
		for i := range d {
			d[i].Hash, d[i].Number = szHash(i), uint64(i)
		}
		return &d
	})
	flat("you.GetNodeDataMsgData.Hashes", tg("you.GetNodeDataMsgData"), func(n int) interface{} {
		d := &youGetNodeDataMsgData{Kind: 1, Hashes: make([]common.Hash, n)}
		for i := range d.Hashes {
			d.Hashes[i] = szHash(i)
		}
		return d
	})
	nested("you.BlocksData: n blocks x m transactions", tg("you.BlocksData"), 2100, func(n, m int) interface{} {
		d := make(youBlocksData, n)
		for i := range d {
			d[i].Block = types.NewBlockWithHeader(szHeader(i)).WithBody(&types.Body{Transactions: szTxs(m, i)})
			d[i].Number = szBig(i)
		}
		return &d
	})
	flat("[]*types.Header (BlockHeadersMsg)", tg("[]*types.Header"), func(n int) interface{} {
		h := make([]*types.Header, n)
		for i := range h {
			h[i] = szHeader(i)
		}
		return &h
	})
	flat("[]*types.Transaction (TxMsg)", tg("[]*types.Transaction"), func(n int) interface{} { t := szTxs(n, 0); return &t })
	nested("[]*types.Body (BlockBodiesMsg): n bodies x m transactions", tg("[]*types.Body"), 4200, func(n, m int) interface{} {
		b := make([]*types.Body, n)
		for i := range b {
			b[i] = &types.Body{Transactions: szTxs(m, i)}
		}
		return &b
	})
	nested("[][]*types.Receipt (ReceiptsMsg): n blocks x m receipts", tg("[][]*types.Receipt"), 1100, func(n, m int) interface{} {
		r := make([][]*types.Receipt, n)
		for i := range r {
			r[i] = make([]*types.Receipt, m)
			for k := range r[i] {
				r[i][k] = szReceipt(i+k, 1, false)
			}
		}
		return &r
	})
	flat("[][]byte (NodeDataMsg)", tg("[][]byte"), func(n int) interface{} {
		b := make([][]byte, n)
		for i := range b {
			b[i] = szBytes(i%60, i)
		}
		return &b
	})
	str("[][]byte (NodeDataMsg): one blob", tg("[][]byte"), func(n int) interface{} { return &[][]byte{szBytes(n, 0), {0x01}} })
	flat("[]common.Hash (GetBlockBodiesMsg)", tg("[]common.Hash"), func(n int) interface{} {
		h := make([]common.Hash, n)
		for i := range h {
			h[i] = szHash(i)
		}
		return &h
	})

	// ---- generic shapes: exact payload boundaries ----
	flat("shape: list of single-byte strings (payload = n bytes)", local("shape.[][]byte", [][]byte{}), func(n int) interface{} {
		b := make([][]byte, n)
		for i := range b {
			b[i] = []byte{byte(i % 0x80)}
		}
		return &b
	}).tiny = true
	flat("shape: list of small structs", local("shape.[]struct{uint64,[]byte}", []szSmall{}), func(n int) interface{} {
		s := make([]szSmall, n)
		for i := range s {
			s[i] = szSmall{A: uint64(i), B: szBytes(i%3, i)}
		}
		return &s
	}).tiny = true
	nested("shape: list of lists of integers", local("shape.[][]uint64", [][]uint64{}), 70000, func(n, m int) interface{} {
		l := make([][]uint64, n)
		for i := range l {
			l[i] = make([]uint64, m)
			for k := range l[i] {
				l[i][k] = uint64(i*m + k)
			}
		}
		return &l
	})
	nested("shape: list of lists of strings", local("shape.[][][]byte", [][][]byte{}), 70000, func(n, m int) interface{} {
		l := make([][][]byte, n)
		for i := range l {
			l[i] = make([][]byte, m)
			for k := range l[i] {
				l[i][k] = szBytes((i+k)%4, k)
			}
		}
		return &l
	})
	return out
}

// ---- boundary sizes from header-form crossings --------------------------------------------

// crossingSizes builds the case at the probe size, locates the scaled item (the
// list with exactly probe elements / the string of exactly probe bytes) and, for
// that item and every list enclosing it, finds the sizes n-1, n between which
// the payload crosses a threshold.  predicted[n] = total encoding size at size n
// (a self-check of the search; the probe tree itself is not kept).
func (c *checker) crossingSizes(sc *sizeCase, probe int, thresholds []int, base []int) (sizes []int, predicted map[int]int, why string) {
	val, _, ok := c.szBuild(sc, probe, sc.m)
	if !ok {
		return nil, nil, "probe value not constructible"
	}
	root, w := refTreeOf(val)
	if w != "" {
		return nil, nil, w
	}
	type info struct {
		container, scales bool
		prefix            []int
	}
	inf := map[*rnode]*info{}
	found := 0
	var mark func(n *rnode) bool
	mark = func(n *rnode) bool {
		i := &info{}
		inf[n] = i
		switch {
		case !n.list:
			if len(n.str) == probe {
				i.container, i.scales = true, true
				found++
			}
		case len(n.kids) == probe:
			i.container, i.scales = true, true
			found++
			i.prefix = make([]int, probe+1)
			for k, kid := range n.kids {
				i.prefix[k+1] = i.prefix[k] + kid.encSize()
			}
		default:
			for _, k := range n.kids {
				if mark(k) {
					i.scales = true
				}
			}
		}
		return i.scales
	}
	mark(root)
	if found == 0 {
		return nil, nil, "no item of the probe size in the reference tree"
	}
	var sizeAt func(nd *rnode, n int) int
	payloadAt := func(nd *rnode, n int) int {
		i := inf[nd]
		switch {
		case i == nil || !i.scales:
			return nd.payload()
		case i.container && !nd.list:
			return n
		case i.container:
			return i.prefix[n]
		}
		p := 0
		for _, k := range nd.kids {
			p += sizeAt(k, n)
		}
		return p
	}
	sizeAt = func(nd *rnode, n int) int {
		i := inf[nd]
		if i == nil || !i.scales {
			return nd.encSize()
		}
		if !nd.list && n == 1 && nd.str[0] < 0x80 {
			return 1
		}
		p := payloadAt(nd, n)
		return refHdrLen(p) + p
	}
	set := map[int]bool{}
	for nd, i := range inf {
		if !i.scales {
			continue
		}
		for _, T := range thresholds {
			if payloadAt(nd, probe) < T {
				continue
			}
			n := sort.Search(probe+1, func(n int) bool { return payloadAt(nd, n) >= T })
			if n >= 1 {
				set[n-1], set[n] = true, true
			}
		}
	}
	for n := range set {
		sizes = append(sizes, n)
	}
	sort.Ints(sizes)
	predicted = map[int]int{}
	for _, n := range append(append([]int{}, sizes...), base...) {
		if n <= probe {
			predicted[n] = sizeAt(root, n)
		}
	}
	return sizes, predicted, ""
}

// nestedPairs: every (n, m) of base x base with n*m <= limit (n = 0 only with
// m = 0: without outer elements the inner size does not exist).
func nestedPairs(base []int, limit int) [][2]int {
	var out [][2]int
	for _, n := range base {
		for _, m := range base {
			if n*m <= limit && (n > 0 || m == 0) {
				out = append(out, [2]int{n, m})
			}
		}
	}
	return out
}

// ---- encoder exits ----------------------------------------------------------------------

type exitResult struct {
	out       []byte
	err       error
	announced int // EncodeToReader: size it returned (-1: not a reader exit)
	wrapped   bool
}

type encExit struct {
	name    string
	applies func(val interface{}) bool
	run     func(val interface{}) exitResult
}

type sevenReader struct{ r io.Reader }

func readChunks(r io.Reader, k int) ([]byte, error) {
	var out []byte
	buf := make([]byte, k)
	for {
		n, err := r.Read(buf)
		out = append(out, buf[:n]...)
		if err == io.EOF {
			return out, nil
		}
		if err != nil {
			return out, err
		}
	}
}

var szInterleaved = []interface{}{uint64(0x8101), []byte("interleaved"), [][]byte{{1}, {2, 3}}}

func szExits() []encExit {
	always := func(interface{}) bool { return true }
	isPtr := func(v interface{}) bool { rv := reflect.ValueOf(v); return rv.Kind() == reflect.Ptr && !rv.IsNil() }
	return []encExit{
		{"EncodeToBytes", always, func(v interface{}) exitResult {
			b, err := rlp.EncodeToBytes(v)
			return exitResult{out: b, err: err, announced: -1}
		}},
		{"EncodeToBytes(value, not pointer)", isPtr, func(v interface{}) exitResult {
			b, err := rlp.EncodeToBytes(reflect.ValueOf(v).Elem().Interface())
			return exitResult{out: b, err: err, announced: -1}
		}},
		{"Encode(io.Writer)", always, func(v interface{}) exitResult {
			var w bytes.Buffer
			err := rlp.Encode(&w, v)
			return exitResult{out: w.Bytes(), err: err, announced: -1}
		}},
		{"own EncodeRLP(io.Writer)", func(v interface{}) bool { _, ok := v.(rlp.Encoder); return ok }, func(v interface{}) exitResult {
			var w bytes.Buffer
			err := v.(rlp.Encoder).EncodeRLP(&w)
			return exitResult{out: w.Bytes(), err: err, announced: -1}
		}},
		{"EncodeToReader+ReadAll", always, func(v interface{}) exitResult {
			size, r, err := rlp.EncodeToReader(v)
			if err != nil {
				return exitResult{err: err, announced: -1}
			}
			b, err := ioutil.ReadAll(r)
			return exitResult{out: b, err: err, announced: size}
		}},
		{"EncodeToReader read 7 bytes at a time", always, func(v interface{}) exitResult {
			size, r, err := rlp.EncodeToReader(v)
			if err != nil {
				return exitResult{err: err, announced: -1}
			}
			b, err := readChunks(r, 7)
			return exitResult{out: b, err: err, announced: size}
		}},
		{"EncodeToReader read after another value was encoded", always, func(v interface{}) exitResult {
			size, r, err := rlp.EncodeToReader(v)
			if err != nil {
				return exitResult{err: err, announced: -1}
			}
			rlp.EncodeToBytes(szInterleaved)
			b, err := ioutil.ReadAll(r)
			return exitResult{out: b, err: err, announced: size}
		}},
		{"EncodeToBytes([]interface{}{value}) (nested in an outer list)", always, func(v interface{}) exitResult {
			b, err := rlp.EncodeToBytes([]interface{}{v})
			return exitResult{out: b, err: err, announced: -1, wrapped: true}
		}},
	}
}

// ---- buffer histories -------------------------------------------------------------------

// Every history starts from an empty pool, so that the one buffer the call gets
// is the one described: emptied by two GC cycles for the first exit of every
// value (thorough tier: for every exit), by drainPool otherwise.
var szHistories = []string{
	"new pooled buffer",
	"buffer whose only use was encoding the same value",
	"buffer whose only use was encoding a small value of the type",
	"buffer whose only use was encoding the largest value of the type",
}

var szGCTime, szBuildTime, szEncTime, szDecTime time.Duration

func (c *checker) freshPool() {
	t0 := time.Now()
	defer func() { szGCTime += time.Since(t0) }()
	runtime.GC()
	runtime.GC()
	c.r.Count("sz_gc_cycles(to_empty_the_encoder_pool)", 2)
}

// drainPool empties the encoder pool without a GC cycle: EncodeToReader takes a
// buffer from the pool and gives it back only when the reader hits EOF, so a
// reader that is never read keeps its buffer out of the pool for good.  With
// GOMAXPROCS(1) and serial use the pool never holds more than the buffers of
// the exit that ran last (at most two at a time, plus their victim-cache
// copies); eight unread readers take them all.
func (c *checker) drainPool() {
	for i := 0; i < 8; i++ {
		rlp.EncodeToReader(uint64(1))
	}
	c.r.Count("sz_pool_drains(unread_readers)", 1)
}

// ---- evaluation -------------------------------------------------------------------------

type sizeRun struct {
	sc           *sizeCase
	small, large interface{}
	predict      map[int]int
	stat         *sizeCaseStat
}

func short(b []byte) string {
	if len(b) <= 24 {
		return fmt.Sprintf("%x", b)
	}
	return fmt.Sprintf("%x…%x", b[:12], b[len(b)-8:])
}

func firstDiff(a, b []byte) int {
	n := len(a)
	if len(b) < n {
		n = len(b)
	}
	for i := 0; i < n; i++ {
		if a[i] != b[i] {
			return i
		}
	}
	return n
}

// szBuild constructs the value of one (case, n, m).  Some targets build their
// value with the help of the real codec (a transaction is decoded from its
// mirror): a panic inside rlp while doing so is a finding, anything else a
// harness gap.
func (c *checker) szBuild(sc *sizeCase, n, m int) (val, expect interface{}, ok bool) {
	msg, where := mc.CatchStack(func() { val, expect, ok = sc.t.build(sc.gen(n, m)) })
	switch {
	case msg != "" && strings.HasPrefix(where, "rlp."):
		c.report(fmt.Sprintf("rlp encoder: panic while encoding: %s at %s", normMsg(msg), where),
			fmt.Sprintf("%s at n=%d m=%d, while the value was being built through the codec: %s", sc.name, n, m, msg),
			input{Phase: "sizes", Type: sc.name, Case: n, Ctx: m, Desc: "build"})
		return nil, nil, false
	case msg != "" || !ok:
		c.r.HarnessError(fmt.Sprintf("c14 sizes: %s at n=%d m=%d not constructible: %s", sc.name, n, m, msg))
		return nil, nil, false
	}
	return val, expect, true
}

// sizeValue evaluates one (case, n, m).
func (c *checker) sizeValue(sr *sizeRun, n, m int, exits []encExit) {
	sc, t := sr.sc, sr.sc.t
	in := input{Phase: "sizes", Type: sc.name, Case: n, Ctx: m}
	what := fmt.Sprintf("%s at size %d", sc.name, n)
	if sc.kind == "nested" {
		what = fmt.Sprintf("%s at n=%d m=%d", sc.name, n, m)
	}
	tb := time.Now()
	val, expect, ok := c.szBuild(sc, n, m)
	if !ok {
		return
	}
	tree, why := refTreeOf(val)
	if why != "" {
		c.r.HarnessError(fmt.Sprintf("c14 sizes: no reference tree for %s: %s", what, why))
		return
	}
	ref := refEncode(tree)
	if _, w := strictParse(ref); w != "" || len(ref) != tree.encSize() {
		c.r.HarnessError(fmt.Sprintf("c14 sizes: reference encoder self-check failed for %s: %s", what, w))
		return
	}
	if sc.kind != "nested" {
		if p, ok := sr.predict[n]; ok && p != len(ref) {
			c.r.HarnessError(fmt.Sprintf("c14 sizes: boundary search predicted %d bytes for %s, reference has %d", p, what, len(ref)))
		}
	}
	refWrapped := append(refPutHdr(nil, 0xc0, len(ref)), ref...)
	szBuildTime += time.Since(tb)
	lists := tree.countLists()
	st := sr.stat
	st.Values++
	if lists > st.MaxLists {
		st.MaxLists = lists
	}
	if len(ref) > st.MaxLen {
		st.MaxLen = len(ref)
	}
	c.r.Count("sz_values", 1)
	switch {
	case lists > 1024:
		c.r.Count("sz_values_with_more_than_1024_lists", 1)
	case lists > 256:
		c.r.Count("sz_values_with_257..1024_lists", 1)
	default:
		c.r.Count("sz_values_with_at_most_256_lists", 1)
	}
	switch {
	case len(ref) >= 1<<24:
		c.r.Count("sz_values_encoding_to_2^24_bytes_or_more", 1)
	case len(ref) >= 1<<16:
		c.r.Count("sz_values_encoding_to_2^16..2^24_bytes", 1)
	case len(ref) >= 256:
		c.r.Count("sz_values_encoding_to_256..2^16_bytes", 1)
	case len(ref) >= 56:
		c.r.Count("sz_values_encoding_to_56..255_bytes", 1)
	default:
		c.r.Count("sz_values_encoding_to_less_than_56_bytes", 1)
	}
	if c.r.Distinct(fmt.Sprintf("sz|%s|%x", sc.name, hash64(ref))) {
		c.r.Count("sz_distinct_encodings", 1)
	}

	nh := len(szHistories)
	res := make([][]exitResult, nh)
	good := make([][]bool, nh)
	used := make([]bool, len(exits))
	for h := range res {
		res[h] = make([]exitResult, len(exits))
		good[h] = make([]bool, len(exits))
	}
	panicked, first := false, true
	for x, ex := range exits {
		if !ex.applies(val) {
			continue
		}
		used[x] = true
		for h := 0; h < nh && !panicked; h++ {
			msg, where := mc.CatchStack(func() {
				switch h {
				case 0:
					if first || !c.quick {
						c.freshPool()
					} else {
						c.drainPool()
					}
					first = false
					c.r.Count("sz_encodings_on_a_new_pooled_buffer", 1)
				case 1:
					c.drainPool()
					rlp.EncodeToBytes(val)
				case 2:
					c.drainPool()
					rlp.EncodeToBytes(sr.small)
				case 3:
					c.drainPool()
					rlp.EncodeToBytes(sr.large)
				}
				res[h][x] = ex.run(val)
			})
			if msg != "" {
				in.Desc = ex.name + " / " + szHistories[h]
				c.report(fmt.Sprintf("rlp encoder: panic while encoding: %s at %s", normMsg(msg), where),
					fmt.Sprintf("%s (%d lists, reference encoding %d bytes), %s, %s: %s", what, lists, len(ref), ex.name, szHistories[h], msg), in)
				panicked = true
				break
			}
			if e := res[h][x].err; h == 0 && e != nil && strings.Contains(e.Error(), "unadressable value") {
				// pointer-receiver codecs cannot be reached from a non-addressable value: rlp says so
				c.r.Count("sz_exit_not_applicable(value form of a pointer-receiver codec)", 1)
				used[x] = false
				break
			}
			want := ref
			if res[h][x].wrapped {
				want = refWrapped
			}
			good[h][x] = res[h][x].err == nil && bytes.Equal(res[h][x].out, want)
			st.Encodings++
			atomic.AddInt64(&c.r.Evaluations, 1)
			c.r.Count("sz_encodings_compared_with_the_reference", 1)
		}
	}
	if panicked {
		return
	}
	nUsed := 0
	for _, u := range used {
		if u {
			nUsed++
		}
	}
	if nUsed > st.Exits {
		st.Exits = nUsed
	}
	st.Histories = nh

	// ---- classify the disagreements
	anyBad := false
	for h := 0; h < nh; h++ {
		badHere := 0
		for x := range exits {
			if used[x] && !good[h][x] {
				badHere++
			}
		}
		if badHere == 0 {
			continue
		}
		anyBad = true
		for x, ex := range exits {
			if !used[x] || good[h][x] {
				continue
			}
			r := res[h][x]
			in.Desc = ex.name + " / " + szHistories[h]
			scope := fmt.Sprintf("%d of %d", badHere, nUsed)
			if r.err != nil {
				c.report(fmt.Sprintf("rlp encoder: %s fails on a value the reference can encode (%s)", ex.name, errClass(r.err)),
					fmt.Sprintf("%s, %s: %v", what, szHistories[h], r.err), in)
				continue
			}
			want := ref
			if r.wrapped {
				want = refWrapped
			}
			ctx := fmt.Sprintf("%s (%d lists), %s, %s\n reference %d bytes: %s\n emitted   %d bytes: %s\n first difference at byte %d",
				what, lists, ex.name, szHistories[h], len(want), short(want), len(r.out), short(r.out), firstDiff(want, r.out))
			malformed := false
			if _, w := strictParse(r.out); w != "" {
				malformed = true
				c.report(fmt.Sprintf("rlp encoder: emits malformed RLP (%s)", w), ctx, in)
			}
			otherHist, otherExit := -1, -1
			for h2 := 0; h2 < nh; h2++ {
				if good[h2][x] && otherHist < 0 {
					otherHist = h2
				}
			}
			for x2 := range exits {
				if used[x2] && good[h][x2] && otherExit < 0 {
					otherExit = x2
				}
			}
			switch {
			case otherHist >= 0:
				c.report("rlp encoder: one value, two encodings: the bytes depend on the history of the pooled encoder buffer",
					ctx+fmt.Sprintf("\n the same call on a %s emits the reference encoding; exits affected for this value and history: %s", szHistories[otherHist], scope), in)
			case otherExit >= 0:
				c.report(fmt.Sprintf("rlp encoder: %s emits other bytes than %s and the reference encoder", ex.name, exits[otherExit].name), ctx, in)
			case malformed:
				// already reported as an encoder-level finding
			default:
				owner, field, whatDiff := t.name, "top level", "encoding is not canonical RLP"
				if got, w := strictParse(r.out); w == "" {
					if wantTree, w2 := strictParse(want); w2 == "" {
						p, wh := treeDiff(got, wantTree, nil)
						if r.wrapped && len(p) > 0 {
							p = p[1:]
						}
						owner, field, _ = pathName(t.name, t.wireShape(), p)
						whatDiff = strings.Replace(wh, "re-encoding", "reference encoder", -1)
					}
				}
				c.report(fmt.Sprintf("%s: encoding differs from the reference encoding of its field list (%s at %s)", owner, whatDiff, field), ctx, in)
			}
		}
	}
	for h := 0; h < nh; h++ {
		for x, ex := range exits {
			r := res[h][x]
			if used[x] && r.err == nil && r.announced >= 0 && r.announced != len(r.out) {
				in.Desc = ex.name + " / " + szHistories[h]
				c.report("rlp.EncodeToReader: the announced size differs from the number of bytes delivered",
					fmt.Sprintf("%s, %s, %s: announced %d, delivered %d, reference %d", what, ex.name, szHistories[h], r.announced, len(r.out), len(ref)), in)
			}
		}
	}
	if anyBad {
		c.r.Count("sz_values_with_a_disagreeing_encoding", 1)
		return
	}

	// ---- decode through every decoder entry
	td := time.Now()
	defer func() { szDecTime += time.Since(td) }()
	in.Desc = "decode"
	var srcIdeal uint64
	for di := range decStyles {
		d := &decStyles[di]
		got := t.fresh()
		var err error
		a0 := totalAlloc()
		msg, where := mc.CatchStack(func() { err = d.run(ref, got) })
		alloc := totalAlloc() - a0
		if msg != "" {
			c.report(fmt.Sprintf("%s: decode panic on own encoding: %s at %s", t.name, normMsg(msg), where), fmt.Sprintf("%s via %s: %s", what, d.name, msg), in)
			return
		}
		if err != nil {
			c.report(fmt.Sprintf("%s: own encoding rejected by the decoder (%s)", t.name, errClass(err)), fmt.Sprintf("%s via %s: %v", what, d.name, err), in)
			return
		}
		var where2, detail string
		if msg := mc.Catch(func() { where2, detail = diffIface(expect, t.view(got), t.only) }); msg != "" {
			c.report(fmt.Sprintf("%s: decoded value unusable (accessor panic: %s)", t.name, normMsg(msg)), fmt.Sprintf("%s via %s", what, d.name), in)
			return
		}
		if where2 != "" {
			c.report(fmt.Sprintf("%s: field %s not preserved by decode(encode(v))", t.name, where2), fmt.Sprintf("%s via %s: %s", what, d.name, detail), in)
			return
		}
		// allocation and capacity of the accepted decode (alloc.go); judged before the
		// value is used for anything else
		ain := in
		ain.Desc = "alloc: valid encoding / " + d.name
		c.judgeAlloc(&allocCase{owner: t.name, custom: hasCustomDecoder(got), style: d, family: "valid encoding at a boundary size", what: what, data: ref, in: ain,
			accepted: true, got: got, alloc: alloc,
			again: func() uint64 {
				g := t.fresh()
				a0 := totalAlloc()
				mc.Catch(func() { d.run(ref, g) })
				return totalAlloc() - a0
			}})
		if di == 0 {
			srcIdeal = walkMem(got).ideal
		}
		var re []byte
		if msg, where := mc.CatchStack(func() { re, err = rlp.EncodeToBytes(got) }); msg != "" {
			c.report(fmt.Sprintf("%s: re-encode panic: %s at %s", t.name, normMsg(msg), where), fmt.Sprintf("%s via %s: %s", what, d.name, msg), in)
			return
		}
		if err != nil || !bytes.Equal(re, ref) {
			c.report(t.name+": encode(decode(encode(v))) differs from encode(v)",
				fmt.Sprintf("%s via %s\n first: %d bytes %s\n again: %d bytes %s err=%v", what, d.name, len(ref), short(ref), len(re), short(re), err), in)
			return
		}
		st.Decodes++
		c.r.Count("sz_decodes_compared_with_the_value", 1)
	}
	c.allocDerived(sc, what, n, m, tree, ref, srcIdeal)
	if lists > 256 {
		c.sampleOnce("sz|"+sc.kind, map[string]interface{}{"phase": "S container sizes", "case": what, "lists_in_the_value": lists, "encoding_len": len(ref),
			"encoding": short(ref), "encodings_equal_to_the_reference": fmt.Sprintf("%d exits x %d buffer histories", nUsed, nh), "decoder_entries": len(decStyles)})
	}
}

func (s sevenReader) Read(p []byte) (int, error) {
	if len(p) > 7 {
		p = p[:7]
	}
	return s.r.Read(p)
}

// sizesOf returns the alphabet of one case: flat -> sizes; nested -> pairs.
func (c *checker) sizesOf(sc *sizeCase) (flat []int, pairs [][2]int, predict map[int]int, crossing int) {
	base := szBaseQuick
	if !c.quick {
		base = szBaseThorough
	}
	if sc.kind == "nested" {
		limit, nb := sc.limit, szNestedQuick
		if !c.quick {
			limit, nb = limit*4, base
		}
		return nil, nestedPairs(nb, limit), nil, 0
	}
	probe := szProbe
	th := szThresholds
	if sc.tiny {
		probe = szProbeTiny
	}
	if !c.quick && sc.big24 {
		probe, th = szBig24, append(append([]int{}, szThresholds...), 1<<24)
	}
	set := map[int]bool{}
	for _, n := range base {
		set[n] = true
	}
	cs, predict, why := c.crossingSizes(sc, probe, th, base)
	if why != "" {
		c.r.HarnessError(fmt.Sprintf("c14 sizes: boundary search failed for %s: %s", sc.name, why))
	}
	for _, n := range cs {
		if !set[n] {
			crossing++
		}
		set[n] = true
	}
	for n := range set {
		flat = append(flat, n)
	}
	sort.Ints(flat)
	return flat, nil, predict, crossing
}

// szHistoryPoints: the sizes of the two values that warm the pooled buffer in
// the "small" and "largest" histories of a case.
func szHistoryPoints(sc *sizeCase, todo [][2]int) (small, large [2]int) {
	weight := func(p [2]int) int {
		if sc.kind == "nested" {
			return (p[0] + 1) * (p[1] + 1)
		}
		return p[0]
	}
	small, large = [2]int{1, sc.m}, todo[0]
	if sc.kind == "nested" {
		small = [2]int{1, 1}
	}
	for _, p := range todo {
		// ties: more outer elements = more lists
		if weight(p) > weight(large) || (weight(p) == weight(large) && p[0] > large[0]) {
			large = p
		}
	}
	return small, large
}

// phaseSizes runs the container-size dimension.
func (c *checker) phaseSizes(deadline time.Time) {
	old := runtime.GOMAXPROCS(1)
	defer runtime.GOMAXPROCS(old)
	exits := szExits()
	per := map[string]*sizeCaseStat{}
	defer func() {
		c.r.SetExtra("phase_S_seconds_in_gc", szGCTime.Seconds())
		c.r.SetExtra("phase_S_seconds_building_values_and_references", szBuildTime.Seconds())
		c.r.SetExtra("phase_S_seconds_decoding", szDecTime.Seconds())
		c.r.SetExtra("container_sizes_per_case", per)
		c.r.SetExtra("container_size_cases", len(per))
	}()
	var exitNames []string
	for _, e := range exits {
		exitNames = append(exitNames, e.name)
	}
	c.r.SetExtra("container_size_encoder_exits", exitNames)
	c.r.SetExtra("container_size_buffer_histories", szHistories)
	stopped := func() bool {
		if c.r.Expired() {
			return true
		}
		if time.Now().After(deadline) {
			c.r.Cap("container-size phase stopped at its own deadline")
			return true
		}
		return false
	}
	for _, sc := range c.sizeCases() {
		st := &sizeCaseStat{Kind: sc.kind}
		per[sc.name] = st
		flat, pairs, predict, crossing := c.sizesOf(sc)
		st.CrossingSizes = crossing
		c.r.Count("sz_sizes_added_by_header_form_crossings(payload_55/56_255/256_65535/65536)", int64(crossing))
		sr := &sizeRun{sc: sc, predict: predict, stat: st}
		var todo [][2]int
		for _, n := range flat {
			todo = append(todo, [2]int{n, sc.m})
			st.Sizes = append(st.Sizes, fmt.Sprint(n))
		}
		for _, p := range pairs {
			todo = append(todo, p)
			st.Sizes = append(st.Sizes, fmt.Sprintf("%dx%d", p[0], p[1]))
		}
		if len(todo) == 0 {
			continue
		}
		smallAt, largeAt := szHistoryPoints(sc, todo)
		var ok1, ok2 bool
		sr.small, _, ok1 = c.szBuild(sc, smallAt[0], smallAt[1])
		sr.large, _, ok2 = c.szBuild(sc, largeAt[0], largeAt[1])
		if !ok1 || !ok2 {
			continue
		}
		g0, tc0 := szGCTime, time.Now()
		for _, p := range todo {
			if stopped() {
				return
			}
			c.sizeValue(sr, p[0], p[1], exits)
		}
		st.Seconds = time.Since(tc0).Seconds()
		st.GCSeconds = (szGCTime - g0).Seconds()
	}
}

// replaySizes re-evaluates one recorded (case, n, m).
func (c *checker) replaySizes(in input) {
	old := runtime.GOMAXPROCS(1)
	defer runtime.GOMAXPROCS(old)
	for _, sc := range c.sizeCases() {
		if sc.name != in.Type {
			continue
		}
		flat, pairs, predict, _ := c.sizesOf(sc)
		sr := &sizeRun{sc: sc, predict: predict, stat: &sizeCaseStat{}}
		todo := append([][2]int{}, pairs...)
		for _, n := range flat {
			todo = append(todo, [2]int{n, sc.m})
		}
		todo = append(todo, [2]int{in.Case, in.Ctx})
		small, large := szHistoryPoints(sc, todo)
		sr.small, _, _ = c.szBuild(sc, small[0], small[1])
		sr.large, _, _ = c.szBuild(sc, large[0], large[1])
		fmt.Printf("%s: n=%d m=%d, %d exits x %d buffer histories\n", sc.name, in.Case, in.Ctx, len(szExits()), len(szHistories))
		c.sizeValue(sr, in.Case, in.Ctx, szExits())
		return
	}
	fmt.Println("unknown container-size case", in.Type)
}
