package c14

// The registry of wire / disk types covered by C14: how to get a fresh decode
// target, what plain struct has the same wire shape (for value generation and
// for naming the field a finding is about), how to build the real value from
// that mirror and how to view a decoded value as a mirror again.

import (
	"bytes"
	"math/big"
	"reflect"
	"sort"

	"github.com/youchainhq/go-youchain/common"
	"github.com/youchainhq/go-youchain/consensus/ucon"
	"github.com/youchainhq/go-youchain/core/state"
	"github.com/youchainhq/go-youchain/core/types"
	"github.com/youchainhq/go-youchain/params"
	"github.com/youchainhq/go-youchain/staking"
)

// Mirrors of the p2p packet types of /repo/you/protocol.go.  Package you cannot
// be linked into the check binary (its p2p dependency quic-go panics at init
// under the installed Go toolchain); the RLP codec of these types is derived
// from the struct shape alone, which is copied here field for field.
type youStatusData struct {
	ProtocolVersion uint32
	NetworkId       uint64
	Origin          uint64
	Height          uint64
	CurrentBlock    common.Hash
	GenesisBlock    common.Hash
}
type youNewBlockHashesData []struct {
	Hash   common.Hash
	Number uint64
}
type youHashOrNumber struct {
	Hash   common.Hash
	Number uint64
}
type youBlocksData []struct {
	Block  *types.Block
	Number *big.Int
}
type youGetBlockHeadersData struct {
	Origin  youHashOrNumber
	Amount  uint64
	Skip    uint64
	Reverse bool
	Light   bool
}
type youGetNodeDataMsgData struct {
	Kind   types.TrieKind
	Hashes []common.Hash
}

// target is one covered type.
type target struct {
	name  string
	ident string // how bytes of this type are identified / where they live (triage aid)
	fresh func() interface{}
	// mirror: plain type with the wire shape of the target (the type itself for
	// plain structs).  build turns a mirror value (addressable) into the value
	// to encode and the mirror the decoded value is expected to show.
	mirror reflect.Type
	only   map[string]bool // restrict varied/compared top-level fields (nil: all)
	build  func(m reflect.Value) (val interface{}, expect interface{}, ok bool)
	view   func(decoded interface{}) interface{}
	// mapOrdered: the encoder iterates a Go map (order not defined)
	mapOrdered bool
	// allExported: vary rlp:"-" fields too (a custom codec carries them)
	allExported bool

	cases *caseSet
	seeds [][]byte // valid encodings used as mutation seeds (baselines)
	id    int
}

// ---- mirrors of opaque types ---------------------------------------------------

type txM struct {
	AccountNonce uint64
	Price        *big.Int
	GasLimit     uint64
	Recipient    *common.Address `rlp:"nil"`
	Amount       *big.Int
	Payload      []byte
	V, R, S      *big.Int
}

type blockM struct {
	Header *types.Header
	Txs    []*types.Transaction
}

type receiptWire struct { // wire shape only (naming)
	PostStateOrStatus []byte
	CumulativeGasUsed uint64
	Bloom             types.Bloom
	Logs              []*logWire
}
type logWire struct {
	Address common.Address
	Topics  []common.Hash
	Data    []byte
}
type receiptStorageWire struct {
	PostStateOrStatus []byte
	CumulativeGasUsed uint64
	Bloom             types.Bloom
	TxHash            common.Hash
	ContractAddress   common.Address
	Logs              []*logStorageWire
	GasUsed           uint64
}
type logStorageWire struct {
	Address     common.Address
	Topics      []common.Hash
	Data        []byte
	BlockNumber uint64
	TxHash      common.Hash
	TxIndex     uint
	BlockHash   common.Hash
	Index       uint
}

type validatorWire struct { // [[fields...], expelled]
	V        state.AliasValidator
	Expelled uint8
}

type statM struct {
	KindValidator, KindChamber, KindHouse    state.VerifC14KindStat
	RoleChancellor, RoleSenator, RoleHouse state.VerifC14KindStat
}

type addrListM struct{ Addrs []common.Address }

type pairM struct{ D, V common.Address }
type pendingM struct {
	Pairs []pairM
	// DerivedCountersWrong: the per-delegator / per-validator counters the
	// decoder derives do not match the pairs (always false for a correct value)
	DerivedCountersWrong bool
}

type signM struct {
	Hash common.Hash
	Sign []byte
}
type evidenceDSM struct {
	Round      *big.Int
	RoundIndex uint32
	Signs      []signM
}

type slashWire struct {
	Type          uint8
	MainAddress   common.Address
	PenaltyAmount *big.Int
	Records       []*staking.SlashWithdrawRecord
	Evidence      *staking.Evidence
}

type valSetM struct{ Vals []*state.Validator }

func identityBuild(m reflect.Value) (interface{}, interface{}, bool) {
	return m.Addr().Interface(), m.Addr().Interface(), true
}

func ptrTo(v interface{}) reflect.Type { return reflect.TypeOf(v) }

func txView(tx *types.Transaction) *txM {
	v, r, s := tx.RawSignatureValues()
	return &txM{AccountNonce: tx.Nonce(), Price: tx.GasPrice(), GasLimit: tx.Gas(), Recipient: tx.To(), Amount: tx.Value(),
		Payload: tx.Data(), V: v, R: r, S: s}
}

// txFromMirror builds a Transaction through the public constructors when the
// mirror is expressible that way (Price/Amount set, signature values produced
// by WithSignature) and through the decoder otherwise.
func txFromMirror(m *txM, encode func(interface{}) ([]byte, error), decode func([]byte, interface{}) error) (*types.Transaction, bool) {
	b, err := encode(m)
	if err != nil {
		return nil, false
	}
	tx := new(types.Transaction)
	if err := decode(b, tx); err != nil {
		return nil, false
	}
	return tx, true
}

func kindStatOf(s *state.ValidatorsStat) statM {
	g := func(k *state.ValKindStat) state.VerifC14KindStat {
		if k == nil {
			return state.VerifC14KindStat{}
		}
		return state.VerifC14ViewKindStat(k)
	}
	return statM{
		g(s.Kinds[params.KindValidator]), g(s.Kinds[params.KindChamber]), g(s.Kinds[params.KindHouse]),
		g(s.Roles[params.RoleChancellor]), g(s.Roles[params.RoleSenator]), g(s.Roles[params.RoleHouse]),
	}
}

func sortedUniqueAddrs(in []common.Address) []common.Address {
	out := append([]common.Address{}, in...)
	sort.Slice(out, func(i, j int) bool { return bytes.Compare(out[i][:], out[j][:]) < 0 })
	var u []common.Address
	for i := range out {
		if i == 0 || out[i] != out[i-1] {
			u = append(u, out[i])
		}
	}
	return u
}

// sampleTxs are built with the public constructors and WithSignature.
func sampleTxs() []*types.Transaction {
	to := common.HexToAddress("0xa1000000000000000000000000000000000000a1")
	signer := types.NewYouSigner(7)
	sig := append(append(common.LeftPadBytes([]byte{0x11, 0x22}, 32), common.LeftPadBytes([]byte{0x80, 0x01}, 32)...), 1)
	t0 := types.NewContractCreation(0, nil, 0, nil, nil)
	t1, err := types.NewTransaction(0x81, to, big.NewInt(1000), 21000, big.NewInt(0x80), []byte{0x80, 0x00, 0x01}).WithSignature(signer, sig)
	if err != nil {
		panic(err)
	}
	return []*types.Transaction{t0, t1}
}

func sampleHeader(rich bool) *types.Header {
	c := newDomCtx()
	t := reflect.TypeOf(types.Header{})
	if !rich {
		h := c.zeroish(t, "Header").Interface().(types.Header)
		return &h
	}
	ctr := 0
	h := c.rich(t, "Header", &ctr).Interface().(types.Header)
	return &h
}

func buildTargets(encode func(interface{}) ([]byte, error), decode func([]byte, interface{}) error) ([]*target, *domCtx) {
	c := newDomCtx()
	txs := sampleTxs()
	c.sample(txs[0], txs[1])
	b0 := types.NewBlockWithHeader(sampleHeader(false))
	b1 := types.NewBlockWithHeader(sampleHeader(true)).WithBody(&types.Body{Transactions: txs})
	c.sample(b0, b1)
	ks0 := state.NewValKindStat()
	ks1 := state.VerifC14MakeKindStat(state.VerifC14KindStat{OnlineStake: big.NewInt(0x81), OnlineToken: big.NewInt(0x8102), OnlineCount: 3,
		OfflineStake: big.NewInt(4), OfflineToken: big.NewInt(0x8005), OfflineCount: 0x86, RewardsResidue: big.NewInt(7), RewardsDistributable: pow2(70)})
	c.sample(ks0, ks1)

	// domain overrides: values outside these are not values of the type
	c.override("Receipt.PostState", []byte(nil), repeat(0x5a, 32))
	c.override("Receipt.Status", uint64(0), uint64(1))
	c.override("ReceiptForStorage.PostState", []byte(nil), repeat(0x5a, 32))
	c.override("ReceiptForStorage.Status", uint64(0), uint64(1))
	ev0 := &staking.Evidence{}
	ev1 := &staking.Evidence{Type: staking.EvidenceTypeDoubleSignV5, Data: []byte{0xc1, 0x80}}
	c.override("SlashData.Evidence", interface{}(ev0), interface{}(ev1))
	la := common.HexToAddress("0x10a0000000000000000000000000000000000a01")
	lg0 := &types.Log{}
	lg1 := &types.Log{Address: la, Topics: []common.Hash{common.HexToHash("0x01"), common.HexToHash("0xff00000000000000000000000000000000000000000000000000000000000080")}, Data: []byte{0x80, 0x01}}
	ls1 := &types.Log{Address: la, Topics: []common.Hash{common.HexToHash("0x02")}, Data: []byte{0x7f}, BlockNumber: 0x81, TxHash: common.HexToHash("0x0a"), TxIndex: 0x82, BlockHash: common.HexToHash("0x0b"), Index: 0x83}
	c.override("Receipt.Logs", []*types.Log(nil), []*types.Log{}, []*types.Log{lg0}, []*types.Log{lg1, lg0})
	c.override("ReceiptForStorage.Logs", []*types.Log(nil), []*types.Log{}, []*types.Log{lg0}, []*types.Log{ls1, lg1})
	rc0 := &types.Receipt{Status: 0}
	rc1 := &types.Receipt{Status: 1, CumulativeGasUsed: 0x8101, Logs: []*types.Log{lg1}}
	rc1.Bloom = types.CreateBloom(types.Receipts{rc1})
	c.sample(rc0, rc1)
	mkVal := func(i int, tok int64) *state.Validator {
		return state.NewValidator("v", la, la, params.RoleChancellor, []byte{2, byte(i)}, []byte{byte(i)}, big.NewInt(tok), big.NewInt(tok/10), 1, 100, 200, 1)
	}
	va, vb := mkVal(1, 1000), mkVal(2, 500)
	c.override("valSetM.Vals", []*state.Validator(nil), []*state.Validator{}, []*state.Validator{va}, []*state.Validator{va, vb})
	c.override("evidenceDSM.Round", big.NewInt(0), big.NewInt(0x80), pow2(64), big.NewInt(1), big.NewInt(0x7f))

	var ts []*target
	add := func(t *target) {
		if t.build == nil {
			t.build = identityBuild
		}
		if t.view == nil {
			t.view = func(d interface{}) interface{} { return d }
		}
		t.id = len(ts)
		ts = append(ts, t)
	}
	plain := func(name, ident string, zero interface{}) {
		rt := reflect.TypeOf(zero)
		add(&target{name: name, ident: ident, mirror: rt, fresh: func() interface{} { return reflect.New(rt).Interface() }})
	}

	// ---- core/types ----
	plain("types.Header", "consensus hash (block hash)", types.Header{})
	add(&target{name: "types.Block", ident: "consensus hash (header hash + tx root); p2p NewBlockMsg / ucon block proposal",
		fresh: func() interface{} { return new(types.Block) }, mirror: reflect.TypeOf(blockM{}),
		build: func(m reflect.Value) (interface{}, interface{}, bool) {
			bm := m.Addr().Interface().(*blockM)
			if bm.Header == nil {
				return nil, nil, false
			}
			b := types.NewBlockWithHeader(bm.Header).WithBody(&types.Body{Transactions: bm.Txs})
			return b, &blockM{Header: types.CopyHeader(bm.Header), Txs: bm.Txs}, true
		},
		view: func(d interface{}) interface{} {
			b := d.(*types.Block)
			return &blockM{Header: b.Header(), Txs: b.Transactions()}
		}})
	add(&target{name: "types.Transaction", ident: "consensus hash (tx hash = hash of re-encoding; tx root)",
		fresh: func() interface{} { return new(types.Transaction) }, mirror: reflect.TypeOf(txM{}),
		build: func(m reflect.Value) (interface{}, interface{}, bool) {
			tm := m.Addr().Interface().(*txM)
			tx, ok := txFromMirror(tm, encode, decode)
			return tx, tm, ok
		},
		view: func(d interface{}) interface{} { return txView(d.(*types.Transaction)) }})
	add(&target{name: "types.Receipt", ident: "consensus hash (receipt root); p2p ReceiptsMsg",
		fresh: func() interface{} { return new(types.Receipt) }, mirror: reflect.TypeOf(types.Receipt{}),
		build: func(m reflect.Value) (interface{}, interface{}, bool) {
			rc := m.Addr().Interface().(*types.Receipt)
			// a receipt carries either a post-state root or a status, never both
			return rc, rc, len(rc.PostState) == 0 || rc.Status == 0
		},
		only: map[string]bool{"PostState": true, "Status": true, "CumulativeGasUsed": true, "Bloom": true, "Logs": true}})
	add(&target{name: "types.ReceiptForStorage", ident: "disk (receipts table)",
		fresh: func() interface{} { return new(types.ReceiptForStorage) }, mirror: reflect.TypeOf(types.ReceiptForStorage{}),
		build: func(m reflect.Value) (interface{}, interface{}, bool) {
			rc := m.Addr().Interface().(*types.ReceiptForStorage)
			return rc, rc, len(rc.PostState) == 0 || rc.Status == 0
		},
		only: map[string]bool{"PostState": true, "Status": true, "CumulativeGasUsed": true, "Bloom": true, "Logs": true, "TxHash": true, "ContractAddress": true, "GasUsed": true}})
	add(&target{name: "types.Log", ident: "consensus hash (inside receipts)",
		fresh: func() interface{} { return new(types.Log) }, mirror: reflect.TypeOf(types.Log{}),
		only: map[string]bool{"Address": true, "Topics": true, "Data": true}})
	add(&target{name: "types.LogForStorage", ident: "disk (inside stored receipts)",
		fresh: func() interface{} { return new(types.LogForStorage) }, mirror: reflect.TypeOf(types.LogForStorage{}),
		only: map[string]bool{"Address": true, "Topics": true, "Data": true, "BlockNumber": true, "TxHash": true, "TxIndex": true, "BlockHash": true, "Index": true}})
	plain("types.Body", "p2p BlockBodiesMsg; disk", types.Body{})

	// ---- core/state ----
	add(&target{name: "state.Validator", ident: "validator trie value (valRoot)", allExported: true,
		fresh: func() interface{} { return new(state.Validator) }, mirror: reflect.TypeOf(state.Validator{})})
	add(&target{name: "state.ValKindStat", ident: "validator trie value (inside statistics)",
		fresh: func() interface{} { return new(state.ValKindStat) }, mirror: reflect.TypeOf(state.VerifC14KindStat{}),
		build: func(m reflect.Value) (interface{}, interface{}, bool) {
			f := m.Interface().(state.VerifC14KindStat)
			return state.VerifC14MakeKindStat(f), &f, true
		},
		view: func(d interface{}) interface{} { v := state.VerifC14ViewKindStat(d.(*state.ValKindStat)); return &v }})
	add(&target{name: "state.ValidatorsStat", ident: "validator trie value (statistics record)",
		fresh: func() interface{} { return state.NewValidatorsStat() }, mirror: reflect.TypeOf(statM{}),
		build: func(m reflect.Value) (interface{}, interface{}, bool) {
			f := m.Interface().(statM)
			s := state.NewValidatorsStat()
			s.Kinds[params.KindValidator] = state.VerifC14MakeKindStat(f.KindValidator)
			s.Kinds[params.KindChamber] = state.VerifC14MakeKindStat(f.KindChamber)
			s.Kinds[params.KindHouse] = state.VerifC14MakeKindStat(f.KindHouse)
			s.Roles[params.RoleChancellor] = state.VerifC14MakeKindStat(f.RoleChancellor)
			s.Roles[params.RoleSenator] = state.VerifC14MakeKindStat(f.RoleSenator)
			s.Roles[params.RoleHouse] = state.VerifC14MakeKindStat(f.RoleHouse)
			return s, &f, true
		},
		view: func(d interface{}) interface{} { v := kindStatOf(d.(*state.ValidatorsStat)); return &v }})
	add(&target{name: "state.ValidatorIndex", ident: "validator trie value (index record)",
		fresh: func() interface{} { return state.NewValidatorIndex() }, mirror: reflect.TypeOf(addrListM{}),
		build: func(m reflect.Value) (interface{}, interface{}, bool) {
			f := m.Interface().(addrListM)
			idx := state.NewValidatorIndex()
			for _, a := range f.Addrs {
				idx.Add(a)
			}
			return idx, &addrListM{sortedUniqueAddrs(f.Addrs)}, true
		},
		view: func(d interface{}) interface{} { return &addrListM{d.(*state.ValidatorIndex).List()} }})
	plain("state.WithdrawRecord", "validator trie value (inside withdraw queue)", state.WithdrawRecord{})
	plain("state.WithdrawQueue", "validator trie value (withdraw queue record)", state.WithdrawQueue{})
	add(&target{name: "state.Record", ident: "staking trie value (pending staking record; also written through stakingRecord.EncodeRLP)",
		fresh: func() interface{} { return new(state.Record) }, mirror: reflect.TypeOf(state.Record{}),
		build: func(m reflect.Value) (interface{}, interface{}, bool) {
			r := m.Interface().(state.Record)
			return state.VerifC14NewStakingRecord(r), &r, true // encode through the production wrapper
		}})
	add(&target{name: "state.pendingRelationship", ident: "staking trie value ('pendingr')",
		fresh: func() interface{} { return state.VerifC14NewPending(nil) }, mirror: reflect.TypeOf(pendingM{}),
		build: func(m reflect.Value) (interface{}, interface{}, bool) {
			f := m.Interface().(pendingM)
			var pairs [][2]common.Address
			for _, p := range f.Pairs {
				pairs = append(pairs, [2]common.Address{p.D, p.V})
			}
			return state.VerifC14NewPending(pairs), pendingNorm(pairs), true
		},
		view: func(d interface{}) interface{} {
			pairs, dc, vc := state.VerifC14PendingView(d)
			v := pendingNorm(pairs)
			// derived counters must match the pairs
			wd, wv := map[common.Address]uint16{}, map[common.Address]uint16{}
			for _, p := range pairs {
				wd[p[0]]++
				wv[p[1]]++
			}
			if !reflect.DeepEqual(wd, dc) || !reflect.DeepEqual(wv, vc) {
				v.DerivedCountersWrong = true
			}
			return v
		}})
	plain("state.Account", "state trie value (stateRoot)", state.Account{})
	plain("state.DelegationFrom", "validator trie value (inside validator record)", state.DelegationFrom{})
	plain("state.DelegationTos", "state (delegations blob hashed into the account)", state.DelegationTos{})
	// ---- consensus/ucon ----
	plain("ucon.Message", "gossip envelope (relayed as received; PayloadHash identifies it)", ucon.Message{})
	plain("ucon.ConsensusCommon", "ucon priority proposal payload (signed bytes)", ucon.ConsensusCommon{})
	plain("ucon.BlockHashWithVotes", "ucon vote payload (signed bytes)", ucon.BlockHashWithVotes{})
	plain("ucon.SingleVote", "inside vote payloads and header.Validator", ucon.SingleVote{})
	plain("ucon.UconValidators", "header.Validator / header.Certificate (not hashed)", ucon.UconValidators{})
	plain("ucon.BlockConsensusData", "header.Consensus (hashed as raw bytes; signature over re-encoding)", ucon.BlockConsensusData{})
	plain("ucon.VoteItem", "disk (vote db)", ucon.VoteItem{})

	// ---- staking ----
	plain("staking.Message", "tx payload (hashed as raw tx data)", staking.Message{})
	plain("staking.TxCreateValidator", "tx payload", staking.TxCreateValidator{})
	plain("staking.TxUpdateValidator", "tx payload", staking.TxUpdateValidator{})
	plain("staking.TxValidatorDeposit", "tx payload", staking.TxValidatorDeposit{})
	plain("staking.TxValidatorWithdraw", "tx payload", staking.TxValidatorWithdraw{})
	plain("staking.TxValidatorChangeStatus", "tx payload", staking.TxValidatorChangeStatus{})
	plain("staking.TxValidatorSettle", "tx payload", staking.TxValidatorSettle{})
	plain("staking.TxDelegation", "tx payload", staking.TxDelegation{})
	plain("staking.TxDelegationSettle", "tx payload", staking.TxDelegationSettle{})
	plain("staking.Evidence", "header.SlashData element (hashed as raw bytes)", staking.Evidence{})
	plain("[]staking.Evidence", "header.SlashData (hashed as raw bytes)", []staking.Evidence{})
	add(&target{name: "staking.EvidenceDoubleSign", ident: "Evidence.Data (deprecated kind; still decoded on replay)",
		fresh: func() interface{} { return new(staking.EvidenceDoubleSign) }, mirror: reflect.TypeOf(evidenceDSM{}), mapOrdered: true,
		build: func(m reflect.Value) (interface{}, interface{}, bool) {
			f := m.Interface().(evidenceDSM)
			e := &staking.EvidenceDoubleSign{Round: f.Round, RoundIndex: f.RoundIndex, Signs: map[common.Hash][]byte{}}
			for _, s := range f.Signs {
				e.Signs[s.Hash] = s.Sign
			}
			return e, dsView(e), true
		},
		view: func(d interface{}) interface{} { return dsView(d.(*staking.EvidenceDoubleSign)) }})
	plain("staking.EvidenceInactive", "Evidence.Data", staking.EvidenceInactive{})
	plain("staking.EvidenceDoubleSignV5", "Evidence.Data", staking.EvidenceDoubleSignV5{})
	plain("staking.SignInfo", "inside EvidenceDoubleSignV5", staking.SignInfo{})
	plain("staking.SlashData", "receipt log data (hashed into the receipt root as raw bytes; SlashData.Hash() = hash of re-encoding)", staking.SlashData{})
	plain("staking.SlashDataV5", "receipt log data", staking.SlashDataV5{})
	plain("staking.SlashWithdrawRecord", "inside SlashData", staking.SlashWithdrawRecord{})
	plain("staking.PenaltyRecord", "inside SlashDataV5", staking.PenaltyRecord{})
	plain("staking.LogData", "receipt log data (raw bytes)", staking.LogData{})

	// ---- you (p2p packets) ----
	plain("you.statusData", "p2p StatusMsg (mirrored struct)", youStatusData{})
	plain("you.getBlockHeadersData", "p2p GetBlockHeadersMsg (mirrored struct)", youGetBlockHeadersData{})
	plain("you.NewBlockHashesData", "p2p NewBlockHashMsg (mirrored struct)", youNewBlockHashesData{})
	plain("you.HashOrNumber", "p2p, inside header query (mirrored struct)", youHashOrNumber{})
	plain("you.BlocksData", "p2p (mirrored struct)", youBlocksData{})
	plain("you.GetNodeDataMsgData", "p2p GetNodeDataMsg (mirrored struct)", youGetNodeDataMsgData{})
	plain("[]*types.Header", "p2p BlockHeadersMsg", []*types.Header{})
	plain("[]*types.Transaction", "p2p TxMsg", []*types.Transaction{})
	plain("[]*types.Body", "p2p BlockBodiesMsg", []*types.Body{})
	plain("[][]*types.Receipt", "p2p ReceiptsMsg", [][]*types.Receipt{})
	plain("[][]byte", "p2p NodeDataMsg", [][]byte{})
	plain("[]common.Hash", "p2p GetBlockBodiesMsg / GetReceiptsMsg", []common.Hash{})
	plain("common.Hash", "p2p GetBlockMsg", common.Hash{})

	return ts, c
}

func init() {
	wireSubst[reflect.TypeOf(types.Transaction{})] = reflect.TypeOf(txM{})
	wireSubst[reflect.TypeOf(types.Block{})] = reflect.TypeOf(struct {
		Header *types.Header
		Txs    []*types.Transaction
	}{})
	wireSubst[reflect.TypeOf(types.Receipt{})] = reflect.TypeOf(receiptWire{})
	wireSubst[reflect.TypeOf(types.ReceiptForStorage{})] = reflect.TypeOf(receiptStorageWire{})
	wireSubst[reflect.TypeOf(types.Log{})] = reflect.TypeOf(logWire{})
	wireSubst[reflect.TypeOf(types.LogForStorage{})] = reflect.TypeOf(logStorageWire{})
	wireSubst[reflect.TypeOf(state.Validator{})] = reflect.TypeOf(validatorWire{})
	wireSubst[reflect.TypeOf(staking.SlashData{})] = reflect.TypeOf(slashWire{})
}

func pendingNorm(pairs [][2]common.Address) *pendingM {
	ps := append([][2]common.Address{}, pairs...)
	sort.Slice(ps, func(i, j int) bool {
		if c := bytes.Compare(ps[i][0][:], ps[j][0][:]); c != 0 {
			return c < 0
		}
		return bytes.Compare(ps[i][1][:], ps[j][1][:]) < 0
	})
	out := &pendingM{}
	for i, p := range ps {
		if i > 0 && p == ps[i-1] {
			continue
		}
		out.Pairs = append(out.Pairs, pairM{p[0], p[1]})
	}
	return out
}

func dsView(e *staking.EvidenceDoubleSign) *evidenceDSM {
	v := &evidenceDSM{Round: e.Round, RoundIndex: e.RoundIndex}
	for h, s := range e.Signs {
		v.Signs = append(v.Signs, signM{h, s})
	}
	sort.Slice(v.Signs, func(i, j int) bool { return bytes.Compare(v.Signs[i].Hash[:], v.Signs[j].Hash[:]) < 0 })
	return v
}

// wireShape is the plain type whose RLP shape equals the target's (used to name
// the field a non-canonical acceptance is about).
func (t *target) wireShape() reflect.Type {
	switch t.name {
	case "types.Receipt":
		return reflect.TypeOf(receiptWire{})
	case "types.ReceiptForStorage":
		return reflect.TypeOf(receiptStorageWire{})
	case "types.Log":
		return reflect.TypeOf(logWire{})
	case "types.LogForStorage":
		return reflect.TypeOf(logStorageWire{})
	case "state.Validator":
		return reflect.TypeOf(validatorWire{})
	case "staking.SlashData":
		return reflect.TypeOf(slashWire{})
	case "state.ValidatorIndex":
		return reflect.TypeOf([]common.Address{})
	case "state.pendingRelationship":
		return reflect.TypeOf([][40]byte{})
	case "types.Block":
		return reflect.TypeOf(struct {
			Header *types.Header
			Txs    []*types.Transaction
		}{})
	}
	return t.mirror
}
