package c14

// Normalised structural comparison used by the round-trip oracle: exported
// fields only (caches and other unexported state are not part of the value),
// nil slice == empty slice, nil *big.Int == 0, maps by key.

import (
	"bytes"
	"fmt"
	"math/big"
	"reflect"
	"sort"
	"strings"
)

var (
	bigIntType = reflect.TypeOf(big.Int{})
	bigPtrType = reflect.TypeOf((*big.Int)(nil))
)

// diffValues returns "" when a and b are equal under the normalisation, else
// the path of the first difference (slice indexes rendered as [] so that the
// result is usable inside a violation signature) and a detail string.
func diffValues(a, b reflect.Value, path string, only map[string]bool) (where, detail string) {
	if !a.IsValid() || !b.IsValid() {
		if a.IsValid() != b.IsValid() {
			return path, "one side missing"
		}
		return "", ""
	}
	if a.Type() != b.Type() {
		return path, fmt.Sprintf("types differ: %v vs %v", a.Type(), b.Type())
	}
	t := a.Type()
	switch {
	case t == bigPtrType:
		x, y := a.Interface().(*big.Int), b.Interface().(*big.Int)
		if x == nil {
			x = new(big.Int)
		}
		if y == nil {
			y = new(big.Int)
		}
		if x.Cmp(y) != 0 {
			return path, fmt.Sprintf("%v vs %v", x, y)
		}
		return "", ""
	case t == bigIntType:
		x, y := a.Interface().(big.Int), b.Interface().(big.Int)
		if x.Cmp(&y) != 0 {
			return path, fmt.Sprintf("%v vs %v", &x, &y)
		}
		return "", ""
	}
	switch t.Kind() {
	case reflect.Ptr:
		if a.IsNil() || b.IsNil() {
			if a.IsNil() != b.IsNil() {
				return path, fmt.Sprintf("nil=%v vs nil=%v", a.IsNil(), b.IsNil())
			}
			return "", ""
		}
		return diffValues(a.Elem(), b.Elem(), path, only)
	case reflect.Interface:
		if a.IsNil() || b.IsNil() {
			if a.IsNil() != b.IsNil() {
				return path, fmt.Sprintf("nil=%v vs nil=%v", a.IsNil(), b.IsNil())
			}
			return "", ""
		}
		return diffValues(a.Elem(), b.Elem(), path, only)
	case reflect.Struct:
		for i := 0; i < t.NumField(); i++ {
			f := t.Field(i)
			if f.PkgPath != "" { // unexported: caches, derived state
				continue
			}
			if path == "" && only != nil && !only[f.Name] {
				continue
			}
			if w, d := diffValues(a.Field(i), b.Field(i), path+"."+f.Name, nil); w != "" {
				return w, d
			}
		}
		return "", ""
	case reflect.Slice:
		if t.Elem().Kind() == reflect.Uint8 {
			if !bytes.Equal(a.Bytes(), b.Bytes()) {
				return path, fmt.Sprintf("%x vs %x", a.Bytes(), b.Bytes())
			}
			return "", ""
		}
		if a.Len() != b.Len() {
			return path, fmt.Sprintf("len %d vs %d", a.Len(), b.Len())
		}
		for i := 0; i < a.Len(); i++ {
			if w, d := diffValues(a.Index(i), b.Index(i), path+"[]", nil); w != "" {
				return w, d
			}
		}
		return "", ""
	case reflect.Array:
		for i := 0; i < a.Len(); i++ {
			if w, d := diffValues(a.Index(i), b.Index(i), path, nil); w != "" {
				return w, d
			}
		}
		return "", ""
	case reflect.Map:
		if a.Len() != b.Len() {
			return path, fmt.Sprintf("map len %d vs %d", a.Len(), b.Len())
		}
		keys := a.MapKeys()
		sort.Slice(keys, func(i, j int) bool { return fmt.Sprint(keys[i].Interface()) < fmt.Sprint(keys[j].Interface()) })
		for _, k := range keys {
			bv := b.MapIndex(k)
			if !bv.IsValid() {
				return path + "{}", fmt.Sprintf("key %v missing", k.Interface())
			}
			if w, d := diffValues(a.MapIndex(k), bv, path+"{}", nil); w != "" {
				return w, d
			}
		}
		return "", ""
	case reflect.Bool:
		if a.Bool() != b.Bool() {
			return path, fmt.Sprintf("%v vs %v", a.Bool(), b.Bool())
		}
	case reflect.String:
		if a.String() != b.String() {
			return path, fmt.Sprintf("%q vs %q", a.String(), b.String())
		}
	case reflect.Uint, reflect.Uint8, reflect.Uint16, reflect.Uint32, reflect.Uint64, reflect.Uintptr:
		if a.Uint() != b.Uint() {
			return path, fmt.Sprintf("%d vs %d", a.Uint(), b.Uint())
		}
	case reflect.Int, reflect.Int8, reflect.Int16, reflect.Int32, reflect.Int64:
		if a.Int() != b.Int() {
			return path, fmt.Sprintf("%d vs %d", a.Int(), b.Int())
		}
	default:
		// chan, func, ...: never part of a wire value
	}
	return "", ""
}

func diffIface(a, b interface{}, only map[string]bool) (string, string) {
	va, vb := reflect.ValueOf(a), reflect.ValueOf(b)
	for va.IsValid() && va.Kind() == reflect.Ptr && !va.IsNil() && vb.IsValid() && vb.Kind() == reflect.Ptr && !vb.IsNil() {
		va, vb = va.Elem(), vb.Elem()
	}
	w, d := diffValues(va, vb, "", only)
	return strings.TrimPrefix(w, "."), d
}

// rlpFields lists the fields of a struct type the RLP codec visits.
func rlpFields(t reflect.Type) []reflect.StructField {
	var out []reflect.StructField
	for i := 0; i < t.NumField(); i++ {
		f := t.Field(i)
		if f.PkgPath != "" {
			continue
		}
		ignored := false
		for _, tg := range strings.Split(f.Tag.Get("rlp"), ",") {
			if strings.TrimSpace(tg) == "-" {
				ignored = true
			}
		}
		if !ignored {
			out = append(out, f)
		}
	}
	return out
}

// pathName maps an RLP index path to field names of the wire-shape type.  When
// the path enters a type that has its own codec (and is itself a covered type)
// the owner switches to that type and the field path restarts, so that one
// lenient decoder yields one signature no matter which container carried it.
func pathName(top string, t reflect.Type, path []int) (owner, field string, leaf reflect.Type) {
	owner = top
	s := ""
	for k, i := range path {
		for t != nil && t.Kind() == reflect.Ptr {
			t = t.Elem()
		}
		if t == nil {
			return owner, strings.TrimPrefix(s+pathString(path[k:]), "."), nil
		}
		if w, ok := wireSubst[t]; ok {
			if k > 0 {
				owner, s = t.String(), ""
			}
			t = w
		}
		switch {
		case t == bigIntType:
			return owner, strings.TrimPrefix(s+pathString(path[k:]), "."), t
		case t.Kind() == reflect.Struct:
			fs := rlpFields(t)
			if i >= len(fs) {
				return owner, strings.TrimPrefix(s+".<item beyond the last field>", "."), nil
			}
			s += "." + fs[i].Name
			t = fs[i].Type
		case (t.Kind() == reflect.Slice || t.Kind() == reflect.Array) && t.Elem().Kind() != reflect.Uint8:
			s += "[]"
			t = t.Elem()
		default:
			return owner, strings.TrimPrefix(s+pathString(path[k:]), "."), t
		}
	}
	for t != nil && t.Kind() == reflect.Ptr && t != bigPtrType {
		t = t.Elem()
	}
	if s == "" {
		s = "top level"
	}
	return owner, strings.TrimPrefix(s, "."), t
}

func isIntType(t reflect.Type) bool {
	if t == nil {
		return false
	}
	if t == bigIntType || t == bigPtrType {
		return true
	}
	switch t.Kind() {
	case reflect.Uint, reflect.Uint8, reflect.Uint16, reflect.Uint32, reflect.Uint64, reflect.Bool:
		return true
	}
	return false
}

// wireSubst maps types with a custom codec to a plain type of the same wire shape.
var wireSubst = map[reflect.Type]reflect.Type{}
