package c14

// Phase E — ENTRY-POINT decoders under the accept => canonical oracle.
//
// Phases A/B/S exercise the codec of every type through rlp.DecodeBytes /
// Stream.Decode.  Production does not call "the codec of a type": it calls a
// function of its own that turns wire or disk bytes into a value -- ucon.Decode,
// Message.DecodePayload, ExtractUconValidators, the staking transaction
// handlers, the rawdb readers, the trie-record loaders of StateDB, p2p
// Msg.Decode -- and that function chooses HOW it enters the decoder (DecodeBytes
// rejects input after the value; a Stream that is asked for one value does not
// look at what follows).  Here every such function that can be reached from the
// check is offered, for every valid encoding of a small set,
//
//	the valid encoding                                  (must be accepted: vacuity guard)
//	the valid encoding + each suffix of {00, 80, c0, 01, ff, a second copy of the
//	    value, 1024 zero bytes}                         (must be refused)
//	the valid encoding truncated by 1, 2, 3 bytes       (must be refused)
//	the valid encoding wrapped in one more list         (must be refused)
//
// at the outer position and, where the function decodes a payload carried inside
// the outer value (envelope payload, staking message payload, log data, evidence
// data), at the inner position too (the outer value is then re-encoded honestly
// -- and re-signed where it is signed -- around the varied payload).
//
// A variant that is itself the canonical encoding of another value of the type
// (an empty list of lists wrapped once more) is skipped: the reference verdict
// is the strict decode + re-encode identity of phase B.  Entry points that
// ignore trailing bytes BY DESIGN are listed with the reason and counted
// separately; every other acceptance is a violation.
//
// entryInventory lists every call site of the non-test tree that enters the
// decoder on its own, covered or not, with the reason.

import (
	"bytes"
	"encoding/hex"
	"fmt"
	"io/ioutil"
	"math/big"
	"os"
	"path/filepath"
	"reflect"
	"regexp"
	"sort"
	"strings"
	"sync/atomic"
	"time"

	"github.com/youchainhq/go-youchain/common"
	"github.com/youchainhq/go-youchain/consensus/ucon"
	"github.com/youchainhq/go-youchain/core/rawdb"
	"github.com/youchainhq/go-youchain/core/state"
	"github.com/youchainhq/go-youchain/core/types"
	"github.com/youchainhq/go-youchain/event"
	"github.com/youchainhq/go-youchain/p2p"
	"github.com/youchainhq/go-youchain/params"
	"github.com/youchainhq/go-youchain/staking"
	"github.com/youchainhq/go-youchain/youdb"

	"verif/checks/chainx"
	"verif/checks/stx"
	"verif/mc"
)

// ---- the variant family --------------------------------------------------------------

type epVariant struct {
	class string // trailing | truncated | wrapped
	what  string
	data  []byte
}

func epVariants(v []byte) []epVariant {
	var out []epVariant
	suffix := func(name string, s []byte) {
		out = append(out, epVariant{"trailing", "followed by " + name, append(append([]byte{}, v...), s...)})
	}
	suffix("00", []byte{0x00})
	suffix("80", []byte{0x80})
	suffix("c0", []byte{0xc0})
	suffix("01", []byte{0x01})
	suffix("ff", []byte{0xff})
	suffix("a second copy of the value", v)
	suffix("1024 zero bytes", make([]byte, 1024))
	for k := 1; k <= 3 && k < len(v); k++ {
		out = append(out, epVariant{"truncated", fmt.Sprintf("truncated by %d", k), append([]byte{}, v[:len(v)-k]...)})
	}
	out = append(out, epVariant{"wrapped", "wrapped in one more list", append(hdrOf(0xc0, uint64(len(v))), v...)})
	return out
}

// ---- entry points ------------------------------------------------------------------------

type epCase struct {
	what     string
	position string             // "" = the bytes handed to the function; else the inner position varied
	valid    []byte             // canonical encoding at the varied position
	fresh    func() interface{} // type at the varied position (reference verdict)
	offer    func(b []byte) bool
}

type entryPoint struct {
	fn      string // function under test
	site    string // where it enters the decoder
	object  string
	lenient string // non-empty: trailing bytes are ignored by design -- why
	cases   []epCase
}

type epStat struct {
	Site             string `json:"enters_the_decoder_at"`
	Object           string `json:"object"`
	Cases            int    `json:"valid_encodings_offered"`
	ValidAccepted    int    `json:"valid_accepted"`
	Refused          int    `json:"variants_refused"`
	Skipped          int    `json:"variants_that_are_canonical_values_themselves(skipped)"`
	LenientTrailing  int    `json:"trailing_bytes_ignored_by_design"`
	LenientWhy       string `json:"why_trailing_bytes_are_ignored,omitempty"`
	WronglyAccepted  int    `json:"variants_accepted(violations)"`
	InnerPositionToo bool   `json:"inner_payload_position_varied_too"`
}

// refAccept: the strict reference verdict on b as an encoding of the type.
func refAccept(fresh func() interface{}, b []byte) bool {
	if fresh == nil {
		return false
	}
	v := fresh()
	ok := false
	mc.Catch(func() {
		if rlp_DecodeBytes(b, v) != nil {
			return
		}
		re, err := enc(v)
		ok = err == nil && bytes.Equal(re, b)
	})
	return ok
}

func rlp_DecodeBytes(b []byte, v interface{}) error { return dec(b, v) }

func freshOf(zero interface{}) func() interface{} {
	rt := reflect.TypeOf(zero)
	return func() interface{} { return reflect.New(rt).Interface() }
}

func firstN(s [][]byte, n int) [][]byte {
	if len(s) > n {
		return s[:n]
	}
	return s
}

func mustEnc(v interface{}) []byte {
	b, err := enc(v)
	if err != nil {
		panic("c14 entry: " + err.Error())
	}
	return b
}

// memKeyOf finds the key under which db holds exactly val.
func memKeyOf(db *youdb.MemDatabase, val []byte) []byte {
	for _, k := range db.Keys() {
		if v, _ := db.Get(k); bytes.Equal(v, val) {
			return k
		}
	}
	return nil
}

func (c *checker) entryPoints() []*entryPoint {
	var eps []*entryPoint
	// thorough tier: three times as many valid encodings per entry point
	mul := 1
	if !c.quick {
		mul = 3
	}
	firstN := func(s [][]byte, n int) [][]byte { return firstN(s, n*mul) }
	seedsOf := func(name string, n int) [][]byte {
		n *= mul
		t := c.byName[name]
		c.ensureSeeds(t)
		// the rich baseline comes last; keep it
		s := t.seeds
		if len(s) > n {
			s = append(append([][]byte{}, s[:n-1]...), s[len(s)-1])
		}
		return s
	}
	hmSeeds := c.hmPayloadSeeds()

	// ---- consensus/ucon -------------------------------------------------------------
	{
		ep := &entryPoint{fn: "ucon.Decode", site: "consensus/ucon/types.go Decode: rlp.DecodeBytes(b, &msg)", object: "consensus message envelope (gossiped and relayed as received)"}
		for code := uint8(1); code <= 6; code++ {
			for i, s := range firstN(hmSeeds[code], 2) {
				ep.cases = append(ep.cases, epCase{what: fmt.Sprintf("signed envelope code=%d payload seed %d", code, i), valid: envelope(code, s), fresh: freshOf(ucon.Message{}),
					offer: func(b []byte) bool {
						m, err := ucon.Decode(b)
						return err == nil && m != nil
					}})
			}
		}
		eps = append(eps, ep)
	}
	{
		ep := &entryPoint{fn: "ucon.Message.DecodePayload", site: "consensus/ucon/types.go DecodePayload: rlp.DecodeBytes(m.Payload, val)", object: "consensus payload (priority proposal, block proposal, vote)"}
		add := func(name string, zero interface{}, seeds [][]byte) {
			f := freshOf(zero)
			for i, s := range firstN(seeds, 3) {
				ep.cases = append(ep.cases, epCase{what: fmt.Sprintf("%s seed %d", name, i), valid: s, fresh: f,
					offer: func(b []byte) bool { return (&ucon.Message{Code: 3, Payload: b}).DecodePayload(f()) == nil }})
			}
		}
		add("ucon.ConsensusCommon", ucon.ConsensusCommon{}, hmSeeds[1])
		add("types.Block", types.Block{}, hmSeeds[2])
		add("ucon.BlockHashWithVotes", ucon.BlockHashWithVotes{}, hmSeeds[3])
		eps = append(eps, ep)
	}
	{
		ep := &entryPoint{fn: "ucon.ExtractConsensusData", site: "consensus/ucon/block_consensus_data.go ExtractConsensusData (= GetConsensusDataFromHeader): rlp.DecodeBytes(header.Consensus, data)", object: "header.Consensus"}
		for i, s := range seedsOf("ucon.BlockConsensusData", 3) {
			ep.cases = append(ep.cases, epCase{what: fmt.Sprintf("BlockConsensusData seed %d", i), valid: s, fresh: freshOf(ucon.BlockConsensusData{}),
				offer: func(b []byte) bool {
					_, err := ucon.GetConsensusDataFromHeader(&types.Header{Consensus: b})
					return err == nil
				}})
		}
		eps = append(eps, ep)
	}
	{
		ep := &entryPoint{fn: "ucon.ExtractUconValidators", site: "consensus/ucon/ucon_validators.go ExtractUconValidators: rlp.DecodeBytes(data, &uconVal)", object: "vote container (header.Validator / header.Certificate)"}
		seeds := seedsOf("ucon.UconValidators", 3)
		// a container with a few hundred votes too (the size real headers have)
		for _, sc := range c.sizeCases() {
			if sc.name == "ucon.UconValidators (all three vote lists)" {
				if val, _, ok := c.szBuild(sc, 300, sc.m); ok {
					seeds = append(seeds, mustEnc(val))
				}
			}
		}
		for i, s := range seeds {
			for _, lb := range []params.LookBackType{params.LookBackPos, params.LookBackCert} {
				lb := lb
				ep.cases = append(ep.cases, epCase{what: fmt.Sprintf("UconValidators seed %d (look-back type %d)", i, lb), valid: s, fresh: freshOf(ucon.UconValidators{}),
					offer: func(b []byte) bool {
						h := &types.Header{Validator: b, Certificate: []byte{0xc0}}
						if lb == params.LookBackCert {
							h = &types.Header{Validator: []byte{0xc0}, Certificate: b}
						}
						v, err := ucon.ExtractUconValidators(h, lb)
						return err == nil && v != nil
					}})
			}
		}
		eps = append(eps, ep)
	}
	{
		ep := &entryPoint{fn: "ucon.ReadVoteData", site: "consensus/ucon/vote_cache.go ReadVoteData: rlp.Decode(bytes.NewReader(data), vote)", object: "own vote record of the local vote database",
			lenient: "rlp.Decode reads ONE value from the reader; the record is written by the node itself into its own database, is never hashed or relayed, and is checked against the node's key (VerifySignature) before use"}
		addr := common.HexToAddress("0xa1000000000000000000000000000000000000a1")
		for i, s := range seedsOf("ucon.VoteItem", 3) {
			ep.cases = append(ep.cases, epCase{what: fmt.Sprintf("VoteItem seed %d", i), valid: s, fresh: freshOf(ucon.VoteItem{}),
				offer: func(b []byte) bool {
					db := youdb.NewMemDatabase()
					db.Put(ucon.AddrTypeKey(addr, 1, 0), b)
					return ucon.ReadVoteData(db, addr, 1, 0) != nil
				}})
		}
		eps = append(eps, ep)
	}
	eps = append(eps, c.epHandleMsg(hmSeeds))

	// ---- staking -----------------------------------------------------------------------
	eps = append(eps, c.epApplyMessage())
	{
		ep := &entryPoint{fn: "staking.DecodeLogDataFromBytes", site: "staking/logdata.go DecodeLogDataFromBytes: rlp.DecodeBytes(data, &logData), then rlp.DecodeBytes(logData.Data, &payload) by topic", object: "staking receipt log data (hashed into the receipt root as raw bytes)"}
		val := szValidatorFor(3)
		qr := &state.WithdrawRecord{}
		if t := c.byName["state.WithdrawRecord"]; t != nil {
			c.ensureSeeds(t)
			dec(t.seeds[len(t.seeds)-1], qr)
		}
		rewards := "12345678901234567890"
		slash := &staking.SlashData{Type: 1, MainAddress: szAddr(9), Total: big.NewInt(0x8123), Evidence: &staking.Evidence{Type: staking.EvidenceTypeDoubleSignV5, Data: []byte{0xc1, 0x80}},
			Records: []*staking.SlashWithdrawRecord{}}
		inner := []struct {
			topic string
			zero  interface{}
			enc   []byte
		}{
			{staking.LogTopicCreate, state.Validator{}, mustEnc(val)},
			{staking.LogTopicWithdraw, state.WithdrawRecord{}, mustEnc(qr)},
			{staking.LogTopicRewards, "", mustEnc(rewards)},
			{staking.LogTopicSlashing, staking.SlashData{}, mustEnc(slash)},
		}
		for _, in := range inner {
			in := in
			wrap := func(data []byte) []byte {
				return mustEnc(&staking.LogData{Topic: in.topic, Tags: []string{"t"}, Data: data})
			}
			offer := func(b []byte) bool {
				_, _, _, err := staking.DecodeLogDataFromBytes(b)
				return err == nil
			}
			ep.cases = append(ep.cases, epCase{what: "log data topic " + in.topic, valid: wrap(in.enc), fresh: freshOf(staking.LogData{}), offer: offer})
			ep.cases = append(ep.cases, epCase{what: "log data topic " + in.topic, position: "LogData.Data", valid: in.enc, fresh: freshOf(in.zero),
				offer: func(b []byte) bool { return offer(wrap(b)) }})
		}
		eps = append(eps, ep)
	}

	// ---- core/rawdb ----------------------------------------------------------------------
	{
		hdr := sampleHeader(true)
		hdr.Number = big.NewInt(77)
		diskWhy := "rlp.Decode reads ONE value from the reader; the value is written by the node itself (WriteHeader / WriteBody) into its own database under a key derived from the block hash; upstream go-ethereum reads it the same way"
		ep := &entryPoint{fn: "rawdb.ReadHeader", site: "core/rawdb/accessors_chain.go ReadHeader: rlp.Decode(bytes.NewReader(data), header)", object: "stored header", lenient: diskWhy}
		db := youdb.NewMemDatabase()
		rawdb.WriteHeader(db, hdr)
		hv := mustEnc(hdr)
		if key := memKeyOf(db, hv); key != nil {
			ep.cases = append(ep.cases, epCase{what: "rich header", valid: hv, fresh: freshOf(types.Header{}),
				offer: func(b []byte) bool { db.Put(key, b); return rawdb.ReadHeader(db, hdr.Hash(), 77) != nil }})
		}
		eps = append(eps, ep)

		ep = &entryPoint{fn: "rawdb.ReadBody", site: "core/rawdb/accessors_chain.go ReadBody: rlp.Decode(bytes.NewReader(data), body)", object: "stored block body", lenient: diskWhy}
		db2 := youdb.NewMemDatabase()
		body := &types.Body{Transactions: sampleTxs()}
		rawdb.WriteBody(db2, hdr.Hash(), 77, body)
		bv := mustEnc(body)
		if key := memKeyOf(db2, bv); key != nil {
			ep.cases = append(ep.cases, epCase{what: "body with two transactions", valid: bv, fresh: freshOf(types.Body{}),
				offer: func(b []byte) bool { db2.Put(key, b); return rawdb.ReadBody(db2, hdr.Hash(), 77) != nil }})
		}
		eps = append(eps, ep)

		ep = &entryPoint{fn: "rawdb.ReadReceipts", site: "core/rawdb/accessors_chain.go ReadReceipts: rlp.DecodeBytes(data, &storageReceipts)", object: "stored receipts of a block"}
		db3 := youdb.NewMemDatabase()
		rcs := types.Receipts{szReceipt(1, 2, true), szReceipt(4, 1, true)}
		rawdb.WriteReceipts(db3, hdr.Hash(), 77, rcs)
		var rv, rkey []byte
		for _, k := range db3.Keys() {
			rkey = k
			rv, _ = db3.Get(k)
		}
		if rkey != nil {
			ep.cases = append(ep.cases, epCase{what: "two receipts", valid: rv, fresh: freshOf([]*types.ReceiptForStorage{}),
				offer: func(b []byte) bool { db3.Put(rkey, b); return len(rawdb.ReadReceipts(db3, hdr.Hash(), 77)) > 0 }})
		}
		eps = append(eps, ep)

		ep = &entryPoint{fn: "rawdb.ReadTxLookupEntry", site: "core/rawdb/accessors_indexes.go ReadTxLookupEntry: rlp.DecodeBytes(data, &entry)", object: "transaction lookup entry"}
		db4 := youdb.NewMemDatabase()
		blk := types.NewBlockWithHeader(hdr).WithBody(body)
		rawdb.WriteTxLookupEntries(db4, blk)
		txh := body.Transactions[1].Hash()
		ev := mustEnc(rawdb.TxLookupEntry{BlockHash: blk.Hash(), BlockIndex: 77, Index: 1})
		if key := memKeyOf(db4, ev); key != nil {
			ep.cases = append(ep.cases, epCase{what: "lookup entry", valid: ev, fresh: freshOf(rawdb.TxLookupEntry{}),
				offer: func(b []byte) bool {
					db4.Put(key, b)
					h, _, _ := rawdb.ReadTxLookupEntry(db4, txh)
					return h != (common.Hash{})
				}})
		}
		eps = append(eps, ep)
	}

	// ---- core/state: records read from the three tries ----------------------------------------
	eps = append(eps, c.epStateRecords()...)

	// ---- p2p ------------------------------------------------------------------------------------
	{
		ep := &entryPoint{fn: "p2p.Msg.Decode", site: "p2p/message.go Msg.Decode: rlp.NewStream(msg.Payload, msg.Size).Decode(val) (every msg.Decode of you/handler.go and you/peer.go)", object: "p2p protocol packet",
			lenient: "the Stream is asked for one value and the rest of the frame is discarded (upstream go-ethereum behaviour); a packet is never hashed or relayed as received: every handler re-encodes what it forwards, and consensus payloads travel inside the packet as ONE byte string that is handed on exactly"}
		for _, name := range []string{"you.statusData", "you.getBlockHeadersData", "you.NewBlockHashesData", "you.GetNodeDataMsgData", "types.Block", "[]*types.Header", "[]*types.Transaction",
			"[]*types.Body", "[][]*types.Receipt", "[][]byte", "[]common.Hash", "common.Hash"} {
			t := c.byName[name]
			for i, s := range seedsOf(name, 2) {
				ep.cases = append(ep.cases, epCase{what: fmt.Sprintf("%s seed %d", name, i), valid: s, fresh: t.fresh,
					offer: func(b []byte) bool {
						return p2p.Msg{Code: 1, Size: uint32(len(b)), Payload: bytes.NewReader(b)}.Decode(t.fresh()) == nil
					}})
			}
		}
		eps = append(eps, ep)
	}
	return eps
}

func szValidatorFor(i int) *state.Validator { return szValidator(i, 2) }

// ---- MessageHandler.HandleMsg -----------------------------------------------------------------

// hmOffer drives one message through a NEW real handler (context ctx) and
// reports whether the handler acted on it: no error, or a consensus callback /
// the time judge / the relay was reached.
func (c *checker) hmOffer(data []byte, ctx int) (acted bool, reached int64, err error) {
	var posts int64
	event.VerifAsyncPostHook = func(mux *event.TypeMux, ev interface{}) bool { atomic.AddInt64(&posts, 1); return true }
	defer func() { event.VerifAsyncPostHook = nil }()
	cnt := &hmCounters{}
	mh := newHandler(cnt, ctx)
	err = mh.HandleMsg(data, time.Unix(1700000000, 0))
	reached = cnt.prio + cnt.block + cnt.vote + cnt.recv + atomic.LoadInt64(&posts)
	return err == nil || reached > 0, reached, err
}

func (c *checker) epHandleMsg(hmSeeds map[uint8][][]byte) *entryPoint {
	ep := &entryPoint{fn: "ucon.MessageHandler.HandleMsg", site: "consensus/ucon/msg_handler.go HandleMsg: Decode(data), then dcm.DecodePayload(...) by message code",
		object: "signed consensus message as received from a peer (processed, cached and relayed as received)"}
	per := 3
	if !c.quick {
		per = 9
	}
	for code := uint8(1); code <= 6; code++ {
		for i, s := range firstN(hmSeeds[code], per) {
			for ctx := 0; ctx < 2; ctx++ {
				code, s, ctx := code, s, ctx
				valid := envelope(code, s)
				// only messages the handler really processes in this context are a meaningful base
				if acted, reached, err := c.hmOffer(valid, ctx); !acted || reached == 0 || err != nil {
					c.r.Count("entry_handlemsg_valid_message_not_processed_in_this_context(skipped)", 1)
					continue
				}
				offer := func(b []byte) bool { acted, _, _ := c.hmOffer(b, ctx); return acted }
				ep.cases = append(ep.cases, epCase{what: fmt.Sprintf("code=%d payload seed %d, handler context %d", code, i, ctx), valid: valid, fresh: freshOf(ucon.Message{}), offer: offer})
				var pf func() interface{}
				switch code {
				case 1:
					pf = freshOf(ucon.ConsensusCommon{})
				case 2:
					pf = freshOf(types.Block{})
				default:
					pf = freshOf(ucon.BlockHashWithVotes{})
				}
				ep.cases = append(ep.cases, epCase{what: fmt.Sprintf("code=%d payload seed %d, handler context %d", code, i, ctx), position: "payload inside a correctly signed envelope", valid: s, fresh: pf,
					offer: func(b []byte) bool { return offer(envelope(code, b)) }})
			}
		}
	}
	return ep
}

// ---- staking TxConverter.ApplyMessage -----------------------------------------------------------

func (c *checker) epApplyMessage() *entryPoint {
	ep := &entryPoint{fn: "staking.TxConverter.ApplyMessage", site: "staking/tx_converter.go ApplyMessage: rlp.DecodeBytes(msg.Data(), &msg); staking/handler.go, delegation_handler.go: rlp.DecodeBytes(payload, &tx) per action",
		object: "staking message (transaction data) and its per-action payload"}
	fx := newStakeFixture()
	zeros := map[string]interface{}{"create": staking.TxCreateValidator{}, "update": staking.TxUpdateValidator{}, "deposit": staking.TxValidatorDeposit{}, "withdraw": staking.TxValidatorWithdraw{},
		"changestatus": staking.TxValidatorChangeStatus{}, "settle": staking.TxValidatorSettle{}, "delegation-add": staking.TxDelegation{}, "delegation-sub": staking.TxDelegation{}, "delegation-settle": staking.TxDelegationSettle{}}
	for _, s := range stakeSeeds(stx.Acc[0]) {
		s := s
		offer := func(b []byte) bool { return c.applyOne(fx, b, "entry "+s.name) == "accepted" }
		ep.cases = append(ep.cases, epCase{what: s.name, valid: stakingData(uint8(s.action), s.payload), fresh: freshOf(staking.Message{}), offer: offer})
		ep.cases = append(ep.cases, epCase{what: s.name, position: "Message.Payload", valid: s.payload, fresh: freshOf(zeros[s.name]),
			offer: func(b []byte) bool { return offer(stakingData(uint8(s.action), b)) }})
	}
	return ep
}

// ---- StateDB record loaders ------------------------------------------------------------------------

func (c *checker) epStateRecords() []*entryPoint {
	db, _ := stx.NewDB()
	st, err := state.New(common.Hash{}, common.Hash{}, common.Hash{}, db)
	if err != nil {
		panic(err)
	}
	from := stx.Acc[0]
	st.AddBalance(from, stx.Tok(1000000, 0))
	st.SetNonce(from, 0x81)
	stx.CreateVal(st, 0, stx.Tok(2000, 0), params.ValidatorOnline)
	stx.CreateVal(st, 1, stx.Tok(200, 0), params.ValidatorOffline)
	v0 := stx.ValAddr[0]
	st.UpdateDelegation(stx.Acc[2], st.GetValidatorByMainAddr(v0), stx.Tok(50, 0))
	st.AddStakingRecord(stx.Acc[2], v0, common.HexToHash("0xc14e"), stx.Tok(7, 0))
	st.AddPendingRelationship(stx.Acc[2], v0)
	r0, r1, r2, err := st.Commit(true)
	if err != nil {
		panic(err)
	}
	roots := [3]common.Hash{r0, r1, r2}
	// with(trie i, key, value): the state whose trie i holds value under key
	with := func(i int, key, value []byte) (*state.StateDB, error) {
		tr, err := db.OpenTrie(roots[i])
		if err != nil {
			panic(err)
		}
		if err := tr.TryUpdate(key, value); err != nil {
			panic(err)
		}
		nr, err := tr.Commit(nil)
		if err != nil {
			panic(err)
		}
		rs := roots
		rs[i] = nr
		return state.New(rs[0], rs[1], rs[2], db)
	}
	raw := func(i int, key []byte) []byte {
		tr, err := db.OpenTrie(roots[i])
		if err != nil {
			panic(err)
		}
		v, _ := tr.TryGet(key)
		return v
	}
	var eps []*entryPoint
	mk := func(fn, site, object string, trie int, key, flag []byte, zero func() interface{}, use func(st *state.StateDB, err error) bool) {
		ep := &entryPoint{fn: fn, site: site, object: object}
		cur := raw(trie, key)
		if len(cur) <= len(flag) || !bytes.HasPrefix(cur, flag) {
			c.r.HarnessError("c14 entry: fixture state holds no record for " + fn)
			return
		}
		ep.cases = append(ep.cases, epCase{what: "record of the committed fixture state", valid: cur[len(flag):], fresh: zero,
			offer: func(b []byte) bool {
				ok := false
				mc.Catch(func() { ok = use(with(trie, key, append(append([]byte{}, flag...), b...))) })
				return ok
			}})
		eps = append(eps, ep)
	}
	mk("state.New (validator index)", "core/state/statedb_val.go getValidatorsIndex: rlp.DecodeBytes(data, index)", "validator index record (validator trie)", 1,
		[]byte("valindex"), []byte("valindex"), func() interface{} { return state.NewValidatorIndex() },
		func(s *state.StateDB, err error) bool { return err == nil && len(s.VerifValidatorIndex()) == 2 })
	mk("state.New (validator statistics)", "core/state/statedb_val.go loadValidatorsStat: rlp.DecodeBytes(data, stat)", "validator statistics record (validator trie)", 1,
		[]byte("valstat"), []byte("valstat"), func() interface{} { return state.NewValidatorsStat() },
		func(s *state.StateDB, err error) bool { return err == nil })
	mk("state.New (pending relationships)", "core/state/statedb_staking.go loadPendingRelationship: rlp.DecodeBytes(data, p)", "pending delegation relationships (staking trie)", 2,
		[]byte("pendingr"), []byte("pendingr"), func() interface{} { return state.VerifC14NewPending(nil) },
		func(s *state.StateDB, err error) bool {
			return err == nil && s.PendingRelationshipExist(stx.Acc[2], v0)
		})
	mk("StateDB.GetValidatorByMainAddr", "core/state/statedb_val.go getValidator: rlp.DecodeBytes(enc, &data)", "validator record (validator trie)", 1,
		append([]byte("valinfo-"), v0.Bytes()...), []byte("valinfo-"), freshOf(state.Validator{}),
		func(s *state.StateDB, err error) bool { return err == nil && s.GetValidatorByMainAddr(v0) != nil })
	recKey := append(append([]byte{}, stx.Acc[2].Bytes()...), v0.Bytes()...)
	mk("StateDB.GetStakingRecord", "core/state/statedb_staking.go getStakingRecord: rlp.DecodeBytes(enc, &data)", "pending staking record (staking trie)", 2,
		recKey, nil, freshOf(state.Record{}),
		func(s *state.StateDB, err error) bool { return err == nil && s.GetStakingRecord(stx.Acc[2], v0) != nil })
	mk("StateDB.ForEachStakingRecord", "core/state/statedb_staking.go ForEachStakingRecord: rlp.DecodeBytes(it.Value, &data)", "pending staking record (staking trie, iteration at the period end)", 2,
		recKey, nil, freshOf(state.Record{}),
		func(s *state.StateDB, err error) bool {
			if err != nil {
				return false
			}
			n := 0
			e := s.ForEachStakingRecord(func(d, v common.Address, r *state.Record) error { n++; return nil })
			return e == nil && n == 1
		})
	mk("StateDB.Exist / getStateObject", "core/state/statedb.go getDeletedStateObject: rlp.DecodeBytes(enc, &data)", "account record (state trie)", 0,
		from.Bytes(), nil, freshOf(state.Account{}),
		func(s *state.StateDB, err error) bool { return err == nil && s.Exist(from) && s.GetNonce(from) == 0x81 })
	return eps
}

// ---- block import: header.SlashData and Evidence.Data ------------------------------------------------

// epChainSlashData drives the evidence decoders of staking/slash.go and
// slash_youv5.go through the real block import: a block carrying a genuine
// double-sign evidence is built by one node; importers get the same block with
// header.SlashData (outer) or Evidence.Data (inner) varied.  The importer
// replays the evidences it decodes and compares roots: it accepts exactly when
// both decoders accepted.
func (c *checker) epChainSlashData() *entryPoint {
	ep := &entryPoint{fn: "BlockChain.InsertChain -> staking.EndBlock (replaySlashing)", site: "staking/slash.go replaySlashing: rlp.DecodeBytes(header.SlashData, &evidences); staking/slash_youv5.go processDoubleSignV5: rlp.DecodeBytes(evidence.Data, &doubleSign)",
		object: "evidence list of a block (header.SlashData, hashed into the block hash as raw bytes) and the evidence body"}
	var setup string
	msg := mc.Catch(func() {
		chainx.SetParams(chainx.DefaultCfg)
		f := chainx.Fix()
		n := chainx.NewNode(f)
		c.chainNodes = append(c.chainNodes, n)
		c1 := f.Val("c1").Main
		for i := 0; i < 3; i++ {
			if _, err := n.Build(c1, nil); err != nil {
				setup = "build: " + err.Error()
				return
			}
		}
		pre := n.Fork()
		c.chainNodes = append(c.chainNodes, pre)
		evs := f.MkEvidence(n, "dsign(s1)")
		if len(evs) != 1 {
			setup = "no evidence"
			return
		}
		n.Staking.VerifAddEvidence(evs[0])
		built, err := n.Build(c1, nil)
		if err != nil || len(built.Block.Header().SlashData) == 0 {
			setup = fmt.Sprintf("evidence block not built (err=%v)", err)
			return
		}
		blk := built.Block
		var list []staking.Evidence
		if err := dec(blk.Header().SlashData, &list); err != nil || len(list) != 1 {
			setup = "slash data of the built block not decodable"
			return
		}
		offer := func(slash []byte) bool {
			h := types.CopyHeader(blk.Header())
			h.SlashData = slash
			b2 := types.NewBlockWithHeader(h).WithBody(&types.Body{Transactions: blk.Transactions()})
			imp := pre.Fork()
			defer imp.Close()
			ok := false
			mc.Catch(func() { ok = imp.Import(b2) == nil && imp.Head().Hash() == b2.Hash() })
			return ok
		}
		ep.cases = append(ep.cases, epCase{what: "block with one double-sign evidence", valid: blk.Header().SlashData, fresh: freshOf([]staking.Evidence{}), offer: offer})
		ep.cases = append(ep.cases, epCase{what: "block with one double-sign evidence", position: "Evidence.Data", valid: list[0].Data, fresh: freshOf(staking.EvidenceDoubleSignV5{}),
			offer: func(b []byte) bool { return offer(mustEnc([]staking.Evidence{{Type: list[0].Type, Data: b}})) }})
	})
	if msg != "" || setup != "" {
		c.r.HarnessError("c14 entry: block-import fixture failed: " + msg + setup)
	}
	return ep
}

// ---- evaluation ------------------------------------------------------------------------------------

func epSig(ep *entryPoint, cs *epCase, class string) string {
	pos := "its input"
	if cs.position != "" {
		pos = cs.position
	}
	switch class {
	case "trailing":
		return fmt.Sprintf("%s: accepts %s followed by trailing bytes (one object, many accepted encodings)", ep.fn, pos)
	case "truncated":
		return fmt.Sprintf("%s: accepts %s truncated", ep.fn, pos)
	case "wrapped":
		return fmt.Sprintf("%s: accepts %s wrapped in one more list", ep.fn, pos)
	}
	return fmt.Sprintf("%s: %s (%s)", ep.fn, class, pos)
}

func (c *checker) evalEntry(ep *entryPoint, cs *epCase, st *epStat, only string) {
	in := input{Phase: "entry", Type: ep.fn, Desc: cs.what + " | " + cs.position}
	offer := func(b []byte, what string) (acc bool, panicked bool) {
		msg, where := mc.CatchStack(func() { acc = cs.offer(b) })
		if msg != "" {
			in.Hex = hex.EncodeToString(b)
			pos := "its input"
			if cs.position != "" {
				pos = cs.position
			}
			c.report(fmt.Sprintf("%s: panic on %s (at %s): %s at %s", ep.fn, what, pos, normMsg(msg), where), fmt.Sprintf("%s, %s: input %s: %s", cs.what, cs.position, short40(b), msg), in)
			return false, true
		}
		return acc, false
	}
	c.r.Count("entry_offers", 1)
	if acc, p := offer(cs.valid, "a valid encoding"); !acc {
		if !p {
			c.r.HarnessError(fmt.Sprintf("c14 entry: %s does not accept the valid encoding of case %q (%s): the case is vacuous", ep.fn, cs.what, cs.position))
		}
		return
	}
	st.ValidAccepted++
	c.r.Count("entry_valid_accepted", 1)
	for _, v := range epVariants(cs.valid) {
		if only != "" && only != hex.EncodeToString(v.data) {
			continue
		}
		if refAccept(cs.fresh, v.data) {
			st.Skipped++
			c.r.Count("entry_variant_is_itself_a_canonical_value(skipped)", 1)
			continue
		}
		c.r.Count("entry_offers", 1)
		atomic.AddInt64(&c.r.Evaluations, 1)
		acc, p := offer(v.data, "a valid encoding "+map[string]string{"trailing": "followed by trailing bytes", "truncated": "truncated", "wrapped": "wrapped in one more list"}[v.class])
		if p {
			continue
		}
		if !acc {
			st.Refused++
			c.r.Count("entry_variant_refused("+v.class+")", 1)
			c.r.Distinct(fmt.Sprintf("ep|%s|%s|%s|%s", ep.fn, cs.what, cs.position, v.what))
			continue
		}
		if v.class == "trailing" && ep.lenient != "" {
			st.LenientTrailing++
			c.r.Count("entry_trailing_bytes_ignored_by_design(counted,_not_judged)", 1)
			continue
		}
		st.WronglyAccepted++
		in.Hex = hex.EncodeToString(v.data)
		c.report(epSig(ep, cs, v.class),
			fmt.Sprintf("%s [%s]\ncase: %s\nthe valid encoding %s is accepted -- and so is the same encoding %s: %s\nenters the decoder at: %s",
				ep.fn, ep.object, cs.what, short40(cs.valid), v.what, short40(v.data), ep.site), in)
	}
}

func (c *checker) phaseEntry() {
	eps := c.entryPoints()
	eps = append(eps, c.epChainSlashData())
	defer func() {
		for _, n := range c.chainNodes {
			n.Close()
		}
		c.chainNodes = nil
	}()
	per := map[string]*epStat{}
	for _, ep := range eps {
		st := &epStat{Site: ep.site, Object: ep.object, LenientWhy: ep.lenient}
		per[ep.fn] = st
		for i := range ep.cases {
			cs := &ep.cases[i]
			st.Cases++
			if cs.position != "" {
				st.InnerPositionToo = true
			}
			c.evalEntry(ep, cs, st, "")
		}
		if st.ValidAccepted == 0 {
			c.r.HarnessError("c14 entry: no valid encoding was accepted by " + ep.fn + ": the entry point is not covered")
		}
		if c.r.Expired() {
			break
		}
	}
	c.r.SetExtra("entry_points_covered", per)
	c.r.SetExtra("entry_points_inventory", entryInventory)
	c.r.SetExtra("entry_points_inventory_drift", inventoryDrift())
	c.sampleOnce("entry", map[string]interface{}{"phase": "E entry points", "variants_per_valid_encoding": []string{"+00", "+80", "+c0", "+01", "+ff", "+copy of the value", "+1024 zero bytes",
		"truncated by 1", "truncated by 2", "truncated by 3", "wrapped in one more list"}, "entry_points": len(eps)})
}

func (c *checker) replayEntry(in input, data []byte) {
	eps := c.entryPoints()
	eps = append(eps, c.epChainSlashData())
	defer func() {
		for _, n := range c.chainNodes {
			n.Close()
		}
	}()
	for _, ep := range eps {
		if ep.fn != in.Type {
			continue
		}
		for i := range ep.cases {
			cs := &ep.cases[i]
			if cs.what+" | "+cs.position != in.Desc {
				continue
			}
			st := &epStat{}
			c.evalEntry(ep, cs, st, in.Hex)
			fmt.Printf("%s, case %q position %q, input %s: refused=%d accepted=%d\n", ep.fn, cs.what, cs.position, short40(data), st.Refused, st.WronglyAccepted+st.LenientTrailing)
			return
		}
	}
	fmt.Println("unknown entry point / case:", in.Type, in.Desc)
}

// ---- inventory ----------------------------------------------------------------------------------------

type invEntry struct {
	File    string `json:"file"`
	Sites   int    `json:"decoder_call_sites_in_the_file"`
	What    string `json:"functions"`
	Covered string `json:"covered"`
}

// entryInventory: every non-test file of the repository (outside package rlp)
// with a call into the decoder (rlp.Decode / DecodeBytes / NewStream /
// NewListStream, Stream.Decode in a function that made the Stream itself, or
// p2p Msg.Decode), as of the commit the check was written against; Sites is the
// number of lines matching invPattern, re-counted at run time (drift is put
// into the evidence, it is no verdict).
var entryInventory = []invEntry{
	{"consensus/ucon/types.go", 3, "Decode; Message.DecodePayload; Message.DecodeRLP", "yes: ucon.Decode, Message.DecodePayload (phase E), HandleMsg (phases D, E); DecodeRLP is the type's codec (phases A, B, S)"},
	{"consensus/ucon/block_consensus_data.go", 1, "ExtractConsensusData / GetConsensusDataFromHeader", "yes (phase E)"},
	{"consensus/ucon/ucon_validators.go", 1, "ExtractUconValidators", "yes (phase E, both header fields, incl. a 900-vote container)"},
	{"consensus/ucon/vote_cache.go", 1, "ReadVoteData", "yes (phase E); trailing bytes ignored by design (own database record)"},
	{"staking/tx_converter.go", 1, "TxConverter.ApplyMessage", "yes (phases D, E: outer message and per-action payload)"},
	{"staking/handler.go", 6, "create / update / deposit / withdraw / change-status / settle handlers", "yes, through ApplyMessage (phases D, E)"},
	{"staking/delegation_handler.go", 2, "delegation add / sub / settle handlers", "yes, through ApplyMessage (phases D, E)"},
	{"staking/take_effect_handler.go", 6, "take-effect replay of recorded transactions", "driven in phase D (no panic); the decoder's verdict is dropped on purpose (`_ =`): the same bytes were accepted by ApplyMessage when they were recorded"},
	{"staking/slash.go", 4, "replaySlashing (header.SlashData), processInactive, processDoubleSign (both retired: only DoubleSignV5 takes effect)", "header.SlashData: yes, through the real block import (phase E); the two retired evidence kinds: no (unreachable from processEvidences)"},
	{"staking/slash_youv5.go", 1, "processDoubleSignV5 (Evidence.Data)", "yes, through the real block import (phase E)"},
	{"staking/logdata.go", 7, "DecodeLogDataFromBytes (+ 2 type codecs)", "yes (phase E: outer LogData and the per-topic payload for 4 of the 9 topics: one per payload type)"},
	{"staking/evidence.go", 1, "EvidenceDoubleSign.DecodeRLP", "type codec (phases A, B, S)"},
	{"core/rawdb/accessors_chain.go", 3, "ReadHeader, ReadBody, ReadReceipts", "yes (phase E); ReadHeader / ReadBody ignore trailing bytes by design (own database, rlp.Decode on a reader)"},
	{"core/rawdb/accessors_indexes.go", 1, "ReadTxLookupEntry", "yes (phase E)"},
	{"core/rawdb/accessors_metadata.go", 1, "ReadDatabaseVersion", "no: the decoder's verdict is dropped (an undecodable version reads as 0)"},
	{"core/state/statedb_val.go", 4, "getValidatorsIndex, loadValidatorsStat, getValidator, getWithdrawQueue", "first three: yes (phase E, records planted in the validator trie); getWithdrawQueue: no -- every caller drops its error and uses whatever was decoded (reported as a gap)"},
	{"core/state/statedb_staking.go", 3, "loadPendingRelationship, getStakingRecord, ForEachStakingRecord", "yes (phase E, records planted in the staking trie)"},
	{"core/state/statedb.go", 2, "getDeletedStateObject; Commit leaf callback", "account record: yes (phase E); the leaf callback ignores undecodable leaves"},
	{"core/state/state_object.go", 1, "loadDelegations", "no: content-addressed blob (key = hash of the bytes), a decode failure panics by design"},
	{"core/state/sync.go", 1, "NewStateSync leaf callback", "no: leaves of hash-verified trie nodes during state sync (C19 drives the sync)"},
	{"core/state/iterator.go", 1, "NodeIterator.step", "no: debugging / dump iterator over local tries"},
	{"core/state/dump.go", 4, "RawDump", "no: debugging dump"},
	{"core/state/validator.go", 5, "type codecs (Validator, ValKindStat, ValidatorsStat, Validators, ValidatorIndex)", "type codecs (phases A, B, S)"},
	{"core/state/staking_record.go", 1, "stakingRecord.DecodeRLP", "type codec (phases A, B)"},
	{"core/types/block.go", 1, "Block.DecodeRLP", "type codec (phases A, B, S)"},
	{"core/types/transaction.go", 1, "Transaction.DecodeRLP", "type codec (phases A, B, S)"},
	{"core/types/receipt.go", 2, "Receipt / ReceiptForStorage DecodeRLP", "type codecs (phases A, B, S)"},
	{"core/types/log.go", 2, "Log / LogForStorage DecodeRLP", "type codecs (phases A, B, S)"},
	{"core/tx_journal.go", 2, "txJournal.load", "no: a stream of concatenated transactions read from the node's own journal file (several values per input and no input limit by design)"},
	{"core/genesis.go", 2, "decodePrealloc", "no: decodes allocation tables compiled into the binary"},
	{"internal/youapi/you_api.go", 1, "SendRawTransaction", "no: needs the RPC backend; the call is rlp.DecodeBytes into *types.Transaction, the call phase B makes"},
	{"internal/youapi/dev_api.go", 1, "dev API raw transaction", "no: as above"},
	{"p2p/message.go", 2, "Msg.Decode", "yes (phase E, 12 packet types); trailing bytes ignored by design"},
	{"you/handler.go", 14, "ProtocolManager handlers (msg.Decode x10, two hand-rolled list streams for GetBlockBodies / GetReceipts)", "msg.Decode: through p2p.Msg.Decode with the packet types (mirrored structs for the unexported ones); the two list streams: no (need a running ProtocolManager and peer)"},
	{"you/peer.go", 1, "peer.readStatus", "through p2p.Msg.Decode with the mirrored statusData"},
	{"you/ucon_handler.go", 1, "UConProtocolManager.handleMsg", "no (needs a running protocol manager): reads ONE byte string from the frame and hands exactly that to HandleMsg (covered)"},
	{"local/types.go", 3, "local.Detail decoding", "no: local explorer database"},
	{"local/detail.go", 1, "local detail reader", "no: local explorer database"},
	{"p2p/peer.go", 1, "disconnect reason", "no: transport layer, outside the objects of the property"},
	{"p2p/rlpx.go", 5, "handshake / frame header", "no: transport layer"},
	{"p2p/discover/udp.go", 2, "discovery packets", "no: discovery layer"},
	{"p2p/nat/check/packer.go", 2, "NAT check packets", "no: discovery layer"},
	{"p2p/enode/nodedb.go", 1, "node database", "no: discovery layer"},
	{"p2p/enr/enr.go", 6, "node records", "no: discovery layer"},
	{"p2p/enr/entries.go", 2, "node record entries", "no: discovery layer"},
}

var invPattern = regexp.MustCompile(`rlp\.(Decode|DecodeBytes|NewStream|NewListStream)\(|\b(s|c|stream|msgStream|msg)\.Decode\(`)

// inventoryDrift re-counts the call sites in the tree the binary was built from
// (VERIF_REPO, else /repo) and lists every file whose count differs from the
// inventory.  Informational: a drift means the inventory needs a new look.
func inventoryDrift() []string {
	repo := os.Getenv("VERIF_REPO")
	if repo == "" {
		repo = "/repo"
	}
	want := map[string]int{}
	for _, e := range entryInventory {
		want[e.File] = e.Sites
	}
	got := map[string]int{}
	filepath.Walk(repo, func(path string, info os.FileInfo, err error) error {
		if err != nil {
			return nil
		}
		rel, _ := filepath.Rel(repo, path)
		if info.IsDir() {
			switch rel {
			case "rlp", "build", "cmd", "vendor", ".git", "rpc", "console", "accounts", "common", "mobile", "youclient":
				return filepath.SkipDir
			}
			return nil
		}
		if !strings.HasSuffix(rel, ".go") || strings.HasSuffix(rel, "_test.go") || strings.Contains(rel, "export_verif") {
			return nil
		}
		bs, err := ioutil.ReadFile(path)
		if err != nil || !bytes.Contains(bs, []byte("/rlp\"")) {
			return nil
		}
		n := 0
		for _, l := range strings.Split(string(bs), "\n") {
			if t := strings.TrimSpace(l); strings.HasPrefix(t, "//") {
				continue
			}
			if invPattern.MatchString(l) {
				n++
			}
		}
		if n > 0 {
			got[rel] = n
		}
		return nil
	})
	var out []string
	for f, n := range got {
		if want[f] != n {
			out = append(out, fmt.Sprintf("%s: %d call sites found, %d in the inventory", f, n, want[f]))
		}
	}
	for f, n := range want {
		if _, ok := got[f]; !ok {
			out = append(out, fmt.Sprintf("%s: no call site found, %d in the inventory", f, n))
		}
	}
	sort.Strings(out)
	if out == nil {
		out = []string{}
	}
	return out
}
