package c14

import (
	"bytes"
	"fmt"
	"math/big"

	"github.com/youchainhq/go-youchain/core/types"
	"github.com/youchainhq/go-youchain/rlp"

	"verif/mc"
)

// Phase I: integers of every byte length.  The boundary domains of phase A are 0x80 / 0xff.. patterns; an encoder
// that writes a wrong byte of a 5-, 6- or 7-byte integer is invisible to them.  For every byte length n = 1..8
// (big integers: ..33) the values {distinct bytes ascending 0x0102..0n, descending, top bit only, all ones, the
// smallest n-byte value, lowest byte zero} are encoded as uint64, as a struct field, as a header field
// (types.Header.Time / GasLimit) and as *big.Int, compared with the reference encoding (minimal big-endian
// bytes under a string header, computed here by hand) and decoded back.
func (c *checker) phaseInts() {
	r := c.r
	ref := func(be []byte) []byte {
		for len(be) > 0 && be[0] == 0 {
			be = be[1:]
		}
		switch {
		case len(be) == 1 && be[0] < 0x80:
			return []byte{be[0]}
		case len(be) < 56:
			return append([]byte{0x80 + byte(len(be))}, be...)
		}
		panic("unreachable")
	}
	report := func(sig, detail string, in interface{}) {
		r.Report(mc.Violation{Sig: sig, Detail: detail, Input: map[string]interface{}{"phase": "ints", "value": fmt.Sprint(in)}})
	}
	patterns := func(n int) [][]byte {
		asc, desc, top, ones, low, lz := make([]byte, n), make([]byte, n), make([]byte, n), make([]byte, n), make([]byte, n), make([]byte, n)
		for i := 0; i < n; i++ {
			asc[i], desc[i], ones[i], lz[i] = byte(i+1), byte(n-i), 0xff, byte(0x10+i)
		}
		top[0], low[0] = 0x80, 0x01
		lz[n-1] = 0
		if lz[0] == 0 {
			lz[0] = 1
		}
		return [][]byte{asc, desc, top, ones, low, lz}
	}
	type wrap struct {
		A uint64
		B []byte
	}
	for n := 1; n <= 33; n++ {
		for _, be := range patterns(n) {
			want := ref(be)
			bi := new(big.Int).SetBytes(be)
			// *big.Int
			got, err := rlp.EncodeToBytes(bi)
			r.Count("integer_encodings_compared_with_the_reference", 1)
			if err != nil || !bytes.Equal(got, want) {
				report("rlp encoder: a big integer is not encoded as its minimal big-endian bytes", fmt.Sprintf("%x -> %x, want %x (err %v)", be, got, want, err), bi)
			}
			back := new(big.Int)
			if err := rlp.DecodeBytes(want, back); err != nil || back.Cmp(bi) != 0 {
				report("rlp decoder: a canonical big integer does not decode to its value", fmt.Sprintf("%x -> %v (err %v)", want, back, err), bi)
			}
			if n > 8 {
				continue
			}
			v := bi.Uint64()
			got, err = rlp.EncodeToBytes(v)
			r.Count("integer_encodings_compared_with_the_reference", 1)
			if err != nil || !bytes.Equal(got, want) {
				report("rlp encoder: an unsigned integer is not encoded as its minimal big-endian bytes", fmt.Sprintf("%#x (%d bytes) -> %x, want %x (err %v)", v, n, got, want, err), v)
			}
			var u uint64
			if err := rlp.DecodeBytes(want, &u); err != nil || u != v {
				report("rlp decoder: a canonical unsigned integer does not decode to its value", fmt.Sprintf("%x -> %#x, want %#x (err %v)", want, u, v, err), v)
			}
			// as a struct field: decode(encode(x)) == x
			w := wrap{A: v, B: []byte{1}}
			enc, err := rlp.EncodeToBytes(&w)
			var w2 wrap
			if err != nil || rlp.DecodeBytes(enc, &w2) != nil || w2.A != v {
				report("round trip changes an unsigned integer field", fmt.Sprintf("%#x (%d bytes) came back as %#x; encoding %x", v, n, w2.A, enc), v)
			} else if !bytes.Contains(enc, want) {
				report("rlp encoder: an unsigned integer field is not encoded as its minimal big-endian bytes", fmt.Sprintf("%#x -> %x does not contain %x", v, enc, want), v)
			}
			// as fields of a real header: two headers that differ only in this field must differ in encoding and hash
			h1 := &types.Header{Number: big.NewInt(1), Time: v, GasLimit: v, GasUsed: v}
			e1, _ := rlp.EncodeToBytes(h1)
			var hb types.Header
			if err := rlp.DecodeBytes(e1, &hb); err != nil || hb.Time != v || hb.GasLimit != v || hb.GasUsed != v {
				report("round trip changes an unsigned integer field", fmt.Sprintf("types.Header Time/GasLimit/GasUsed %#x came back as %#x/%#x/%#x (err %v)", v, hb.Time, hb.GasLimit, hb.GasUsed, err), v)
			}
			r.Count("integer_round_trips_through_a_header", 1)
		}
	}
}
