package c14

// An independent REFERENCE ENCODER: a generic RLP tree (strings and lists), an
// encoder for it written from the encoding rules alone (no /repo/rlp), and a
// shaper that maps a Go value to the tree its wire format is DEFINED to have:
// the documented struct / slice / integer rules for plain types and, for every
// type with a custom codec, a hand-written description of its field list.
// The container-size phase (sizes.go) compares what the real encoder emits on
// every exit and under every buffer history with what this file computes.

import (
	"bytes"
	"fmt"
	"math/big"
	"reflect"
	"sort"

	"github.com/youchainhq/go-youchain/common"
	"github.com/youchainhq/go-youchain/consensus/ucon"
	"github.com/youchainhq/go-youchain/core/state"
	"github.com/youchainhq/go-youchain/core/types"
	"github.com/youchainhq/go-youchain/staking"
)

// rnode is one item of the reference tree.
type rnode struct {
	list bool
	str  []byte
	kids []*rnode
	size int // encoded size, header included (0 = not computed yet)
}

func rstr(b []byte) *rnode        { return &rnode{str: b} }
func rlist(kids ...*rnode) *rnode { return &rnode{list: true, kids: kids} }

// refHdrLen: bytes taken by the header of an item with an l-byte payload.
func refHdrLen(l int) int {
	if l < 56 {
		return 1
	}
	n := 1
	for v := l; v > 0; v >>= 8 {
		n++
	}
	return n
}

func (n *rnode) payload() int {
	if !n.list {
		return len(n.str)
	}
	p := 0
	for _, k := range n.kids {
		p += k.encSize()
	}
	return p
}

func (n *rnode) encSize() int {
	if n.size != 0 {
		return n.size
	}
	if !n.list && len(n.str) == 1 && n.str[0] < 0x80 {
		n.size = 1
		return 1
	}
	p := n.payload()
	n.size = refHdrLen(p) + p
	return n.size
}

func refPutHdr(out []byte, base byte, l int) []byte {
	if l < 56 {
		return append(out, base+byte(l))
	}
	var be [8]byte
	k := 8
	for v := l; v > 0; v >>= 8 {
		k--
		be[k] = byte(v)
	}
	out = append(out, base+55+byte(8-k))
	return append(out, be[k:]...)
}

func (n *rnode) appendTo(out []byte) []byte {
	if !n.list {
		if len(n.str) == 1 && n.str[0] < 0x80 {
			return append(out, n.str[0])
		}
		return append(refPutHdr(out, 0x80, len(n.str)), n.str...)
	}
	out = refPutHdr(out, 0xc0, n.payload())
	for _, k := range n.kids {
		out = k.appendTo(out)
	}
	return out
}

// refEncode is the reference encoding of the tree.
func refEncode(n *rnode) []byte {
	return n.appendTo(make([]byte, 0, n.encSize()))
}

// countLists: list items in the tree (= list headers the real encoder needs).
func (n *rnode) countLists() int {
	if !n.list {
		return 0
	}
	c := 1
	for _, k := range n.kids {
		c += k.countLists()
	}
	return c
}

func (n *rnode) depth() int {
	d := 0
	for _, k := range n.kids {
		if x := k.depth(); x > d {
			d = x
		}
	}
	if n.list {
		d++
	}
	return d
}

// ---- value -> tree --------------------------------------------------------------

// shapeErr is raised (as a panic, caught by the caller) for values the shaper
// has no rule for; that is a harness gap, never a finding.
type shapeErr string

// refShapes describes the wire format of every type with a custom codec as a
// plain value (ptr is a pointer to the value); the shaper continues on the result.
var refShapes = map[reflect.Type]func(ptr interface{}) interface{}{}

func uintBytes(u uint64) []byte {
	var out []byte
	for ; u > 0; u >>= 8 {
		out = append([]byte{byte(u)}, out...)
	}
	return out
}

type refReceipt struct {
	PostStateOrStatus []byte
	CumulativeGasUsed uint64
	Bloom             types.Bloom
	Logs              []*types.Log
}
type refReceiptStorage struct {
	PostStateOrStatus []byte
	CumulativeGasUsed uint64
	Bloom             types.Bloom
	TxHash            common.Hash
	ContractAddress   common.Address
	Logs              []*types.LogForStorage
	GasUsed           uint64
}
type refUconMessage struct {
	Code      ucon.MsgType
	Payload   []byte
	Signature []byte
}
type refLogData struct {
	Topic string
	Tags  []string
	Data  []byte
}
type refSlashData struct {
	Type        uint8
	MainAddress common.Address
	Total       *big.Int
	Records     []*staking.SlashWithdrawRecord
	Evidence    interface{}
}
type refDoubleSign struct {
	Round      *big.Int
	RoundIndex uint32
	Signs      []signM
}

// statusBytes: a receipt carries its post-state root when it has one, else one
// status item: empty string = failed, 0x01 = successful.
func statusBytes(postState []byte, status uint64) []byte {
	if len(postState) != 0 {
		return postState
	}
	if status == types.ReceiptStatusFailed {
		return []byte{}
	}
	return []byte{1}
}

func init() {
	reg := func(zero interface{}, f func(ptr interface{}) interface{}) {
		refShapes[reflect.TypeOf(zero)] = f
	}
	reg(types.Transaction{}, func(p interface{}) interface{} { return txView(p.(*types.Transaction)) })
	reg(types.Block{}, func(p interface{}) interface{} {
		b := p.(*types.Block)
		return &blockM{Header: b.Header(), Txs: b.Transactions()}
	})
	reg(types.Receipt{}, func(p interface{}) interface{} {
		r := p.(*types.Receipt)
		return &refReceipt{statusBytes(r.PostState, r.Status), r.CumulativeGasUsed, r.Bloom, r.Logs}
	})
	reg(types.ReceiptForStorage{}, func(p interface{}) interface{} {
		r := p.(*types.ReceiptForStorage)
		out := &refReceiptStorage{PostStateOrStatus: statusBytes(r.PostState, r.Status), CumulativeGasUsed: r.CumulativeGasUsed, Bloom: r.Bloom,
			TxHash: r.TxHash, ContractAddress: r.ContractAddress, GasUsed: r.GasUsed, Logs: []*types.LogForStorage{}}
		for _, l := range r.Logs {
			out.Logs = append(out.Logs, (*types.LogForStorage)(l))
		}
		return out
	})
	reg(types.Log{}, func(p interface{}) interface{} {
		l := p.(*types.Log)
		return &logWire{l.Address, l.Topics, l.Data}
	})
	reg(types.LogForStorage{}, func(p interface{}) interface{} {
		l := p.(*types.LogForStorage)
		return &logStorageWire{l.Address, l.Topics, l.Data, l.BlockNumber, l.TxHash, l.TxIndex, l.BlockHash, l.Index}
	})
	reg(state.Validator{}, func(p interface{}) interface{} {
		v := p.(*state.Validator)
		w := &validatorWire{V: state.AliasValidator(*v)}
		if v.Expelled {
			w.Expelled = 1
		}
		return w
	})
	reg(state.ValidatorIndex{}, func(p interface{}) interface{} {
		l := append([]common.Address{}, p.(*state.ValidatorIndex).List()...)
		sort.Slice(l, func(i, j int) bool { return bytes.Compare(l[i][:], l[j][:]) < 0 })
		return l
	})
	reg(state.Validators{}, func(p interface{}) interface{} {
		return [][]*state.Validator{p.(*state.Validators).List()}
	})
	pend := state.VerifC14NewPending(nil)
	refShapes[reflect.TypeOf(pend).Elem()] = func(p interface{}) interface{} {
		pairs, _, _ := state.VerifC14PendingView(p)
		out := make([][]byte, 0, len(pairs))
		for _, pr := range pairs {
			out = append(out, append(append([]byte{}, pr[0][:]...), pr[1][:]...))
		}
		sort.Slice(out, func(i, j int) bool { return bytes.Compare(out[i], out[j]) < 0 })
		return out
	}
	srec := state.VerifC14NewStakingRecord(state.Record{})
	refShapes[reflect.TypeOf(srec).Elem()] = func(p interface{}) interface{} {
		r := p.(interface{ Record() state.Record }).Record()
		return &r
	}
	reg(ucon.Message{}, func(p interface{}) interface{} {
		m := p.(*ucon.Message)
		return &refUconMessage{m.Code, m.Payload, m.Signature}
	})
	reg(staking.EvidenceDoubleSign{}, func(p interface{}) interface{} {
		e := p.(*staking.EvidenceDoubleSign)
		v := dsView(e) // sorted by hash
		return &refDoubleSign{e.Round, e.RoundIndex, v.Signs}
	})
	reg(staking.LogData{}, func(p interface{}) interface{} {
		l := p.(*staking.LogData)
		return &refLogData{l.Topic, l.Tags, l.Data}
	})
	reg(staking.SlashData{}, func(p interface{}) interface{} {
		l := p.(*staking.SlashData)
		return &refSlashData{l.Type, l.MainAddress, l.Total, l.Records, l.Evidence}
	})
}

// refTreeOf maps a value to its reference tree.  why != "" when the shaper has
// no rule for something inside the value.
func refTreeOf(v interface{}) (n *rnode, why string) {
	defer func() {
		if e := recover(); e != nil {
			if s, ok := e.(shapeErr); ok {
				n, why = nil, string(s)
				return
			}
			panic(e)
		}
	}()
	return shapeOf(reflect.ValueOf(v)), ""
}

func shapeOf(v reflect.Value) *rnode {
	if !v.IsValid() {
		panic(shapeErr("invalid value"))
	}
	t := v.Type()
	if f, ok := refShapes[t]; ok {
		var p reflect.Value
		if v.CanAddr() {
			p = v.Addr()
		} else {
			p = reflect.New(t)
			p.Elem().Set(v)
		}
		return shapeOf(reflect.ValueOf(f(p.Interface())))
	}
	switch t {
	case bigPtrType:
		b := v.Interface().(*big.Int)
		if b == nil {
			return rstr(nil)
		}
		if b.Sign() < 0 {
			panic(shapeErr("negative big.Int"))
		}
		return rstr(b.Bytes())
	case bigIntType:
		b := v.Interface().(big.Int)
		if b.Sign() < 0 {
			panic(shapeErr("negative big.Int"))
		}
		return rstr(b.Bytes())
	}
	switch t.Kind() {
	case reflect.Ptr:
		if !v.IsNil() {
			if f, ok := refShapes[t.Elem()]; ok {
				return shapeOf(reflect.ValueOf(f(v.Interface())))
			}
			return shapeOf(v.Elem())
		}
		// a nil pointer stands for the zero value of what it points to
		et := t.Elem()
		switch {
		case et.Kind() == reflect.Struct && et != bigIntType:
			return rlist()
		case (et.Kind() == reflect.Array || et.Kind() == reflect.Slice) && et.Elem().Kind() != reflect.Uint8:
			return rlist()
		case et.Kind() == reflect.Ptr || et.Kind() == reflect.Interface:
			panic(shapeErr("nil pointer to " + et.String()))
		}
		return rstr(nil)
	case reflect.Interface:
		if v.IsNil() {
			return rlist()
		}
		return shapeOf(v.Elem())
	case reflect.Uint, reflect.Uint8, reflect.Uint16, reflect.Uint32, reflect.Uint64, reflect.Uintptr:
		return rstr(uintBytes(v.Uint()))
	case reflect.Bool:
		if v.Bool() {
			return rstr([]byte{1})
		}
		return rstr(nil)
	case reflect.String:
		return rstr([]byte(v.String()))
	case reflect.Slice, reflect.Array:
		if t.Elem().Kind() == reflect.Uint8 {
			if t.Kind() == reflect.Array {
				if !v.CanAddr() {
					c := reflect.New(t).Elem()
					c.Set(v)
					v = c
				}
				v = v.Slice(0, v.Len())
			}
			return rstr(append([]byte{}, v.Bytes()...))
		}
		n := &rnode{list: true, kids: make([]*rnode, 0, v.Len())}
		for i := 0; i < v.Len(); i++ {
			n.kids = append(n.kids, shapeOf(v.Index(i)))
		}
		return n
	case reflect.Struct:
		n := &rnode{list: true}
		for _, f := range rlpFields(t) {
			if fieldHasTag(f, "tail") {
				panic(shapeErr("rlp tail tag in " + t.String()))
			}
			fv := v.FieldByIndex(f.Index) // an absent optional (rlp:"nil") field follows the nil-pointer rule
			n.kids = append(n.kids, shapeOf(fv))
		}
		return n
	}
	panic(shapeErr(fmt.Sprintf("no wire rule for %v", t)))
}
