package c14

// Phase C2 — a CALIBRATED, per-input allocation bound, a capacity rule and the
// three decoder entry styles.
//
// Phase C (c14.go) judges batches of tiny size-lying inputs, through
// rlp.DecodeBytes only, against 64*len + 1 MiB: a decoder that turns a declared
// size into a reservation stays far below that as long as the declared size is
// checked against the (tiny) input first.  Here every input is measured on its
// own (runtime.MemStats.TotalAlloc delta, single goroutine, GOMAXPROCS 1) and
// judged against what an input of that size can need:
//
//	alloc <= allocK * (len(input) + F) + allocC
//
// F = the IDEAL in-memory size of what the decoder produced (walked with
// reflect: every slice at its LENGTH x element size, every pointer at the size
// of what it points to, byte strings / big integers at their length), of the
// partially decoded value when the input is rejected, and never less than the
// ideal size of the valid value an input was derived from.  The constants are
// calibrated on the unchanged tree (see allocK / allocC) and stated in the
// evidence together with the maxima observed in the run.
//
// Independently of any constant: no slice inside a decoded (or partially
// decoded) value may keep a capacity above max(4, 2 x its length), and no entry
// style may panic.
//
// Families (all finite, all enumerated completely):
//
//	valid     (run inside phase S) the encoding of every container-size case at every
//	          boundary size, + that encoding truncated by one byte, + that encoding with
//	          the first element of the scaled collection made undecodable ("poisoned":
//	          every enclosing size stays honest, the decoder must stop at element 0)
//	hostile   an honest list header over n one-byte items, n over the boundary sizes and
//	lists     4096 / 65536 (/ 2^20), items 80.. / c0.. / 01.. / bf then 80.., into every type
//	size lies for every item of every baseline encoding of every type: the item's header
//	          rewritten to declare {len, len+1, 2^16, 2^24, 2^31, 2^32-1, 2^56-1, 2^63, 2^64-1},
//	          the input cut right after the header or left complete, enclosing headers
//	          untouched or declaring 2^64-1 themselves (so that the lie is believed
//	          wherever nothing but the input limit would stop it)
//
// each through DecodeBytes, NewStream(reader, len).Decode and Decode(io.Reader)
// on a reader that is neither a bytes.Reader nor a strings.Reader (no limit).

import (
	"bytes"
	"encoding/hex"
	"fmt"
	"os"
	"reflect"
	"runtime"
	"sort"
	"strings"
	"sync"
	"sync/atomic"
	"unsafe"

	"github.com/youchainhq/go-youchain/rlp"

	"verif/mc"
)

// Calibration (unchanged tree, quick and thorough tiers, all families, all
// three entry styles).  Observed maxima:
//
//	inputs with len+F >= 4096:  alloc / (len+F)   <= allocObservedRatio
//	inputs with len+F <= 256:   alloc             <= allocObservedConst bytes
//
// (the growth rule of decodeSliceElems -- x1.5 and copy -- costs about 3.4 x the
// final slice; custom decoders that decode into a temporary struct and copy add
// one more; bufio.NewReader for a plain io.Reader is 4 KiB).  The bound uses
// twice the observed ratio and twice the observed constant.
const (
	allocObservedRatio = 5.2
	allocObservedConst = 6144
	allocK             = 11    // >= 2 x allocObservedRatio
	allocC             = 12288 // 2 x allocObservedConst
)

// decStyle is one way production code enters the decoder.
type decStyle struct {
	name    string
	limited bool
	run     func(b []byte, into interface{}) error
}

var decStyles = []decStyle{
	{"DecodeBytes", true, func(b []byte, into interface{}) error { return rlp.DecodeBytes(b, into) }},
	{"NewStream(reader, len).Decode", true, func(b []byte, into interface{}) error {
		return rlp.NewStream(sevenReader{bytes.NewReader(b)}, uint64(len(b))).Decode(into)
	}},
	{"Decode(io.Reader)", false, func(b []byte, into interface{}) error { return rlp.Decode(sevenReader{bytes.NewReader(b)}, into) }},
}

// ---- ideal size / capacity walk ---------------------------------------------------

type capFinding struct {
	path     string
	typ      reflect.Type
	len, cap int
}

type memWalk struct {
	ideal  uint64
	slices int
	caps   *capFinding // first slice found with cap > max(4, 2*len)
}

var walkSkipPkgs = map[string]bool{"time": true, "sync": true}
var syncMapType = reflect.TypeOf(sync.Map{})

func walkMem(v interface{}) *memWalk {
	w := &memWalk{}
	w.walk(reflect.ValueOf(v), "", 0)
	return w
}

func hasPointers(t reflect.Type) bool {
	switch t.Kind() {
	case reflect.Ptr, reflect.Slice, reflect.Map, reflect.Interface, reflect.String, reflect.Chan, reflect.Func, reflect.UnsafePointer:
		return true
	case reflect.Array:
		return t.Len() > 0 && hasPointers(t.Elem())
	case reflect.Struct:
		for i := 0; i < t.NumField(); i++ {
			if hasPointers(t.Field(i).Type) {
				return true
			}
		}
	}
	return false
}

func (w *memWalk) walk(v reflect.Value, path string, depth int) {
	if !v.IsValid() || depth > 48 {
		return
	}
	t := v.Type()
	switch t.Kind() {
	case reflect.Ptr:
		if v.IsNil() {
			return
		}
		w.ideal += uint64(t.Elem().Size())
		w.walk(v.Elem(), path, depth+1)
	case reflect.Interface:
		if v.IsNil() {
			return
		}
		e := v.Elem()
		w.ideal += uint64(e.Type().Size())
		w.walk(e, path, depth+1)
	case reflect.String:
		w.ideal += uint64(v.Len())
	case reflect.Slice:
		if v.IsNil() {
			return
		}
		n, c := v.Len(), v.Cap()
		w.slices++
		w.ideal += uint64(n) * uint64(t.Elem().Size())
		if c > 4 && c > 2*n && w.caps == nil {
			w.caps = &capFinding{path: path, typ: t, len: n, cap: c}
		}
		if hasPointers(t.Elem()) {
			for i := 0; i < n; i++ {
				w.walk(v.Index(i), path+"[]", depth+1)
			}
		}
	case reflect.Array:
		if hasPointers(t.Elem()) {
			for i := 0; i < v.Len(); i++ {
				w.walk(v.Index(i), path+"[]", depth+1)
			}
		}
	case reflect.Map:
		if v.IsNil() {
			return
		}
		w.ideal += uint64(v.Len()) * uint64(t.Key().Size()+t.Elem().Size())
		if hasPointers(t.Elem()) || hasPointers(t.Key()) {
			it := v.MapRange()
			for it.Next() {
				w.walk(it.Key(), path+"{key}", depth+1)
				w.walk(it.Value(), path+"{}", depth+1)
			}
		}
	case reflect.Struct:
		if t == syncMapType {
			// entries of a sync.Map: the two interface words, the boxed key and value, the entry
			if v.CanAddr() {
				m := (*sync.Map)(unsafe.Pointer(v.UnsafeAddr()))
				m.Range(func(k, x interface{}) bool {
					w.ideal += 48
					if k != nil {
						w.ideal += uint64(reflect.TypeOf(k).Size())
					}
					if x != nil {
						w.ideal += uint64(reflect.TypeOf(x).Size())
					}
					return true
				})
			}
			return
		}
		if t == bigIntType {
			// math/big keeps four spare words by design: length only, no capacity rule
			w.ideal += uint64(v.Field(1).Len()) * 8
			return
		}
		if walkSkipPkgs[t.PkgPath()] {
			return
		}
		for i := 0; i < t.NumField(); i++ {
			if hasPointers(t.Field(i).Type) {
				w.walk(v.Field(i), path+"."+t.Field(i).Name, depth+1)
			}
		}
	}
}

// ---- judging one measured decode ------------------------------------------------------

type allocCase struct {
	owner    string // type decoded into
	custom   bool   // the type has its own DecodeRLP
	style    *decStyle
	family   string
	what     string // human description of the input
	data     []byte
	in       input // replay description
	accepted bool
	got      interface{}
	alloc    uint64
	srcIdeal uint64
	again    func() uint64 // re-measure on a fresh target (one-off caches)
}

type allocStats struct {
	measured       int64
	maxRatio       float64
	maxRatioWhat   string
	maxConst       uint64
	maxConstWhat   string
	maxCapOverLen  float64
	byClass        map[string]int64
	judgedOverOnce int64
	aboveObserved  int64
	classOwners    map[string]map[string]bool
}

func (c *checker) allocOwner(a *allocCase) string {
	if a.custom {
		return a.owner
	}
	return allocSharedOwner
}

const allocSharedOwner = "rlp decoder"

// reportAlloc files a finding under "<owner>: <class>".  A type with its own
// DecodeRLP owns its findings -- unless the shared, reflection-driven decoder
// shows the same class of finding on plain types as well: then the custom
// types only carry the shared defect and their copies are dropped at the end
// (pruneAllocFindings), so that one defect gives one signature.
func (c *checker) reportAlloc(owner, class, detail string, in input) {
	c.vmu.Lock()
	if c.alloc.classOwners[class] == nil {
		c.alloc.classOwners[class] = map[string]bool{}
	}
	c.alloc.classOwners[class][owner] = true
	c.vmu.Unlock()
	c.report(owner+": "+class, detail, in)
}

func (c *checker) pruneAllocFindings() {
	c.vmu.Lock()
	defer c.vmu.Unlock()
	for class, owners := range c.alloc.classOwners {
		if !owners[allocSharedOwner] {
			continue
		}
		for o := range owners {
			if o != allocSharedOwner {
				delete(c.best, o+": "+class)
			}
		}
	}
}

func hasCustomDecoder(fresh interface{}) bool {
	_, ok := fresh.(rlp.Decoder)
	return ok
}

func short40(b []byte) string {
	if len(b) <= 40 {
		return fmt.Sprintf("%x", b)
	}
	return fmt.Sprintf("%x…%x (%d bytes)", b[:24], b[len(b)-8:], len(b))
}

var allocCalibrate = os.Getenv("C14_ALLOC_CALIBRATE") != ""

// judgeAlloc applies the capacity rule and the calibrated bound to one measured
// decode.  Returns true when a violation was reported.
func (c *checker) judgeAlloc(a *allocCase) bool {
	st := c.alloc
	st.measured++
	atomic.AddInt64(&c.r.Evaluations, 1)
	verdict := "rejected"
	if a.accepted {
		verdict = "accepted"
	}
	st.byClass[a.family+" / "+a.style.name+" / "+verdict]++
	var w *memWalk
	if msg := mc.Catch(func() { w = walkMem(a.got) }); msg != "" {
		c.r.HarnessError("c14 alloc: walking a decoded value panicked: " + msg)
		return false
	}
	F := w.ideal
	if a.srcIdeal > F {
		F = a.srcIdeal
	}
	base := uint64(len(a.data)) + F
	bad := false
	if w.caps != nil {
		f := w.caps
		if r := float64(f.cap) / float64(f.len+1); r > st.maxCapOverLen {
			st.maxCapOverLen = r
		}
		if !allocCalibrate {
			c.reportAlloc(c.allocOwner(a), fmt.Sprintf("a decoded list keeps room for far more elements than it holds (capacity > max(4, 2 x length), %s input)", verdict),
				fmt.Sprintf("%s, %s, %s: input %s\n decoded into %s: slice %s of type %v has length %d and capacity %d (%d bytes reserved for %d bytes of elements)",
					a.what, a.family, a.style.name, short40(a.data), a.owner, strings.TrimPrefix(f.path, "."), f.typ, f.len, f.cap,
					uint64(f.cap)*uint64(f.typ.Elem().Size()), uint64(f.len)*uint64(f.typ.Elem().Size())), a.in)
			bad = true
		}
	}
	alloc := a.alloc
	bound := allocK*base + allocC
	if alloc > bound && a.again != nil {
		// type-info caches and pools are filled once: only a repeatable excess counts
		st.judgedOverOnce++
		if again := a.again(); again < alloc {
			alloc = again
		}
	}
	// the envelope observed on the unchanged tree (calibration): drift is counted, never judged
	if alloc > allocObservedConst {
		if r := float64(alloc-allocObservedConst) / float64(base+1); r > st.maxRatio {
			st.maxRatio, st.maxRatioWhat = r, fmt.Sprintf("%s into %s via %s (%s, input %d bytes, ideal size %d, allocated %d)", a.what, a.owner, a.style.name, verdict, len(a.data), F, alloc)
		}
	}
	if base <= 256 && alloc > st.maxConst {
		st.maxConst, st.maxConstWhat = alloc, fmt.Sprintf("%s into %s via %s (%s, input %s)", a.what, a.owner, a.style.name, verdict, short40(a.data))
	}
	if float64(alloc) > allocObservedRatio*float64(base)+allocObservedConst {
		st.aboveObserved++
	}
	if (len(a.data) >= 1024 && strings.HasPrefix(a.family, "valid encoding, first element")) || (!a.style.limited && strings.Contains(a.what, "2^56-1")) {
		c.sampleOnce("alloc2|"+a.family, map[string]interface{}{"phase": "C2 calibrated allocation", "family": a.family, "input": a.what, "input_len": len(a.data), "decoded_into": a.owner,
			"entry_style": a.style.name, "verdict_of_the_decoder": verdict, "bytes_allocated": alloc, "ideal_size_of_what_was_decoded": F, "bound": bound})
	}
	if alloc > 64*base+allocPerInput && a.style.limited {
		// (the criterion of phase C) a decoder this far off on a LIMITED stream must not be fed
		// by the parallel workers of phases B and D (they enter through DecodeBytes)
		c.overAlloc = true
	}
	if alloc > bound && !allocCalibrate {
		c.reportAlloc(c.allocOwner(a), fmt.Sprintf("decoding allocates beyond the calibrated bound %d x (input + decoded value) + %d bytes (%s input)", allocK, allocC, verdict),
			fmt.Sprintf("%s, %s, %s: input %s\n decoded into %s: %d bytes allocated; input %d bytes, ideal in-memory size of what was decoded %d bytes, bound %d (%.1f x the input)",
				a.what, a.family, a.style.name, short40(a.data), a.owner, alloc, len(a.data), F, bound, float64(alloc)/float64(len(a.data)+1)), a.in)
		bad = true
	}
	return bad
}

// measure decodes data into a fresh value of the target through one entry
// style.  A panic is a violation of its own.
func (c *checker) measure(fresh func() interface{}, owner string, st *decStyle, data []byte, family, what string, in input) (got interface{}, err error, alloc uint64, panicked bool) {
	got = fresh()
	a0 := totalAlloc()
	msg, where := mc.CatchStack(func() { err = st.run(data, got) })
	alloc = totalAlloc() - a0
	if msg != "" {
		c.r.Count("alloc2_panics", 1)
		if !allocCalibrate {
			c.report(fmt.Sprintf("decoder panic (%s): %s at %s", family, normMsg(msg), where),
				fmt.Sprintf("%s via %s into %s: input %s: %s", what, st.name, owner, short40(data), msg), in)
		}
		return got, nil, alloc, true
	}
	return got, err, alloc, false
}

func (c *checker) measureAndJudge(fresh func() interface{}, owner string, si int, data []byte, family, what string, in input, srcIdeal uint64) (bad, accepted bool) {
	st := &decStyles[si]
	in.Style = si
	got, err, alloc, panicked := c.measure(fresh, owner, st, data, family, what, in)
	if panicked {
		return true, false
	}
	return c.judgeAlloc(&allocCase{owner: owner, custom: hasCustomDecoder(got), style: st, family: family, what: what, data: data, in: in,
		accepted: err == nil, got: got, alloc: alloc, srcIdeal: srcIdeal,
		again: func() uint64 {
			g := fresh()
			a0 := totalAlloc()
			mc.Catch(func() { st.run(data, g) })
			return totalAlloc() - a0
		}}), err == nil
}

// ---- family "valid" (called from phase S for every container-size value) ---------------

// poisonOffsets: offsets (in the reference encoding) of the first payload byte
// of the lists holding exactly n items, outermost first (at most two).
func poisonOffsets(root *rnode, n int) []int {
	var out []int
	var rec func(nd *rnode, off int)
	rec = func(nd *rnode, off int) {
		if !nd.list || len(out) >= 2 {
			return
		}
		p := off + refHdrLen(nd.payload())
		if len(nd.kids) == n {
			out = append(out, p)
			return
		}
		for _, k := range nd.kids {
			rec(k, p)
			p += k.encSize()
		}
	}
	rec(root, 0)
	return out
}

// allocDerived: the rejected inputs derived from one valid encoding.
func (c *checker) allocDerived(sc *sizeCase, what string, n, m int, tree *rnode, ref []byte, srcIdeal uint64) {
	t := sc.t
	in := input{Phase: "sizes", Type: sc.name, Case: n, Ctx: m}
	if len(ref) > 1 {
		cut := ref[:len(ref)-1]
		for si := range decStyles {
			in.Desc = "alloc: truncated by one byte / " + decStyles[si].name
			if _, acc := c.measureAndJudge(t.fresh, t.name, si, cut, "valid encoding truncated by one byte", what, in, srcIdeal); acc {
				c.r.Count("alloc2_truncated_accepted(!)", 1)
			}
		}
	}
	scaled := n
	if scaled < 2 {
		return
	}
	for k, off := range poisonOffsets(tree, scaled) {
		if off >= len(ref) {
			continue
		}
		p := append([]byte{}, ref...)
		p[off] = 0xbf // a string with an 8-byte length no enclosing list can hold
		for si := range decStyles {
			in.Desc = fmt.Sprintf("alloc: first element of list #%d undecodable / %s", k, decStyles[si].name)
			// the decoder must stop at element 0: nothing of the value is needed
			if _, acc := c.measureAndJudge(t.fresh, t.name, si, p, "valid encoding, first element of the scaled list undecodable", what, in, 0); acc {
				c.r.Count("alloc2_poisoned_accepted(!)", 1)
			} else {
				c.r.Count("alloc2_poisoned_rejected", 1)
			}
		}
	}
}

// ---- families "hostile lists" and "size lies" ------------------------------------------

func hostileList(n int, b byte) []byte {
	p := bytes.Repeat([]byte{b}, n)
	if b == 0xbf && n > 1 {
		for i := 1; i < n; i++ {
			p[i] = 0x80
		}
	}
	return append(hdrOf(0xc0, uint64(n)), p...)
}

var hostileItems = []byte{0x80, 0xc0, 0x01, 0xbf}

func (c *checker) hostileSizes() []int {
	s := append([]int{}, szBaseQuick...)
	s = append(s, 4096, 65536)
	if !c.quick {
		s = append(s, 1<<20)
	}
	return s
}

// unallocatable: from this many elements on no allocator can even try (the
// runtime refuses requests above 2^48 bytes before touching memory).
const unallocatable = 1<<56 - 1

var lieSizes = []struct {
	name string
	v    func(l uint64) uint64
}{
	{"len", func(l uint64) uint64 { return l }},
	{"len+1", func(l uint64) uint64 { return l + 1 }},
	{"2^16", func(uint64) uint64 { return 1 << 16 }},
	{"2^24", func(uint64) uint64 { return 1 << 24 }},
	{"2^31", func(uint64) uint64 { return 1 << 31 }},
	{"2^32-1", func(uint64) uint64 { return 1<<32 - 1 }},
	{"2^56-1", func(uint64) uint64 { return 1<<56 - 1 }},
	{"2^63", func(uint64) uint64 { return 1 << 63 }},
	{"2^64-1", func(uint64) uint64 { return ^uint64(0) }},
}

type sizeLie struct {
	what     string
	data     []byte
	onString bool
	hostile  bool // declares more than len+1
	declared uint64
}

// sizeLies builds the size-lying family of one valid encoding.
func sizeLies(enc []byte) []sizeLie {
	root, why := strictParse(enc)
	if why != "" {
		return nil
	}
	var out []sizeLie
	// ancestors[i] = the chain of enclosing list nodes of the visited node
	var rec func(n *node, anc []*node, path []int)
	rec = func(n *node, anc []*node, path []int) {
		base := byte(0x80)
		if n.list {
			base = 0xc0
		}
		payload := enc[n.off+n.hdr : n.end]
		if !n.list && n.hdr == 0 {
			payload = enc[n.off:n.end]
		}
		// prefix builders: enclosing headers as they are / every enclosing header declaring
		// 2^64-1 (minus 2^40 per nesting level, so that each still fits into its parent)
		prefixRaw := enc[:n.off]
		var prefixMax []byte
		if len(anc) > 0 {
			pos := 0
			for d, a := range anc {
				prefixMax = append(prefixMax, enc[pos:a.off]...)
				prefixMax = append(prefixMax, hdrOf(0xc0, ^uint64(0)-uint64(d)<<40)...)
				pos = a.off + a.hdr
			}
			prefixMax = append(prefixMax, enc[pos:n.off]...)
		}
		for _, ls := range lieSizes {
			S := ls.v(uint64(len(payload)))
			hdr := hdrOf(base, S)
			if !n.list && S == 1 && len(payload) == 1 && payload[0] < 0x80 {
				continue // the canonical form of this item has no header
			}
			hostile := S > uint64(len(payload))+1
			type pf struct {
				name string
				b    []byte
			}
			prefixes := []pf{{"enclosing headers untouched", prefixRaw}}
			if prefixMax != nil {
				prefixes = append(prefixes, pf{"enclosing headers declare 2^64-1", prefixMax})
			}
			for _, p := range prefixes {
				mk := func(tailName string, tail ...[]byte) {
					d := append(append([]byte{}, p.b...), hdr...)
					for _, x := range tail {
						d = append(d, x...)
					}
					kind := "string"
					if n.list {
						kind = "list"
					}
					out = append(out, sizeLie{what: fmt.Sprintf("%s at %s declares %s, %s, %s", kind, pathString(path), ls.name, tailName, p.name),
						data: d, onString: !n.list, hostile: hostile, declared: S})
				}
				mk("input ends after the header")
				mk("payload and rest of the encoding follow", payload, enc[n.end:])
				if len(payload) > 2 {
					mk("two payload bytes follow", payload[:2])
				}
				if n.end < len(enc) {
					mk("payload follows, then the input ends", payload)
				}
			}
		}
		for i, k := range n.kids {
			rec(k, append(append([]*node{}, anc...), n), append(append([]int{}, path...), i))
		}
	}
	rec(root, nil, nil)
	return out
}

// phaseAlloc2 runs the hostile-list and the size-lie families.
func (c *checker) phaseAlloc2() {
	old := runtime.GOMAXPROCS(1)
	defer runtime.GOMAXPROCS(old)
	// ---- hostile lists
	// unalloc: an over-allocation was witnessed.  Feeding 2^31 to a decoder that reserves
	// what is declared takes the process down; only the sizes no allocator can even try
	// (>= 2^56-1 elements) are still offered, for the panic verdict.
	unalloc := false
	sizes := c.hostileSizes()
hostile:
	for _, n := range sizes {
		for _, b := range hostileItems {
			data := hostileList(n, b)
			what := fmt.Sprintf("list of %d one-byte items (%02x…) under an honest header", n, b)
			for _, t := range c.targets {
				for si := range decStyles {
					in := input{Phase: "alloc2", Type: t.name, Case: n, Code: int(b), Desc: "hostile-list"}
					bad, acc := c.measureAndJudge(t.fresh, t.name, si, data, "hostile list", what, in, 0)
					if acc {
						c.r.Count("alloc2_hostile_list_accepted", 1)
					} else {
						c.r.Count("alloc2_hostile_list_rejected", 1)
					}
					if bad {
						unalloc = true
					}
				}
			}
			if c.r.Expired() {
				return
			}
			if unalloc {
				// larger lists into a decoder already shown to reserve what the input declares only cost memory
				break hostile
			}
		}
	}
	// ---- size lies
	maxSeeds := 4
	if !c.quick {
		maxSeeds = 16
	}
	for _, t := range c.targets {
		for k, s := range t.seeds {
			if k >= maxSeeds {
				break
			}
			var srcIdeal uint64
			seedVal := t.fresh()
			if dec(s, seedVal) == nil {
				srcIdeal = walkMem(seedVal).ideal
			}
			for _, lie := range sizeLies(s) {
				if unalloc && lie.declared < unallocatable {
					continue
				}
				for si := range decStyles {
					if !decStyles[si].limited && lie.onString && lie.hostile {
						// see the assumption on streams without an input limit
						c.r.Count("alloc2_size_lie_on_a_string_not_fed_to_the_unlimited_stream", 1)
						continue
					}
					in := input{Phase: "alloc2", Type: t.name, Hex: hex.EncodeToString(lie.data), Desc: "size-lie", Case: k}
					bad, acc := c.measureAndJudge(t.fresh, t.name, si, lie.data, "size lie", lie.what, in, srcIdeal)
					switch {
					case acc:
						c.r.Count("alloc2_size_lie_accepted(declared_size_was_the_true_one)", 1)
					case lie.hostile && !decStyles[si].limited:
						c.r.Count("alloc2_hostile_size_rejected_on_the_unlimited_stream", 1)
					case lie.hostile:
						c.r.Count("alloc2_hostile_size_rejected_on_a_limited_stream", 1)
					default:
						c.r.Count("alloc2_off_by_one_size_rejected", 1)
					}
					if bad {
						unalloc = true
					}
				}
			}
		}
		if c.r.Expired() {
			return
		}
	}
}

func (c *checker) allocEvidence() {
	st := c.alloc
	cls := map[string]int64{}
	var keys []string
	for k, v := range st.byClass {
		cls[k] = v
		keys = append(keys, k)
	}
	sort.Strings(keys)
	c.r.SetExtra("alloc2", map[string]interface{}{
		"bound":            fmt.Sprintf("alloc <= %d x (len(input) + ideal in-memory size of what was decoded) + %d bytes, per input; every decoded slice: capacity <= max(4, 2 x length)", allocK, allocC),
		"calibrated_on":    fmt.Sprintf("unchanged tree, both tiers: every decode of every family stayed within alloc <= %.1f x (len+ideal) + %d bytes; the bound doubles both constants", allocObservedRatio, allocObservedConst),
		"entry_styles":     []string{decStyles[0].name, decStyles[1].name, decStyles[2].name + " on a plain reader: no input limit"},
		"decodes_measured": st.measured,
		"this_run_max_of_(alloc-observed_constant)/(len+ideal)": st.maxRatio,
		"this_run_max_ratio_at":                                 st.maxRatioWhat,
		"this_run_max_alloc_for_len+ideal<=256":                 st.maxConst,
		"this_run_max_constant_at":                              st.maxConstWhat,
		"this_run_decodes_above_the_calibration_envelope":       st.aboveObserved,
		"over_bound_once_remeasure":                             st.judgedOverOnce,
		"decodes_per_family_style_verdict":                      cls,
	})
	c.r.Count("alloc2_decodes_measured_individually", st.measured)
}

// replayAlloc2 re-evaluates one recorded hostile-list / size-lie case.
func (c *checker) replayAlloc2(in input, data []byte) {
	old := runtime.GOMAXPROCS(1)
	defer runtime.GOMAXPROCS(old)
	t := c.byName[in.Type]
	if t == nil || in.Style < 0 || in.Style >= len(decStyles) {
		fmt.Println("unknown type / entry style", in.Type, in.Style)
		return
	}
	family, what := "size lie", "recorded input"
	var srcIdeal uint64
	if in.Desc == "hostile-list" {
		data = hostileList(in.Case, byte(in.Code))
		family, what = "hostile list", fmt.Sprintf("list of %d one-byte items (%02x…) under an honest header", in.Case, in.Code)
	} else {
		if in.Case < len(t.seeds) {
			v := t.fresh()
			if dec(t.seeds[in.Case], v) == nil {
				srcIdeal = walkMem(v).ideal
			}
		}
	}
	// warm the caches the way the run does before judging
	mc.Catch(func() { decStyles[in.Style].run([]byte{0xc0}, t.fresh()) })
	bad, acc := c.measureAndJudge(t.fresh, t.name, in.Style, data, family, what, in, srcIdeal)
	fmt.Printf("decode of %s into %s via %s: accepted=%v violation=%v\n", short40(data), t.name, decStyles[in.Style].name, acc, bad)
}
