// Package c08: validator-set totals, indexes and delegation links always match
// the records.  Part A (this file): every op sequence over validator /
// delegation mutations interleaved with snapshots/reverts, transaction ends,
// copies and commit+reload on the real StateDB, with the recomputation oracle
// (stx.CheckLinks) evaluated after EVERY operation.  Part B (chain.go): the same
// oracle after every block of every bounded block history (shared chain explorer).
package c08

import (
	"fmt"
	"math/big"
	"strings"

	"github.com/youchainhq/go-youchain/common"
	"github.com/youchainhq/go-youchain/core/state"
	"github.com/youchainhq/go-youchain/params"

	"verif/checks/stx"
	"verif/mc"
)

type Sys struct {
	r     *mc.Run
	menu  []string
	db    state.Database
	st    *state.StateDB
	other *state.StateDB // the original a copy was taken from: stays alive and must stay consistent
	snaps []int
	mut   stx.Mut
	n     int
	dead  bool
	viols []mc.Violation
}

func (s *Sys) Reset() {
	db, _ := stx.NewDB()
	st, err := state.New(common.Hash{}, common.Hash{}, common.Hash{}, db)
	if err != nil {
		panic(err)
	}
	st.AddBalance(stx.Acc[0], big.NewInt(100))
	st.AddBalance(stx.Acc[2], stx.Tok(50, 0))
	stx.CreateVal(st, 0, stx.Tok(10, 7), params.ValidatorOnline)
	stx.CreateVal(st, 2, stx.Tok(4, 0), params.ValidatorOffline)
	st.UpdateDelegation(stx.Acc[2], st.GetValidatorByMainAddr(stx.ValAddr[0]), stx.Tok(2, 1))
	st.AddWithdrawRecord(stx.MkRecord(1000))
	r0, r1, r2, err := st.Commit(true)
	if err != nil {
		panic(err)
	}
	st, err = state.New(r0, r1, r2, db)
	if err != nil {
		panic(err)
	}
	*s = Sys{r: s.r, menu: s.menu, db: db, st: st, snaps: s.snaps[:0]}
}

func (s *Sys) Enabled() []string {
	if s.dead {
		return nil
	}
	ops := append([]string{}, s.menu...)
	if len(s.snaps) < 2 {
		ops = append(ops, "snap")
	}
	for k := range s.snaps {
		ops = append(ops, fmt.Sprintf("revert(%d)", k))
	}
	ops = append(ops, "finalise", "commit+reload")
	if a, v, _, _ := s.st.VerifJournalLens(); a == 0 && v == 0 {
		ops = append(ops, "copy") // continue on the copy (transaction boundary only, see C10)
	}
	return ops
}

func (s *Sys) Apply(op string) string {
	s.viols = s.viols[:0]
	s.n++
	var ob string
	msg, where := mc.CatchStack(func() { ob = s.apply(op) })
	if msg != "" {
		s.dead = true
		s.viols = append(s.viols, mc.Violation{Sig: fmt.Sprintf("panic op=%s at=%s", opKind(op), where), Detail: msg})
		return "PANIC: " + msg
	}
	var bad []string
	if m, w := mc.CatchStack(func() { bad = stx.CheckLinks(s.st, []common.Address{stx.Acc[2], stx.Acc[0]}) }); m != "" {
		s.dead = true
		s.viols = append(s.viols, mc.Violation{Sig: fmt.Sprintf("panic while reading records after op=%s at=%s", opKind(op), w), Detail: m})
		return "PANIC: " + m
	}
	s.r.Count("link_checks", 1)
	for _, b := range bad {
		kind := b
		if i := strings.Index(b, ":"); i > 0 {
			kind = b[:i]
		}
		s.viols = append(s.viols, mc.Violation{Sig: fmt.Sprintf("%s after %s", kind, opKind(op)), Detail: b})
	}
	// both sides of a copy stay alive in the node (pending-state snapshot of the
	// miner, side-chain state cache): whatever is done to one side, the records
	// and statistics of the other side must still add up
	if s.other != nil && op != "copy" {
		var ob2 []string
		if m, w := mc.CatchStack(func() { ob2 = stx.CheckLinks(s.other, []common.Address{stx.Acc[2], stx.Acc[0]}) }); m != "" {
			s.dead = true
			s.viols = append(s.viols, mc.Violation{Sig: fmt.Sprintf("panic while reading the other side of a copy after op=%s at=%s", opKind(op), w), Detail: m})
			return "PANIC: " + m
		}
		s.r.Count("link_checks_other_side_of_copy", 1)
		for _, b := range ob2 {
			s.viols = append(s.viols, mc.Violation{Sig: fmt.Sprintf("other side of a copy: %s after %s", kindOf(b), opKind(op)), Detail: b})
		}
	}
	return ob
}

func (s *Sys) apply(op string) string {
	st := s.st
	if ob, ok := s.mut.Apply(st, op, s.n); ok {
		return ob
	}
	switch op {
	case "snap":
		s.snaps = append(s.snaps, st.Snapshot())
	case "finalise":
		st.Finalise(true)
		s.snaps = s.snaps[:0]
	case "commit+reload":
		a, b, c, err := st.Commit(true)
		if err != nil {
			panic("commit: " + err.Error())
		}
		// the live object must satisfy the invariants too (checked by the caller on s.st):
		// check it first, then continue on the reloaded state
		if bad := stx.CheckLinks(st, []common.Address{stx.Acc[2], stx.Acc[0]}); len(bad) > 0 {
			s.viols = append(s.viols, mc.Violation{Sig: "live state after commit: " + kindOf(bad[0]), Detail: strings.Join(bad, "\n")})
		}
		re, err := state.New(a, b, c, s.db)
		if err != nil {
			panic("reopen: " + err.Error())
		}
		s.st, s.snaps = re, s.snaps[:0]
		s.r.Count("reloads", 1)
	case "copy":
		s.other = st
		s.st, s.snaps = st.Copy(), s.snaps[:0]
		s.r.Count("copies", 1)
	default:
		var k int
		if _, err := fmt.Sscanf(op, "revert(%d)", &k); err != nil {
			panic("harness: unknown op " + op)
		}
		st.RevertToSnapshot(s.snaps[k])
		s.snaps = s.snaps[:k]
		s.r.Count("reverts", 1)
	}
	return ""
}

func kindOf(b string) string {
	if i := strings.Index(b, ":"); i > 0 {
		return b[:i]
	}
	return b
}

func opKind(op string) string {
	if i := strings.Index(op, "("); i > 0 {
		return op[:i]
	}
	return op
}

func (s *Sys) Check() []mc.Violation { return s.viols }

// Key: the observation of the records (distinct counter only; DFS never merges).
func (s *Sys) Key() string {
	if s.dead {
		return ""
	}
	var k string
	mc.Catch(func() { k = stx.Observe(s.st) })
	return k
}

var valMenu = []string{"vcreate(V1)", "vdeposit(V0)", "vstatus(V0)", "vreward(V0)", "dlg+(V0)", "dlg+(V2)", "dlg-(V0)", "dlg-(V2)"}

func runStateDB(r *mc.Run) {
	depth := 5
	if !r.Quick() {
		depth = 7
	}
	r.SetExtra("statedb_depth", depth)
	f := func() mc.System { return &Sys{r: r, menu: valMenu} }
	r.DFSAll(f, mc.SeqOpts{Name: "statedb-links", Depth: depth, ShardDepth: 2})
	r.ConfirmSeq("statedb-links", f)
}

func Replay(r *mc.Run, v *mc.Violation) {
	if v.System != "statedb-links" {
		replayChain(r, v)
		return
	}
	obs, viols, err := mc.ReplaySeq(&Sys{r: r, menu: valMenu}, v.Ops)
	fmt.Println("obs:", obs, "err:", err)
	for _, x := range viols {
		x.System, x.Ops = v.System, v.Ops
		r.Report(x)
	}
}
