package c08

import (
	"verif/checks/chainx"
	"verif/mc"
)

var hooks = chainx.Hooks{Links: true}

// Run: part A (StateDB API sequences) then part B (block histories).
func Run(r *mc.Run) {
	r.Level = "model_checking"
	r.Rule = "part A: every op sequence up to the stated depth over validator/delegation mutations (production call patterns) + snap/revert + finalise + commit+reload + copy on the real StateDB, recomputation oracle after every op; part B: every bounded block history (chainx.Explore) with the same oracle on the head state after every block (reopened from the header roots); distinct = distinct record observations / head hashes reached"
	if r.Quick() {
		r.SetBudget(200e9)
	} else {
		r.SetBudget(45 * 60e9)
	}
	runStateDB(r)
	noForced := chainx.DefaultCfg
	noForced.MaxRewardsPeriod = 1000
	forced := chainx.DefaultCfg
	forced.MaxRewardsPeriod = 1
	if r.Quick() {
		chainx.Explore(r, hooks, []chainx.ParamCfg{noForced}, chainx.MenuCore, 4, 3)
		chainx.Explore(r, hooks, []chainx.ParamCfg{forced}, chainx.MenuCore, 3, 2)
	} else {
		menu := append(append([]string{}, chainx.MenuCore...), chainx.MenuMore...)
		chainx.Explore(r, hooks, []chainx.ParamCfg{noForced, forced}, menu, 4, 3)
	}
}

func replayChain(r *mc.Run, v *mc.Violation) { chainx.ReplayHist(r, v, hooks) }
