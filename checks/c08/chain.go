package c08

import "verif/mc"

// Run: part A now; part B (block histories) is added by the chain explorer.
func Run(r *mc.Run) {
	r.Level = "model_checking"
	r.Rule = "part A: every op sequence up to the stated depth over validator/delegation mutations (production call patterns) + snap/revert + finalise + commit+reload + copy on the real StateDB, recomputation oracle after every op; distinct = distinct record observations reached"
	if r.Quick() {
		r.SetBudget(200e9)
	} else {
		r.SetBudget(40 * 60e9)
	}
	runStateDB(r)
	runChain(r)
}

var runChain = func(r *mc.Run) {}
var replayChain = func(r *mc.Run, v *mc.Violation) {}
