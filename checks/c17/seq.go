package c17

import (
	"math/big"

	"github.com/youchainhq/go-youchain/core"
	"github.com/youchainhq/go-youchain/core/types"

	"verif/mc"
)

const seqPool = uint64(400000)

var (
	seqBal1 = new(big.Int).Add(depositV, big.NewInt(500000))
	seqBal2 = big.NewInt(600000)
)

// seqAlphabet: ten transactions of two senders competing for nonces, for the
// senders' funds and for one gas pool.
func seqAlphabet() (names []string, txs map[string]*txd) {
	txs = map[string]*txd{
		"a1:S1.n->EOA(1000)":          {From: 0, Nonce: nonceS1, Price: 1, Limit: 21000, To: toE, Value: big.NewInt(1000), Payload: "empty"},
		"a2:S1.n+1->store":            {From: 0, Nonce: nonceS1 + 1, Price: 1, Limit: 60000, To: toW, Value: new(big.Int), Payload: "empty"},
		"a3:S1.n->deposit":            {From: 0, Nonce: nonceS1, Price: 1, Limit: 150000, To: toStake, Value: new(big.Int), Payload: "deposit"},
		"a4:S1.n+1->clear(refund)":    {From: 0, Nonce: nonceS1 + 1, Price: 2, Limit: 60000, To: toC, Value: new(big.Int), Payload: "empty"},
		"a5:S1.n+1->EOA(1 token)":     {From: 0, Nonce: nonceS1 + 1, Price: 1, Limit: 30000, To: toE, Value: new(big.Int).Set(depositV), Payload: "empty"},
		"b1:S2.m->revert(1)":          {From: 1, Nonce: nonceS2, Price: 2, Limit: 30000, To: toR, Value: big.NewInt(1), Payload: "empty"},
		"b2:S2.m+1->create":           {From: 1, Nonce: nonceS2 + 1, Price: 1, Limit: 120000, To: toNil, Value: big.NewInt(3), Payload: "initcode"},
		"b3:S2.m->EOA,limit=350000":   {From: 1, Nonce: nonceS2, Price: 0, Limit: 350000, To: toE, Value: new(big.Int), Payload: "empty"},
		"b4:S2.m+1->staking(garbage)": {From: 1, Nonce: nonceS2 + 1, Price: 1, Limit: 150000, To: toStake, Value: new(big.Int), Payload: "garbage"},
		"b5:S2.m->new(all funds)":     {From: 1, Nonce: nonceS2, Price: 1, Limit: 21000, To: toN, Value: new(big.Int).Sub(seqBal2, big.NewInt(21000)), Payload: "empty"},
	}
	names = []string{"a1:S1.n->EOA(1000)", "a2:S1.n+1->store", "a3:S1.n->deposit", "a4:S1.n+1->clear(refund)", "a5:S1.n+1->EOA(1 token)",
		"b1:S2.m->revert(1)", "b2:S2.m+1->create", "b3:S2.m->EOA,limit=350000", "b4:S2.m+1->staking(garbage)", "b5:S2.m->new(all funds)"}
	for _, t := range txs {
		t.Data = payloadBytes(t.Payload)
	}
	return
}

type seqSys struct {
	r     *mc.Run
	bs    *base
	names []string
	txs   map[string]*txd
	b     *block
	viols []mc.Violation
	// transactions are signed once, as the pool hands the same object to the miner
	signed map[string]*types.Transaction
}

func newSeqSys(r *mc.Run) *seqSys {
	s := &seqSys{r: r, bs: newBaseBal(seqBal1, seqBal2)}
	s.names, s.txs = seqAlphabet()
	s.signed = map[string]*types.Transaction{}
	for n, t := range s.txs {
		s.signed[n] = t.sign()
	}
	return s
}

func (s *seqSys) Reset() {
	s.b = &block{st: s.bs.open(), gp: new(core.GasPool).AddGas(seqPool), h: newHeader(), m: newModel(seqPool, len(trackedAddrs()))}
	s.b.m.get(senders[0]).bal.Set(seqBal1)
	s.b.m.get(senders[1]).bal.Set(seqBal2)
	s.viols = nil
}

func (s *seqSys) Enabled() []string {
	if s.b.dead {
		return nil
	}
	return s.names
}

func (s *seqSys) Apply(op string) string {
	s.viols = s.viols[:0]
	t, ok := s.txs[op]
	if !ok {
		panic("harness: unknown op " + op)
	}
	first := s.b.tcount == 0
	obs, fs := s.b.applyOne(t, s.signed[op], func(n string) {
		s.r.Count("seq_"+n, 1)
		if !first {
			s.r.Count("seq_after_an_applied_tx_"+n, 1)
		}
	})
	for _, f := range fs {
		s.viols = append(s.viols, mc.Violation{Sig: f.sig, Detail: t.String() + "\n" + f.detail})
	}
	s.r.Distinct("seq|" + op + "|" + obs)
	return obs
}

func (s *seqSys) Check() []mc.Violation { return s.viols }
func (s *seqSys) Key() string           { return "" }
